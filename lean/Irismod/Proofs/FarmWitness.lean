/-
The two witness histories of the farm findings, as closed terms the kernel evaluates.
-/
import Irismod.Proofs.FarmNoPanic

namespace Irismod.Proofs.Farm
open Irismod Irismod.Sdk Irismod.Farm Irismod.Spec Irismod.Spec.C05

/-- the F-farm-1 history: reward 1/block; A1 stakes 2; one block later A1 unstakes 1 and A2
stakes 1; one block later A1 harvests -/
def w1Genesis : State :=
  { height := 10,
    bank := { bal := [(("A0", "btc"), 1000), (("A0", "stake"), 10000), (("A1", "lpt-1"), 10), (("A2", "lpt-1"), 10)] } }

def w1Ops : List Op :=
  [.createPool "A0" "d1" "lpt-1" 10 [("btc", 1)] [("btc", 100)] true,
   .stake "A1" "farm-1" "lpt-1" 2, .endBlocks 1,
   .unstake "A1" "farm-1" "lpt-1" 1, .stake "A2" "farm-1" "lpt-1" 1, .endBlocks 1,
   .harvest "A1" "farm-1"]

theorem w1_genesis : Genesis w1Genesis := by
  refine ⟨rfl, rfl, rfl, rfl, rfl, ?_, ?_⟩ <;> intro d <;>
    simp [w1Genesis, Bank.balOf, AMap.getD, AMap.get?, farmAcc, collectorAcc]

/-- the history of the fixed finding F-farm-2 (commit 966aea0): btc/eth 5 each at 1/block from
height 10; the creator tops up 10 btc in the end block (height 15); the chain runs on past
height 25.  With the fix the pool ends at 15 and everything is refunded. -/
def w2Genesis : State :=
  { height := 10,
    bank := { bal := [(("A0", "btc"), 1000), (("A0", "eth"), 1000), (("A0", "stake"), 10000), (("A1", "lpt-1"), 10)] } }

def w2Ops : List Op :=
  [.createPool "A0" "d1" "lpt-1" 10 [("btc", 1), ("eth", 1)] [("btc", 5), ("eth", 5)] true,
   .stake "A1" "farm-1" "lpt-1" 2, .endBlocks 5,
   .adjustPool "A0" "farm-1" (some [("btc", 10)]) none, .endBlocks 11]

theorem w2_genesis : Genesis w2Genesis := by
  refine ⟨rfl, rfl, rfl, rfl, rfl, ?_, ?_⟩ <;> intro d <;>
    simp [w2Genesis, Bank.balOf, AMap.getD, AMap.get?, farmAcc, collectorAcc]

end Irismod.Proofs.Farm
