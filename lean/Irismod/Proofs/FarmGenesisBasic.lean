/-
Basic facts for the farm genesis round trip (C12): pool ids print and parse back, lists built
by folding `AMap.set`, and the records of the exported document.
-/
import Irismod.Model.FarmGenesis
import Irismod.Proofs.GenesisList
import Irismod.Proofs.FarmLedger

namespace Irismod.Proofs.FarmGenesis
open Irismod Irismod.Sdk Irismod.Farm Irismod.FarmGenesis Irismod.Proofs.GenesisList
open Irismod.MtGenesis (sortDedup heads tail)

/-! ### `ValidatepPoolId(farm-<n>) = n` -/

theorem digitsVal_digits : ∀ (l : List Char) (acc : Nat), (∀ c ∈ l, c.isDigit = true) →
    digitsVal l acc = some (Nat.ofDigitChars 10 l acc)
  | [], acc, _ => by simp [digitsVal]
  | c :: cs, acc, h => by
    have hc := h c (by simp)
    have hd : '0' ≤ c ∧ c ≤ '9' := by
      unfold Char.isDigit at hc
      simp only [Bool.and_eq_true, decide_eq_true_eq] at hc
      exact ⟨hc.1, hc.2⟩
    unfold digitsVal
    rw [if_pos hd, Nat.ofDigitChars_cons]
    have : acc * 10 + (c.toNat - 48) = 10 * acc + (c.toNat - '0'.toNat) := by
      have : '0'.toNat = 48 := rfl
      rw [this]; omega
    rw [this]
    exact digitsVal_digits cs _ (fun x hx => h x (by simp [hx]))

theorem uintOf_toDigits (n : Nat) : uintOf (Nat.toDigits 10 n) = some n := by
  unfold uintOf
  rw [if_neg Nat.toDigits_ne_nil]
  rw [digitsVal_digits _ _ (fun c hc => Nat.isDigit_of_mem_toDigits (by omega) (by omega) hc)]
  rw [Nat.ofDigitChars_ten_toDigits]

theorem poolIdOf_toList (n : Nat) : (poolIdOf n).toList = 'f' :: 'a' :: 'r' :: 'm' :: '-' :: Nat.toDigits 10 n := by
  unfold poolIdOf
  rw [String.toList_append]
  show _ ++ (Nat.repr n).toList = _
  rw [Nat.toList_repr]; rfl

/-- the id generated for sequence number `n` parses back to `n` -/
theorem poolSeq_poolIdOf {n : Nat} (h0 : 0 < n) (h1 : n < 18446744073709551616) : poolSeq? (poolIdOf n) = some n := by
  have hn : poolNum? (poolIdOf n) = some n := by
    unfold poolNum?
    rw [poolIdOf_toList]
    exact uintOf_toDigits n
  unfold poolSeq?
  rw [hn]
  have : n ≠ 0 ∧ n < 18446744073709551616 := ⟨by omega, h1⟩
  simp only [if_pos this]

theorem validPoolId_of_seq {id : PoolId} {n : Nat} (h : poolSeq? id = some n) : validPoolId id = true := by
  unfold poolSeq? at h
  unfold validPoolId
  cases hm : poolNum? id with
  | none => rw [hm] at h; cases h
  | some m =>
    rw [hm] at h
    simp only at h ⊢
    split at h
    · rename_i hc; simp [hc.1, hc.2]
    · cases h

/-! ### folding `AMap.set` over a list of bindings -/

section
variable {K V : Type} [DecidableEq K]

def fromList (l : List (K × V)) (m : AMap K V) : AMap K V := l.foldl (fun m e => AMap.set m e.1 e.2) m

theorem get?_fromList_notin (l : List (K × V)) (m : AMap K V) (k : K) (h : ∀ e ∈ l, e.1 ≠ k) :
    AMap.get? (fromList l m) k = AMap.get? m k := by
  induction l generalizing m with
  | nil => rfl
  | cons x t ih =>
    unfold fromList at ih ⊢
    simp only [List.foldl_cons]
    rw [ih _ (fun e he => h e (List.mem_cons_of_mem _ he)), AMap.get?_set_other _ _ _ _ (h x List.mem_cons_self)]

theorem get?_fromList_mem (l : List (K × V)) (m : AMap K V) (hn : (l.map (·.1)).Nodup) (e : K × V) (he : e ∈ l) :
    AMap.get? (fromList l m) e.1 = some e.2 := by
  induction l generalizing m with
  | nil => cases he
  | cons x t ih =>
    simp only [List.map_cons, List.nodup_cons] at hn
    unfold fromList at ih ⊢
    simp only [List.foldl_cons]
    rcases List.mem_cons.mp he with e1 | e1
    · subst e1
      have := get?_fromList_notin t (AMap.set m e.1 e.2) e.1 (fun y hy hc => hn.1 (by rw [← hc]; exact List.mem_map_of_mem hy))
      unfold fromList at this
      rw [this, AMap.get?_set_self]
    · exact ih _ hn.2 e1

theorem nodupKeys_fromList (l : List (K × V)) (m : AMap K V) (h : NodupKeys m) : NodupKeys (fromList l m) := by
  induction l generalizing m with
  | nil => exact h
  | cons x t ih =>
    unfold fromList at ih ⊢
    simp only [List.foldl_cons]
    exact ih _ (nodupKeys_set h _ _)

end

/-! ### the records of the exported document -/

theorem mem_exportPools {s : State} {e : PoolId × Pool} : e ∈ exportPools s ↔ getPool s e.1 = some e.2 := by
  unfold exportPools getPool
  simp only [List.mem_filterMap]
  constructor
  · rintro ⟨id, _, h⟩
    cases hg : AMap.get? s.pools id with
    | none => rw [hg] at h; cases h
    | some p => rw [hg] at h; simp only [Option.map, Option.some.injEq] at h; rw [← h]; exact hg
  · intro h
    refine ⟨e.1, ?_, by rw [h]; rfl⟩
    rw [mem_sortDedup, mem_keys_iff]
    exact ⟨e.2, h⟩

theorem exportPools_keys (s : State) : (exportPools s).map (·.1) = sortDedup (AMap.keys s.pools) := by
  unfold exportPools
  have : ∀ (ids : List PoolId), (∀ id ∈ ids, id ∈ AMap.keys s.pools) →
      (ids.filterMap fun id => (AMap.get? s.pools id).map fun p => (id, p)).map (·.1) = ids := by
    intro ids
    induction ids with
    | nil => intro _; rfl
    | cons x t ih =>
      intro h
      obtain ⟨v, hv⟩ := (mem_keys_iff s.pools x).mp (h x (by simp))
      simp only [List.filterMap_cons, hv, Option.map_some, List.map_cons]
      rw [ih (fun id hid => h id (by simp [hid]))]
  exact this _ (fun id hid => (mem_sortDedup id _).mp hid)

theorem exportPools_nodup (s : State) : ((exportPools s).map (·.1)).Nodup := by
  rw [exportPools_keys]; exact nodup_sortDedup _

theorem mem_exportFarmers {s : State} {e : (Addr × PoolId) × Farmer} :
    e ∈ exportFarmers s ↔ AMap.get? s.farmers e.1 = some e.2 := by
  unfold exportFarmers
  simp only [List.mem_flatMap, List.mem_filterMap]
  constructor
  · rintro ⟨a, _, id, _, h⟩
    cases hg : AMap.get? s.farmers (a, id) with
    | none => rw [hg] at h; cases h
    | some f => rw [hg] at h; simp only [Option.map, Option.some.injEq] at h; rw [← h]; exact hg
  · intro h
    obtain ⟨⟨a, id⟩, f⟩ := e
    have hk : (a, id) ∈ AMap.keys s.farmers := (mem_keys_iff _ _).mpr ⟨f, h⟩
    refine ⟨a, (mem_heads _ a).mpr ⟨id, hk⟩, id, ?_, by rw [h]; rfl⟩
    rw [mem_sortDedup, mem_tail]; exact hk

theorem exportFarmers_nodup (s : State) : ((exportFarmers s).map (·.1)).Nodup := by
  unfold exportFarmers
  rw [List.map_flatMap]
  apply nodup_flatMap_tag (nodup_heads _) _ (fun k : Addr × PoolId => k.1)
  · intro a _ k hk
    simp only [List.mem_map, List.mem_filterMap] at hk
    obtain ⟨e, ⟨id, _, he⟩, rfl⟩ := hk
    cases hg : AMap.get? s.farmers (a, id) with
    | none => rw [hg] at he; cases he
    | some f => rw [hg] at he; simp only [Option.map, Option.some.injEq] at he; rw [← he]
  · intro a _
    have : ∀ (ids : List PoolId), ids.Nodup →
        ((ids.filterMap fun id => (AMap.get? s.farmers (a, id)).map fun f => ((a, id), f)).map (·.1)).Nodup := by
      intro ids
      induction ids with
      | nil => intro _; simp
      | cons x t ih =>
        intro hn
        simp only [List.nodup_cons] at hn
        simp only [List.filterMap_cons]
        cases hg : AMap.get? s.farmers (a, x) with
        | none => simp only [Option.map]; exact ih hn.2
        | some f =>
          simp only [Option.map, List.map_cons, List.nodup_cons]
          refine ⟨?_, ih hn.2⟩
          intro hm
          simp only [List.mem_map, List.mem_filterMap] at hm
          obtain ⟨e, ⟨id, hid, he⟩, hk⟩ := hm
          cases hg2 : AMap.get? s.farmers (a, id) with
          | none => rw [hg2] at he; cases he
          | some f2 =>
            rw [hg2] at he; simp only [Option.map, Option.some.injEq] at he
            rw [← he] at hk
            have : id = x := (Prod.mk.inj hk).2
            subst this; exact hn.1 hid
    exact this _ (nodup_sortDedup _)

end Irismod.Proofs.FarmGenesis
