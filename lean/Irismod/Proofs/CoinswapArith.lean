/-
Arithmetic behind C01: the integer square root, the two pricing formulas and the four liquidity
formulas of the coinswap keeper, as pure facts about ℕ (floor division), independent of the model.
-/
import Mathlib.Tactic.Ring
import Mathlib.Tactic.Linarith
import Mathlib.Tactic.Positivity
import Mathlib.Tactic.NormNum
import Irismod.Model.Coinswap

namespace Irismod.Proofs.CoinswapArith
open Irismod.Coinswap

theorem isqrt_spec (n : Nat) : isqrt n * isqrt n ≤ n ∧ n < (isqrt n + 1) * (isqrt n + 1) := by
  induction n using Nat.strong_induction_on with
  | _ n ih =>
    rw [isqrt]
    split
    · subst_vars; simp
    · rename_i hn
      have h4 : n / 4 < n := by omega
      obtain ⟨h1, h2⟩ := ih (n / 4) h4
      set r := isqrt (n / 4) with hr
      have hm : 4 * (n / 4) ≤ n := by omega
      have hm2 : n < 4 * (n / 4) + 4 := by omega
      simp only []
      split
      · rename_i hle
        refine ⟨hle, ?_⟩
        nlinarith
      · rename_i hle
        refine ⟨by nlinarith, by omega⟩

/-- exact-in: the rule holds for the floor quotient -/
theorem inPrice_cp (X Y dx n d : Nat) :
    X * d * Y ≤ (X * d + n * dx) * (Y - dx * n * Y / (X * d + dx * n)) := by
  have hv := Nat.div_mul_le_self (dx * n * Y) (X * d + dx * n)
  set v := dx * n * Y / (X * d + dx * n) with hvdef
  rw [Nat.mul_sub]
  have e1 : (X * d + n * dx) * Y = X * d * Y + dx * n * Y := by ring
  have e2 : (X * d + n * dx) * v = v * (X * d + dx * n) := by ring
  omega

/-- exact-in: one more unit out breaks the rule -/
theorem inPrice_max (X Y dx n d : Nat) (hX : 0 < X * d * Y) :
    (X * d + n * dx) * (Y - (dx * n * Y / (X * d + dx * n) + 1)) < X * d * Y := by
  have hden : 0 < X * d + dx * n := by
    rcases Nat.eq_zero_or_pos (X * d) with h | h
    · simp [h] at hX
    · omega
  have hlt := Nat.lt_succ_iff.mpr (Nat.le_refl (dx * n * Y / (X * d + dx * n)))
  have h2 : dx * n * Y < (dx * n * Y / (X * d + dx * n) + 1) * (X * d + dx * n) := by
    have := Nat.div_add_mod (dx * n * Y) (X * d + dx * n)
    have := Nat.mod_lt (dx * n * Y) hden
    nlinarith
  set v := dx * n * Y / (X * d + dx * n) with hvdef
  by_cases hle : v + 1 ≤ Y
  · rw [Nat.mul_sub]
    have e1 : (X * d + n * dx) * Y = X * d * Y + dx * n * Y := by ring
    have e2 : (X * d + n * dx) * (v + 1) = (v + 1) * (X * d + dx * n) := by ring
    have e3 : (X * d + n * dx) * (v + 1) ≤ (X * d + n * dx) * Y := Nat.mul_le_mul_left _ hle
    omega
  · have : Y - (v + 1) = 0 := by omega
    rw [this]; simpa using hX

/-- the quotient never reaches the output reserve -/
theorem inPrice_lt (X Y dx n d : Nat) (hX : 0 < X * d) (hY : 0 < Y) :
    dx * n * Y / (X * d + dx * n) < Y := by
  rw [Nat.div_lt_iff_lt_mul (by omega)]
  nlinarith

/-- exact-out: the rule holds for floor+1 -/
theorem outPrice_cp (X Y dy n d : Nat) (hdy : dy ≤ Y) (hm : 0 < (Y - dy) * n) :
    X * d * Y ≤ (X * d + n * (X * dy * d / ((Y - dy) * n) + 1)) * (Y - dy) := by
  have h2 : X * dy * d < (X * dy * d / ((Y - dy) * n) + 1) * ((Y - dy) * n) := by
    have := Nat.div_add_mod (X * dy * d) ((Y - dy) * n)
    have := Nat.mod_lt (X * dy * d) hm
    nlinarith
  set q := X * dy * d / ((Y - dy) * n) with hq
  obtain ⟨k, rfl⟩ : ∃ k, Y = dy + k := ⟨Y - dy, by omega⟩
  simp only [Nat.add_sub_cancel_left] at *
  nlinarith

/-- exact-out: any payment satisfying the rule is at least the floor quotient -/
theorem outPrice_min (X Y dy n d p : Nat) (hdy : dy ≤ Y) (hm : 0 < (Y - dy) * n)
    (hcp : X * d * Y ≤ (X * d + n * p) * (Y - dy)) :
    X * dy * d / ((Y - dy) * n) ≤ p := by
  have hv := Nat.div_mul_le_self (X * dy * d) ((Y - dy) * n)
  set q := X * dy * d / ((Y - dy) * n) with hq
  obtain ⟨k, rfl⟩ : ∃ k, Y = dy + k := ⟨Y - dy, by omega⟩
  simp only [Nat.add_sub_cancel_left] at *
  by_contra hlt
  have hlt' : p + 1 ≤ q := by omega
  have : (p + 1) * (k * n) ≤ q * (k * n) := Nat.mul_le_mul_right _ hlt'
  nlinarith

/-- swap leg, exact-in, on reserves: the product of reserves does not fall -/
theorem swapIn_prod (X Y dx n d : Nat) (hn : n ≤ d) :
    X * Y ≤ (X + dx) * (Y - dx * n * Y / (X * d + dx * n)) := by
  have h := inPrice_cp X Y dx n d
  set v := dx * n * Y / (X * d + dx * n) with hv
  rcases Nat.eq_zero_or_pos d with hd | hd
  · subst hd
    have : n = 0 := by omega
    subst this
    simp [hv]
    exact Nat.mul_le_mul_right Y (Nat.le_add_right X dx)
  · have h3 : (X * d + n * dx) * (Y - v) ≤ (X * d + d * dx) * (Y - v) := by
      apply Nat.mul_le_mul_right
      have := Nat.mul_le_mul_right dx hn
      omega
    have h4 : X * d * Y ≤ d * ((X + dx) * (Y - v)) := by
      calc X * d * Y ≤ (X * d + d * dx) * (Y - v) := le_trans h h3
        _ = d * ((X + dx) * (Y - v)) := by ring
    have h5 : d * (X * Y) ≤ d * ((X + dx) * (Y - v)) := by
      calc d * (X * Y) = X * d * Y := by ring
        _ ≤ _ := h4
    exact Nat.le_of_mul_le_mul_left h5 hd

/-- swap leg, exact-out -/
theorem swapOut_prod (X Y dy n d : Nat) (hn : n ≤ d) (hdy : dy ≤ Y) (hm : 0 < (Y - dy) * n) :
    X * Y ≤ (X + (X * dy * d / ((Y - dy) * n) + 1)) * (Y - dy) := by
  have h := outPrice_cp X Y dy n d hdy hm
  set p := X * dy * d / ((Y - dy) * n) + 1 with hp
  have hd : 0 < d := by
    rcases Nat.eq_zero_or_pos n with h0 | h0
    · subst h0; simp at hm
    · omega
  have h3 : (X * d + n * p) * (Y - dy) ≤ (X * d + d * p) * (Y - dy) := by
    apply Nat.mul_le_mul_right
    have := Nat.mul_le_mul_right p hn
    omega
  have h5 : d * (X * Y) ≤ d * ((X + p) * (Y - dy)) := by
    calc d * (X * Y) = X * d * Y := by ring
      _ ≤ (X * d + d * p) * (Y - dy) := le_trans h h3
      _ = d * ((X + p) * (Y - dy)) := by ring
  exact Nat.le_of_mul_le_mul_left h5 hd

/-- two-sided add: mint floor(L·dS/X), deposit floor(Y·dS/X)+1 -/
theorem add_share (X Y L dS : Nat) (hX : 0 < X) :
    X * Y * (L + L * dS / X) ^ 2 ≤ (X + dS) * (Y + (Y * dS / X + 1)) * L ^ 2 := by
  have hm := Nat.div_mul_le_self (L * dS) X
  have ht : Y * dS < (Y * dS / X + 1) * X := by
    have := Nat.div_add_mod (Y * dS) X
    have := Nat.mod_lt (Y * dS) hX
    nlinarith
  set m := L * dS / X with hmdef
  set t := Y * dS / X + 1 with htdef
  -- (L+m)·X ≤ L·(X+dS) and Y·(X+dS) ≤ (Y+t)·X
  have a1 : (L + m) * X ≤ L * (X + dS) := by nlinarith
  have a2 : Y * (X + dS) ≤ (Y + t) * X := by nlinarith
  have a3 : ((L + m) * X) ^ 2 ≤ (L * (X + dS)) ^ 2 := Nat.pow_le_pow_left a1 2
  -- multiply: X·Y·(L+m)²·X² ≤ X·Y·L²·(X+dS)² ≤ X·L²·(X+dS)·(Y+t)·X
  have b1 : X * Y * (L + m) ^ 2 * X ^ 2 ≤ X * Y * (L ^ 2 * (X + dS) ^ 2) := by
    have : (L + m) ^ 2 * X ^ 2 ≤ L ^ 2 * (X + dS) ^ 2 := by
      calc (L + m) ^ 2 * X ^ 2 = ((L + m) * X) ^ 2 := by ring
        _ ≤ (L * (X + dS)) ^ 2 := a3
        _ = L ^ 2 * (X + dS) ^ 2 := by ring
    calc X * Y * (L + m) ^ 2 * X ^ 2 = X * Y * ((L + m) ^ 2 * X ^ 2) := by ring
      _ ≤ _ := Nat.mul_le_mul_left _ this
  have b2 : X * Y * (L ^ 2 * (X + dS) ^ 2) ≤ (X + dS) * (Y + t) * L ^ 2 * X ^ 2 := by
    have : X * L ^ 2 * (X + dS) * (Y * (X + dS)) ≤ X * L ^ 2 * (X + dS) * ((Y + t) * X) :=
      Nat.mul_le_mul_left _ a2
    calc X * Y * (L ^ 2 * (X + dS) ^ 2) = X * L ^ 2 * (X + dS) * (Y * (X + dS)) := by ring
      _ ≤ X * L ^ 2 * (X + dS) * ((Y + t) * X) := this
      _ = (X + dS) * (Y + t) * L ^ 2 * X ^ 2 := by ring
  have hX2 : 0 < X ^ 2 := by positivity
  exact Nat.le_of_mul_le_mul_right (le_trans b1 b2) hX2

/-- two-sided remove: withdraw floor(w·X/L), floor(w·Y/L) -/
theorem remove_share (X Y L w : Nat) (hw : w ≤ L) (hL : 0 < L) :
    X * Y * (L - w) ^ 2 ≤ (X - w * X / L) * (Y - w * Y / L) * L ^ 2 := by
  have hx := Nat.div_mul_le_self (w * X) L
  have hy := Nat.div_mul_le_self (w * Y) L
  set x := w * X / L with hxd
  set y := w * Y / L with hyd
  obtain ⟨k, rfl⟩ : ∃ k, L = w + k := ⟨L - w, by omega⟩
  simp only [Nat.add_sub_cancel_left]
  have hxX : x ≤ X := by
    have : x * (w + k) ≤ X * (w + k) := by nlinarith
    exact Nat.le_of_mul_le_mul_right this hL
  have hyY : y ≤ Y := by
    have : y * (w + k) ≤ Y * (w + k) := by nlinarith
    exact Nat.le_of_mul_le_mul_right this hL
  -- X·k ≤ (X-x)·(w+k) and Y·k ≤ (Y-y)·(w+k)
  have c1 : X * k ≤ (X - x) * (w + k) := by
    rw [Nat.sub_mul]
    have : X * (w + k) = X * k + w * X := by ring
    omega
  have c2 : Y * k ≤ (Y - y) * (w + k) := by
    rw [Nat.sub_mul]
    have : Y * (w + k) = Y * k + w * Y := by ring
    omega
  calc X * Y * k ^ 2 = (X * k) * (Y * k) := by ring
    _ ≤ ((X - x) * (w + k)) * ((Y - y) * (w + k)) := Nat.mul_le_mul c1 c2
    _ = (X - x) * (Y - y) * (w + k) ^ 2 := by ring

/-- one-sided remove on the side holding T: pay floor((2L-w)·w·T·n / (L²·d)) -/
theorem rem1_share (T L w n d : Nat) (hw : w ≤ L) (hn : n ≤ d) (hd : 0 < L * L * d) :
    T * (L - w) ^ 2 ≤ (T - (L + L - w) * w * T * n / (L * L * d)) * L ^ 2 := by
  have ho := Nat.div_mul_le_self ((L + L - w) * w * T * n) (L * L * d)
  set o := (L + L - w) * w * T * n / (L * L * d) with hod
  obtain ⟨k, rfl⟩ : ∃ k, L = w + k := ⟨L - w, by omega⟩
  have e : w + k + (w + k) - w = w + 2 * k := by omega
  rw [e] at ho
  simp only [Nat.add_sub_cancel_left]
  have hdpos : 0 < d := by
    rcases Nat.eq_zero_or_pos d with h | h
    · subst h; simp at hd
    · exact h
  -- o·L² ·d ≤ (w+2k)·w·T·n ≤ (w+2k)·w·T·d  ⇒ o·L² ≤ (w+2k)·w·T
  have h1 : o * ((w + k) * (w + k)) * d ≤ (w + 2 * k) * w * T * d := by
    calc o * ((w + k) * (w + k)) * d = o * ((w + k) * (w + k) * d) := by ring
      _ ≤ (w + 2 * k) * w * T * n := ho
      _ ≤ (w + 2 * k) * w * T * d := Nat.mul_le_mul_left _ hn
  have h2 : o * ((w + k) * (w + k)) ≤ (w + 2 * k) * w * T := Nat.le_of_mul_le_mul_right h1 hdpos
  have h3 : (T - o) * (w + k) ^ 2 = T * (w + k) ^ 2 - o * (w + k) ^ 2 := Nat.sub_mul _ _ _
  rw [h3]
  have e2 : T * (w + k) ^ 2 = T * k ^ 2 + (w + 2 * k) * w * T := by ring
  have e3 : o * (w + k) ^ 2 = o * ((w + k) * (w + k)) := by ring
  omega

/-- one-sided add on the side holding T: r = isqrt(floor((d·T + n·a)·L² / (d·T))) -/
theorem add1_share (T L a n d r : Nat) (hn : n ≤ d) (hdT : 0 < d * T)
    (hr : r * r ≤ (d * T + n * a) * L * L / (d * T)) :
    T * r ^ 2 ≤ (T + a) * L ^ 2 := by
  have hq := Nat.div_mul_le_self ((d * T + n * a) * L * L) (d * T)
  have h1 : r * r * (d * T) ≤ (d * T + n * a) * L * L :=
    le_trans (Nat.mul_le_mul_right _ hr) hq
  have h2 : (d * T + n * a) * L * L ≤ (d * T + d * a) * L * L := by
    apply Nat.mul_le_mul_right; apply Nat.mul_le_mul_right
    have := Nat.mul_le_mul_right a hn
    omega
  have hd : 0 < d := by
    rcases Nat.eq_zero_or_pos d with h | h
    · subst h; simp at hdT
    · exact h
  have h3 : d * (T * r ^ 2) ≤ d * ((T + a) * L ^ 2) := by
    calc d * (T * r ^ 2) = r * r * (d * T) := by ring
      _ ≤ (d * T + d * a) * L * L := le_trans h1 h2
      _ = d * ((T + a) * L ^ 2) := by ring
  exact Nat.le_of_mul_le_mul_left h3 hd

/-- the one-sided add never mints a negative amount: the square is at least L² -/
theorem add1_sq_ge (T L a n d : Nat) (hdT : 0 < d * T) :
    L * L ≤ (d * T + n * a) * L * L / (d * T) := by
  rw [Nat.le_div_iff_mul_le hdT]
  nlinarith [Nat.zero_le (n * a * L * L)]

/-- lift a one-side inequality `T·r² ≤ T'·L²` to the product of both reserves -/
theorem add1_side_X (X Y L X' r : Nat) (h : X * r ^ 2 ≤ X' * L ^ 2) : X * Y * r ^ 2 ≤ X' * Y * L ^ 2 := by
  calc X * Y * r ^ 2 = Y * (X * r ^ 2) := by ring
    _ ≤ Y * (X' * L ^ 2) := Nat.mul_le_mul_left _ h
    _ = X' * Y * L ^ 2 := by ring

theorem add1_side_Y (X Y L Y' r : Nat) (h : Y * r ^ 2 ≤ Y' * L ^ 2) : X * Y * r ^ 2 ≤ X * Y' * L ^ 2 := by
  calc X * Y * r ^ 2 = X * (Y * r ^ 2) := by ring
    _ ≤ X * (Y' * L ^ 2) := Nat.mul_le_mul_left _ h
    _ = X * Y' * L ^ 2 := by ring

end Irismod.Proofs.CoinswapArith
