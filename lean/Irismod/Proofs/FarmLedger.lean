/-
The fairness ledger along histories: which operations leave farmers, ledger and the pools'
reward denoms alone, and how stake / unstake / harvest book one interaction.
-/
import Irismod.Proofs.FarmFair

namespace Irismod.Proofs.Farm
open Irismod Irismod.Sdk Irismod.Farm Irismod.Spec

def denomsOfPool (p : Pool) : List Denom := p.rules.map (·.denom)

/-- pools never disappear and keep their reward denoms -/
def Evolve (s s' : State) : Prop :=
  ∀ id p, getPool s id = some p → ∃ p', getPool s' id = some p' ∧ denomsOfPool p' = denomsOfPool p

theorem Evolve.refl (s : State) : Evolve s s := fun _ p h => ⟨p, h, rfl⟩
theorem Evolve.trans {a b c : State} (h1 : Evolve a b) (h2 : Evolve b c) : Evolve a c := by
  intro id p hp
  obtain ⟨p1, hp1, e1⟩ := h1 id p hp
  obtain ⟨p2, hp2, e2⟩ := h2 id p1 hp1
  exact ⟨p2, hp2, e2.trans e1⟩

theorem evolve_same {s s' : State} (h : s'.pools = s.pools) : Evolve s s' :=
  fun id p hp => ⟨p, by unfold getPool; rw [h]; exact hp, rfl⟩

theorem evolve_set {s s' : State} {id : PoolId} {p q : Pool} (hp : getPool s id = some p)
    (hpools : s'.pools = AMap.set s.pools id q) (hd : denomsOfPool q = denomsOfPool p) : Evolve s s' := by
  intro id2 p2 hp2
  by_cases e : id = id2
  · subst e; rw [hp] at hp2; cases hp2
    exact ⟨q, getPool_set_self _ _ _ _ hpools, hd⟩
  · exact ⟨p2, by rw [getPool_set_other s s' id id2 q hpools e]; exact hp2, rfl⟩

theorem evolve_new {s s' : State} {id : PoolId} {q : Pool} (hp : getPool s id = none)
    (hpools : s'.pools = AMap.set s.pools id q) : Evolve s s' := by
  intro id2 p2 hp2
  by_cases e : id = id2
  · subst e; rw [hp] at hp2; cases hp2
  · exact ⟨p2, by rw [getPool_set_other s s' id id2 q hpools e]; exact hp2, rfl⟩

theorem updOk_denoms {s s' : State} {id : PoolId} {p p' : Pool} {amount : Int} {d : Bool}
    (h : UpdOk s s' id p p' amount d) : denomsOfPool p' = denomsOfPool p := by
  unfold denomsOfPool
  rcases h.rules with e | ⟨_, _, f2⟩
  · rw [e]
  · exact forall2_denoms f2

/-- farmers, ledger and reward denoms untouched -/
structure Frame (s s' : State) : Prop where
  farmers : s'.farmers = s.farmers
  ledger  : s'.ledger = s.ledger
  evolve  : Evolve s s'

theorem Frame.refl (s : State) : Frame s s := ⟨rfl, rfl, Evolve.refl s⟩
theorem Frame.trans {a b c : State} (h1 : Frame a b) (h2 : Frame b c) : Frame a c :=
  ⟨h2.farmers.trans h1.farmers, h2.ledger.trans h1.ledger, h1.evolve.trans h2.evolve⟩

theorem BankOnly.frame {s s' : State} (b : BankOnly s s') : Frame s s' := ⟨b.farmers, b.ledger, evolve_same b.pools⟩
theorem Quiet.frame {s s' : State} (b : Quiet s s') : Frame s s' := ⟨b.farmers, b.ledger, evolve_same b.pools⟩

theorem updOk_frame {s s' : State} {id : PoolId} {p p' : Pool} {amount : Int} {d : Bool}
    (hp : getPool s id = some p) (h : UpdOk s s' id p p' amount d) : Frame s s' :=
  ⟨h.farmers, h.ledger, evolve_set hp h.pools (updOk_denoms h)⟩

theorem updErr_frame {s s1 : State} {id : PoolId} {p : Pool} {e : Err} (hp : getPool s id = some p)
    (h : UpdErr s s1 id p e) : Frame s s1 := by
  refine ⟨h.farmers, h.ledger, ?_⟩
  rcases h.pools with hpl | ⟨rs, hpl, hd⟩
  · exact evolve_same hpl
  · exact evolve_set hp hpl hd

theorem refund_frame {s : State} {id : PoolId} {p : Pool} (hp : getPool s id = some p) : Frame s (refund s id p).1 := by
  have f0 : Frame s (dequeue s id p.endH) := ⟨rfl, rfl, Evolve.refl _⟩
  have hp0 : getPool (dequeue s id p.endH) id = some p := hp
  rcases refund_cases s id p with ⟨s1, e, hu, hr⟩ | ⟨s1, p1, hu, hr⟩
  · rw [hr]; exact f0.trans (updErr_frame hp0 (updatePool_err hu))
  · have ok := updatePool_ok hu
    have f1 := updOk_frame hp0 ok
    have hp1 : getPool s1 id = some p1 := getPool_set_self _ _ _ _ ok.pools
    have f2 : Frame s1 (zeroed s1 id p1) :=
      ⟨rfl, rfl, evolve_set hp1 rfl (by unfold denomsOfPool; exact zeroRules_denoms _)⟩
    rcases hr with ⟨_, hr⟩ | ⟨_, e, _, hr⟩ | ⟨_, s2, hs, hr⟩
    · rw [hr]; exact (f0.trans f1).trans f2
    · rw [hr]; exact (f0.trans f1).trans f2
    · rw [hr]; exact (((f0.trans f1).trans f2).trans (sendAll_ok hs).1.frame).trans (withCp_quiet _ _).frame

theorem endBlockOne_frame {s s' : State} {id : PoolId} (h : endBlockOne s id = .ok s') : Frame s s' := by
  unfold endBlockOne at h
  split at h
  · cases h; exact Frame.refl _
  · rename_i p hp
    have := refund_frame hp
    generalize refund s id p = res at h this
    obtain ⟨s1, r⟩ := res
    split at h
    · cases h
    · rename_i s2 r2 _ heq
      cases h; cases heq; exact this

theorem endBlockIds_frame : ∀ (ids : List PoolId) {s s' : State}, endBlockIds s ids = .ok s' → Frame s s'
  | [], s, s', h => by simp [endBlockIds] at h; subst h; exact Frame.refl _
  | id :: ids, s, s', h => by
    unfold endBlockIds at h
    split at h
    · cases h
    · rename_i s1 h1
      exact (endBlockOne_frame h1).trans (endBlockIds_frame ids h)

theorem endBlocks_frame : ∀ (n : Nat) (s : State), Frame s (endBlocks n s).1
  | 0, s => Frame.refl _
  | n + 1, s => by
    unfold endBlocks
    split
    · exact Frame.refl _
    · rename_i s1 h1
      have a := endBlockIds_frame _ h1
      have b : Frame s1 { s1 with height := s1.height + 1 } := ⟨rfl, rfl, evolve_same rfl⟩
      exact (a.trans b).trans (endBlocks_frame n _)

theorem enqueue_frame (s : State) (id : PoolId) (h : Int) : Frame s (enqueue s id h) := by
  unfold enqueue; split
  · exact Frame.refl _
  · exact ⟨rfl, rfl, evolve_same rfl⟩

theorem createCore_frame {s2 s' : State} {id creator desc lpt start rpb total editable}
    (h : createPoolCore s2 id creator desc lpt start rpb total editable = .ok s') : Frame s2 s' := by
  obtain ⟨m, hnone, _, rfl⟩ := createPoolCore_ok h
  refine Frame.trans ?_ (enqueue_frame _ _ _)
  exact ⟨rfl, rfl, evolve_new hnone rfl⟩

/-- a community-pool operation leaves farmers, ledger and the pools' reward denoms alone -/
theorem qEffect_frame {s s' : State} (h : QEffect s s') : Frame s s' := by
  cases h with
  | frame f => exact f.frame
  | created sa s2 c f1 hd f2 =>
    obtain ⟨_, _, _, s1, h1, h2⟩ := hd
    exact ((f1.frame.trans (sendAll_ok h1).1.frame).trans (createCore_frame h2)).trans f2.frame

theorem createPool_frame {s s' : State} {id sender desc lpt start rpb total editable}
    (h : stepCreatePool s id sender desc lpt start rpb total editable = .ok s') : Frame s s' := by
  obtain ⟨s1, s2, m, _, _, _, _, _, h1, h2, hnone, _, rfl⟩ := stepCreatePool_ok h
  have b12 : BankOnly s s2 := (deductFee_ok h1).trans (sendAll_ok h2).1
  refine (b12.frame.trans ?_).trans (enqueue_frame _ _ _)
  exact ⟨rfl, rfl, evolve_new hnone rfl⟩

theorem destroyPool_frame {s s' : State} {sender id} (h : stepDestroyPool s sender id = .ok s') : Frame s s' := by
  obtain ⟨p, hp, _, _, _, hr⟩ := stepDestroyPool_ok h
  have := refund_frame hp
  rw [hr] at this; exact this

theorem adjustRules_denomsOf (add rpb : CoinList) (p q : Pool) (h : q.rules = adjustRules add rpb p.rules) :
    denomsOfPool q = denomsOfPool p := by
  unfold denomsOfPool; rw [h]; exact adjustRules_denoms _ _ _

theorem adjustCore_frame {s s' : State} {id : PoolId} {p1 : Pool} {sh : Int} {st : Bool} {add rpb : CoinList}
    (hp : getPool s id = some p1) (h : adjustCore s id p1 sh st add rpb = .ok s') : Frame s s' := by
  unfold adjustCore at h
  split at h; · cases h
  split at h; · cases h
  split at h
  · cases h
    exact ⟨rfl, rfl, evolve_set hp rfl (adjustRules_denomsOf _ _ _ _ rfl)⟩
  · rename_i ah _ _ _
    cases h
    refine Frame.trans (b := setPool (dequeue s id p1.endH) id _) ?_ (enqueue_frame _ _ _)
    exact ⟨rfl, rfl, evolve_set (s := s) hp rfl (adjustRules_denomsOf _ _ _ _ rfl)⟩

theorem adjustPool_frame {s s' : State} {sender id add rpb} (h : stepAdjustPool s sender id add rpb = .ok s') : Frame s s' := by
  obtain ⟨p, _, _, _, hp, hat⟩ := stepAdjustPool_ok h
  obtain ⟨s1, p1, s2, _, _, _, _, _, hu, _, h2, hcore⟩ := adjustPoolAt_ok hat
  have ok := updatePool_ok hu
  have f1 := updOk_frame hp ok
  have b2 := (sendAll_ok h2).1
  have hp2 : getPool s2 id = some p1 := by
    unfold getPool; rw [b2.pools]; exact getPool_set_self _ _ _ _ ok.pools
  exact (f1.trans b2.frame).trans (adjustCore_frame hp2 hcore)

/-! ### the ledger invariant -/

/-- operations that leave farmers and ledger alone keep the ledger invariant -/
theorem ledgerInv_frame {s s' : State} (fr : Frame s s') (hfp : FarmerPool s) (h : LedgerInv s) : LedgerInv s' := by
  refine ⟨fun k => by show C06.LedgerFair _; rw [fr.ledger]; exact h.fair k, ?_⟩
  intro a id f p' hf hp' r' hr'
  unfold getFarmer at hf; rw [fr.farmers] at hf
  obtain ⟨p, hp⟩ := hfp a id f hf
  obtain ⟨p2, hp2, hd⟩ := fr.evolve id p hp
  rw [hp'] at hp2; cases hp2
  have : r'.denom ∈ denomsOfPool p := by rw [← hd]; exact List.mem_map_of_mem hr'
  unfold denomsOfPool at this
  simp only [List.mem_map] at this
  obtain ⟨r, hr, e⟩ := this
  rw [fr.ledger, ← e]
  exact h.mark a id f p hf hp r hr

/-- one interaction of farmer `(a, id)`: the ledger books the payout, the farmer record gets
the new debt -/
theorem ledgerInv_interaction {s s' : State} {a : Addr} {id : PoolId} {p p1 : Pool} {δ : Int}
    {rewards debt : CoinList} {g : Option Farmer}
    (hl : LedgerInv s) (hfp : FarmerPool s) (hp : getPool s id = some p)
    (hd1 : denomsOfPool p1 = denomsOfPool p) (hn : (p1.rules.map (·.denom)).Nodup) (hnn : ∀ r ∈ p1.rules, 0 ≤ r.rps.raw)
    (hc : caclRewards p1.rules ((getFarmer s a id).getD { locked := 0, debt := [] }) δ = some (rewards, debt))
    (hδ : 0 ≤ ((((getFarmer s a id).getD { locked := 0, debt := [] }).locked : Nat) : Int) + δ)
    (hpool' : getPool s' id = some p1) (hother : ∀ id2, id ≠ id2 → getPool s' id2 = getPool s id2)
    (hledger : s'.ledger = bookLedger s.ledger a id ((getFarmer s a id).getD { locked := 0, debt := [] }).locked rewards p1.rules)
    (hfarm : (g = none ∧ s'.farmers = AMap.erase s.farmers (a, id)) ∨
             (∃ f', g = some f' ∧ s'.farmers = AMap.set s.farmers (a, id) f' ∧ f'.debt = debt ∧
                (f'.locked : Int) = ((((getFarmer s a id).getD { locked := 0, debt := [] }).locked : Nat) : Int) + δ)) :
    LedgerInv s' := by
  generalize hf0 : (getFarmer s a id).getD { locked := 0, debt := [] } = f0 at *
  have hspec := cacl_spec hc hn
  -- the old debt in terms of the marks
  have holddebt : ∀ r ∈ p1.rules, (amountOf f0.debt r.denom : Int) =
      ((AMap.getD s.ledger (a, id, r.denom) {}).mark * (f0.locked : Int)) / precision := by
    intro r hr
    have : r.denom ∈ denomsOfPool p := by rw [← hd1]; exact List.mem_map_of_mem hr
    unfold denomsOfPool at this
    simp only [List.mem_map] at this
    obtain ⟨r0, hr0, e⟩ := this
    cases hgf : getFarmer s a id with
    | none =>
      rw [hgf] at hf0; simp only [Option.getD] at hf0; rw [← hf0]; simp [amountOf]
    | some f =>
      rw [hgf] at hf0; simp only [Option.getD] at hf0; subst hf0
      rw [← e]; exact (hl.mark a id f p hgf hp r0 hr0).1
  refine ⟨?_, ?_⟩
  · -- fairness of every ledger entry
    intro k
    rw [hledger]
    by_cases hk : ∃ r ∈ p1.rules, (a, id, r.denom) = k
    · obtain ⟨r, hr, e⟩ := hk
      subst e
      rw [bookLedger_self _ _ _ _ _ _ r hn hr]
      apply fair_bookOne (hl.fair _)
      obtain ⟨_, hrw, _⟩ := hspec r hr
      rw [hrw]
      have hnn' := hnn r hr
      split
      · rw [tdiv_prec_nonneg (Int.mul_nonneg hnn' (Int.natCast_nonneg _)), holddebt r hr]
      · rename_i hz
        have : f0.locked = 0 := by omega
        rw [this]; simp
    · rw [bookLedger_other _ _ _ _ _ _ k (fun r hr e => hk ⟨r, hr, e⟩)]
      exact hl.fair k
  · -- the marks behind every recorded debt
    intro a2 id2 f2 p2 hf2 hp2 r2 hr2
    by_cases hkey : (a, id) = (a2, id2)
    · cases hkey
      rcases hfarm with ⟨_, hfe⟩ | ⟨f', _, hfs, hfd, hfl⟩
      · unfold getFarmer at hf2; rw [hfe, get?_erase_self] at hf2; cases hf2
      · unfold getFarmer at hf2; rw [hfs, AMap.get?_set_self] at hf2; cases hf2
        rw [hpool'] at hp2; cases hp2
        rw [hledger, bookLedger_self _ _ _ _ _ _ r2 hn hr2]
        obtain ⟨hdb, _, _⟩ := hspec r2 hr2
        have hnn' := hnn r2 hr2
        refine ⟨?_, hnn'⟩
        show (amountOf f2.debt r2.denom : Int) = (r2.rps.raw * (f2.locked : Int)) / precision
        rw [hfd, hdb, hfl, tdiv_prec_nonneg (Int.mul_nonneg hnn' hδ)]
    · -- another farmer record: untouched, and its ledger keys are not written
      have hf2' : getFarmer s a2 id2 = some f2 := by
        unfold getFarmer at hf2 ⊢
        rcases hfarm with ⟨_, hfe⟩ | ⟨f', _, hfs, _, _⟩
        · rw [hfe, get?_erase_other _ _ _ hkey] at hf2; exact hf2
        · rw [hfs, AMap.get?_set_other _ _ _ _ hkey] at hf2; exact hf2
      have hkeys : ∀ r ∈ p1.rules, (a, id, r.denom) ≠ (a2, id2, r2.denom) := by
        intro r _ e
        apply hkey
        have h1 := (Prod.mk.inj e).1
        have h2 := (Prod.mk.inj (Prod.mk.inj e).2).1
        rw [h1, h2]
      rw [hledger, bookLedger_other _ _ _ _ _ _ _ hkeys]
      by_cases e : id = id2
      · subst e
        rw [hpool'] at hp2; cases hp2
        have : r2.denom ∈ denomsOfPool p := by rw [← hd1]; exact List.mem_map_of_mem hr2
        unfold denomsOfPool at this
        simp only [List.mem_map] at this
        obtain ⟨r0, hr0, e0⟩ := this
        rw [← e0]
        exact hl.mark a2 id f2 p hf2' hp r0 hr0
      · rw [hother id2 e] at hp2
        exact hl.mark a2 id2 f2 p2 hf2' hp2 r2 hr2

end Irismod.Proofs.Farm

namespace Irismod.Proofs.Farm
open Irismod Irismod.Sdk Irismod.Farm Irismod.Spec

theorem unstakePool_ledger {s s1 : State} {id : PoolId} {p p1 : Pool} {amt : Nat}
    (h : unstakePool s id p amt = (s1, .ok p1)) :
    s1.ledger = s.ledger ∧ denomsOfPool p1 = denomsOfPool p := by
  unfold unstakePool at h
  split at h
  · simp only [Prod.mk.injEq, Except.ok.injEq] at h
    obtain ⟨e1, e2⟩ := h
    subst e1 e2
    exact ⟨rfl, rfl⟩
  · have ok := updatePool_ok h
    exact ⟨ok.ledger, updOk_denoms ok⟩

theorem ledgerInv_stake {s s' : State} {sender id denom amt} (hi : Inv s) (hl : LedgerInv s)
    (h : stepStake s sender id denom amt = .ok s') : LedgerInv s' := by
  obtain ⟨p, s1, s2, p1, rewards, debt, s3, _, _, hp, _, _, _, h1, hupd, hc, h3, rfl⟩ := stepStake_ok h
  have b1 := (sendAll_ok h1).1
  have ok := updatePool_ok hupd
  have b3 := (payRewards_ok h3).1
  have w1 := updOk_wf ok (hi.core.wf id p hp)
  have hpl : s3.pools = AMap.set s.pools id p1 := by rw [b3.pools, ok.pools, b1.pools]
  refine ledgerInv_interaction (p := p) (p1 := p1) (δ := (amt : Int))
    (g := some { locked := ((getFarmer s sender id).getD { locked := 0, debt := [] }).locked + amt, debt := debt })
    hl hi.core.fpool hp (updOk_denoms ok) w1.nodup w1.rpsNN hc (by omega) ?_ ?_ ?_ ?_
  · exact getPool_set_self _ _ _ _ hpl
  · intro id2 e; exact getPool_set_other s _ id id2 p1 hpl e
  · show bookLedger s3.ledger _ _ _ _ _ = _; rw [b3.ledger, ok.ledger, b1.ledger]
  · right
    refine ⟨_, rfl, ?_, rfl, by push_cast; rfl⟩
    show AMap.set s3.farmers _ _ = _; rw [b3.farmers, ok.farmers, b1.farmers]

theorem ledgerInv_harvest {s s' : State} {sender id} (hi : Inv s) (hl : LedgerInv s)
    (h : stepHarvest s sender id = .ok s') : LedgerInv s' := by
  obtain ⟨p, f, s1, p1, rewards, debt, s2, _, hp, _, hf, hupd, hc, h2, rfl⟩ := stepHarvest_ok h
  have ok := updatePool_ok hupd
  have b2 := (payRewards_ok h2).1
  have w1 := updOk_wf ok (hi.core.wf id p hp)
  have hpl : s2.pools = AMap.set s.pools id p1 := by rw [b2.pools, ok.pools]
  have hf0 : (getFarmer s sender id).getD { locked := 0, debt := [] } = f := by rw [hf]; rfl
  refine ledgerInv_interaction (p := p) (p1 := p1) (δ := 0) (g := some { f with debt := debt })
    hl hi.core.fpool hp (updOk_denoms ok) w1.nodup w1.rpsNN (by rw [hf0]; exact hc) (by omega) ?_ ?_ ?_ ?_
  · exact getPool_set_self _ _ _ _ hpl
  · intro id2 e; exact getPool_set_other s _ id id2 p1 hpl e
  · show bookLedger s2.ledger _ _ _ _ _ = _; rw [b2.ledger, ok.ledger, hf0]
  · right
    refine ⟨_, rfl, ?_, rfl, by rw [hf0]; simp⟩
    show AMap.set s2.farmers _ _ = _; rw [b2.farmers, ok.farmers]

theorem ledgerInv_unstake {s s' : State} {sender id denom amt} (hi : Inv s) (hl : LedgerInv s)
    (h : stepUnstake s sender id denom amt = .ok s') : LedgerInv s' := by
  obtain ⟨p, f, s1, p1, s2, rewards, debt, s3, _, _, hp, _, hf, hamt, hamt2, hbr, h2, hc, h3, rfl⟩ := stepUnstake_ok h
  obtain ⟨c1, hp1, _, _⟩ := unstakePool_core hi.core hp hamt2 hbr
  obtain ⟨hpl0, hfm, _⟩ := unstakePool_ok hamt2 hbr
  obtain ⟨hlg, hden⟩ := unstakePool_ledger hbr
  have b2 := (sendAll_ok h2).1
  have b3 := (payRewards_ok h3).1
  have w1 := c1.wf id p1 hp1
  have hpl : s3.pools = AMap.set s.pools id p1 := by rw [b3.pools, b2.pools, hpl0]
  have hf0 : (getFarmer s sender id).getD { locked := 0, debt := [] } = f := by rw [hf]; rfl
  by_cases hz : f.locked - amt = 0
  · simp only [hz, if_true]
    refine ledgerInv_interaction (p := p) (p1 := p1) (δ := -(amt : Int)) (g := none)
      hl hi.core.fpool hp hden w1.nodup w1.rpsNN (by rw [hf0]; exact hc) (by rw [hf0]; omega) ?_ ?_ ?_ ?_
    · exact getPool_set_self _ _ _ _ hpl
    · intro id2 e; exact getPool_set_other s _ id id2 p1 hpl e
    · show bookLedger s3.ledger _ _ _ _ _ = _; rw [b3.ledger, b2.ledger, hlg, hf0]
    · left
      refine ⟨rfl, ?_⟩
      show AMap.erase s3.farmers _ = _; rw [b3.farmers, b2.farmers, hfm]
  · simp only [hz, if_false]
    refine ledgerInv_interaction (p := p) (p1 := p1) (δ := -(amt : Int)) (g := some { locked := f.locked - amt, debt := debt })
      hl hi.core.fpool hp hden w1.nodup w1.rpsNN (by rw [hf0]; exact hc) (by rw [hf0]; omega) ?_ ?_ ?_ ?_
    · exact getPool_set_self _ _ _ _ hpl
    · intro id2 e; exact getPool_set_other s _ id id2 p1 hpl e
    · show bookLedger s3.ledger _ _ _ _ _ = _; rw [b3.ledger, b2.ledger, hlg, hf0]
    · right
      refine ⟨_, rfl, ?_, rfl, by rw [hf0]; simp only; omega⟩
      show AMap.set s3.farmers _ _ = _; rw [b3.farmers, b2.farmers, hfm]

theorem ledgerInv_stepMsg {s s' : State} {op : Op} (hi : Inv s) (hl : LedgerInv s) (h : stepMsg s op = .ok s') :
    LedgerInv s' := by
  cases op with
  | createPool sender desc lpt start rpb total editable => exact ledgerInv_frame (createPool_frame h) hi.core.fpool hl
  | destroyPool sender id => exact ledgerInv_frame (destroyPool_frame h) hi.core.fpool hl
  | adjustPool sender id add rpb => exact ledgerInv_frame (adjustPool_frame h) hi.core.fpool hl
  | stake sender id denom amt => exact ledgerInv_stake hi hl h
  | unstake sender id denom amt => exact ledgerInv_unstake hi hl h
  | harvest sender id => exact ledgerInv_harvest hi hl h
  | endBlocks n => simp [stepMsg] at h; subst h; exact hl
  | cpPass pid => simp [stepMsg] at h; subst h; exact hl
  | cpReject pid => simp [stepMsg] at h; subst h; exact hl
  | cpFailDeposit pid => simp [stepMsg] at h; subst h; exact hl
  | cpSubmit proposer title c deposit => exact ledgerInv_frame (cpSubmit_quiet h).frame hi.core.fpool hl
  | fundCp sender amt => exact ledgerInv_frame (fundCp_quiet h).frame hi.core.fpool hl

theorem ledgerInv_apply (s : State) (op : Op) (hi : Inv s) (hl : LedgerInv s) : LedgerInv (apply s op) := by
  rcases apply_cases s op with ⟨n, _, h⟩ | h | ⟨h, _, _⟩ | h
  · rw [h]; exact ledgerInv_frame (endBlocks_frame n s) hi.core.fpool hl
  · rw [h]; exact hl
  · exact ledgerInv_stepMsg hi hl h
  · exact ledgerInv_frame (qEffect_frame (govStep_q h)) hi.core.fpool hl

theorem ledgerInv_run : ∀ (ops : List Op) (s : State), Inv s → LedgerInv s → LedgerInv (run s ops)
  | [], _, _, hl => hl
  | op :: ops, s, hi, hl => by
    show LedgerInv (run (apply s op) ops)
    exact ledgerInv_run ops _ (inv_apply s op hi) (ledgerInv_apply s op hi hl)

theorem ledgerInv_genesis {s : State} (hg : C05.Genesis s) : LedgerInv s := by
  obtain ⟨_, hf, _, hlg, _⟩ := hg
  refine ⟨?_, ?_⟩
  · intro k
    show C06.LedgerFair (AMap.getD s.ledger k {})
    rw [hlg]; exact ledgerFair_default
  · intro a id f p h; unfold getFarmer at h; rw [hf] at h; cases h

end Irismod.Proofs.Farm
