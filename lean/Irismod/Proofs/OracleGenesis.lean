/-
Helper lemmas for C12 (oracle slice): the genesis model `Irismod.OracleGen` (ExportGenesis /
ValidateGenesis / InitGenesis on top of the oracle state machine).

* the store order of the feed table (`storeOrder`): same bindings, strictly ascending names;
* what `ExportGenesis` lists; what `InitGenesis` writes (feeds, values under ONE key, index);
* the validity invariant of stored feeds (`FeedsOk`: what `MsgCreateFeed` / `MsgEditFeed`
  `ValidateBasic` enforce), inductive over every operation.
-/
import Irismod.Props.C17
import Irismod.Model.OracleGenesis

namespace Irismod.Proofs.OracleGen
open Irismod Irismod.Oracle Irismod.OracleGen Irismod.Spec.C17 Irismod.Proofs.Oracle

/-! ### strings -/

theorem str_lt_of_not {a b : String} (h1 : ¬ a < b) (h2 : a ≠ b) : b < a := by
  by_cases h : b < a
  · exact h
  · exact absurd (String.le_antisymm (String.not_lt.mp h) (String.not_lt.mp h1)) h2

theorem str_ne_of_lt {a b : String} (h : a < b) : a ≠ b := by
  intro e; subst e; exact String.lt_irrefl _ h

/-! ### store order of the feed table -/

/-- strictly ascending keys -/
def Asc : List (Name × Feed) → Prop
  | [] => True
  | e :: t => (∀ e' ∈ t, e.1 < e'.1) ∧ Asc t

theorem get?_insertFeed (k : Name) (f : Feed) (l : List (Name × Feed)) (x : Name) :
    AMap.get? (insertFeed k f l) x = if k = x then some f else AMap.get? l x := by
  induction l with
  | nil => simp [insertFeed, AMap.get?]
  | cons hd t ih =>
    obtain ⟨k', f'⟩ := hd
    unfold insertFeed
    split
    · simp [AMap.get?]
    · split
      · rename_i _ h
        subst h
        by_cases hx : k = x <;> simp [AMap.get?, hx]
      · rename_i _ h2
        by_cases hx : k' = x
        · have : k ≠ x := fun e => h2 (e.trans hx.symm)
          simp [AMap.get?, hx, this]
        · simp [AMap.get?, hx, ih]

theorem get?_storeOrder (m : AMap Name Feed) (x : Name) : AMap.get? (storeOrder m) x = AMap.get? m x := by
  induction m with
  | nil => rfl
  | cons hd t ih =>
    obtain ⟨k, f⟩ := hd
    simp only [storeOrder, get?_insertFeed, AMap.get?, ih]

theorem mem_insertFeed {k : Name} {f : Feed} {l : List (Name × Feed)} {e : Name × Feed}
    (h : e ∈ insertFeed k f l) : e = (k, f) ∨ e ∈ l := by
  induction l with
  | nil => simp [insertFeed] at h; exact Or.inl h
  | cons hd t ih =>
    obtain ⟨k', f'⟩ := hd
    unfold insertFeed at h
    split at h
    · simp only [List.mem_cons] at h ⊢
      exact h
    · split at h
      · simp only [List.mem_cons] at h ⊢
        rcases h with h | h
        · exact Or.inl h
        · exact Or.inr (Or.inr h)
      · simp only [List.mem_cons] at h ⊢
        rcases h with h | h
        · exact Or.inr (Or.inl h)
        · rcases ih h with h | h
          · exact Or.inl h
          · exact Or.inr (Or.inr h)

theorem asc_insertFeed (k : Name) (f : Feed) (l : List (Name × Feed)) (h : Asc l) : Asc (insertFeed k f l) := by
  induction l with
  | nil => simp [insertFeed, Asc]
  | cons hd t ih =>
    obtain ⟨k', f'⟩ := hd
    obtain ⟨h1, h2⟩ := h
    unfold insertFeed
    split
    · rename_i hlt
      refine ⟨?_, h1, h2⟩
      intro e' he'
      simp only [List.mem_cons] at he'
      rcases he' with rfl | he'
      · exact hlt
      · exact String.lt_trans hlt (h1 e' he')
    · split
      · rename_i _ he
        subst he
        exact ⟨h1, h2⟩
      · rename_i hn1 hn2
        refine ⟨?_, ih h2⟩
        intro e' he'
        rcases mem_insertFeed he' with rfl | he'
        · exact str_lt_of_not hn1 hn2
        · exact h1 e' he'

theorem asc_storeOrder (m : AMap Name Feed) : Asc (storeOrder m) := by
  induction m with
  | nil => exact True.intro
  | cons hd t ih => exact asc_insertFeed _ _ _ ih

/-- the table in store order is its own store order -/
theorem storeOrder_of_asc (l : List (Name × Feed)) (h : Asc l) : storeOrder l = l := by
  induction l with
  | nil => rfl
  | cons hd t ih =>
    obtain ⟨k, f⟩ := hd
    obtain ⟨h1, h2⟩ := h
    simp only [storeOrder, ih h2]
    cases t with
    | nil => rfl
    | cons hd2 t2 =>
      obtain ⟨k2, f2⟩ := hd2
      have : k < k2 := h1 (k2, f2) (by simp)
      simp [insertFeed, this]

theorem asc_mem_get? {l : List (Name × Feed)} (h : Asc l) {k : Name} {f : Feed} (hm : (k, f) ∈ l) :
    AMap.get? l k = some f := by
  induction l with
  | nil => cases hm
  | cons hd t ih =>
    obtain ⟨k', f'⟩ := hd
    obtain ⟨h1, h2⟩ := h
    simp only [List.mem_cons] at hm
    rcases hm with hm | hm
    · cases hm; simp [AMap.get?]
    · have : k' ≠ k := str_ne_of_lt (h1 (k, f) hm)
      simp [AMap.get?, this, ih h2 hm]

theorem mem_storeOrder {m : AMap Name Feed} {k : Name} {f : Feed} (h : (k, f) ∈ storeOrder m) :
    AMap.get? m k = some f := by
  rw [← get?_storeOrder]; exact asc_mem_get? (asc_storeOrder m) h

theorem mem_of_get? {l : List (Name × Feed)} {k : Name} {f : Feed} (h : AMap.get? l k = some f) : (k, f) ∈ l := by
  induction l with
  | nil => simp [AMap.get?] at h
  | cons hd t ih =>
    obtain ⟨k', f'⟩ := hd
    by_cases hk : k' = k
    · simp [AMap.get?, hk] at h; subst hk; subst h; simp
    · simp only [AMap.get?, hk, if_false] at h
      exact List.mem_cons_of_mem _ (ih h)

theorem storeOrder_mem {m : AMap Name Feed} {k : Name} {f : Feed} (h : AMap.get? m k = some f) :
    (k, f) ∈ storeOrder m := by
  apply mem_of_get?; rw [get?_storeOrder]; exact h

/-! ### ExportGenesis -/

/-- strictly ascending entry names -/
def NamesAsc : Genesis → Prop
  | [] => True
  | e :: t => (∀ e' ∈ t, e.name < e'.name) ∧ NamesAsc t

theorem mem_exportEntries {s : State} {l : List (Name × Feed)} {e : Entry} (h : e ∈ exportEntries s l) :
    (e.name, e.feed) ∈ l ∧ ∃ c, AMap.get? s.ctxs e.name = some c ∧ e.state = c.state ∧ e.values = viewOf s e.name := by
  induction l with
  | nil => cases h
  | cons hd t ih =>
    obtain ⟨n, f⟩ := hd
    unfold exportEntries at h
    split at h
    · rename_i c hc
      simp only [List.mem_cons] at h
      rcases h with rfl | h
      · exact ⟨by simp, c, hc, rfl, rfl⟩
      · obtain ⟨h1, h2⟩ := ih h
        exact ⟨List.mem_cons_of_mem _ h1, h2⟩
    · obtain ⟨h1, h2⟩ := ih h
      exact ⟨List.mem_cons_of_mem _ h1, h2⟩

theorem exportEntries_mem {s : State} {l : List (Name × Feed)} {n : Name} {f : Feed} {c : Ctx}
    (h : (n, f) ∈ l) (hc : AMap.get? s.ctxs n = some c) :
    ({ name := n, feed := f, values := viewOf s n, state := c.state } : Entry) ∈ exportEntries s l := by
  induction l with
  | nil => cases h
  | cons hd t ih =>
    obtain ⟨n', f'⟩ := hd
    simp only [List.mem_cons] at h
    unfold exportEntries
    rcases h with h | h
    · cases h
      simp [hc]
    · split
      · exact List.mem_cons_of_mem _ (ih h)
      · exact ih h

theorem namesAsc_exportEntries (s : State) (l : List (Name × Feed)) (h : Asc l) : NamesAsc (exportEntries s l) := by
  induction l with
  | nil => exact True.intro
  | cons hd t ih =>
    obtain ⟨n, f⟩ := hd
    obtain ⟨h1, h2⟩ := h
    unfold exportEntries
    split
    · refine ⟨?_, ih h2⟩
      intro e' he'
      exact h1 _ (mem_exportEntries he').1
    · exact ih h2

/-- the (name, feed) table of a document -/
def feedList (g : Genesis) : List (Name × Feed) := g.map fun e => (e.name, e.feed)

theorem feedList_exportEntries (s : State) (l : List (Name × Feed))
    (h : ∀ p ∈ l, (AMap.get? s.ctxs p.1).isSome) : feedList (exportEntries s l) = l := by
  induction l with
  | nil => rfl
  | cons hd t ih =>
    obtain ⟨n, f⟩ := hd
    have hh := h (n, f) (by simp)
    have ht : ∀ p ∈ t, (AMap.get? s.ctxs p.1).isSome := fun p hp => h p (List.mem_cons_of_mem _ hp)
    unfold exportEntries
    cases hc : AMap.get? s.ctxs n with
    | none => simp [hc] at hh
    | some c =>
      have := ih ht
      simp only [feedList, List.map_cons] at this ⊢
      rw [this]

/-- the document depends on the feed table in store order, the contexts and the value views only -/
theorem exportGenesis_congr {a b : State} (hf : storeOrder a.feeds = storeOrder b.feeds)
    (hc : ∀ n, AMap.get? a.ctxs n = AMap.get? b.ctxs n) (hv : ∀ n, viewOf a n = viewOf b n) :
    exportGenesis a = exportGenesis b := by
  unfold exportGenesis
  rw [hf]
  generalize storeOrder b.feeds = l
  induction l with
  | nil => rfl
  | cons hd t ih =>
    obtain ⟨n, f⟩ := hd
    unfold exportEntries
    rw [hc n, hv n, ih]

/-! ### the value writes of InitGenesis: every value of an entry under ONE key -/

/-- one `SetFeedValue` per value, all under the key `b` -/
def importVals (vals : List (Nat × Value)) (b h : Nat) (vs : List Value) : List (Nat × Value) :=
  vs.foldl (fun l v => setFeedValue l b h v) vals

theorem setFeedValue_nil (b h : Nat) (v : Value) : setFeedValue [] b h v = [(b, v)] := by
  simp [setFeedValue, insertKey]

theorem setFeedValue_single (b h : Nat) (v0 v : Value) : setFeedValue [(b, v0)] b h v = [(b, v)] := by
  unfold setFeedValue
  generalize ([(b, v0)] : List (Nat × Value)).length + 1 - h = k
  cases k <;> simp [insertKey]

/-- the last element of `vs`, or `d` when there is none -/
def lastOr : List Value → Value → Value
  | [], d => d
  | a :: t, _ => lastOr t a

theorem getLast?_cons_lastOr : ∀ (t : List Value) (v : Value), (v :: t).getLast? = some (lastOr t v)
  | [], _ => rfl
  | a :: t, v => by rw [List.getLast?_cons_cons]; exact getLast?_cons_lastOr t a

theorem importVals_single (b h : Nat) : ∀ (vs : List Value) (v0 : Value),
    importVals [(b, v0)] b h vs = [(b, lastOr vs v0)]
  | [], _ => rfl
  | v :: t, v0 => by
    have := importVals_single b h t v
    unfold importVals at this ⊢
    simp only [List.foldl_cons, setFeedValue_single]
    exact this

/-- whatever the exported list, an emptied feed ends with at most ONE value: the last one
written (finding F-gen-2) -/
theorem importVals_nil (b h : Nat) (vs : List Value) :
    importVals [] b h vs = (vs.getLast?.map fun v => (b, v)).toList := by
  cases vs with
  | nil => rfl
  | cons v t =>
    have := importVals_single b h t v
    unfold importVals at this ⊢
    simp only [List.foldl_cons, setFeedValue_nil]
    rw [this, getLast?_cons_lastOr]
    rfl

theorem view_importVals_nil (b h : Nat) (vs : List Value) : view (importVals [] b h vs) = vs.getLast?.toList := by
  rw [importVals_nil]
  cases vs.getLast? <;> rfl

/-- the `SetFeedValue` writes of one entry -/
def setValues (s : State) (n : Name) (b h : Nat) (vs : List Value) : State :=
  vs.foldl (fun st v => setValue st n b h v) s

theorem setValues_fields (n : Name) (b h : Nat) : ∀ (vs : List Value) (s : State),
    (setValues s n b h vs).feeds = s.feeds ∧ (setValues s n b h vs).ctxs = s.ctxs ∧
    (setValues s n b h vs).running = s.running ∧ (setValues s n b h vs).paused = s.paused ∧
    (setValues s n b h vs).now = s.now
  | [], _ => ⟨rfl, rfl, rfl, rfl, rfl⟩
  | v :: t, s => by
    have := setValues_fields n b h t (setValue s n b h v)
    simpa [setValues, setValue] using this

theorem valuesOf_setValues_self (n : Name) (b h : Nat) : ∀ (vs : List Value) (s : State),
    valuesOf (setValues s n b h vs) n = importVals (valuesOf s n) b h vs
  | [], _ => rfl
  | v :: t, s => by
    have := valuesOf_setValues_self n b h t (setValue s n b h v)
    unfold setValues importVals at this ⊢
    simp only [List.foldl_cons]
    rw [this]
    unfold setValue
    rw [Props.C17.valuesOf_set_self]

theorem valuesOf_setValues_other (n m : Name) (b h : Nat) (hm : n ≠ m) : ∀ (vs : List Value) (s : State),
    valuesOf (setValues s n b h vs) m = valuesOf s m
  | [], _ => rfl
  | v :: t, s => by
    have := valuesOf_setValues_other n m b h hm t (setValue s n b h v)
    unfold setValues at this ⊢
    simp only [List.foldl_cons]
    rw [this]
    unfold setValue
    rw [Props.C17.valuesOf_set_other _ _ _ _ hm]

/-! ### the writes of one entry -/

theorem importOne_eq (batchOf : Name → Nat) (s : State) (e : Entry) :
    importOne batchOf s e =
      enqueueState (setValues { s with feeds := AMap.set s.feeds e.name e.feed } e.name (batchOf e.name) e.feed.hist e.values)
        e.name e.state := rfl

theorem enqueueState_fields (s : State) (n : Name) (st : CtxState) :
    (enqueueState s n st).feeds = s.feeds ∧ (enqueueState s n st).ctxs = s.ctxs ∧
    (enqueueState s n st).values = s.values ∧ (enqueueState s n st).now = s.now := by
  unfold enqueueState; split <;> exact ⟨rfl, rfl, rfl, rfl⟩

theorem importOne_feeds (batchOf : Name → Nat) (s : State) (e : Entry) :
    (importOne batchOf s e).feeds = AMap.set s.feeds e.name e.feed := by
  rw [importOne_eq, (enqueueState_fields _ _ _).1, (setValues_fields _ _ _ _ _).1]

theorem importOne_ctxs (batchOf : Name → Nat) (s : State) (e : Entry) : (importOne batchOf s e).ctxs = s.ctxs := by
  rw [importOne_eq, (enqueueState_fields _ _ _).2.1, (setValues_fields _ _ _ _ _).2.1]

theorem importOne_now (batchOf : Name → Nat) (s : State) (e : Entry) : (importOne batchOf s e).now = s.now := by
  rw [importOne_eq, (enqueueState_fields _ _ _).2.2.2, (setValues_fields _ _ _ _ _).2.2.2.2]

theorem valuesOf_enqueueState (s : State) (n : Name) (st : CtxState) (m : Name) :
    valuesOf (enqueueState s n st) m = valuesOf s m := by
  unfold valuesOf; rw [(enqueueState_fields _ _ _).2.2.1]

theorem importOne_values_self (batchOf : Name → Nat) (s : State) (e : Entry) :
    valuesOf (importOne batchOf s e) e.name = importVals (valuesOf s e.name) (batchOf e.name) e.feed.hist e.values := by
  rw [importOne_eq, valuesOf_enqueueState, valuesOf_setValues_self]
  rfl

theorem importOne_values_other (batchOf : Name → Nat) (s : State) (e : Entry) (m : Name) (hm : e.name ≠ m) :
    valuesOf (importOne batchOf s e) m = valuesOf s m := by
  rw [importOne_eq, valuesOf_enqueueState, valuesOf_setValues_other _ _ _ _ hm]
  rfl

theorem importOne_running (batchOf : Name → Nat) (s : State) (e : Entry) (x : Name) :
    x ∈ (importOne batchOf s e).running ↔ x ∈ s.running ∨ (x = e.name ∧ e.state = .running) := by
  rw [importOne_eq]
  unfold enqueueState
  split
  · rename_i h
    simp only [mem_enqueue, (setValues_fields _ _ _ _ _).2.2.1, h, and_true]
    exact Or.comm
  · rename_i h
    simp only [(setValues_fields _ _ _ _ _).2.2.1, h, and_false, or_false]

theorem importOne_paused (batchOf : Name → Nat) (s : State) (e : Entry) (x : Name) :
    x ∈ (importOne batchOf s e).paused ↔ x ∈ s.paused ∨ (x = e.name ∧ e.state ≠ .running) := by
  rw [importOne_eq]
  unfold enqueueState
  split
  · rename_i h
    simp only [(setValues_fields _ _ _ _ _).2.2.2.1, h, ne_eq, not_true_eq_false, and_false, or_false]
  · rename_i h
    simp only [mem_enqueue, (setValues_fields _ _ _ _ _).2.2.2.1, ne_eq, h, not_false_eq_true, and_true]
    exact Or.comm

/-! ### the writes of a whole document -/

/-- the state after the writes of every entry (no lookup failure) -/
def importAll (batchOf : Name → Nat) (s : State) (g : Genesis) : State := g.foldl (importOne batchOf) s

theorem importAll_ctxs (batchOf : Name → Nat) : ∀ (g : Genesis) (s : State), (importAll batchOf s g).ctxs = s.ctxs
  | [], _ => rfl
  | e :: r, s => by
    have := importAll_ctxs batchOf r (importOne batchOf s e)
    unfold importAll at this ⊢
    rw [List.foldl_cons, this, importOne_ctxs]

theorem importAll_now (batchOf : Name → Nat) : ∀ (g : Genesis) (s : State), (importAll batchOf s g).now = s.now
  | [], _ => rfl
  | e :: r, s => by
    have := importAll_now batchOf r (importOne batchOf s e)
    unfold importAll at this ⊢
    rw [List.foldl_cons, this, importOne_now]

/-- `InitGenesis` succeeds on every document whose feeds' request contexts exist -/
theorem importEntries_ok (batchOf : Name → Nat) : ∀ (g : Genesis) (s : State),
    (∀ e ∈ g, (AMap.get? s.ctxs e.name).isSome) → importEntries batchOf s g = .ok (importAll batchOf s g)
  | [], _, _ => rfl
  | e :: r, s, h => by
    have he := h e (by simp)
    unfold importEntries importEntry
    cases hc : AMap.get? s.ctxs e.name with
    | none => simp [hc] at he
    | some c =>
      simp only
      have := importEntries_ok batchOf r (importOne batchOf s e) (by
        intro e' he'
        rw [importOne_ctxs]
        exact h e' (List.mem_cons_of_mem _ he'))
      rw [this]
      rfl

theorem importAll_running (batchOf : Name → Nat) (x : Name) : ∀ (g : Genesis) (s : State),
    x ∈ (importAll batchOf s g).running ↔ x ∈ s.running ∨ ∃ e ∈ g, x = e.name ∧ e.state = .running
  | [], _ => by simp [importAll]
  | e :: r, s => by
    have := importAll_running batchOf x r (importOne batchOf s e)
    unfold importAll at this ⊢
    rw [List.foldl_cons, this, importOne_running]
    simp only [List.mem_cons, exists_eq_or_imp, or_assoc]

theorem importAll_paused (batchOf : Name → Nat) (x : Name) : ∀ (g : Genesis) (s : State),
    x ∈ (importAll batchOf s g).paused ↔ x ∈ s.paused ∨ ∃ e ∈ g, x = e.name ∧ e.state ≠ .running
  | [], _ => by simp [importAll]
  | e :: r, s => by
    have := importAll_paused batchOf x r (importOne batchOf s e)
    unfold importAll at this ⊢
    rw [List.foldl_cons, this, importOne_paused]
    simp only [List.mem_cons, exists_eq_or_imp, or_assoc]

theorem importAll_values_other (batchOf : Name → Nat) (m : Name) : ∀ (g : Genesis) (s : State),
    (∀ e ∈ g, e.name ≠ m) → valuesOf (importAll batchOf s g) m = valuesOf s m
  | [], _, _ => rfl
  | e :: r, s, h => by
    have := importAll_values_other batchOf m r (importOne batchOf s e) (fun e' he' => h e' (List.mem_cons_of_mem _ he'))
    unfold importAll at this ⊢
    rw [List.foldl_cons, this, importOne_values_other _ _ _ _ (h e (by simp))]

theorem importAll_values_self (batchOf : Name → Nat) : ∀ (g : Genesis) (s : State) (e : Entry),
    NamesAsc g → e ∈ g →
    valuesOf (importAll batchOf s g) e.name = importVals (valuesOf s e.name) (batchOf e.name) e.feed.hist e.values
  | [], _, _, _, h => by cases h
  | e0 :: r, s, e, ha, h => by
    obtain ⟨h1, h2⟩ := ha
    simp only [List.mem_cons] at h
    rcases h with rfl | h
    · have := importAll_values_other batchOf e.name r (importOne batchOf s e)
        (fun e' he' => (str_ne_of_lt (h1 e' he')).symm)
      unfold importAll at this ⊢
      rw [List.foldl_cons, this, importOne_values_self]
    · have := importAll_values_self batchOf r (importOne batchOf s e0) e h2 h
      unfold importAll at this ⊢
      rw [List.foldl_cons, this, importOne_values_other _ _ _ _ (str_ne_of_lt (h1 e h))]

/-! the feed table after the import of a document with ascending names into an empty table is
the document's own (name, feed) list -/

theorem set_append_fresh {V : Type} (m : AMap Name V) (k : Name) (v : V) (h : AMap.get? m k = none) :
    AMap.set m k v = m ++ [(k, v)] := by
  induction m with
  | nil => rfl
  | cons hd t ih =>
    obtain ⟨k', v'⟩ := hd
    by_cases hk : k' = k
    · simp [AMap.get?, hk] at h
    · simp only [AMap.get?, hk, if_false] at h
      simp [AMap.set, hk, ih h]

theorem get?_append_single {V : Type} (m : AMap Name V) (k x : Name) (v : V) (h : AMap.get? m x = none) (hx : k ≠ x) :
    AMap.get? (m ++ [(k, v)]) x = none := by
  induction m with
  | nil => simp [AMap.get?, hx]
  | cons hd t ih =>
    obtain ⟨k', v'⟩ := hd
    by_cases hk : k' = x
    · simp [AMap.get?, hk] at h
    · simp only [AMap.get?, hk, if_false] at h
      simp [AMap.get?, hk, ih h]

theorem importAll_feeds (batchOf : Name → Nat) : ∀ (g : Genesis) (s : State),
    NamesAsc g → (∀ e ∈ g, AMap.get? s.feeds e.name = none) →
    (importAll batchOf s g).feeds = s.feeds ++ feedList g
  | [], s, _, _ => by simp [importAll, feedList]
  | e :: r, s, ha, h => by
    obtain ⟨h1, h2⟩ := ha
    have hf : (importOne batchOf s e).feeds = s.feeds ++ [(e.name, e.feed)] := by
      rw [importOne_feeds, set_append_fresh _ _ _ (h e (by simp))]
    have := importAll_feeds batchOf r (importOne batchOf s e) h2 (by
      intro e' he'
      rw [hf]
      exact get?_append_single _ _ _ _ (h e' (List.mem_cons_of_mem _ he')) (str_ne_of_lt (h1 e' he')))
    unfold importAll at this ⊢
    rw [List.foldl_cons, this, hf]
    simp [feedList]

/-! ### validity of stored feeds: what `MsgCreateFeed` / `MsgEditFeed` `ValidateBasic` enforce -/

/-- the five validators of `ValidateGenesis` on a stored feed; `creatorOk` = the creator is an
account address (abstract) -/
def FeedOk (creatorOk : Addr → Bool) (n : Name) (f : Feed) : Prop :=
  feedNameValid n = true ∧ f.desc.length ≤ 280 ∧ 1 ≤ f.agg.length ∧ f.agg.length ≤ 10 ∧ knownAgg f.agg = true ∧
  1 ≤ f.hist ∧ f.hist ≤ 100 ∧ creatorOk f.creator = true

def FeedsOk (creatorOk : Addr → Bool) (s : State) : Prop :=
  ∀ n f, AMap.get? s.feeds n = some f → FeedOk creatorOk n f

/-- the only way a creator enters the store: the signer of an accepted `MsgCreateFeed`, whose
`ValidateBasic` checked the address -/
def OpOk (creatorOk : Addr → Bool) : Op → Prop
  | .create m => creatorOk m.creator = true
  | _ => True

theorem feedsOk_of_feeds {creatorOk : Addr → Bool} {s s' : State} (h : s'.feeds = s.feeds) (hf : FeedsOk creatorOk s) :
    FeedsOk creatorOk s' := by
  unfold FeedsOk; rw [h]; exact hf

theorem cbDone_feeds (s : State) (n : Name) (b thr : Nat) (outs : List String) : (cbDone s n b thr outs).feeds = s.feeds := by
  unfold cbDone
  split
  · rcases Props.C17.handlerResponse_cases s n b outs with h | ⟨f, d, _, _, _, _, h⟩ <;> rw [h]
  · rfl

theorem cbState_feeds (s : State) (n : Name) (to : CtxState) : (cbState s n to).feeds = s.feeds := by
  unfold cbState
  split
  · rfl
  · split
    · rfl
    · cases to <;> rfl

theorem applyCbs_feeds : ∀ (cbs : List Cb) (s : State), (applyCbs s cbs).feeds = s.feeds
  | [], _ => rfl
  | cb :: r, s => by
    have := applyCbs_feeds r (applyCb s cb)
    unfold applyCbs at this ⊢
    rw [List.foldl_cons, this]
    cases cb with
    | done f b t o => exact cbDone_feeds s f b t o
    | state f to => exact cbState_feeds s f to

theorem feedsOk_step {creatorOk : Addr → Bool} (s s' : State) (op : Op) (hf : FeedsOk creatorOk s) (ho : OpOk creatorOk op)
    (h : step s op = .ok s') : FeedsOk creatorOk s' := by
  cases op with
  | create m =>
    obtain ⟨hb, _, _, rfl⟩ := Props.C17.stepCreate_ok (by simpa [step] using h)
    simp only [createBasicOk, Bool.and_eq_true, decide_eq_true_eq] at hb
    intro n f hn
    by_cases hx : m.name = n
    · subst hx
      simp only [AMap.get?_set_self] at hn
      cases hn
      exact ⟨hb.1.1.1.1.1.1.1.1.1.1.1.1, hb.1.1.1.1.1.1.1.1.1.1.1.2, hb.1.1.1.1.1.2, hb.1.1.1.1.2, hb.1.1.1.2,
        hb.1.1.1.1.1.1.1.1.1.2, hb.1.1.1.1.1.1.1.1.2, ho⟩
    · simp only [AMap.get?_set_other _ _ _ _ hx] at hn
      exact hf n f hn
  | start n a =>
    obtain ⟨_, _, _, _, _, _, rfl⟩ := Props.C17.stepStart_ok (by simpa [step] using h)
    exact feedsOk_of_feeds rfl hf
  | pause n a =>
    obtain ⟨_, _, _, _, _, _, rfl⟩ := Props.C17.stepPause_ok (by simpa [step] using h)
    exact feedsOk_of_feeds rfl hf
  | edit m =>
    obtain ⟨f0, c, c', hb, hf0, _, _, _, rfl⟩ := Props.C17.stepEdit_ok (by simpa [step] using h)
    simp only [editBasicOk, Bool.and_eq_true, Bool.or_eq_true, decide_eq_true_eq] at hb
    have hold := hf m.name f0 hf0
    intro n f hn
    by_cases hx : m.name = n
    · subst hx
      simp only [AMap.get?_set_self] at hn
      cases hn
      refine ⟨hold.1, ?_, hold.2.2.1, hold.2.2.2.1, hold.2.2.2.2.1, ?_, ?_, hold.2.2.2.2.2.2.2⟩
      · show (if m.desc ≠ doNotModify then m.desc else f0.desc).length ≤ 280
        split
        · exact hb.1.1.1.1.2
        · exact hold.2.1
      · show 1 ≤ (if 0 < m.hist then m.hist else f0.hist)
        split
        · omega
        · exact hold.2.2.2.2.2.1
      · show (if 0 < m.hist then m.hist else f0.hist) ≤ 100
        split
        · rcases hb.1.1.1.2 with h0 | h0
          · omega
          · exact h0.2
        · exact hold.2.2.2.2.2.2.1
    · simp only [AMap.get?_set_other _ _ _ _ hx] at hn
      exact hf n f hn
  | respond acc cbs =>
    simp only [step] at h
    split at h
    · cases h; exact feedsOk_of_feeds (applyCbs_feeds cbs s) hf
    · cases h
  | block dt cbs =>
    simp only [step] at h
    cases h
    exact feedsOk_of_feeds (applyCbs_feeds cbs s) hf
  | bank => simp only [step] at h; cases h; exact hf

theorem feedsOk_apply {creatorOk : Addr → Bool} (s : State) (op : Op) (hf : FeedsOk creatorOk s) (ho : OpOk creatorOk op) :
    FeedsOk creatorOk (apply s op) := by
  unfold apply
  cases h : step s op with
  | ok s' => exact feedsOk_step s s' op hf ho h
  | error e => exact hf

theorem feedsOk_run {creatorOk : Addr → Bool} : ∀ (ops : List Op) (s : State), FeedsOk creatorOk s →
    (∀ op ∈ ops, OpOk creatorOk op) → FeedsOk creatorOk (run s ops)
  | [], _, hf, _ => hf
  | op :: r, s, hf, ho => by
    have := feedsOk_run r (apply s op) (feedsOk_apply s op hf (ho op (by simp)))
      (fun o h => ho o (List.mem_cons_of_mem _ h))
    simpa [run] using this

/-! ### the re-imported state -/

/-- the state `InitGenesis(ExportGenesis(s))` leaves on the emptied oracle store -/
def imp (batchOf : Name → Nat) (s : State) : State := importAll batchOf (wipe s) (exportGenesis s)

theorem export_ctx_found (s : State) : ∀ e ∈ exportGenesis s, (AMap.get? (wipe s).ctxs e.name).isSome := by
  intro e he
  obtain ⟨_, c, hc, _⟩ := mem_exportEntries he
  show (AMap.get? s.ctxs e.name).isSome
  simp [hc]

theorem export_valid {creatorOk : Addr → Bool} (s : State) (hf : FeedsOk creatorOk s) :
    validateGenesis creatorOk (exportGenesis s) = true := by
  unfold validateGenesis
  rw [List.all_eq_true]
  intro e he
  obtain ⟨h1, _⟩ := mem_exportEntries he
  obtain ⟨a1, a2, a3, a4, a5, a6, a7, a8⟩ := hf _ _ (mem_storeOrder h1)
  simp [entryValid, a1, a2, a3, a4, a5, a6, a7, a8]

theorem reimport_eq {creatorOk : Addr → Bool} (batchOf : Name → Nat) (s : State) (hf : FeedsOk creatorOk s) :
    reimport creatorOk batchOf s = .ok (imp batchOf s) := by
  unfold reimport importGenesis
  rw [export_valid s hf]
  exact importEntries_ok batchOf _ _ (export_ctx_found s)

theorem imp_ctxs (batchOf : Name → Nat) (s : State) : (imp batchOf s).ctxs = s.ctxs := importAll_ctxs _ _ _

theorem imp_now (batchOf : Name → Nat) (s : State) : (imp batchOf s).now = s.now := importAll_now _ _ _

theorem namesAsc_export (s : State) : NamesAsc (exportGenesis s) :=
  namesAsc_exportEntries s _ (asc_storeOrder _)

/-- the feed table after the round trip is the old table in store order -/
theorem imp_feeds (batchOf : Name → Nat) (s : State) (hw : WF s) : (imp batchOf s).feeds = storeOrder s.feeds := by
  unfold imp
  rw [importAll_feeds batchOf _ _ (namesAsc_export s) (fun _ _ => rfl)]
  show [] ++ feedList (exportEntries s (storeOrder s.feeds)) = _
  rw [List.nil_append, feedList_exportEntries]
  intro p hp
  obtain ⟨k, f⟩ := p
  have := mem_storeOrder hp
  exact (hw.1 k).mp (by simp [this])

theorem imp_get?_feeds (batchOf : Name → Nat) (s : State) (hw : WF s) (n : Name) :
    AMap.get? (imp batchOf s).feeds n = AMap.get? s.feeds n := by
  rw [imp_feeds batchOf s hw, get?_storeOrder]

/-- an exported entry for every feed with a request context -/
theorem export_has (s : State) {n : Name} {f : Feed} {c : Ctx} (hf : AMap.get? s.feeds n = some f)
    (hc : AMap.get? s.ctxs n = some c) :
    ({ name := n, feed := f, values := viewOf s n, state := c.state } : Entry) ∈ exportGenesis s :=
  exportEntries_mem (storeOrder_mem hf) hc

theorem export_name_feed {s : State} {e : Entry} (he : e ∈ exportGenesis s) : AMap.get? s.feeds e.name = some e.feed :=
  mem_storeOrder (mem_exportEntries he).1

/-- **the values after the round trip**: the stored entries of a feed are exactly ONE — the
oldest stored value, under the request context's current batch counter — or none -/
theorem imp_values (batchOf : Name → Nat) (s : State) (hw : WF s) (hb : Bounded s) (n : Name) :
    valuesOf (imp batchOf s) n = ((valuesOf s n).head?.map fun e => (batchOf n, e.2)).toList := by
  cases hf : AMap.get? s.feeds n with
  | none =>
    have h0 : valuesOf s n = [] := hb.2 n hf
    unfold imp
    rw [importAll_values_other, h0]
    · rfl
    · intro e he hn
      have := export_name_feed he
      rw [hn, hf] at this; cases this
  | some f =>
    have hc : (AMap.get? s.ctxs n).isSome := (hw.1 n).mp (by simp [hf])
    cases hcc : AMap.get? s.ctxs n with
    | none => simp [hcc] at hc
    | some c =>
      have := importAll_values_self batchOf _ (wipe s) _ (namesAsc_export s) (export_has s hf hcc)
      unfold imp
      rw [this]
      show importVals [] (batchOf n) f.hist (viewOf s n) = _
      rw [importVals_nil]
      unfold viewOf view
      rw [List.getLast?_map, List.getLast?_reverse]
      cases (valuesOf s n).head? <;> rfl

theorem imp_view (batchOf : Name → Nat) (s : State) (hw : WF s) (hb : Bounded s) (n : Name) :
    viewOf (imp batchOf s) n = (viewOf s n).getLast?.toList := by
  unfold viewOf
  rw [imp_values batchOf s hw hb n]
  unfold view
  rw [List.getLast?_map, List.getLast?_reverse]
  cases (valuesOf s n).head? <;> rfl

theorem imp_running (batchOf : Name → Nat) (s : State) (x : Name) :
    x ∈ (imp batchOf s).running ↔
      ∃ f c, AMap.get? s.feeds x = some f ∧ AMap.get? s.ctxs x = some c ∧ c.state = .running := by
  unfold imp
  rw [importAll_running]
  constructor
  · rintro (h | ⟨e, he, rfl, hs⟩)
    · cases h
    · obtain ⟨_, c, hc, hst, _⟩ := mem_exportEntries he
      exact ⟨e.feed, c, export_name_feed he, hc, by rw [← hst]; exact hs⟩
  · rintro ⟨f, c, hf, hc, hs⟩
    exact Or.inr ⟨_, export_has s hf hc, rfl, hs⟩

theorem imp_paused (batchOf : Name → Nat) (s : State) (x : Name) :
    x ∈ (imp batchOf s).paused ↔
      ∃ f c, AMap.get? s.feeds x = some f ∧ AMap.get? s.ctxs x = some c ∧ c.state ≠ .running := by
  unfold imp
  rw [importAll_paused]
  constructor
  · rintro (h | ⟨e, he, rfl, hs⟩)
    · cases h
    · obtain ⟨_, c, hc, hst, _⟩ := mem_exportEntries he
      exact ⟨e.feed, c, export_name_feed he, hc, by rw [← hst]; exact hs⟩
  · rintro ⟨f, c, hf, hc, hs⟩
    exact Or.inr ⟨_, export_has s hf hc, rfl, hs⟩

/-- the re-imported state satisfies the C17 invariants again -/
theorem imp_inv (batchOf : Name → Nat) (s : State) (hi : Props.C17.Inv s) : Props.C17.Inv (imp batchOf s) := by
  obtain ⟨hw, hm, hb⟩ := hi
  refine ⟨⟨?_, ?_⟩, ?_, ?_, ?_⟩
  · intro n
    rw [imp_get?_feeds batchOf s hw, imp_ctxs]
    exact hw.1 n
  · intro n hn
    rw [imp_get?_feeds batchOf s hw]
    rcases hn with hn | hn
    · obtain ⟨f, _, hf, _⟩ := (imp_running batchOf s n).mp hn; simp [hf]
    · obtain ⟨f, _, hf, _⟩ := (imp_paused batchOf s n).mp hn; simp [hf]
  · intro n f c hf hc
    rw [imp_get?_feeds batchOf s hw] at hf
    rw [imp_ctxs] at hc
    rw [imp_running, imp_paused]
    constructor
    · intro hs
      refine ⟨⟨f, c, hf, hc, hs⟩, ?_⟩
      rintro ⟨_, c', _, hc', hs'⟩
      rw [hc] at hc'; cases hc'
      exact hs' hs
    · intro hs
      refine ⟨⟨f, c, hf, hc, by rw [hs]; decide⟩, ?_⟩
      rintro ⟨_, c', _, hc', hs'⟩
      rw [hc] at hc'; cases hc'
      rw [hs] at hs'; cases hs'
  · intro n f hf
    rw [imp_get?_feeds batchOf s hw] at hf
    have h1 := (hb.1 n f hf).1
    refine ⟨h1, ?_⟩
    rw [imp_values batchOf s hw hb]
    cases (valuesOf s n).head? with
    | none => simp
    | some e => simpa using h1
  · intro n hf
    rw [imp_get?_feeds batchOf s hw] at hf
    rw [imp_values batchOf s hw hb, hb.2 n hf]
    rfl

theorem imp_feedsOk {creatorOk : Addr → Bool} (batchOf : Name → Nat) (s : State) (hw : WF s) (hf : FeedsOk creatorOk s) :
    FeedsOk creatorOk (imp batchOf s) := by
  intro n f hn
  rw [imp_get?_feeds batchOf s hw] at hn
  exact hf n f hn

theorem toList_getLast?_toList {α : Type} (o : Option α) : (o.toList).getLast?.toList = o.toList := by
  cases o <;> rfl

end Irismod.Proofs.OracleGen
