/-
Association-list lemmas used by the random proofs (membership under `set`/`erase`, unique
keys, reading). Kept here because `Sdk/Map.lean` is shared.
-/
import Irismod.Sdk.Map

namespace Irismod.AMap
variable {K V : Type} [DecidableEq K]

def NodupKeys (m : AMap K V) : Prop := (m.map (·.1)).Nodup

theorem mem_set_sub {m : AMap K V} {k : K} {v : V} {e : K × V} (h : e ∈ set m k v) :
    e = (k, v) ∨ e ∈ m := by
  induction m with
  | nil => simp [set] at h; exact Or.inl h
  | cons hd t ih =>
    obtain ⟨k', v'⟩ := hd
    by_cases hk : k' = k
    · simp only [set, hk, if_true, List.mem_cons] at h
      rcases h with h | h
      · exact Or.inl h
      · exact Or.inr (List.mem_cons_of_mem _ h)
    · simp only [set, hk, if_false, List.mem_cons] at h
      rcases h with h | h
      · right; subst h; exact List.mem_cons_self
      · rcases ih h with h2 | h2
        · exact Or.inl h2
        · exact Or.inr (List.mem_cons_of_mem _ h2)

theorem key_mem_set {m : AMap K V} {k : K} {v : V} {x : K} (h : x ∈ (set m k v).map (·.1)) :
    x = k ∨ x ∈ m.map (·.1) := by
  rcases List.mem_map.mp h with ⟨e, he, rfl⟩
  rcases mem_set_sub he with h1 | h1
  · left; rw [h1]
  · right; exact List.mem_map.mpr ⟨e, h1, rfl⟩

theorem nodup_set {m : AMap K V} (hn : NodupKeys m) (k : K) (v : V) : NodupKeys (set m k v) := by
  unfold NodupKeys at *
  induction m with
  | nil => simp [set]
  | cons hd t ih =>
    obtain ⟨k', v'⟩ := hd
    simp only [List.map_cons, List.nodup_cons] at hn
    by_cases hk : k' = k
    · simp only [set, hk, if_true, List.map_cons, List.nodup_cons]
      rw [← hk]; exact hn
    · simp only [set, hk, if_false, List.map_cons, List.nodup_cons]
      refine ⟨?_, ih hn.2⟩
      intro hx
      rcases key_mem_set hx with h1 | h1
      · exact hk h1
      · exact hn.1 h1

theorem mem_erase {m : AMap K V} {k : K} {e : K × V} : e ∈ erase m k ↔ e ∈ m ∧ e.1 ≠ k := by
  induction m with
  | nil => simp [erase]
  | cons hd t ih =>
    obtain ⟨k', v'⟩ := hd
    by_cases hk : k' = k
    · simp only [erase, hk, if_true, List.mem_cons, ih]
      constructor
      · intro h; exact ⟨Or.inr h.1, h.2⟩
      · intro h
        rcases h.1 with h1 | h1
        · exact absurd (by rw [h1]) h.2
        · exact ⟨h1, h.2⟩
    · simp only [erase, hk, if_false, List.mem_cons, ih]
      constructor
      · intro h
        rcases h with h | h
        · exact ⟨Or.inl h, by rw [h]; exact hk⟩
        · exact ⟨Or.inr h.1, h.2⟩
      · intro h
        rcases h.1 with h1 | h1
        · exact Or.inl h1
        · exact Or.inr ⟨h1, h.2⟩

theorem nodup_erase {m : AMap K V} (hn : NodupKeys m) (k : K) : NodupKeys (erase m k) := by
  unfold NodupKeys at *
  induction m with
  | nil => simp [erase]
  | cons hd t ih =>
    obtain ⟨k', v'⟩ := hd
    simp only [List.map_cons, List.nodup_cons] at hn
    by_cases hk : k' = k
    · simp only [erase, hk, if_true]; exact ih hn.2
    · simp only [erase, hk, if_false, List.map_cons, List.nodup_cons]
      refine ⟨?_, ih hn.2⟩
      intro hx
      rcases List.mem_map.mp hx with ⟨e, he, hek⟩
      exact hn.1 (List.mem_map.mpr ⟨e, (mem_erase.mp he).1, hek⟩)

theorem mem_of_get? {m : AMap K V} {k : K} {v : V} (h : get? m k = some v) : (k, v) ∈ m := by
  induction m with
  | nil => simp [get?] at h
  | cons hd t ih =>
    obtain ⟨k', v'⟩ := hd
    by_cases hk : k' = k
    · simp only [get?, hk, if_true, Option.some.injEq] at h
      rw [hk, h]; exact List.mem_cons_self
    · simp only [get?, hk, if_false] at h
      exact List.mem_cons_of_mem _ (ih h)

theorem get?_of_mem {m : AMap K V} (hn : NodupKeys m) {k : K} {v : V} (h : (k, v) ∈ m) :
    get? m k = some v := by
  unfold NodupKeys at hn
  induction m with
  | nil => simp at h
  | cons hd t ih =>
    obtain ⟨k', v'⟩ := hd
    simp only [List.map_cons, List.nodup_cons] at hn
    rcases List.mem_cons.mp h with h1 | h1
    · injection h1 with h2 h3
      simp [get?, h2, h3]
    · have : k' ≠ k := by
        intro hk
        exact hn.1 (List.mem_map.mpr ⟨(k, v), h1, hk.symm⟩)
      simp only [get?, this, if_false]
      exact ih hn.2 h1

theorem get?_eq_none_of_not_mem {m : AMap K V} {k : K} (h : ∀ e ∈ m, e.1 ≠ k) : get? m k = none := by
  cases hg : get? m k with
  | none => rfl
  | some v => exact absurd rfl (h _ (mem_of_get? hg))

theorem get?_erase_self (m : AMap K V) (k : K) : get? (erase m k) k = none :=
  get?_eq_none_of_not_mem (fun _ he => (mem_erase.mp he).2)

theorem get?_erase_other (m : AMap K V) (k k2 : K) (h : k ≠ k2) : get? (erase m k) k2 = get? m k2 := by
  induction m with
  | nil => rfl
  | cons hd t ih =>
    obtain ⟨k', v'⟩ := hd
    by_cases hk : k' = k
    · have : k' ≠ k2 := by rw [hk]; exact h
      simp [erase, get?, hk, ih, h]
    · by_cases hk2 : k' = k2
      · subst hk2
        simp [erase, get?, hk]
      · simp [erase, get?, hk, hk2, ih]

end Irismod.AMap
