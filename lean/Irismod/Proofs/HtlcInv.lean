/-
The joint invariant of the HTLC model (`Inv = WF ∧ QueueInv ∧ EscrowGe ∧ CounterInv`) and its
preservation by every handler; generic "one contract changed" lemmas; inversion lemmas.
Core tactics only.
-/
import Irismod.Proofs.Htlc

namespace Irismod.Proofs.Htlc
open Irismod Irismod.Sdk Irismod.Htlc Irismod.Spec.C03 Irismod.Spec.C04

/-- the joint invariant the begin blocker relies on -/
def Inv (s : State) : Prop := WF s ∧ QueueInv s ∧ EscrowGe s ∧ CounterInv s

/-! ### one table entry changes: generic lemmas -/

theorem openEscrow_update {s s' : State} {id : Id} {c' : Contract}
    (hh : s'.htlcs = AMap.set s.htlcs id c') (d : Denom) :
    openEscrow s' d + ((AMap.get? s.htlcs id).map (escrowAmt d)).getD 0 = openEscrow s d + escrowAmt d c' := by
  unfold openEscrow; rw [hh]; exact sumBy_set _ _ _ _

theorem sumDir_update {s s' : State} {id : Id} {c' : Contract}
    (hh : s'.htlcs = AMap.set s.htlcs id c') (st : HState) (dir : Dir) (d : Denom) :
    sumDir s' st dir d + ((AMap.get? s.htlcs id).map (dirAmt st dir d)).getD 0
      = sumDir s st dir d + dirAmt st dir d c' := by
  unfold sumDir; rw [hh]; exact sumBy_set _ _ _ _

theorem supOf_set (s : State) (sp : AMap Denom Supply) (d0 : Denom) (v : Supply) (d : Denom)
    (h : sp = AMap.set s.supplies d0 v) :
    (AMap.get? sp d).getD zeroSupply = if d0 = d then v else supOf s d := by
  subst h
  rw [getS?_set]
  by_cases e : d0 = d
  · simp [e]
  · simp [e, supOf]

/-- `EscrowGe` after one entry changed: the escrow balance moved at least as much as the entry's
escrowed amount -/
theorem escrowGe_update {s s' : State} {id : Id} {c' : Contract} (hs : EscrowGe s)
    (hh : s'.htlcs = AMap.set s.htlcs id c')
    (hb : ∀ d, Bank.balOf s.bank escrow d + escrowAmt d c'
             ≤ Bank.balOf s'.bank escrow d + ((AMap.get? s.htlcs id).map (escrowAmt d)).getD 0) :
    EscrowGe s' := by
  intro d
  have h1 := openEscrow_update hh d
  have h2 := hs d
  have h3 := hb d
  omega

/-- `EscrowEq` after one entry changed -/
theorem escrowEq_update {s s' : State} {id : Id} {c' : Contract} (hs : EscrowEq s)
    (hh : s'.htlcs = AMap.set s.htlcs id c')
    (hb : ∀ d, Bank.balOf s.bank escrow d + escrowAmt d c'
             = Bank.balOf s'.bank escrow d + ((AMap.get? s.htlcs id).map (escrowAmt d)).getD 0) :
    EscrowEq s' := by
  intro d
  have h1 := openEscrow_update hh d
  have h2 := hs d
  have h3 := hb d
  omega

/-- `WF` after one entry changed and no supply record disappeared -/
theorem wf_update {s s' : State} {id : Id} {c' : Contract} (hs : WF s)
    (hh : s'.htlcs = AMap.set s.htlcs id c')
    (hsup : ∀ d, (AMap.get? s.supplies d).isSome → (AMap.get? s'.supplies d).isSome)
    (hc : c'.sender ≠ escrow ∧
      (c'.transfer = true → ∃ d n, c'.amount = [(d, n)] ∧ c'.direction ≠ .none ∧ (AMap.get? s'.supplies d).isSome) ∧
      (c'.transfer = false → c'.direction = .none)) : WF s' := by
  refine ⟨by rw [hh]; exact nodup_keys_set _ _ _ hs.1, ?_⟩
  intro id2 c2 hg
  rw [hh, get?_set] at hg
  by_cases e : id = id2
  · simp [e] at hg; subst hg; exact hc
  · simp [e] at hg
    obtain ⟨h1, h2, h3⟩ := hs.2 id2 c2 hg
    refine ⟨h1, fun ht => ?_, h3⟩
    obtain ⟨d, n, ha, hd, hsm⟩ := h2 ht
    exact ⟨d, n, ha, hd, hsup d hsm⟩

/-- `WF` when only the supplies (monotonically) or other tables changed -/
theorem wf_same {s s' : State} (hs : WF s) (hh : s'.htlcs = s.htlcs)
    (hsup : ∀ d, (AMap.get? s.supplies d).isSome → (AMap.get? s'.supplies d).isSome) : WF s' := by
  refine ⟨by rw [hh]; exact hs.1, ?_⟩
  intro id2 c2 hg
  rw [hh] at hg
  obtain ⟨h1, h2, h3⟩ := hs.2 id2 c2 hg
  refine ⟨h1, fun ht => ?_, h3⟩
  obtain ⟨d, n, ha, hd, hsm⟩ := h2 ht
  exact ⟨d, n, ha, hd, hsup d hsm⟩

theorem isSome_set (m : AMap Denom Supply) (d0 : Denom) (v : Supply) (d : Denom)
    (h : (AMap.get? m d).isSome) : (AMap.get? (AMap.set m d0 v) d).isSome := by
  rw [getS?_set]; split <;> simp [h]

/-- `QueueInv` after a fresh open contract was recorded -/
theorem queueInv_create {s s' : State} {id : Id} {c' : Contract} (hs : QueueInv s)
    (hfresh : AMap.get? s.htlcs id = none) (hopen : c'.state = .open)
    (hh : s'.htlcs = AMap.set s.htlcs id c') (hq : s'.queue = enqueue s.queue (c'.expiration, id)) :
    QueueInv s' := by
  obtain ⟨h1, h2, h3⟩ := hs
  refine ⟨by rw [hq]; exact nodup_enqueue _ _ h1, ?_, ?_⟩
  · intro id2 c2 hg ho
    rw [hh, get?_set] at hg
    rw [hq, mem_enqueue]
    by_cases e : id = id2
    · simp [e] at hg; subst hg; right; rw [e]
    · simp [e] at hg; left; exact h2 id2 c2 hg ho
  · intro h id2 hm
    rw [hq, mem_enqueue] at hm
    rw [hh, get?_set]
    rcases hm with hm | hm
    · obtain ⟨c2, hg, ho, he⟩ := h3 h id2 hm
      have : id ≠ id2 := by intro e; subst e; rw [hfresh] at hg; cases hg
      simp [this]; exact ⟨c2, hg, ho, he⟩
    · cases hm; simp; exact hopen

/-- `QueueInv` after an open contract was closed and its entry removed -/
theorem queueInv_close {s s' : State} {id : Id} {c c' : Contract} (hs : QueueInv s)
    (hget : AMap.get? s.htlcs id = some c) (hclosed : c'.state ≠ .open)
    (hh : s'.htlcs = AMap.set s.htlcs id c') (hq : s'.queue = dequeue s.queue (c.expiration, id)) :
    QueueInv s' := by
  obtain ⟨h1, h2, h3⟩ := hs
  refine ⟨by rw [hq]; exact nodup_dequeue _ _ h1, ?_, ?_⟩
  · intro id2 c2 hg ho
    rw [hh, get?_set] at hg
    rw [hq, mem_dequeue]
    by_cases e : id = id2
    · simp [e] at hg; subst hg; exact absurd ho hclosed
    · simp [e] at hg
      refine ⟨h2 id2 c2 hg ho, ?_⟩
      intro heq; exact e (Prod.mk.inj heq).2.symm
  · intro h id2 hm
    rw [hq, mem_dequeue] at hm
    obtain ⟨c2, hg, ho, he⟩ := h3 h id2 hm.1
    have : id ≠ id2 := by
      intro e; subst e
      rw [hget] at hg; cases hg
      apply hm.2; rw [he]
    rw [hh, get?_set]; simp [this]; exact ⟨c2, hg, ho, he⟩

/-- `QueueInv` when neither table changed -/
theorem queueInv_same {s s' : State} (hs : QueueInv s) (hh : s'.htlcs = s.htlcs) (hq : s'.queue = s.queue) :
    QueueInv s' := by
  unfold QueueInv at *; rw [hh, hq]; exact hs

theorem escrowGe_same {s s' : State} (hs : EscrowGe s) (hh : s'.htlcs = s.htlcs) (hb : s'.bank = s.bank) :
    EscrowGe s' := by
  intro d; have := hs d; unfold openEscrow at *; rw [hh, hb]; exact this

/-! ### inversion lemmas -/

theorem createPlain_ok {s s' : State} {id sender to coins lock ts tl}
    (h : createPlain s id sender to coins lock ts tl = .ok s') :
    ∃ b, sendCoins s.bank sender escrow coins = (b, true) ∧
      s' = record { s with bank := b } id (newContract s sender to coins lock ts tl false .none) := by
  unfold createPlain at h
  split at h
  · cases h
  · rename_i b hb; cases h; exact ⟨b, sendOk_some hb, rfl⟩

theorem createIncoming_ok {s s' : State} {id sender to d n lock ts tl a}
    (h : createIncoming s id sender to d n lock ts tl a = .ok s') :
    ∃ sup, AMap.get? s.supplies d = some sup ∧ incomingFits a sup n = true ∧
      s' = record { s with supplies := AMap.set s.supplies d { sup with incoming := sup.incoming + n } } id
        (newContract s sender to [(d, n)] lock ts tl true .incoming) := by
  unfold createIncoming at h
  split at h
  · cases h
  · rename_i sup hsup
    split at h
    · cases h
    · rename_i hf; cases h
      exact ⟨sup, hsup, by simpa using hf, rfl⟩

theorem createOutgoing_ok {s s' : State} {id sender to d n lock ts tl a}
    (h : createOutgoing s id sender to d n lock ts tl a = .ok s') :
    ∃ sup b, AMap.get? s.supplies d = some sup ∧ sup.outgoing + n ≤ sup.current ∧
      sendCoins s.bank sender escrow [(d, n)] = (b, true) ∧
      a.minLock ≤ tl ∧ tl ≤ a.maxLock ∧ a.fixedFee + a.minSwap ≤ n ∧
      s' = record { s with bank := b,
                           supplies := AMap.set s.supplies d { sup with outgoing := sup.outgoing + n } } id
        (newContract s sender to [(d, n)] lock ts tl true .outgoing) := by
  unfold createOutgoing at h
  split at h; · cases h
  rename_i hl
  split at h; · cases h
  rename_i hfee
  split at h
  · cases h
  · rename_i sup hsup
    split at h; · cases h
    rename_i hcur
    split at h
    · cases h
    · rename_i b hb; cases h
      exact ⟨sup, b, hsup, by omega, sendOk_some hb, by omega, by omega, by omega, rfl⟩

theorem claimIncoming_ok {s s' : State} {c : Contract} {d n}
    (h : claimIncoming s c d n = .ok s') :
    ∃ sup a b, AMap.get? s.supplies d = some sup ∧ n ≤ sup.incoming ∧ findAsset s.params d = some a ∧
      currentFits a sup n = true ∧
      sendCoins (mintCoins s.bank escrow c.amount) escrow c.to c.amount = (b, true) ∧
      s' = { s with bank := b, supplies := AMap.set s.supplies d (supAfterClaimIn a sup n) } := by
  unfold claimIncoming at h
  split at h; · cases h
  rename_i sup hsup
  split at h; · cases h
  rename_i hin
  split at h; · cases h
  rename_i a ha
  split at h; · cases h
  rename_i hf
  split at h
  · cases h
  · rename_i b hb; cases h
    exact ⟨sup, a, b, hsup, by omega, ha, by simpa using hf, sendOk_some hb, rfl⟩

theorem claimOutgoing_ok {s s' : State} {c : Contract} {d n}
    (h : claimOutgoing s c d n = .ok s') :
    ∃ sup b, AMap.get? s.supplies d = some sup ∧ n ≤ sup.outgoing ∧ n ≤ sup.current ∧
      burnCoins s.bank escrow c.amount = some b ∧
      s' = { s with bank := b,
                    supplies := AMap.set s.supplies d
                      { sup with outgoing := sup.outgoing - n, current := sup.current - n } } := by
  unfold claimOutgoing at h
  split at h; · cases h
  rename_i sup hsup
  split at h; · cases h
  rename_i ho
  split at h; · cases h
  rename_i hc
  split at h
  · cases h
  · rename_i b hb; cases h
    exact ⟨sup, b, hsup, by omega, by omega, hb, rfl⟩


/-! ### `CounterInv` after one entry (and possibly one supply record) changed -/

theorem counterInv_update {s s' : State} {id : Id} {c' : Contract} (hs : CounterInv s)
    (hh : s'.htlcs = AMap.set s.htlcs id c')
    (hd : ∀ d,
      (supOf s' d).incoming + ((AMap.get? s.htlcs id).map (dirAmt .open .incoming d)).getD 0
        = (supOf s d).incoming + dirAmt .open .incoming d c' ∧
      (supOf s' d).outgoing + ((AMap.get? s.htlcs id).map (dirAmt .open .outgoing d)).getD 0
        = (supOf s d).outgoing + dirAmt .open .outgoing d c' ∧
      (supOf s' d).current + dirAmt .completed .outgoing d c'
          + ((AMap.get? s.htlcs id).map (dirAmt .completed .incoming d)).getD 0
        = (supOf s d).current + ((AMap.get? s.htlcs id).map (dirAmt .completed .outgoing d)).getD 0
          + dirAmt .completed .incoming d c' ∧
      (supOf s' d).outgoing ≤ (supOf s' d).current) : CounterInv s' := by
  intro d
  obtain ⟨h1, h2, h3, h4⟩ := hs d
  obtain ⟨e1, e2, e3, e4⟩ := hd d
  have u1 := sumDir_update hh .open .incoming d
  have u2 := sumDir_update hh .open .outgoing d
  have u3 := sumDir_update hh .completed .outgoing d
  have u4 := sumDir_update hh .completed .incoming d
  refine ⟨by omega, by omega, by omega, e4⟩

theorem counterInv_same {s s' : State} (hs : CounterInv s) (hh : s'.htlcs = s.htlcs)
    (hsup : ∀ d, (supOf s' d).incoming = (supOf s d).incoming ∧ (supOf s' d).outgoing = (supOf s d).outgoing ∧
                 (supOf s' d).current = (supOf s d).current) : CounterInv s' := by
  intro d
  obtain ⟨h1, h2, h3, h4⟩ := hs d
  obtain ⟨e1, e2, e3⟩ := hsup d
  unfold sumDir at *
  rw [hh, e1, e2, e3]
  exact ⟨h1, h2, h3, h4⟩

/-! ### CreateHTLC preserves `Inv` -/

theorem inv_createPlain {s s' : State} {id sender to coins lock ts tl} (hs : Inv s)
    (hsender : sender ≠ escrow) (hfresh : AMap.get? s.htlcs id = none)
    (h : createPlain s id sender to coins lock ts tl = .ok s') : Inv s' := by
  obtain ⟨b, hb, rfl⟩ := createPlain_ok h
  obtain ⟨hwf, hq, hge, hcnt⟩ := hs
  refine ⟨?_, ?_, ?_, ?_⟩
  · exact wf_update hwf rfl (fun d hd => hd) ⟨hsender, by simp [newContract], by simp [newContract]⟩
  · exact queueInv_create hq hfresh rfl rfl rfl
  · apply escrowGe_update hge rfl
    intro d
    have := sendCoins_ok hb escrow d
    have hne : ¬ (escrow = sender) := fun e => hsender e.symm
    simp only [hne, if_false, if_true] at this
    simp [hfresh, escrowAmt, escrowed, newContract, record]
    omega
  · apply counterInv_update hcnt rfl
    intro d
    have := hcnt d
    simp [hfresh, dirAmt, newContract, record, supOf] at this ⊢
    exact this.2.2.2

theorem inv_createIncoming {s s' : State} {id sender to d0 n lock ts tl a} (hs : Inv s)
    (hsender : sender ≠ escrow) (hfresh : AMap.get? s.htlcs id = none)
    (h : createIncoming s id sender to d0 n lock ts tl a = .ok s') : Inv s' := by
  obtain ⟨sup, hsup, hfit, rfl⟩ := createIncoming_ok h
  obtain ⟨hwf, hq, hge, hcnt⟩ := hs
  refine ⟨?_, ?_, ?_, ?_⟩
  · apply wf_update hwf rfl (fun d hd => isSome_set _ _ _ _ hd)
    refine ⟨hsender, fun _ => ⟨d0, n, rfl, by simp [newContract], ?_⟩, by simp [newContract]⟩
    simp [record, AMap.get?_set_self]
  · exact queueInv_create hq hfresh rfl rfl rfl
  · apply escrowGe_update hge rfl
    intro d
    simp [hfresh, escrowAmt, escrowed, newContract, record]
  · apply counterInv_update hcnt rfl
    intro d
    have hc := hcnt d
    have hso : supOf s d0 = sup := by simp [supOf, hsup]
    simp only [supOf, record, getS?_set]
    by_cases e : d0 = d
    · subst e
      simp [hfresh, dirAmt, newContract, coinAmt, supOf, hsup] at hc ⊢
      omega
    · simp [hfresh, dirAmt, newContract, coinAmt, e, supOf] at hc ⊢
      exact hc.2.2.2

theorem inv_createOutgoing {s s' : State} {id sender to d0 n lock ts tl a} (hs : Inv s)
    (hsender : sender ≠ escrow) (hfresh : AMap.get? s.htlcs id = none)
    (h : createOutgoing s id sender to d0 n lock ts tl a = .ok s') : Inv s' := by
  obtain ⟨sup, b, hsup, hcur, hb, _, _, _, rfl⟩ := createOutgoing_ok h
  obtain ⟨hwf, hq, hge, hcnt⟩ := hs
  refine ⟨?_, ?_, ?_, ?_⟩
  · apply wf_update hwf rfl (fun d hd => isSome_set _ _ _ _ hd)
    refine ⟨hsender, fun _ => ⟨d0, n, rfl, by simp [newContract], ?_⟩, by simp [newContract]⟩
    simp [record, AMap.get?_set_self]
  · exact queueInv_create hq hfresh rfl rfl rfl
  · apply escrowGe_update hge rfl
    intro d
    have := sendCoins_ok hb escrow d
    have hne : ¬ (escrow = sender) := fun e => hsender e.symm
    simp only [hne, if_false, if_true] at this
    simp [hfresh, escrowAmt, escrowed, newContract, record]
    omega
  · apply counterInv_update hcnt rfl
    intro d
    have hc := hcnt d
    simp only [supOf, record, getS?_set]
    by_cases e : d0 = d
    · subst e
      simp [hfresh, dirAmt, newContract, coinAmt, supOf, hsup] at hc ⊢
      omega
    · simp [hfresh, dirAmt, newContract, coinAmt, e, supOf] at hc ⊢
      exact hc.2.2.2


/-- what `stepCreate` established before it dispatched -/
theorem stepCreate_ok {s s' : State} {id sender to coins lock ts tl transfer}
    (h : stepCreate s id sender to coins lock ts tl transfer = .ok s') :
    vbCreate coins lock tl transfer = true ∧ blocked to = false ∧ AMap.get? s.htlcs id = none ∧
    (if transfer then createHTLT s id sender to coins lock ts tl
     else createPlain s id sender to coins lock ts tl) = .ok s' := by
  unfold stepCreate at h
  split at h; · cases h
  rename_i hvb
  split at h; · cases h
  rename_i hbl
  split at h; · cases h
  split at h; · cases h
  rename_i hc
  exact ⟨by simpa using hvb, by simpa using hbl, contains_false (by simpa using hc), h⟩

/-- the escrow account itself is never accepted as recipient (msg_server.go guard) -/
theorem stepCreate_to {s s' : State} {id sender to coins lock ts tl transfer}
    (h : stepCreate s id sender to coins lock ts tl transfer = .ok s') : to ≠ escrow := by
  unfold stepCreate at h
  split at h; · cases h
  split at h; · cases h
  split at h; · cases h
  rename_i hto
  exact hto

/-- the two successful branches of `createHTLT` -/
theorem createHTLT_ok {s s' : State} {id sender to coins lock ts tl}
    (h : createHTLT s id sender to coins lock ts tl = .ok s') :
    ∃ d n a, coins = [(d, n)] ∧ findAsset s.params d = some a ∧ a.active = true ∧
      a.minSwap ≤ n ∧ n ≤ a.maxSwap ∧ tsOutOfRange s.time ts = false ∧
      ((sender = a.deputy ∧ to ≠ a.deputy ∧ createIncoming s id sender to d n lock ts tl a = .ok s') ∨
       (sender ≠ a.deputy ∧ to = a.deputy ∧ createOutgoing s id sender to d n lock ts tl a = .ok s')) := by
  unfold createHTLT at h
  split at h
  · rename_i d n
    split at h; · cases h
    rename_i a ha
    split at h; · cases h
    rename_i hact
    split at h; · cases h
    rename_i hrange
    split at h; · cases h
    rename_i hts
    refine ⟨d, n, a, rfl, ha, by simpa using hact, by omega, by omega, by simpa using hts, ?_⟩
    split at h
    · rename_i hdep
      split at h
      · cases h
      · rename_i hto; exact Or.inl ⟨hdep, hto, h⟩
    · rename_i hdep
      split at h
      · cases h
      · rename_i hto; exact Or.inr ⟨hdep, by simpa using hto, h⟩
  · cases h

theorem inv_stepCreate {s s' : State} {id sender to coins lock ts tl transfer} (hs : Inv s)
    (hsender : sender ≠ escrow)
    (h : stepCreate s id sender to coins lock ts tl transfer = .ok s') : Inv s' := by
  obtain ⟨_, _, hfresh, hb⟩ := stepCreate_ok h
  cases transfer with
  | false => exact inv_createPlain hs hsender hfresh hb
  | true =>
    simp only [if_true] at hb
    obtain ⟨d, n, a, _, _, _, _, _, _, hcase⟩ := createHTLT_ok hb
    rcases hcase with ⟨_, _, hc⟩ | ⟨_, _, hc⟩
    · exact inv_createIncoming hs hsender hfresh hc
    · exact inv_createOutgoing hs hsender hfresh hc

/-! ### ClaimHTLC preserves `Inv` -/

/-- what `stepClaim` established, and the funds step it ran -/
theorem stepClaim_ok {s s' : State} {id secret lk}
    (h : stepClaim s id secret lk = .ok s') :
    ∃ c s1, AMap.get? s.htlcs id = some c ∧ c.state = .open ∧ lk = c.hashLock ∧
      claimFunds s c = .ok s1 ∧ s' = close s1 id (completed c secret s.height) := by
  unfold stepClaim at h
  split at h; · cases h
  split at h
  · cases h
  · rename_i c hc
    split at h; · cases h
    rename_i hopen
    split at h; · cases h
    rename_i hlk
    split at h
    · cases h
    · rename_i s1 h1
      cases h
      exact ⟨c, s1, hc, by simpa using hopen, by simpa using hlk, h1, rfl⟩

/-- the three successful branches of `claimFunds` -/
theorem claimFunds_ok {s s1 : State} {c : Contract} (h : claimFunds s c = .ok s1) :
    (c.transfer = false ∧ ∃ b, sendCoins s.bank escrow c.to c.amount = (b, true) ∧ s1 = { s with bank := b }) ∨
    (c.transfer = true ∧ c.direction = .incoming ∧ ∃ d n r, c.amount = (d, n) :: r ∧ claimIncoming s c d n = .ok s1) ∨
    (c.transfer = true ∧ c.direction = .outgoing ∧ ∃ d n r, c.amount = (d, n) :: r ∧ claimOutgoing s c d n = .ok s1) := by
  unfold claimFunds at h
  split at h
  · rename_i ht
    split at h
    · cases h
    · rename_i hdir
      split at h
      · cases h
      · rename_i d n r hamt
        exact Or.inr (Or.inl ⟨ht, hdir, d, n, r, hamt, h⟩)
    · rename_i hdir
      split at h
      · cases h
      · rename_i d n r hamt
        exact Or.inr (Or.inr ⟨ht, hdir, d, n, r, hamt, h⟩)
  · rename_i ht
    split at h
    · cases h
    · rename_i b hb
      cases h
      exact Or.inl ⟨by simpa using ht, b, sendOk_some hb, rfl⟩

theorem close_htlcs (s1 : State) (id : Id) (c : Contract) : (close s1 id c).htlcs = AMap.set s1.htlcs id c := rfl

theorem inv_stepClaim {s s' : State} {id secret lk} (hs : Inv s)
    (h : stepClaim s id secret lk = .ok s') : Inv s' := by
  obtain ⟨c, s1, hget, hopen, _, hf, rfl⟩ := stepClaim_ok h
  obtain ⟨hwf, hq, hge, hcnt⟩ := hs
  obtain ⟨hsnd, hwt, hwp⟩ := hwf.2 id c hget
  rcases claimFunds_ok hf with ⟨ht, b, hb, rfl⟩ | ⟨ht, hdir, d0, n, r, hamt, hci⟩ | ⟨ht, hdir, d0, n, r, hamt, hco⟩
  · -- plain
    refine ⟨?_, ?_, ?_, ?_⟩
    · exact wf_update hwf rfl (fun d hd => hd) ⟨hsnd, by simp [completed, ht], by simpa [completed] using hwp⟩
    · exact queueInv_close hq hget (by simp [completed]) rfl rfl
    · apply escrowGe_update hge rfl
      intro d
      have := sendCoins_ok hb escrow d
      simp only [if_true] at this
      simp [hget, escrowAmt, escrowed, completed, hopen, ht, close]
      split at this <;> omega
    · apply counterInv_update hcnt rfl
      intro d
      have := hcnt d
      simp [hget, dirAmt, completed, ht, close, supOf] at this ⊢
      exact this.2.2.2
  · -- incoming
    obtain ⟨d1, n1, ha1, _, _⟩ := hwt ht
    rw [ha1] at hamt; cases hamt
    obtain ⟨sup, a, b, hsup, hin, ha, hfit, hb, rfl⟩ := claimIncoming_ok hci
    refine ⟨?_, ?_, ?_, ?_⟩
    · apply wf_update hwf rfl (fun d hd => isSome_set _ _ _ _ hd)
      refine ⟨hsnd, fun _ => ⟨d0, n, by simp [completed, ha1], by simp [completed, hdir], ?_⟩, by simp [completed, ht]⟩
      simp [close, AMap.get?_set_self]
    · exact queueInv_close hq hget (by simp [completed]) rfl rfl
    · apply escrowGe_update hge rfl
      intro d
      have h1 := sendCoins_ok hb escrow d
      rw [balOf_mintCoins] at h1
      simp only [if_true] at h1
      simp [hget, escrowAmt, escrowed, completed, hopen, ht, hdir, close]
      split at h1 <;> omega
    · apply counterInv_update hcnt rfl
      intro d
      have hc := hcnt d
      simp only [supOf, close, getS?_set]
      by_cases e : d0 = d
      · subst e
        simp [hget, dirAmt, completed, hopen, ht, hdir, ha1, coinAmt, supOf, hsup, supAfterClaimIn] at hc ⊢
        omega
      · simp [hget, dirAmt, completed, hopen, ht, hdir, ha1, coinAmt, e, supOf] at hc ⊢
        exact hc.2.2.2
  · -- outgoing
    obtain ⟨d1, n1, ha1, _, _⟩ := hwt ht
    rw [ha1] at hamt; cases hamt
    obtain ⟨sup, b, hsup, hout, hcur, hb, rfl⟩ := claimOutgoing_ok hco
    refine ⟨?_, ?_, ?_, ?_⟩
    · apply wf_update hwf rfl (fun d hd => isSome_set _ _ _ _ hd)
      refine ⟨hsnd, fun _ => ⟨d0, n, by simp [completed, ha1], by simp [completed, hdir], ?_⟩, by simp [completed, ht]⟩
      simp [close, AMap.get?_set_self]
    · exact queueInv_close hq hget (by simp [completed]) rfl rfl
    · apply escrowGe_update hge rfl
      intro d
      have h1 := (burnCoins_ok hb).1 escrow d
      simp only [if_true] at h1
      simp [hget, escrowAmt, escrowed, completed, hopen, ht, hdir, close]
      omega
    · apply counterInv_update hcnt rfl
      intro d
      have hc := hcnt d
      simp only [supOf, close, getS?_set]
      by_cases e : d0 = d
      · subst e
        simp [hget, dirAmt, completed, hopen, ht, hdir, ha1, coinAmt, supOf, hsup] at hc ⊢
        omega
      · simp [hget, dirAmt, completed, hopen, ht, hdir, ha1, coinAmt, e, supOf] at hc ⊢
        exact hc.2.2.2

end Irismod.Proofs.Htlc
