/-
C12 (htlc): the facts about reachable HTLC states that `ValidateGenesis` / `InitGenesis` re-check,
as an invariant `GenWF` on top of the joint invariant `Inv` of C03/C04:

* the stored parameters pass `Params.Validate`; the supply table has one record per denom; the
  previous block time is set (it is written by `InitGenesis` and by every block);
* every stored contract has a well-formed id and hash lock, a non-zero expiration height, a valid
  positive coin set, an empty secret unless completed, and — if it is an HTLT — a non-zero timestamp
  (its timestamp was checked against a block time later than 1970-01-01 00:15:00).

`GenWF` holds initially and is preserved by every operation of the alphabet (`genWF_run`).
Core tactics only.
-/
import Irismod.Proofs.HtlcStep
import Irismod.Proofs.GenesisList
import Irismod.Spec.C12_Htlc

namespace Irismod.Proofs.HtlcGen
open Irismod Irismod.Sdk Irismod.Htlc Irismod.HtlcGen Irismod.Spec.C03 Irismod.Spec.C04 Irismod.Proofs.Htlc
open Irismod.Proofs.GenesisList

/-- what `HTLC.Validate` checks on a stored contract, beyond the shape facts of `C04.WF` -/
structure CGood (id : Id) (c : Contract) : Prop where
  id_hex   : hexOk64 id = true
  lock_hex : hexOk64 c.hashLock = true
  exp      : c.expiration ≠ 0
  ts       : c.transfer = true → c.timestamp ≠ 0
  coins    : coinsValid c.amount = true
  secret   : c.state ≠ .completed → c.secret = ""

/-- 1970-01-01 00:15:01 in nanoseconds: from this block time on an accepted HTLT timestamp is ≥ 1 -/
def minTime : Nat := 901000000000

/-- module-store facts outside the contract table -/
structure Aux (s : State) : Prop where
  params : paramsValid s.params = true
  snodup : NodupKeys s.supplies
  prev   : s.prevTime.isSome = true

structure GenWF (s : State) : Prop where
  aux   : Aux s
  good  : ∀ id c, AMap.get? s.htlcs id = some c → CGood id c
  clock : minTime ≤ s.time

/-- the operations of the alphabet: module accounts do not sign (`C04.OpOk`), block times lie after
1970-01-01 00:15:01, and the id `types.GetID` derives (a SHA-256 value rendered in hex) is 64 hex
characters long — a closed fact about `Sha256.sum` / `hexOfBytes` the kernel is not asked to evaluate -/
def OpOkG : Op → Prop
  | .create sender to coins lock _ _ _ => sender ≠ escrow ∧ hexOk64 (genId lock sender to coins) = true
  | .beginBlock _ t => minTime ≤ t
  | _ => True

theorem OpOkG.opOk {op : Op} (h : OpOkG op) : OpOk op := by
  cases op <;> simp [OpOkG, OpOk] at * <;> first | exact h.1 | trivial

/-! ### `Aux` along the handlers -/

theorem aux_of_fields {s s' : State} (ha : Aux s) (h1 : s'.params = s.params) (h2 : s'.supplies = s.supplies)
    (h3 : s'.prevTime = s.prevTime) : Aux s' :=
  ⟨by rw [h1]; exact ha.params, by rw [h2]; exact ha.snodup, by rw [h3]; exact ha.prev⟩

theorem aux_set_supply {s s' : State} (ha : Aux s) (d : Denom) (v : Supply) (h1 : s'.params = s.params)
    (h2 : s'.supplies = AMap.set s.supplies d v) (h3 : s'.prevTime = s.prevTime) : Aux s' :=
  ⟨by rw [h1]; exact ha.params, by rw [h2]; exact nodupKeys_set ha.snodup d v, by rw [h3]; exact ha.prev⟩

theorem aux_markRefunded {s : State} (ha : Aux s) (id : Id) (c : Contract) : Aux (markRefunded s id c) :=
  aux_of_fields ha rfl rfl rfl

theorem aux_refundOne {s s1 : State} {id : Id} (ha : Aux s) (h : refundOne s id = .ok s1) : Aux s1 := by
  unfold refundOne at h
  split at h
  · cases h; exact ha
  · rename_i c _
    split at h
    · split at h
      · cases h; exact ha
      · split at h
        · cases h
        · rename_i d n _ _
          cases h
          unfold refundIncoming
          split
          · exact ha
          · split
            · exact ha
            · exact aux_set_supply ha d _ rfl rfl rfl
      · split at h
        · cases h
        · rename_i d n _ _
          cases h
          unfold refundOutgoing
          split
          · exact ha
          · split
            · exact ha
            · split
              · exact aux_set_supply ha d _ rfl rfl rfl
              · exact aux_set_supply ha d _ rfl rfl rfl
    · cases h
      unfold refundPlain
      split
      · exact aux_of_fields ha rfl rfl rfl
      · exact aux_of_fields ha rfl rfl rfl

theorem aux_processDue : ∀ (ids : List Id) {s s1 : State} {h : Nat}, Aux s → processDue s h ids = .ok s1 → Aux s1
  | [], s, s1, _, ha, h => by simp [processDue] at h; subst h; exact ha
  | id :: r, s, s1, hh, ha, h => by
    unfold processDue at h
    split at h
    · cases h
    · rename_i s2 h2
      exact aux_processDue r (s := { s2 with queue := dequeue s2.queue (hh, id) })
        (aux_of_fields (aux_refundOne ha h2) rfl rfl rfl) h

theorem nodupKeys_tickAll (dt : Int) : ∀ (ps : List Asset) (m : AMap Denom Supply), NodupKeys m → NodupKeys (tickAll dt ps m)
  | [], _, h => h
  | a :: r, _, h => nodupKeys_tickAll dt r _ (nodupKeys_set h a.denom _)

theorem aux_updateLimits {s : State} (ha : Aux s) : Aux (updateLimits s) := by
  unfold updateLimits
  split
  · exact ha
  · exact ⟨ha.params, nodupKeys_tickAll _ _ _ ha.snodup, rfl⟩

theorem aux_beginBlock {s s' : State} {h t : Nat} (ha : Aux s) (hr : stepBeginBlock s h t = .ok s') : Aux s' := by
  unfold stepBeginBlock at hr
  split at hr
  · cases hr
  · rename_i s1 h1
    cases hr
    exact aux_updateLimits (aux_processDue _ (s := { s with height := h, time := t })
      (aux_of_fields ha rfl rfl rfl) h1)

theorem aux_advance : ∀ (n : Nat) {s s' : State} {dt : Nat}, Aux s → advance s n dt = .ok s' → Aux s'
  | 0, s, s', _, ha, h => by simp [advance] at h; subst h; exact ha
  | n + 1, s, s', dt, ha, h => by
    unfold advance at h
    split at h
    · cases h
    · rename_i s1 h1
      exact aux_advance n (aux_beginBlock ha h1) h

theorem aux_stepCreate {s s' : State} {id sender to coins lock ts tl transfer} (ha : Aux s)
    (h : stepCreate s id sender to coins lock ts tl transfer = .ok s') : Aux s' := by
  obtain ⟨_, _, _, hb⟩ := stepCreate_ok h
  cases transfer with
  | false =>
    obtain ⟨b, _, rfl⟩ := createPlain_ok hb
    exact aux_of_fields ha rfl rfl rfl
  | true =>
    simp only [if_true] at hb
    obtain ⟨d, n, a, hcoins, _, _, _, _, _, hcase⟩ := createHTLT_ok hb
    subst hcoins
    rcases hcase with ⟨_, _, hc⟩ | ⟨_, _, hc⟩
    · obtain ⟨sup, _, _, rfl⟩ := createIncoming_ok hc
      exact aux_set_supply ha d _ rfl rfl rfl
    · obtain ⟨_, _, sup, b, _, _, _, _, rfl⟩ := createOutgoing_ok hc
      exact aux_set_supply ha d _ rfl rfl rfl

theorem aux_stepClaim {s s' : State} {id secret lk} (ha : Aux s) (h : stepClaim s id secret lk = .ok s') : Aux s' := by
  obtain ⟨c0, s1, _, _, _, hf, rfl⟩ := stepClaim_ok h
  have h1 : Aux s1 := by
    rcases claimFunds_ok hf with ⟨_, b, _, rfl⟩ | ⟨_, _, d0, n, r, _, hci⟩ | ⟨_, _, d0, n, r, _, hco⟩
    · exact aux_of_fields ha rfl rfl rfl
    · obtain ⟨_, _, _, _, _, _, _, _, rfl⟩ := claimIncoming_ok hci
      exact aux_set_supply ha d0 _ rfl rfl rfl
    · obtain ⟨_, _, _, _, _, _, rfl⟩ := claimOutgoing_ok hco
      exact aux_set_supply ha d0 _ rfl rfl rfl
  exact aux_of_fields h1 rfl rfl rfl

theorem aux_step {s s' : State} {op : Op} (ha : Aux s) (h : step s op = .ok s') : Aux s' := by
  cases op with
  | create sender to coins lock ts tl transfer => exact aux_stepCreate ha h
  | claim sender id secret => exact aux_stepClaim ha h
  | beginBlock hh t => exact aux_beginBlock ha h
  | advance n dt => exact aux_advance n ha h
  | setParams auth ps =>
    simp only [step, stepSetParams] at h
    split at h; · cases h
    rename_i hv
    split at h; · cases h
    cases h
    exact ⟨by simpa using hv, ha.snodup, ha.prev⟩

/-! ### the clock -/

theorem time_stepClaim {s s' : State} {id secret lk} (h : stepClaim s id secret lk = .ok s') : s'.time = s.time := by
  obtain ⟨c0, s1, _, _, _, hf, rfl⟩ := stepClaim_ok h
  rcases claimFunds_ok hf with ⟨_, b, _, rfl⟩ | ⟨_, _, d0, n, r, _, hci⟩ | ⟨_, _, d0, n, r, _, hco⟩
  · rfl
  · obtain ⟨_, _, _, _, _, _, _, _, rfl⟩ := claimIncoming_ok hci; rfl
  · obtain ⟨_, _, _, _, _, _, rfl⟩ := claimOutgoing_ok hco; rfl

theorem clock_advance : ∀ (n : Nat) {s s' : State} {dt : Nat}, Inv s → advance s n dt = .ok s' → s.time ≤ s'.time
  | 0, s, s', _, _, h => by simp [advance] at h; subst h; exact Nat.le_refl _
  | n + 1, s, s', dt, hs, h => by
    obtain ⟨s1, e⟩ := beginBlock_ok hs (s.height + 1) (s.time + dt)
    simp only [advance, e.run] at h
    have := clock_advance n e.inv h
    rw [e.time] at this
    omega

theorem clock_step {s s' : State} {op : Op} (hs : Inv s) (hop : OpOkG op) (hc : minTime ≤ s.time)
    (h : step s op = .ok s') : minTime ≤ s'.time := by
  cases op with
  | create sender to coins lock ts tl transfer =>
    obtain ⟨dir, b, sp, rfl⟩ := stepCreate_record h
    exact hc
  | claim sender id secret => rw [time_stepClaim h]; exact hc
  | beginBlock hh t =>
    obtain ⟨s1, e⟩ := beginBlock_ok hs hh t
    have : step s (.beginBlock hh t) = .ok s1 := e.run
    rw [this] at h; cases h
    rw [e.time]; exact hop
  | advance n dt => exact Nat.le_trans hc (clock_advance n hs h)
  | setParams auth ps =>
    simp only [step, stepSetParams] at h
    split at h; · cases h
    split at h; · cases h
    cases h; exact hc

/-! ### `CGood` along the operations -/

theorem ts_ne_zero {time ts : Nat} (hc : minTime ≤ time) (h : tsOutOfRange time ts = false) : ts ≠ 0 := by
  unfold tsOutOfRange unix at h
  unfold minTime at hc
  simp only [Bool.or_eq_false_iff, decide_eq_false_iff_not] at h
  omega

theorem cgood_new {s s' : State} {sender to coins lock ts tl transfer} {dir : Dir}
    (hc : minTime ≤ s.time) (hid : hexOk64 (genId lock sender to coins) = true)
    (h : step s (.create sender to coins lock ts tl transfer) = .ok s') :
    CGood (genId lock sender to coins) (newContract s sender to coins lock ts tl transfer dir) := by
  obtain ⟨hvb, _, _, hb⟩ := stepCreate_ok (show stepCreate s (genId lock sender to coins) sender to coins lock ts tl transfer = .ok s' from h)
  simp only [vbCreate, Bool.and_eq_true, decide_eq_true_eq] at hvb
  obtain ⟨⟨⟨⟨_, hcoins⟩, hlock⟩, hmin⟩, _⟩ := hvb
  refine ⟨hid, hlock, ?_, ?_, hcoins, fun _ => rfl⟩
  · show s.height + tl ≠ 0
    unfold minTimeLock at hmin; omega
  · intro htr
    have htr' : transfer = true := htr
    subst htr'
    simp only [if_true] at hb
    obtain ⟨d, n, a, _, _, _, _, _, hts, _⟩ := createHTLT_ok hb
    exact ts_ne_zero hc hts

theorem cgood_trans {s : State} {op : Op} {id : Id} {c c' : Contract} (t : Trans s op id c c') (hg : CGood id c) :
    CGood id c' := by
  cases t with
  | stay => exact hg
  | claimed sender secret _ _ _ =>
    exact ⟨hg.id_hex, hg.lock_hex, hg.exp, hg.ts, hg.coins, fun h => absurd rfl h⟩
  | refunded ho _ =>
    exact ⟨hg.id_hex, hg.lock_hex, hg.exp, hg.ts, hg.coins, fun _ => hg.secret (by rw [ho]; decide)⟩

theorem good_step {s s' : State} {op : Op} (hs : Inv s) (hop : OpOkG op) (hc : minTime ≤ s.time)
    (hg : ∀ id c, AMap.get? s.htlcs id = some c → CGood id c) (h : step s op = .ok s') :
    ∀ id c, AMap.get? s'.htlcs id = some c → CGood id c := by
  intro id c' hget
  cases hold : AMap.get? s.htlcs id with
  | some c =>
    obtain ⟨c'', hg'', t⟩ := step_trans hs h hold
    rw [hget] at hg''; cases hg''
    exact cgood_trans t (hg id c hold)
  | none =>
    rcases step_absent hs h hold with hn | ⟨sender, to, coins, lock, ts, tl, transfer, dir, rfl, rfl, hnew⟩
    · rw [hget] at hn; cases hn
    · rw [hget] at hnew; cases hnew
      exact cgood_new hc hop.2 h

/-! ### `GenWF` along every history -/

theorem genWF_step {s s' : State} {op : Op} (hs : Inv s) (hw : GenWF s) (hop : OpOkG op) (h : step s op = .ok s') :
    GenWF s' :=
  ⟨aux_step hw.aux h, good_step hs hop hw.clock hw.good h, clock_step hs hop hw.clock h⟩

theorem genWF_apply {s : State} {op : Op} (hs : Inv s) (hw : GenWF s) (hop : OpOkG op) : GenWF (apply s op) := by
  unfold apply
  cases h : step s op with
  | ok s' => exact genWF_step hs hw hop h
  | error e => exact hw

theorem genWF_run {s : State} (ops : List Op) (hs : Inv s) (hw : GenWF s) (hops : ∀ op ∈ ops, OpOkG op) :
    Inv (run s ops) ∧ GenWF (run s ops) := by
  induction ops generalizing s with
  | nil => exact ⟨hs, hw⟩
  | cons op r ih =>
    have hop := hops op (by simp)
    exact ih (inv_apply hs hop.opOk) (genWF_apply hs hw hop) (fun o ho => hops o (by simp [ho]))

/-- the state a chain starts from: no contract, no queue entry, no supply record; valid parameters;
the previous block time set (as `InitGenesis` does); a block time after 1970-01-01 00:15:01 -/
theorem genWF_fresh {s : State} (h1 : s.htlcs = []) (h3 : s.supplies = []) (hp : paramsValid s.params = true)
    (hprev : s.prevTime.isSome = true) (hc : minTime ≤ s.time) : GenWF s :=
  ⟨⟨hp, by unfold NodupKeys AMap.keys; rw [h3]; exact List.nodup_nil, hprev⟩,
   fun id c hg => by rw [h1] at hg; simp at hg, hc⟩


end Irismod.Proofs.HtlcGen
