/-
C08, the request outcome automaton over histories: requests enter the active set only in an end block,
stamped with that block's height; they leave it by an answer or by the expiry of their context's batch at
the request's expiration height, and never come back.
-/
import Irismod.Proofs.ServiceWF

namespace Irismod.Proofs.Service
open Irismod Irismod.Sdk Irismod.Service

/-- markers only come from the request loop, stamped with the current height -/
theorem mkRequests_active (id : CtxId) (b : Nat) (svc : String) (cons : Addr) (to : Int) :
    ∀ (ps : List Addr) (i : Nat) (s : State) (r : ReqId), r ∈ (mkRequests s id b svc cons to ps i).active →
      r ∈ s.active ∨ r.h = s.height
  | [], _, _, _, h => Or.inl h
  | p :: rest, i, s, r, h => by
    simp only [mkRequests] at h
    rcases mkRequests_active id b svc cons to rest (i + 1) _ r h with h1 | h1
    · simp only [addRequest] at h1
      split at h1
      · exact Or.inl h1
      · rw [List.mem_append, List.mem_singleton] at h1
        rcases h1 with h1 | h1
        · exact Or.inl h1
        · subst h1; exact Or.inr rfl
    · exact Or.inr h1

theorem mkRequests_mono (id : CtxId) (b : Nat) (svc : String) (cons : Addr) (to : Int) :
    ∀ (ps : List Addr) (i : Nat) (s : State) (r : ReqId), r ∈ s.active → r ∈ (mkRequests s id b svc cons to ps i).active
  | [], _, _, _, h => h
  | p :: rest, i, s, r, h => by
    simp only [mkRequests]
    apply mkRequests_mono id b svc cons to rest (i + 1)
    simp only [addRequest]
    split
    · exact h
    · exact List.mem_append_left _ h

theorem mkRequests_spec_height (id : CtxId) (b : Nat) (svc : String) (cons : Addr) (to : Int) :
    ∀ (ps : List Addr) (i : Nat) (s : State), (mkRequests s id b svc cons to ps i).height = s.height
  | [], _, _ => rfl
  | p :: rest, i, s => by
    simp only [mkRequests]
    rw [mkRequests_spec_height id b svc cons to rest (i + 1)]
    rfl

theorem newBatch_active (s : State) (id : CtxId) (r : ReqId) (h : r ∈ (newBatch s id).active) :
    r ∈ s.active ∨ r.h = s.height := by
  have hp : ∀ (t : State) (c : Ctx) (cause : String), (onPaused t id c cause).active = t.active := by
    intro t c cause; unfold onPaused; split <;> rfl
  unfold newBatch at h
  split at h
  · split at h
    · simp only [delNew] at h; rw [hp] at h; exact Or.inl h
    · split at h
      · unfold chargeAndStart at h
        split at h
        · simp only [delNew, addExp, initiateRequests, setCtx] at h
          rcases mkRequests_active _ _ _ _ _ _ _ _ r h with h1 | h1
          · exact Or.inl h1
          · exact Or.inr h1
        · simp only [delNew] at h; rw [hp] at h; exact Or.inl h
      · exact Or.inl h
  · exact Or.inl h

theorem newBatch_mono (s : State) (id : CtxId) (r : ReqId) (h : r ∈ s.active) : r ∈ (newBatch s id).active := by
  have hp : ∀ (t : State) (c : Ctx) (cause : String), (onPaused t id c cause).active = t.active := by
    intro t c cause; unfold onPaused; split <;> rfl
  unfold newBatch
  split
  · split
    · simp only [delNew]; rw [hp]; exact h
    · split
      · unfold chargeAndStart
        split
        · simp only [delNew, addExp, initiateRequests, setCtx]
          exact mkRequests_mono _ _ _ _ _ _ _ { s with bank := _ } r h
        · simp only [delNew]; rw [hp]; exact h
      · exact h
  · exact h

theorem newBatch_height (s : State) (id : CtxId) : (newBatch s id).height = s.height := by
  have hp : ∀ (t : State) (c : Ctx) (cause : String), (onPaused t id c cause).height = t.height := by
    intro t c cause; unfold onPaused; split <;> rfl
  unfold newBatch
  split
  · split
    · simp only [delNew]; rw [hp]
    · split
      · unfold chargeAndStart
        split
        · simp only [delNew, addExp, initiateRequests, setCtx]
          exact (mkRequests_spec_height _ _ _ _ _ _ _ _)
        · simp only [delNew]; rw [hp]
      · rfl
  · rfl

theorem foldl_newBatch_active : ∀ (l : List CtxId) (s : State) (r : ReqId), r ∈ (l.foldl newBatch s).active →
    r ∈ s.active ∨ r.h = s.height
  | [], _, _, h => Or.inl h
  | id :: rest, s, r, h => by
    simp only [List.foldl] at h
    rcases foldl_newBatch_active rest (newBatch s id) r h with h1 | h1
    · exact newBatch_active s id r h1
    · rw [newBatch_height] at h1; exact Or.inr h1

theorem foldl_newBatch_mono : ∀ (l : List CtxId) (s : State) (r : ReqId), r ∈ s.active → r ∈ (l.foldl newBatch s).active
  | [], _, _, h => h
  | id :: rest, s, r, h => by
    simp only [List.foldl]
    exact foldl_newBatch_mono rest (newBatch s id) r (newBatch_mono s id r h)

theorem settleCtx_fields (t : State) (id : CtxId) (rc : Ctx) :
    (settleCtx t id rc).active = t.active ∧ (settleCtx t id rc).height = t.height := by
  unfold settleCtx
  split
  · exact ⟨rfl, rfl⟩
  · split
    · split <;> exact ⟨rfl, rfl⟩
    · exact ⟨rfl, rfl⟩

theorem expirePhase_fields (s : State) (id : CtxId) :
    (expirePhase s id).1.height = s.height ∧
    (expirePhase s id).1.active = s.active ∨
    ((expirePhase s id).1.height = s.height ∧
     (expirePhase s id).1.active = s.active.filter (fun y => !((activeOf s id (getCtx s id).batchCounter).contains y))) := by
  unfold expirePhase
  split
  · right
    obtain ⟨⟨_, _, _, _, _, _, hh⟩, ha⟩ := foldl_expireReq_sched (activeOf s id (getCtx s id).batchCounter) s
    unfold completeBatch callback
    split
    · exact ⟨hh, ha⟩
    · exact ⟨hh, ha⟩
  · left; exact ⟨rfl, rfl⟩

/-- the expired-batch handler only removes markers, and only those of its own context -/
theorem expireCtx_active (s : State) (id : CtxId) (r : ReqId) :
    (r ∈ (expireCtx s id).active → r ∈ s.active) ∧ (r ∈ s.active → r.ctx ≠ id → r ∈ (expireCtx s id).active) := by
  have hfin : (expireCtx s id).active = (expirePhase s id).1.active := by
    unfold expireCtx finishExpire
    simp only [cleanBatch]
    rw [(settleCtx_fields _ _ _).1]
    rfl
  rw [hfin]
  rcases expirePhase_fields s id with ⟨_, ha⟩ | ⟨_, ha⟩
  · rw [ha]; exact ⟨fun h => h, fun h _ => h⟩
  · rw [ha]
    constructor
    · intro h; exact (List.mem_filter.mp h).1
    · intro h hne
      rw [List.mem_filter]
      refine ⟨h, ?_⟩
      have : r ∉ activeOf s id (getCtx s id).batchCounter := by
        unfold activeOf
        rw [mem_isort, List.mem_filter]
        rintro ⟨_, hb⟩
        simp [ReqId.inBatch, hne] at hb
      simp [this]

theorem expireCtx_height (s : State) (id : CtxId) : (expireCtx s id).height = s.height := by
  have hfin : (expireCtx s id).height = (expirePhase s id).1.height := by
    unfold expireCtx finishExpire
    simp only [cleanBatch]
    rw [(settleCtx_fields _ _ _).2]
    rfl
  rw [hfin]
  rcases expirePhase_fields s id with ⟨hh, _⟩ | ⟨hh, _⟩ <;> exact hh

theorem foldl_expireCtx_active : ∀ (l : List CtxId) (s : State) (r : ReqId),
    (r ∈ (l.foldl expireCtx s).active → r ∈ s.active) ∧
    (r ∈ s.active → r.ctx ∉ l → r ∈ (l.foldl expireCtx s).active)
  | [], _, _ => ⟨fun h => h, fun h _ => h⟩
  | id :: rest, s, r => by
    simp only [List.foldl]
    have h1 := expireCtx_active s id r
    have h2 := foldl_expireCtx_active rest (expireCtx s id) r
    constructor
    · intro h; exact h1.1 (h2.1 h)
    · intro h hn
      exact h2.2 (h1.2 h (fun e => hn (by rw [e]; exact List.mem_cons_self ..))) (fun e => hn (List.mem_cons_of_mem _ e))

theorem foldl_expireCtx_height : ∀ (l : List CtxId) (s : State), (l.foldl expireCtx s).height = s.height
  | [], _ => rfl
  | id :: rest, s => by
    simp only [List.foldl]
    rw [foldl_expireCtx_height rest, expireCtx_height]

/-- what one end block does to the active set -/
theorem endBlock_active (s : State) (r : ReqId) (h : r ∈ (endBlock s).active) : r ∈ s.active ∨ r.h = s.height := by
  unfold endBlock newPhase at h
  rcases foldl_newBatch_active _ _ r h with h1 | h1
  · unfold expiredPhase at h1
    exact Or.inl ((foldl_expireCtx_active _ s r).1 h1)
  · unfold expiredPhase at h1
    rw [foldl_expireCtx_height] at h1
    exact Or.inr h1

end Irismod.Proofs.Service

namespace Irismod.Proofs.Service
open Irismod Irismod.Sdk Irismod.Service

/-- active set and height after an operation: nothing new, same height -/
def Quiet (s s' : State) : Prop := s'.height = s.height ∧ ∀ r, r ∈ s'.active → r ∈ s.active

theorem Quiet.of_eq {s s' : State} (h1 : s'.height = s.height) (h2 : s'.active = s.active) : Quiet s s' :=
  ⟨h1, fun r hr => by rw [← h2]; exact hr⟩

theorem createCtx_quiet {s s' : State} {newId svc providers consumer inputOk cap timeout repeated freq total st thr moduleName}
    (h : createCtx s newId svc providers consumer inputOk cap timeout repeated freq total st thr moduleName = .ok s') :
    Quiet s s' := by
  unfold createCtx at h
  split at h
  · cases h
  split at h
  · cases h
  split at h
  · cases h
  split at h
  · cases h
  split at h
  · cases h
  cases h
  unfold createState
  split <;> exact Quiet.of_eq rfl rfl

theorem keeperPause_quiet {s s' : State} {id consumer} (h : keeperPause s id consumer = .ok s') : Quiet s s' := by
  unfold keeperPause at h
  split at h
  · cases h
  split at h
  · cases h
  split at h
  · cases h
  split at h
  · cases h
  cases h; exact Quiet.of_eq rfl rfl

theorem keeperStart_quiet {s s' : State} {id consumer} (h : keeperStart s id consumer = .ok s') : Quiet s s' := by
  unfold keeperStart at h
  split at h
  · cases h
  split at h
  · cases h
  split at h
  · cases h
  split at h
  · cases h
  cases h
  split <;> exact Quiet.of_eq rfl rfl

theorem keeperKill_quiet {s s' : State} {id consumer} (h : keeperKill s id consumer = .ok s') : Quiet s s' := by
  unfold keeperKill at h
  split at h
  · cases h
  split at h
  · cases h
  split at h
  · cases h
  cases h; exact Quiet.of_eq rfl rfl

theorem keeperUpdate_quiet {s s' : State} {id providers thr cap timeout freq total consumer}
    (h : keeperUpdate s id providers thr cap timeout freq total consumer = .ok s') : Quiet s s' := by
  unfold keeperUpdate at h
  split at h
  · cases h
  split at h
  · cases h
  split at h
  · cases h
  split at h
  · cases h
  split at h
  · cases h
  split at h
  · cases h
  split at h
  · cases h
  split at h
  · cases h
  split at h
  · cases h
  cases h; exact Quiet.of_eq rfl rfl

theorem keeperWithdraw_quiet {s s' : State} {owner provider} (h : keeperWithdraw s owner provider = .ok s') : Quiet s s' := by
  unfold keeperWithdraw at h
  split at h
  · unfold withdrawProvider at h
    split at h
    · cases h
    split at h
    · cases h
    split at h
    · cases h
    cases h; exact Quiet.of_eq rfl rfl
  · unfold withdrawOwner at h
    split at h
    · cases h
    cases h; exact Quiet.of_eq rfl rfl

theorem keeperRespond_quiet {s s' : State} {provider rid hasOut} (h : keeperRespond s provider rid hasOut = .ok s') :
    Quiet s s' := by
  unfold keeperRespond at h
  split at h
  · cases h
  split at h
  · cases h
  split at h
  · cases h
  split at h
  · cases h
  rename_i s1 hfee
  cases h
  obtain ⟨⟨_, _, _, _, f5, _, _⟩, _⟩ := addEarnedFee_sched hfee
  have hh : s1.height = s.height := by
    unfold addEarnedFee at hfee
    split at hfee
    · cases hfee
    split at hfee
    · cases hfee
    cases hfee; rfl
  have hc : ∀ t id, (countResponse t id).height = t.height := by
    intro t id
    unfold countResponse storeCtx completeBatch callback
    split
    · split <;> rfl
    · rfl
  refine ⟨by rw [hc]; exact hh, ?_⟩
  intro r hr
  rw [(countResponse_fields _ _).2.2.2.2.2.1] at hr
  simp only [recordResponse] at hr
  rw [f5] at hr
  exact (List.mem_filter.mp hr).1

/-- every operation that is not a block leaves height and active set alone (answers only remove) -/
theorem stepCore_quiet {s s' : State} {op : Op} (hb : ∀ dt, op ≠ .next dt) (hk : ∀ n dt, op ≠ .skip n dt)
    (h : stepCore s op = .ok s') : Quiet s s' := by
  cases op with
  | define sender name schOk =>
    simp only [stepCore, stepDefine] at h
    split at h
    · cases h
    split at h
    · cases h
    split at h
    · cases h
    split at h
    · cases h
    cases h; exact Quiet.of_eq rfl rfl
  | bind owner provider svc dep qos pin optsOk =>
    simp only [stepCore, stepBind] at h
    split at h
    · cases h
    split at h
    · cases h
    obtain ⟨d, pr, bank, _, _, _, rfl⟩ := keeperBind_inv h
    exact Quiet.of_eq rfl rfl
  | updateBinding owner provider svc dep qos pin opts =>
    simp only [stepCore, stepUpdateBinding] at h
    split at h
    · cases h
    obtain ⟨b, d, pr, bank, _, _, _, _, rfl⟩ := keeperUpdateBinding_inv h
    exact Quiet.of_eq rfl rfl
  | setWithdraw owner addr =>
    simp only [stepCore, stepSetWithdraw] at h
    split at h
    · cases h
    split at h
    · cases h
    cases h; exact Quiet.of_eq rfl rfl
  | enable owner provider svc dep =>
    simp only [stepCore, stepEnable] at h
    split at h
    · cases h
    unfold keeperEnable at h
    split at h
    · cases h
    split at h
    · cases h
    split at h
    · cases h
    split at h
    · cases h
    split at h
    · cases h
    split at h
    · cases h
    cases h; exact Quiet.of_eq rfl rfl
  | disable owner provider svc =>
    simp only [stepCore, stepDisable] at h
    split at h
    · cases h
    split at h
    · cases h
    split at h
    · cases h
    split at h
    · cases h
    cases h; exact Quiet.of_eq rfl rfl
  | refundDeposit owner provider svc =>
    simp only [stepCore, stepRefundDeposit] at h
    split at h
    · cases h
    unfold keeperRefundDeposit at h
    split at h
    · cases h
    split at h
    · cases h
    split at h
    · cases h
    split at h
    · cases h
    split at h
    · cases h
    split at h
    · cases h
    cases h; exact Quiet.of_eq rfl rfl
  | call tx consumer svc providers cap timeout repeated freq total inputOk =>
    simp only [stepCore, stepCall] at h
    split at h
    · cases h
    split at h
    · cases h
    split at h
    · cases h
    exact createCtx_quiet h
  | mcall tx consumer svc providers cap timeout repeated freq total inputOk paused thr modName => exact createCtx_quiet h
  | respond provider rid code out resOk =>
    simp only [stepCore, stepRespond] at h
    split at h
    · cases h
    split at h
    · cases h
    exact keeperRespond_quiet h
  | withdraw owner provider =>
    simp only [stepCore, stepWithdraw] at h
    split at h
    · cases h
    split at h
    · cases h
    exact keeperWithdraw_quiet h
  | withdrawK owner provider => exact keeperWithdraw_quiet h
  | pause consumer id => exact keeperPause_quiet (stepPause_inv h)
  | start consumer id => exact keeperStart_quiet (stepStart_inv h)
  | kill consumer id => exact keeperKill_quiet (stepKill_inv h)
  | updateCtx consumer id providers cap timeout freq total => exact keeperUpdate_quiet (stepUpdateCtx_inv h)
  | mpause consumer id => exact keeperPause_quiet h
  | mstart consumer id => exact keeperStart_quiet h
  | mkill consumer id => exact keeperKill_quiet h
  | mupdate consumer id providers thr cap timeout freq total => exact keeperUpdate_quiet h
  | setRate d r =>
    simp only [stepCore] at h
    cases h; exact Quiet.of_eq rfl rfl
  | next dt => exact absurd rfl (hb dt)
  | skip n dt => exact absurd rfl (hk n dt)

/-- whatever the operation: a marker present afterwards was present before or carries a height of a block
processed by the operation; heights never decrease -/
def Grows (s s' : State) : Prop :=
  s.height ≤ s'.height ∧ ∀ r, r ∈ s'.active → r ∈ s.active ∨ (s.height ≤ r.h ∧ r.h < s'.height)

theorem Grows.trans {a b c : State} (h1 : Grows a b) (h2 : Grows b c) : Grows a c := by
  refine ⟨Int.le_trans h1.1 h2.1, ?_⟩
  intro r hr
  rcases h2.2 r hr with h | h
  · rcases h1.2 r h with h' | h'
    · exact Or.inl h'
    · exact Or.inr ⟨h'.1, Int.lt_of_lt_of_le h'.2 h2.1⟩
  · exact Or.inr ⟨Int.le_trans h1.1 h.1, h.2⟩

theorem nextBlock_grows (s : State) (dt : Int) : Grows s (nextBlock s dt) := by
  unfold nextBlock beginNext
  have hh : (endBlock s).height = s.height := by
    unfold endBlock newPhase expiredPhase
    have : ∀ (l : List CtxId) (t : State), (l.foldl newBatch t).height = t.height := by
      intro l
      induction l with
      | nil => intro t; rfl
      | cons id rest ih => intro t; simp only [List.foldl]; rw [ih, newBatch_height]
    rw [this, foldl_expireCtx_height]
  refine ⟨by simp only; omega, ?_⟩
  intro r hr
  simp only at hr ⊢
  rcases endBlock_active s r hr with h | h
  · exact Or.inl h
  · exact Or.inr ⟨by omega, by omega⟩

theorem skipBlocks_grows (dt : Int) : ∀ (n : Nat) (s : State), Grows s (skipBlocks s dt n)
  | 0, s => ⟨Int.le_refl _, fun _ h => Or.inl h⟩
  | n + 1, s => (nextBlock_grows s dt).trans (skipBlocks_grows dt n (nextBlock s dt))

theorem stepCore_grows {s s' : State} {op : Op} (h : stepCore s op = .ok s') : Grows s s' := by
  by_cases hb : ∃ dt, op = .next dt
  · obtain ⟨dt, rfl⟩ := hb
    simp only [stepCore] at h; cases h
    exact nextBlock_grows s dt
  · by_cases hk : ∃ n dt, op = .skip n dt
    · obtain ⟨n, dt, rfl⟩ := hk
      simp only [stepCore] at h; cases h
      exact skipBlocks_grows dt n s
    · have q := stepCore_quiet (fun dt e => hb ⟨dt, e⟩) (fun n dt e => hk ⟨n, dt, e⟩) h
      exact ⟨by rw [q.1]; exact Int.le_refl _, fun r hr => Or.inl (q.2 r hr)⟩

theorem apply_grows (s : State) (op : Op) : Grows s (apply s op) := by
  unfold apply step
  cases h : stepCore { s with cb := [] } op with
  | ok s' =>
    have := stepCore_grows h
    exact ⟨this.1, this.2⟩
  | error e => exact ⟨Int.le_refl _, fun _ hr => Or.inl hr⟩

theorem run_grows : ∀ (ops : List Op) (s : State), Grows s (run s ops)
  | [], s => ⟨Int.le_refl _, fun _ h => Or.inl h⟩
  | op :: rest, s => (apply_grows s op).trans (run_grows rest (apply s op))

end Irismod.Proofs.Service

namespace Irismod.Proofs.Service
open Irismod Irismod.Sdk Irismod.Service

/-- on a well-formed state the expired-batch handler removes every marker of its context -/
theorem expireCtx_removes {s : State} (hw : WF s) (id : CtxId) (hm : AMap.get? s.expH id = some s.height) :
    ∀ r, r ∈ (expireCtx s id).active → r.ctx ≠ id := by
  have hlive := hw.live id (Or.inr ((contains_iff _ _).mpr ⟨_, hm⟩))
  obtain ⟨c, hg⟩ := (contains_iff _ _).mp hlive
  obtain ⟨_, hact, _⟩ := expirePhase_sched hw hg
  have hfin : (expireCtx s id).active = (expirePhase s id).1.active := by
    unfold expireCtx finishExpire
    simp only [cleanBatch]
    rw [(settleCtx_fields _ _ _).1]
    rfl
  intro r hr
  rw [hfin, hact, List.mem_filter] at hr
  simpa using hr.2

theorem foldl_expireCtx_removes : ∀ (l : List CtxId) (s : State), WF s → l.Nodup →
    (∀ id, id ∈ l → AMap.get? s.expH id = some s.height) →
    ∀ r, r ∈ (l.foldl expireCtx s).active → r.ctx ∉ l
  | [], _, _, _, _, _, _ => by simp
  | id :: rest, s, hs, hn, hd, r, hr => by
    rw [List.nodup_cons] at hn
    obtain ⟨w1, w2, w3⟩ := WF_expireCtx hs id (hd id (List.mem_cons_self ..))
    simp only [List.foldl] at hr
    have hd' : ∀ id', id' ∈ rest → AMap.get? (expireCtx s id).expH id' = some (expireCtx s id).height := by
      intro id' hm
      rw [w2]
      apply w1.expM.1
      rw [w3]
      refine ⟨hs.expM.2 id' s.height (hd id' (List.mem_cons_of_mem _ hm)), ?_⟩
      intro e
      have : id' = id := (Prod.mk.inj e).2
      subst this; exact hn.1 hm
    have h1 := foldl_expireCtx_removes rest (expireCtx s id) w1 hn.2 hd' r hr
    have h2 : r ∈ (expireCtx s id).active := (foldl_expireCtx_active rest (expireCtx s id) r).1 hr
    have h3 := expireCtx_removes hs id (hd id (List.mem_cons_self ..)) r h2
    intro hm
    rcases List.mem_cons.mp hm with e | e
    · exact h3 e
    · exact h1 e

end Irismod.Proofs.Service
