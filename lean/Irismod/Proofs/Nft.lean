/-
Helper lemmas for C14 (NFT): laws of tombstone tables (`Tbl`), the exact effect of each modelled
x/nft keeper method (`nkMint`, `nkBurn`, `nkUpdate`, `nkTransfer`) on every accessor, and
preservation of `Spec.C14.Inv` by each of them.
-/
import Irismod.Spec.C14

namespace Irismod.Proofs.Nft
open Irismod Irismod.Nft Irismod.Spec.C14

/-! ### tombstone tables -/
section TblLaws
variable {K V : Type} [DecidableEq K]

theorem get_put (m : Tbl K V) (k k2 : K) (v : V) :
    Tbl.get (Tbl.put m k v) k2 = if k = k2 then some v else Tbl.get m k2 := by
  by_cases h : k = k2
  · subst h; simp [Tbl.get, Tbl.put, AMap.get?_set_self]
  · simp [Tbl.get, Tbl.put, AMap.get?_set_other _ _ _ _ h, h]

theorem get_del (m : Tbl K V) (k k2 : K) :
    Tbl.get (Tbl.del m k) k2 = if k = k2 then none else Tbl.get m k2 := by
  by_cases h : k = k2
  · subst h; simp [Tbl.get, Tbl.del, AMap.get?_set_self]
  · simp [Tbl.get, Tbl.del, AMap.get?_set_other _ _ _ _ h, h]

theorem has_put (m : Tbl K V) (k k2 : K) (v : V) :
    Tbl.has (Tbl.put m k v) k2 = if k = k2 then true else Tbl.has m k2 := by
  unfold Tbl.has; rw [get_put]; split <;> simp

theorem has_del (m : Tbl K V) (k k2 : K) :
    Tbl.has (Tbl.del m k) k2 = if k = k2 then false else Tbl.has m k2 := by
  unfold Tbl.has; rw [get_del]; split <;> simp

theorem old_contribution (m : Tbl K V) (k : K) :
    ((AMap.get? m k).map Tbl.one).getD 0 = if Tbl.has m k then 1 else 0 := by
  unfold Tbl.has Tbl.get
  cases h : AMap.get? m k with
  | none => simp
  | some o => cases o <;> simp [Tbl.one]

/-- writing a live value: the count of live keys grows by one iff the key was not live -/
theorem count_put (p : K → Bool) (m : Tbl K V) (k : K) (v : V) :
    Tbl.count p (Tbl.put m k v) + (if p k && Tbl.has m k then 1 else 0)
      = Tbl.count p m + (if p k then 1 else 0) := by
  have h := AMap.sumIf_set p Tbl.one m k (some v)
  rw [old_contribution] at h
  unfold Tbl.count Tbl.put
  by_cases hp : p k <;> by_cases hh : Tbl.has m k <;> simp [hp, hh, Tbl.one] at h ⊢ <;> omega

/-- deleting: the count of live keys drops by one iff the key was live -/
theorem count_del (p : K → Bool) (m : Tbl K V) (k : K) :
    Tbl.count p (Tbl.del m k) + (if p k && Tbl.has m k then 1 else 0) = Tbl.count p m := by
  have h := AMap.sumIf_set p Tbl.one m k (none : Option V)
  rw [old_contribution] at h
  unfold Tbl.count Tbl.del
  by_cases hp : p k <;> by_cases hh : Tbl.has m k <;> simp [hp, hh, Tbl.one] at h ⊢ <;> omega

end TblLaws

theorem contains_set {K V : Type} [DecidableEq K] (m : AMap K V) (k k2 : K) (v : V) :
    AMap.contains (AMap.set m k v) k2 = (decide (k = k2) || AMap.contains m k2) := by
  unfold AMap.contains
  by_cases h : k = k2
  · subst h; simp [AMap.get?_set_self]
  · simp [AMap.get?_set_other _ _ _ _ h, h]

theorem getD_set {K V : Type} [DecidableEq K] (m : AMap K V) (k k2 : K) (v d : V) :
    AMap.getD (AMap.set m k v) k2 d = if k = k2 then v else AMap.getD m k2 d := by
  unfold AMap.getD
  by_cases h : k = k2
  · subst h; simp [AMap.get?_set_self]
  · simp [AMap.get?_set_other _ _ _ _ h, h]

/-! ### basic consequences of the invariant -/

theorem hasNFT_eq (s : State) (c : ClassId) (t : TokenId) : hasNFT s c t = Tbl.has s.tokens (c, t) := rfl
theorem idxHas_eq (s : State) (a : Addr) (c : ClassId) (t : TokenId) : idxHas s a c t = Tbl.has s.idx (a, c, t) := rfl

theorem owner_none_of_not_has {s : State} (hs : Inv s) {c t} (h : hasNFT s c t = false) : ownerOf s c t = none := by
  have := hs.tok_owner c t
  unfold hasNFT at h
  rw [h] at this
  cases ho : ownerOf s c t with
  | none => rfl
  | some a => rw [ho] at this; simp at this

theorem owner_some_of_has {s : State} (hs : Inv s) {c t} (h : hasNFT s c t = true) : ∃ a, ownerOf s c t = some a := by
  have := hs.tok_owner c t
  unfold hasNFT at h
  rw [h] at this
  cases ho : ownerOf s c t with
  | none => rw [ho] at this; simp at this
  | some a => exact ⟨a, rfl⟩

theorem has_of_owner {s : State} (hs : Inv s) {c t a} (h : ownerOf s c t = some a) : hasNFT s c t = true := by
  have := hs.tok_owner c t
  rw [h] at this
  unfold hasNFT; rw [this]; rfl

theorem idx_false_of_owner_ne {s : State} (hs : Inv s) {a c t} (h : ownerOf s c t ≠ some a) : idxHas s a c t = false := by
  cases hi : idxHas s a c t with
  | false => rfl
  | true => exact absurd ((hs.idx_owner a c t).mp hi) h

/-! ### inversion of the keeper methods: guards and the exact resulting state -/

theorem nkMint_ok {s s' : State} {c t r a} (h : nkMint s c t r a = .ok s') :
    hasClass s c = true ∧ hasNFT s c t = false ∧
    s' = { classes := s.classes, tokens := Tbl.put s.tokens (c, t) r, owners := Tbl.put s.owners (c, t) a,
           idx := Tbl.put s.idx (a, c, t) (), supply := AMap.set s.supply c ((supplyOf s c + 1) % u64) } := by
  unfold nkMint at h
  split at h; · cases h
  split at h; · cases h
  rename_i h1 h2
  cases h
  refine ⟨by simpa using h1, by simpa using h2, rfl⟩

theorem nkBurn_ok {s s' : State} {c t} (hs : Inv s) (h : nkBurn s c t = .ok s') :
    hasClass s c = true ∧ hasNFT s c t = true ∧ ∃ o, ownerOf s c t = some o ∧
    s' = { classes := s.classes, tokens := Tbl.del s.tokens (c, t), owners := Tbl.del s.owners (c, t),
           idx := Tbl.del s.idx (o, c, t), supply := AMap.set s.supply c ((supplyOf s c + (u64 - 1)) % u64) } := by
  unfold nkBurn at h
  split at h; · cases h
  split at h; · cases h
  rename_i h1 h2
  have h2' : hasNFT s c t = true := by simpa using h2
  obtain ⟨o, ho⟩ := owner_some_of_has hs h2'
  cases h
  refine ⟨by simpa using h1, h2', o, ho, ?_⟩
  rw [ho]; rfl

theorem nkUpdate_ok {s s' : State} {c t r} (h : nkUpdate s c t r = .ok s') :
    hasClass s c = true ∧ hasNFT s c t = true ∧ s' = { s with tokens := Tbl.put s.tokens (c, t) r } := by
  unfold nkUpdate at h
  split at h; · cases h
  split at h; · cases h
  rename_i h1 h2
  cases h
  exact ⟨by simpa using h1, by simpa using h2, rfl⟩

theorem nkTransfer_ok {s s' : State} {c t rc} (hs : Inv s) (h : nkTransfer s c t rc = .ok s') :
    hasClass s c = true ∧ hasNFT s c t = true ∧ ∃ o, ownerOf s c t = some o ∧
    s' = { s with owners := Tbl.put (Tbl.del s.owners (c, t)) (c, t) rc,
                  idx := Tbl.put (Tbl.del s.idx (o, c, t)) (rc, c, t) () } := by
  unfold nkTransfer at h
  split at h; · cases h
  split at h; · cases h
  rename_i h1 h2
  have h2' : hasNFT s c t = true := by simpa using h2
  obtain ⟨o, ho⟩ := owner_some_of_has hs h2'
  cases h
  refine ⟨by simpa using h1, h2', o, ho, ?_⟩
  rw [ho]; rfl


/-! ### each keeper method preserves the invariant -/

theorem pair_eq_iff {A B : Type} (a a' : A) (b b' : B) : ((a, b) = (a', b')) ↔ (a = a' ∧ b = b') := by
  constructor
  · intro h; cases h; exact ⟨rfl, rfl⟩
  · rintro ⟨rfl, rfl⟩; rfl

theorem inv_nkMint {s s' : State} {c t r a} (hs : Inv s) (h : nkMint s c t r a = .ok s') : Inv s' := by
  obtain ⟨hc, hn, rfl⟩ := nkMint_ok h
  have hown : ownerOf s c t = none := owner_none_of_not_has hs hn
  have hidx : idxHas s a c t = false := idx_false_of_owner_ne hs (by rw [hown]; simp)
  constructor
  · intro c' t'
    simp only [tokenOf, ownerOf, get_put]
    by_cases hk : (c, t) = (c', t')
    · simp [hk]
    · simp only [hk, if_false]; exact hs.tok_owner c' t'
  · intro a' c' t'
    simp only [idxHas, ownerOf, has_put, get_put]
    by_cases hk : (c, t) = (c', t')
    · cases hk
      by_cases ha : a = a'
      · subst ha; simp
      · have hne : (a, c, t) ≠ (a', c, t) := by intro e; cases e; exact ha rfl
        simp only [hne, if_false, if_true]
        have := idx_false_of_owner_ne (a := a') hs (by rw [hown]; simp)
        rw [idxHas_eq] at this
        simp [this, ha]
    · have hne : (a, c, t) ≠ (a', c', t') := by intro e; cases e; exact hk rfl
      simp only [hne, hk, if_false]
      exact hs.idx_owner a' c' t'
  · intro c' t'
    simp only [hasNFT, tokenOf, hasClass, get_put]
    by_cases hk : (c, t) = (c', t')
    · cases hk; intro _; exact hc
    · simp only [hk, if_false]; exact hs.tok_class c' t'
  · intro c'
    have hcnt := count_put (fun k : ClassId × TokenId => k.1 = c') s.tokens (c, t) r
    rw [← hasNFT_eq, hn] at hcnt
    have h0 := hs.supply_count c'
    simp only [supplyOf, tokenCount, getD_set] at h0 ⊢
    by_cases hcc : c = c'
    · subst hcc
      simp only [decide_true, Bool.and_false, if_true] at hcnt ⊢
      simp at hcnt
      unfold u64 at *
      omega
    · simp only [hcc, if_false] at hcnt ⊢
      simp at hcnt
      unfold u64 at *
      omega
  · intro c'
    have hcnt := count_put (fun k : ClassId × TokenId => k.1 = c') s.tokens (c, t) r
    rw [← hasNFT_eq, hn] at hcnt
    have hic := count_put (fun k : Addr × ClassId × TokenId => k.2.1 = c') s.idx (a, c, t) ()
    rw [← idxHas_eq, hidx] at hic
    have h0 := hs.idx_count c'
    simp only [idxCount, tokenCount] at h0 ⊢
    by_cases hcc : c = c'
    · subst hcc; simp at hcnt hic; omega
    · simp [hcc] at hcnt hic; omega

theorem inv_nkBurn {s s' : State} {c t} (hs : Inv s) (h : nkBurn s c t = .ok s') : Inv s' := by
  obtain ⟨hc, hn, o, ho, rfl⟩ := nkBurn_ok hs h
  have hidx : idxHas s o c t = true := (hs.idx_owner o c t).mpr ho
  constructor
  · intro c' t'
    simp only [tokenOf, ownerOf, get_del]
    by_cases hk : (c, t) = (c', t')
    · simp [hk]
    · simp only [hk, if_false]; exact hs.tok_owner c' t'
  · intro a' c' t'
    simp only [idxHas, ownerOf, has_del, get_del]
    by_cases hk : (c, t) = (c', t')
    · cases hk
      by_cases ha : o = a'
      · subst ha; simp
      · have hne : (o, c, t) ≠ (a', c, t) := by intro e; cases e; exact ha rfl
        simp only [hne, if_false, if_true]
        have := idx_false_of_owner_ne (a := a') hs (by rw [ho]; intro e; cases e; exact ha rfl)
        rw [idxHas_eq] at this
        simp [this]
    · have hne : (o, c, t) ≠ (a', c', t') := by intro e; cases e; exact hk rfl
      simp only [hne, hk, if_false]
      exact hs.idx_owner a' c' t'
  · intro c' t'
    simp only [hasNFT, tokenOf, hasClass, get_del]
    by_cases hk : (c, t) = (c', t')
    · simp [hk]
    · simp only [hk, if_false]; exact hs.tok_class c' t'
  · intro c'
    have hcnt := count_del (fun k : ClassId × TokenId => k.1 = c') s.tokens (c, t)
    rw [← hasNFT_eq, hn] at hcnt
    have h0 := hs.supply_count c'
    simp only [supplyOf, tokenCount, getD_set] at h0 ⊢
    by_cases hcc : c = c'
    · subst hcc
      simp at hcnt
      simp only [if_true]
      unfold u64 at *
      omega
    · simp [hcc] at hcnt
      simp only [hcc, if_false]
      unfold u64 at *
      omega
  · intro c'
    have hcnt := count_del (fun k : ClassId × TokenId => k.1 = c') s.tokens (c, t)
    rw [← hasNFT_eq, hn] at hcnt
    have hic := count_del (fun k : Addr × ClassId × TokenId => k.2.1 = c') s.idx (o, c, t)
    rw [← idxHas_eq, hidx] at hic
    have h0 := hs.idx_count c'
    simp only [idxCount, tokenCount] at h0 ⊢
    by_cases hcc : c = c'
    · subst hcc; simp at hcnt hic; omega
    · simp [hcc] at hcnt hic; omega

theorem inv_nkUpdate {s s' : State} {c t r} (hs : Inv s) (h : nkUpdate s c t r = .ok s') : Inv s' := by
  obtain ⟨hc, hn, rfl⟩ := nkUpdate_ok h
  constructor
  · intro c' t'
    simp only [tokenOf, ownerOf, get_put]
    by_cases hk : (c, t) = (c', t')
    · cases hk
      have := hs.tok_owner c t
      unfold hasNFT at hn
      rw [hn] at this
      simp only [if_true, Option.isSome_some]
      exact this
    · simp only [hk, if_false]; exact hs.tok_owner c' t'
  · intro a' c' t'; exact hs.idx_owner a' c' t'
  · intro c' t'
    simp only [hasNFT, tokenOf, hasClass, get_put]
    by_cases hk : (c, t) = (c', t')
    · cases hk; intro _; exact hc
    · simp only [hk, if_false]; exact hs.tok_class c' t'
  · intro c'
    have hcnt := count_put (fun k : ClassId × TokenId => k.1 = c') s.tokens (c, t) r
    rw [← hasNFT_eq, hn] at hcnt
    have h0 := hs.supply_count c'
    simp only [supplyOf, tokenCount] at h0 ⊢
    by_cases hcc : c = c'
    · subst hcc; simp at hcnt; (try unfold u64 at *); omega
    · simp [hcc] at hcnt; (try unfold u64 at *); omega
  · intro c'
    have hcnt := count_put (fun k : ClassId × TokenId => k.1 = c') s.tokens (c, t) r
    rw [← hasNFT_eq, hn] at hcnt
    have h0 := hs.idx_count c'
    simp only [idxCount, tokenCount] at h0 ⊢
    by_cases hcc : c = c'
    · subst hcc; simp at hcnt; (try unfold u64 at *); omega
    · simp [hcc] at hcnt; (try unfold u64 at *); omega

theorem inv_nkTransfer {s s' : State} {c t rc} (hs : Inv s) (h : nkTransfer s c t rc = .ok s') : Inv s' := by
  obtain ⟨hc, hn, o, ho, rfl⟩ := nkTransfer_ok hs h
  have hidx : idxHas s o c t = true := (hs.idx_owner o c t).mpr ho
  constructor
  · intro c' t'
    simp only [tokenOf, ownerOf, get_put, get_del]
    by_cases hk : (c, t) = (c', t')
    · cases hk
      have := hs.tok_owner c t
      unfold hasNFT at hn
      rw [hn] at this
      simp only [if_true, Option.isSome_some]
      exact hn
    · simp only [hk, if_false]; exact hs.tok_owner c' t'
  · intro a' c' t'
    simp only [idxHas, ownerOf, has_put, has_del, get_put, get_del]
    by_cases hk : (c, t) = (c', t')
    · cases hk
      by_cases hr : rc = a'
      · subst hr; simp
      · have hne : (rc, c, t) ≠ (a', c, t) := by intro e; cases e; exact hr rfl
        simp only [hne, if_false, if_true]
        by_cases ha : o = a'
        · subst ha; simp [hr]
        · have hne2 : (o, c, t) ≠ (a', c, t) := by intro e; cases e; exact ha rfl
          simp only [hne2, if_false]
          have := idx_false_of_owner_ne (a := a') hs (by rw [ho]; intro e; cases e; exact ha rfl)
          rw [idxHas_eq] at this
          simp [this, hr]
    · have hne : (rc, c, t) ≠ (a', c', t') := by intro e; cases e; exact hk rfl
      have hne2 : (o, c, t) ≠ (a', c', t') := by intro e; cases e; exact hk rfl
      simp only [hne, hne2, hk, if_false]
      exact hs.idx_owner a' c' t'
  · intro c' t'; exact hs.tok_class c' t'
  · intro c'; exact hs.supply_count c'
  · intro c'
    have hd := count_del (fun k : Addr × ClassId × TokenId => k.2.1 = c') s.idx (o, c, t)
    rw [← idxHas_eq, hidx] at hd
    have hp := count_put (fun k : Addr × ClassId × TokenId => k.2.1 = c') (Tbl.del s.idx (o, c, t)) (rc, c, t) ()
    have hfresh : Tbl.has (Tbl.del s.idx (o, c, t)) (rc, c, t) = false := by
      rw [has_del]
      by_cases hor : o = rc
      · subst hor; simp
      · have hne : (o, c, t) ≠ (rc, c, t) := by intro e; cases e; exact hor rfl
        simp only [hne, if_false]
        have := idx_false_of_owner_ne (a := rc) hs (by rw [ho]; intro e; cases e; exact hor rfl)
        rw [idxHas_eq] at this
        exact this
    rw [hfresh] at hp
    have h0 := hs.idx_count c'
    simp only [idxCount, tokenCount] at h0 ⊢
    by_cases hcc : c = c'
    · subst hcc; simp at hd hp; omega
    · simp [hcc] at hd hp; omega

/-- a write to the class table only (IssueDenom of a new id, TransferDenom) -/
theorem inv_setClass {s : State} (hs : Inv s) (id : ClassId) (cl : ClassRec) :
    Inv { s with classes := AMap.set s.classes id cl } := by
  constructor
  · exact hs.tok_owner
  · exact hs.idx_owner
  · intro c t h
    have := hs.tok_class c t h
    simp only [hasClass, contains_set] at this ⊢
    simp [this]
  · exact hs.supply_count
  · exact hs.idx_count


/-! ### inversion of burn / transfer when the owner is known (the handlers check it first) -/

theorem nkBurn_ok_owner {s s' : State} {c t o} (ho : ownerOf s c t = some o) (h : nkBurn s c t = .ok s') :
    hasClass s c = true ∧ hasNFT s c t = true ∧
    s' = { classes := s.classes, tokens := Tbl.del s.tokens (c, t), owners := Tbl.del s.owners (c, t),
           idx := Tbl.del s.idx (o, c, t), supply := AMap.set s.supply c ((supplyOf s c + (u64 - 1)) % u64) } := by
  unfold nkBurn at h
  split at h; · cases h
  split at h; · cases h
  rename_i h1 h2
  cases h
  refine ⟨by simpa using h1, by simpa using h2, ?_⟩
  rw [ho]; rfl

theorem nkTransfer_ok_owner {s s' : State} {c t rc o} (ho : ownerOf s c t = some o) (h : nkTransfer s c t rc = .ok s') :
    hasClass s c = true ∧ hasNFT s c t = true ∧
    s' = { s with owners := Tbl.put (Tbl.del s.owners (c, t)) (c, t) rc,
                  idx := Tbl.put (Tbl.del s.idx (o, c, t)) (rc, c, t) () } := by
  unfold nkTransfer at h
  split at h; · cases h
  split at h; · cases h
  rename_i h1 h2
  cases h
  refine ⟨by simpa using h1, by simpa using h2, ?_⟩
  rw [ho]; rfl

/-! ### inversion of the six message handlers: who was allowed, and the exact resulting state -/

theorem stepIssue_ok {s s' : State} {sender id mr ur name symbol schema desc uri uriHash data dok}
    (h : stepIssue s sender id mr ur name symbol schema desc uri uriHash data dok = .ok s') :
    issueVB sender id dok = true ∧ hasClass s id = false ∧
    s' = { s with classes := AMap.set s.classes id (newClass sender mr ur name symbol schema desc uri uriHash data) } := by
  unfold stepIssue at h
  split at h; · cases h
  split at h; · cases h
  rename_i h1 h2
  cases h
  exact ⟨by simpa using h1, by simpa using h2, rfl⟩

theorem stepMint_ok {s s' : State} {sender rcpt c t name uri uriHash data dok}
    (h : stepMint s sender rcpt c t name uri uriHash data dok = .ok s') :
    mintVB sender rcpt c t uri dok = true ∧
    ∃ cl, AMap.get? s.classes c = some cl ∧ (cl.mintRestricted = true → cl.creator = sender) ∧
      nkMint s c t { name := name, uri := uri, uriHash := uriHash, data := data } rcpt = .ok s' := by
  unfold stepMint at h
  split at h; · cases h
  rename_i h1
  split at h; · cases h
  rename_i cl hcl
  split at h; · cases h
  rename_i h2
  refine ⟨by simpa using h1, cl, hcl, ?_, h⟩
  intro hmr
  simp only [hmr, Bool.true_and, bne_iff_ne, ne_eq, Decidable.not_not] at h2
  exact h2

theorem stepEdit_ok {s s' : State} {sender c t name uri uriHash data dok}
    (h : stepEdit s sender c t name uri uriHash data dok = .ok s') :
    editVB sender c t uri dok = true ∧
    ∃ cl, AMap.get? s.classes c = some cl ∧ cl.updateRestricted = false ∧ ownerOf s c t = some sender ∧
      (s' = s ∨ ∃ r, tokenOf s c t = some r ∧
        s' = { s with tokens := Tbl.put s.tokens (c, t) (applyChanges r name uri uriHash data) }) := by
  unfold stepEdit at h
  split at h; · cases h
  rename_i h1
  split at h; · cases h
  rename_i cl hcl
  split at h; · cases h
  rename_i h2
  split at h; · cases h
  rename_i h3
  refine ⟨by simpa using h1, cl, hcl, by simpa using h2, by simpa using h3, ?_⟩
  split at h
  · cases h; exact Or.inl rfl
  · split at h; · cases h
    rename_i r hr
    obtain ⟨_, _, rfl⟩ := nkUpdate_ok h
    exact Or.inr ⟨r, hr, rfl⟩

theorem stepTransfer_ok {s s' : State} {sender rcpt c t name uri uriHash data dok}
    (h : stepTransfer s sender rcpt c t name uri uriHash data dok = .ok s') :
    transferVB sender rcpt c t uri dok = true ∧
    ∃ r cl, tokenOf s c t = some r ∧ ownerOf s c t = some sender ∧ AMap.get? s.classes c = some cl ∧
      (cl.updateRestricted = true → anyChange name uri uriHash data = false) ∧
      ∃ tk, (tk = s.tokens ∨ (anyChange name uri uriHash data = true ∧
                              tk = Tbl.put s.tokens (c, t) (applyChanges r name uri uriHash data))) ∧
        s' = { s with tokens := tk, owners := Tbl.put (Tbl.del s.owners (c, t)) (c, t) rcpt,
                      idx := Tbl.put (Tbl.del s.idx (sender, c, t)) (rcpt, c, t) () } := by
  unfold stepTransfer at h
  split at h; · cases h
  rename_i h1
  split at h; · cases h
  rename_i r hr
  split at h; · cases h
  rename_i h2
  have ho : ownerOf s c t = some sender := by simpa using h2
  split at h; · cases h
  rename_i cl hcl
  split at h; · cases h
  rename_i h3
  refine ⟨by simpa using h1, r, cl, hr, ho, hcl, ?_, ?_⟩
  · intro hur
    cases hch : anyChange name uri uriHash data with
    | false => rfl
    | true => simp [hur, hch] at h3
  · split at h
    · obtain ⟨_, _, rfl⟩ := nkTransfer_ok_owner ho h
      exact ⟨s.tokens, Or.inl rfl, rfl⟩
    · rename_i h4
      split at h; · cases h
      rename_i s1 hs1
      obtain ⟨_, _, rfl⟩ := nkUpdate_ok hs1
      have ho1 : ownerOf { s with tokens := Tbl.put s.tokens (c, t) (applyChanges r name uri uriHash data) } c t = some sender := ho
      obtain ⟨_, _, rfl⟩ := nkTransfer_ok_owner ho1 h
      exact ⟨_, Or.inr ⟨by simpa using h4, rfl⟩, rfl⟩

theorem stepBurn_ok {s s' : State} {sender c t} (h : stepBurn s sender c t = .ok s') :
    burnVB sender c t = true ∧ ownerOf s c t = some sender ∧ hasNFT s c t = true ∧
    s' = { classes := s.classes, tokens := Tbl.del s.tokens (c, t), owners := Tbl.del s.owners (c, t),
           idx := Tbl.del s.idx (sender, c, t), supply := AMap.set s.supply c ((supplyOf s c + (u64 - 1)) % u64) } := by
  unfold stepBurn at h
  split at h; · cases h
  rename_i h1
  split at h; · cases h
  rename_i h2
  have ho : ownerOf s c t = some sender := by simpa using h2
  obtain ⟨_, hn, rfl⟩ := nkBurn_ok_owner ho h
  exact ⟨by simpa using h1, ho, hn, rfl⟩

theorem stepTransferDenom_ok {s s' : State} {sender rcpt c} (h : stepTransferDenom s sender rcpt c = .ok s') :
    transferDenomVB sender rcpt c = true ∧
    ∃ cl, AMap.get? s.classes c = some cl ∧ cl.creator = sender ∧
      s' = { s with classes := AMap.set s.classes c { cl with creator := rcpt } } := by
  unfold stepTransferDenom at h
  split at h; · cases h
  rename_i h1
  split at h; · cases h
  rename_i cl hcl
  split at h; · cases h
  rename_i h2
  split at h; · cases h
  cases h
  exact ⟨by simpa using h1, cl, hcl, (Decidable.not_not.mp h2).symm, rfl⟩


/-! ### Σ over owners of per-owner counts = the count over all owners -/

theorem sum_map_zero {A : Type} (L : List A) : (L.map fun _ => 0).sum = 0 := by
  induction L with
  | nil => rfl
  | cons a L ih => simp [ih]

theorem sum_map_add {A : Type} (L : List A) (u w : A → Nat) :
    (L.map fun a => u a + w a).sum = (L.map u).sum + (L.map w).sum := by
  induction L with
  | nil => rfl
  | cons a L ih => simp only [List.map_cons, List.sum_cons, ih]; omega

theorem sum_indicator {A : Type} [DecidableEq A] (L : List A) (hnd : L.Nodup) (x : A) (n : Nat) :
    (L.map fun a => if x = a then n else 0).sum = if x ∈ L then n else 0 := by
  induction L with
  | nil => simp
  | cons a L ih =>
    have hnd' := List.nodup_cons.mp hnd
    simp only [List.map_cons, List.sum_cons, ih hnd'.2]
    by_cases hxa : x = a
    · subst hxa; simp [hnd'.1]
    · simp [hxa]

theorem sumIf_split_by {K V A : Type} [DecidableEq K] [DecidableEq A] (L : List A) (hnd : L.Nodup)
    (g : K → A) (q : K → Bool) (f : V → Nat) (m : AMap K V) :
    (L.map fun a => AMap.sumIf (fun k => decide (g k = a) && q k) f m).sum
      = AMap.sumIf (fun k => decide (g k ∈ L) && q k) f m := by
  induction m with
  | nil => simp [AMap.sumIf, sum_map_zero]
  | cons e m ih =>
    obtain ⟨k, v⟩ := e
    simp only [AMap.sumIf]
    rw [sum_map_add, ih]
    congr 1
    by_cases hq : q k
    · simp only [hq, Bool.and_true, decide_eq_true_eq]
      exact sum_indicator L hnd (g k) (f v)
    · simp [hq, sum_map_zero]

theorem sumIf_congr {K V : Type} [DecidableEq K] (p q : K → Bool) (f : V → Nat) (m : AMap K V)
    (h : ∀ e ∈ m, (if p e.1 then f e.2 else 0) = (if q e.1 then f e.2 else 0)) :
    AMap.sumIf p f m = AMap.sumIf q f m := by
  induction m with
  | nil => rfl
  | cons e m ih =>
    obtain ⟨k, v⟩ := e
    simp only [AMap.sumIf]
    rw [ih (fun e he => h e (List.mem_cons_of_mem _ he))]
    have := h (k, v) (List.mem_cons_self)
    simp only at this
    rw [this]


theorem mem_set {K V : Type} [DecidableEq K] {m : AMap K V} {k : K} {v : V} {e : K × V}
    (h : e ∈ AMap.set m k v) : e ∈ m ∨ e = (k, v) := by
  induction m with
  | nil => simp [AMap.set] at h; exact Or.inr h
  | cons hd tl ih =>
    obtain ⟨k', v'⟩ := hd
    unfold AMap.set at h
    by_cases hk : k' = k
    · simp only [hk, if_true] at h
      rcases List.mem_cons.mp h with h | h
      · exact Or.inr h
      · exact Or.inl (List.mem_cons_of_mem _ h)
    · simp only [hk, if_false] at h
      rcases List.mem_cons.mp h with h | h
      · exact Or.inl (h ▸ List.mem_cons_self)
      · rcases ih h with h | h
        · exact Or.inl (List.mem_cons_of_mem _ h)
        · exact Or.inr h

end Irismod.Proofs.Nft
