/-
Soundness of the NFT monitors (`monitor C14` / `monitor C12` of drv-nft) with respect to the
model: every clause the driver evaluates — `Spec.C14.stepFails` on a delivered message,
`pureFails` on a pure ValidateBasic case, `exportFails` / `reimportFails` on the genesis ops —
comes out empty on every step of the model from a state satisfying C14's invariant `Inv` and
the shape predicate `WF` (both hold in every reachable state). So a monitor failure on an
implementation trace is a model/implementation disagreement or a genuine failure of the
property, never an artefact of the monitor.
-/
import Irismod.Props.C14
import Irismod.Props.C12_Nft

namespace Irismod.Proofs.NftMonitor
open Irismod Irismod.Nft Irismod.NftGenesis Irismod.Spec.C14 Irismod.Spec.C12.Nft
open Irismod.Proofs.Nft Irismod.Proofs.NftGenesis Irismod.Proofs.GenesisList Irismod.Props.C14

/-! ### iterators of a well-formed state -/

theorem mem_liveTokens {s : State} (hw : WF s) (k : ClassId × TokenId) :
    k ∈ liveTokens s ↔ hasNFT s k.1 k.2 = true := mem_liveKeys hw.nd_tokens k

theorem mem_liveOwners {s : State} (hw : WF s) (k : ClassId × TokenId) :
    k ∈ liveOwners s ↔ (ownerOf s k.1 k.2).isSome = true := mem_liveKeys hw.nd_owners k

theorem mem_liveIdx {s : State} (hw : WF s) (i : Addr × ClassId × TokenId) :
    i ∈ liveIdx s ↔ idxHas s i.1 i.2.1 i.2.2 = true := mem_liveKeys hw.nd_idx i

theorem nodup_liveKeys {K V : Type} {m : Tbl K V} (hn : NodupKeys m) : (liveKeys m).Nodup := nodupKeys_live hn

theorem mem_classIds (s : State) (c : ClassId) : c ∈ classIds s ↔ ∃ cl, AMap.get? s.classes c = some cl :=
  mem_keys_iff s.classes c

theorem eq_singleton {α : Type} {l : List α} {x : α} (hn : l.Nodup) (hall : ∀ y ∈ l, y = x) (hx : x ∈ l) :
    l = [x] := by
  cases l with
  | nil => cases hx
  | cons y t =>
    have hy : y = x := hall y List.mem_cons_self
    subst hy
    cases t with
    | nil => rfl
    | cons z t' =>
      have hz : z = y := hall z (List.mem_cons_of_mem _ List.mem_cons_self)
      subst hz
      have := (List.nodup_cons.mp hn).1
      exact absurd List.mem_cons_self this

/-! ### the state clauses (`invFail`) -/

theorem oneOwnerB_sound (s : State) (hs : Inv s) (hw : WF s) : oneOwnerB s = true := by
  unfold oneOwnerB
  rw [List.all_eq_true]
  intro k hk
  have hn := (mem_liveTokens hw k).mp hk
  obtain ⟨a, ha, hidx, huniq⟩ := one_owner s hs k.1 k.2 hn
  rw [ha]
  have hva := hw.own_ok k.1 k.2 a ha
  have hfil : ((liveIdx s).filter fun i => i.2.1 == k.1 && i.2.2 == k.2) = [(a, k.1, k.2)] := by
    apply eq_singleton
    · exact List.Nodup.sublist List.filter_sublist (nodup_liveKeys hw.nd_idx)
    · intro i hi
      rw [List.mem_filter] at hi
      obtain ⟨hi1, hi2⟩ := hi
      simp only [Bool.and_eq_true, beq_iff_eq] at hi2
      obtain ⟨x, c, t⟩ := i
      simp only at hi2
      obtain ⟨rfl, rfl⟩ := hi2
      have := huniq x ((mem_liveIdx hw _).mp hi1)
      subst this; rfl
    · rw [List.mem_filter]
      exact ⟨(mem_liveIdx hw (a, k.1, k.2)).mpr hidx, by simp⟩
  rw [hfil]
  simp only [validAddr] at hva
  simp [hva]

theorem noGhostB_sound (s : State) (hs : Inv s) (hw : WF s) : noGhostB s = true := by
  unfold noGhostB
  simp only [Bool.and_eq_true, List.all_eq_true]
  refine ⟨⟨?_, ?_⟩, ?_⟩
  · intro k hk
    have := (mem_liveOwners hw k).mp hk
    cases ho : ownerOf s k.1 k.2 with
    | none => rw [ho] at this; cases this
    | some a => exact has_of_owner hs ho
  · intro i hi
    have h1 := (mem_liveIdx hw i).mp hi
    have ho := (hs.idx_owner i.1 i.2.1 i.2.2).mp h1
    simp [has_of_owner hs ho, ho]
  · intro k hk
    exact hs.tok_class k.1 k.2 ((mem_liveTokens hw k).mp hk)

/-! ### the reported balances of `obsOf` -/
section fold
variable {K V : Type} [DecidableEq K]

/-- folding `set k (f k)` over a key list: duplicate-free, its keys are the list, its values `f` -/
theorem fold_set_spec (f : K → V) : ∀ (L : List K) (m0 : AMap K V),
    NodupKeys m0 → (∀ e ∈ m0, e.2 = f e.1) →
    NodupKeys (L.foldl (fun m k => AMap.set m k (f k)) m0) ∧
    (∀ e ∈ L.foldl (fun m k => AMap.set m k (f k)) m0, e.2 = f e.1) ∧
    (∀ k, k ∈ AMap.keys (L.foldl (fun m k => AMap.set m k (f k)) m0) ↔ k ∈ L ∨ k ∈ AMap.keys m0)
  | [], m0, h1, h2 => ⟨h1, h2, fun k => by simp⟩
  | x :: L, m0, h1, h2 => by
    have h1' := nodupKeys_set h1 x (f x)
    have h2' : ∀ e ∈ AMap.set m0 x (f x), e.2 = f e.1 := by
      intro e he
      rcases mem_set he with h | h
      · exact h2 e h
      · subst h; rfl
    obtain ⟨a, b, c⟩ := fold_set_spec f L (AMap.set m0 x (f x)) h1' h2'
    refine ⟨a, b, ?_⟩
    intro k
    simp only [List.foldl_cons]
    rw [c k, mem_keys_set]
    simp only [List.mem_cons]
    constructor
    · rintro (h | h | h)
      · exact Or.inl (Or.inr h)
      · exact Or.inl (Or.inl h)
      · exact Or.inr h
    · rintro ((h | h) | h)
      · exact Or.inr (Or.inl h)
      · exact Or.inl h
      · exact Or.inr (Or.inr h)

end fold

theorem bals_spec (s : State) :
    NodupKeys (obsOf s).bals ∧ (∀ e ∈ (obsOf s).bals, e.2 = balanceOf s e.1.1 e.1.2) ∧
    (∀ k, k ∈ AMap.keys (obsOf s).bals ↔ k ∈ balPairs s) := by
  obtain ⟨a, b, c⟩ := fold_set_spec (fun k : Addr × ClassId => balanceOf s k.1 k.2) (balPairs s) []
    (by simp [NodupKeys, AMap.keys]) (by intro e he; cases he)
  exact ⟨a, b, fun k => by have := c k; simp only [AMap.keys, List.map_nil, List.not_mem_nil, or_false] at this; exact this⟩

theorem count_eq_filter_length {K V : Type} (p : K → Bool) (m : Tbl K V) :
    Tbl.count p m = ((liveKeys m).filter p).length := by
  rw [count_eq_live]
  unfold liveKeys
  induction Tbl.live m with
  | nil => rfl
  | cons e t ih =>
    obtain ⟨k, v⟩ := e
    simp only [AMap.sumIf, List.map_cons, List.filter_cons]
    cases hp : p k with
    | true => simp [ih]; omega
    | false => simp [ih]

theorem balanceOf_zero_of_not_pair (s : State) (a : Addr) (c : ClassId) (h : (a, c) ∉ balPairs s) :
    balanceOf s a c = 0 := by
  unfold balanceOf
  rw [count_eq_filter_length]
  rw [List.length_eq_zero_iff, List.filter_eq_nil_iff]
  intro i hi hp
  apply h
  simp only [Bool.and_eq_true, decide_eq_true_eq] at hp
  unfold balPairs
  exact List.mem_map.mpr ⟨i, hi, by rw [← hp.1, ← hp.2]⟩

/-- `obsOf` reports exactly `balanceOf` for every account and class -/
theorem balOf_obsOf (s : State) (a : Addr) (c : ClassId) : balOf (obsOf s) a c = balanceOf s a c := by
  obtain ⟨hn, hv, hk⟩ := bals_spec s
  unfold balOf AMap.getD
  cases hg : AMap.get? (obsOf s).bals (a, c) with
  | some v =>
    have := hv _ (mem_of_get? hg)
    simp only at this
    simp [this]
  | none =>
    have : (a, c) ∉ balPairs s := by
      rw [← hk]; exact (get?_eq_none_iff _ _).mp hg
    simp [balanceOf_zero_of_not_pair s a c this]


/-- Σ over the reported balances of one class = number of its tokens -/
theorem bals_sum (s : State) (hs : Inv s) (c : ClassId) :
    (((obsOf s).bals.filter fun e => e.1.2 == c).map (·.2)).sum = tokenCount s c := by
  obtain ⟨hn, hv, hk⟩ := bals_spec s
  -- the owners listed for class `c`
  have hA : (((obsOf s).bals.filter fun e => e.1.2 == c).map (·.2))
      = ((((obsOf s).bals.filter fun e => e.1.2 == c).map (·.1.1)).map fun a => balanceOf s a c) := by
    rw [List.map_map]
    apply List.map_congr_left
    intro e he
    rw [List.mem_filter] at he
    have h2 : e.1.2 = c := by simpa using he.2
    simp only [Function.comp]
    rw [hv e he.1, h2]
  have hB : (((obsOf s).bals.filter fun e => e.1.2 == c).map (·.1.1)).Nodup := by
    have hp : (obsOf s).bals.Pairwise (fun x y => x.1 ≠ y.1) := by
      have := hn
      unfold NodupKeys AMap.keys List.Nodup at this
      rwa [List.pairwise_map] at this
    have hf := hp.sublist (List.filter_sublist (p := fun e => e.1.2 == c))
    unfold List.Nodup
    rw [List.pairwise_map]
    apply List.Pairwise.imp_of_mem ?_ hf
    intro x y hx hy hne heq
    rw [List.mem_filter] at hx hy
    have h1 : x.1.2 = c := by simpa using hx.2
    have h2 : y.1.2 = c := by simpa using hy.2
    exact hne (Prod.ext heq (h1.trans h2.symm))
  rw [hA, ← hs.idx_count c]
  unfold balanceOf idxCount Tbl.count
  have h1 := sumIf_split_by _ hB (fun k : Addr × ClassId × TokenId => k.1)
    (fun k => decide (k.2.1 = c)) (Tbl.one (V := Unit)) s.idx
  rw [h1]
  apply sumIf_congr
  intro e he
  cases hv2 : e.2 with
  | none => simp [Tbl.one]
  | some u =>
    by_cases hq : e.1.2.1 = c
    · have hlive : e.1 ∈ liveIdx s := by
        unfold liveIdx
        exact List.mem_map.mpr ⟨(e.1, u), (mem_live _ _ _).mpr (by rw [← hv2]; exact he), rfl⟩
      have hpair : (e.1.1, e.1.2.1) ∈ balPairs s := List.mem_map.mpr ⟨e.1, hlive, rfl⟩
      obtain ⟨v, hgv⟩ := (mem_keys_iff _ _).mp ((hk _).mpr hpair)
      have hmem : e.1.1 ∈ ((obsOf s).bals.filter fun e => e.1.2 == c).map (·.1.1) := by
        refine List.mem_map.mpr ⟨((e.1.1, e.1.2.1), v), ?_, rfl⟩
        rw [List.mem_filter]
        exact ⟨mem_of_get? hgv, by simp [hq]⟩
      simp [hmem]
    · simp [hq]

/-- a reported balance is the number of owner keys of that class held by that account -/
theorem balance_eq_owned (s : State) (hs : Inv s) (hw : WF s) (a : Addr) (c : ClassId) :
    balanceOf s a c = ((liveOwners s).filter fun k => k.1 == c && ownerOf s k.1 k.2 == some a).length := by
  unfold balanceOf
  rw [count_eq_filter_length]
  have hlen : ((liveKeys s.idx).filter fun k => decide (k.1 = a) && decide (k.2.1 = c)).length
      = (((liveKeys s.idx).filter fun k => decide (k.1 = a) && decide (k.2.1 = c)).map
          fun i => (i.2.1, i.2.2)).length := by rw [List.length_map]
  rw [hlen]
  apply List.Perm.length_eq
  have hnd1 : (((liveKeys s.idx).filter fun k => decide (k.1 = a) && decide (k.2.1 = c)).map
      fun i => (i.2.1, i.2.2)).Nodup := by
    have hf : ((liveKeys s.idx).filter fun k => decide (k.1 = a) && decide (k.2.1 = c)).Nodup :=
      List.Nodup.sublist List.filter_sublist (nodup_liveKeys hw.nd_idx)
    unfold List.Nodup
    rw [List.pairwise_map]
    apply List.Pairwise.imp_of_mem ?_ hf
    intro x y hx hy hne heq
    rw [List.mem_filter] at hx hy
    have h1 : x.1 = a := by have := hx.2; simp only [Bool.and_eq_true, decide_eq_true_eq] at this; exact this.1
    have h2 : y.1 = a := by have := hy.2; simp only [Bool.and_eq_true, decide_eq_true_eq] at this; exact this.1
    apply hne
    obtain ⟨x1, x2, x3⟩ := x
    obtain ⟨y1, y2, y3⟩ := y
    simp only [Prod.mk.injEq] at heq
    simp only at h1 h2
    subst h1; subst h2
    rw [heq.1, heq.2]
  have hnd2 : ((liveOwners s).filter fun k => k.1 == c && ownerOf s k.1 k.2 == some a).Nodup :=
    List.Nodup.sublist List.filter_sublist (nodup_liveKeys hw.nd_owners)
  rw [List.perm_ext_iff_of_nodup hnd1 hnd2]
  intro k
  obtain ⟨c', t⟩ := k
  rw [List.mem_map, List.mem_filter]
  constructor
  · rintro ⟨i, hi, hproj⟩
    rw [List.mem_filter] at hi
    obtain ⟨hi1, hi2⟩ := hi
    simp only [Bool.and_eq_true, decide_eq_true_eq] at hi2
    obtain ⟨x1, x2, x3⟩ := i
    simp only [Prod.mk.injEq] at hproj
    simp only at hi2
    obtain ⟨rfl, rfl⟩ := hi2
    obtain ⟨rfl, rfl⟩ := hproj
    have hidx : idxHas s x1 x2 x3 = true := (mem_liveIdx hw (x1, x2, x3)).mp hi1
    have ho := (hs.idx_owner x1 x2 x3).mp hidx
    refine ⟨(mem_liveOwners hw (x2, x3)).mpr (by rw [ho]; rfl), by simp [ho]⟩
  · rintro ⟨_, h2⟩
    simp only [Bool.and_eq_true, beq_iff_eq] at h2
    obtain ⟨rfl, ho⟩ := h2
    have hidx := (hs.idx_owner a c' t).mpr ho
    refine ⟨(a, c', t), ?_, rfl⟩
    rw [List.mem_filter]
    exact ⟨(mem_liveIdx hw (a, c', t)).mpr hidx, by simp⟩

theorem supplyB_sound (s : State) (hs : Inv s) (hw : WF s) : supplyB (obsOf s) = true := by
  unfold supplyB
  simp only [Bool.and_eq_true, List.all_eq_true, beq_iff_eq]
  refine ⟨?_, ?_⟩
  · intro c _
    exact ⟨hs.supply_count c, (bals_sum s hs c).symm⟩
  · intro e he
    rw [(bals_spec s).2.1 e he]
    exact balance_eq_owned s hs hw e.1.1 e.1.2

/-- **the state clauses hold in every well-formed state satisfying the invariant** -/
theorem invFail_sound (s : State) (hs : Inv s) (hw : WF s) : invFail (obsOf s) = none := by
  have h1 : oneOwnerB (obsOf s).st = true := oneOwnerB_sound s hs hw
  have h2 : noGhostB (obsOf s).st = true := noGhostB_sound s hs hw
  unfold invFail
  simp [h1, h2, supplyB_sound s hs hw]


/-! ### frame clauses from pointwise facts -/

theorem tokensSame_of (pre post : State) (ex : List (ClassId × TokenId))
    (h : ∀ k : ClassId × TokenId, k ∉ ex → tokenOf post k.1 k.2 = tokenOf pre k.1 k.2) :
    tokensSameExcept pre post ex = true := by
  unfold tokensSameExcept
  rw [List.all_eq_true]
  intro k _
  by_cases hk : k ∈ ex
  · simp [hk]
  · simp [h k hk]

theorem ownersSame_of (pre post : State) (ex : List (ClassId × TokenId))
    (h : ∀ k : ClassId × TokenId, k ∉ ex → ownerOf post k.1 k.2 = ownerOf pre k.1 k.2) :
    ownersSameExcept pre post ex = true := by
  unfold ownersSameExcept
  rw [List.all_eq_true]
  intro k _
  by_cases hk : k ∈ ex
  · simp [hk]
  · simp [h k hk]

theorem idxSame_of (pre post : State) (ex : List (ClassId × TokenId))
    (h : ∀ i : Addr × ClassId × TokenId, (i.2.1, i.2.2) ∉ ex →
      idxHas post i.1 i.2.1 i.2.2 = idxHas pre i.1 i.2.1 i.2.2) :
    idxSame pre post ex = true := by
  unfold idxSame
  rw [List.all_eq_true]
  intro i _
  by_cases hk : (i.2.1, i.2.2) ∈ ex
  · simp [hk]
  · simp [h i hk]

theorem classesSame_of (pre post : State) (ex : List ClassId)
    (h : ∀ c : ClassId, c ∉ ex → AMap.get? post.classes c = AMap.get? pre.classes c) :
    classesSameExcept pre post ex = true := by
  unfold classesSameExcept
  rw [List.all_eq_true]
  intro c _
  by_cases hk : c ∈ ex
  · simp [hk]
  · simp [h c hk]

theorem supplySame_of (pre post : State) (ex : List ClassId)
    (h : ∀ c : ClassId, c ∉ ex → supplyOf post c = supplyOf pre c) :
    supplySameExcept pre post ex = true := by
  unfold supplySameExcept
  rw [List.all_eq_true]
  intro c _
  by_cases hk : c ∈ ex
  · simp [hk]
  · simp [h c hk]

/-- two model states that answer every query alike are the same observation -/
theorem sameObs_of (a b : State)
    (h1 : ∀ c t, tokenOf b c t = tokenOf a c t) (h2 : ∀ c t, ownerOf b c t = ownerOf a c t)
    (h3 : ∀ x c t, idxHas b x c t = idxHas a x c t) (h4 : ∀ c, AMap.get? b.classes c = AMap.get? a.classes c)
    (h5 : ∀ c, supplyOf b c = supplyOf a c) (h6 : ∀ x c, balanceOf b x c = balanceOf a x c) :
    sameObs (obsOf a) (obsOf b) = true := by
  have hb : balsSame (obsOf a) (obsOf b) = true := by
    unfold balsSame
    rw [List.all_eq_true]
    intro e _
    rw [balOf_obsOf, balOf_obsOf, h6]; simp
  unfold sameObs
  rw [show (obsOf a).st = a from rfl, show (obsOf b).st = b from rfl,
    tokensSame_of a b [] (fun k _ => h1 k.1 k.2), ownersSame_of a b [] (fun k _ => h2 k.1 k.2),
    idxSame_of a b [] (fun i _ => h3 i.1 i.2.1 i.2.2), classesSame_of a b [] (fun c _ => h4 c),
    supplySame_of a b [] (fun c _ => h5 c), hb]
  rfl

theorem sameObs_refl (s : State) : sameObs (obsOf s) (obsOf s) = true :=
  sameObs_of s s (fun _ _ => rfl) (fun _ _ => rfl) (fun _ _ _ => rfl) (fun _ => rfl) (fun _ => rfl) (fun _ _ => rfl)


/-! ### the per-message clauses (`opFail`) on an accepted model step -/

theorem not_mem_single {α : Type} {x y : α} (h : x ∉ [y]) : y ≠ x := by
  intro e; apply h; simp [e]

theorem opFail_issue (s s' : State) (sender id mr ur name symbol schema desc uri uriHash data)
    (h : step s (.issue sender id mr ur name symbol schema desc uri uriHash data) = .ok s') :
    opFail s (.issue sender id mr ur name symbol schema desc uri uriHash data) s' = none := by
  obtain ⟨_, hnc, hs'⟩ := stepIssue_ok h
  have hcl : ∀ c', id ≠ c' → AMap.get? s'.classes c' = AMap.get? s.classes c' := by
    intro c' hne; rw [hs']; exact AMap.get?_set_other _ _ _ _ hne
  have hnew : AMap.get? s'.classes id = some (newClass sender mr ur name symbol schema desc uri uriHash data) := by
    rw [hs']; exact AMap.get?_set_self _ _ _
  have h1 : classesSameExcept s s' [id] = true := classesSame_of _ _ _ (fun c hc => hcl c (not_mem_single hc))
  have h2 : tokensSameExcept s s' [] = true := tokensSame_of _ _ _ (fun _ _ => by rw [hs']; rfl)
  have h3 : ownersSameExcept s s' [] = true := ownersSame_of _ _ _ (fun _ _ => by rw [hs']; rfl)
  have h4 : idxSame s s' [] = true := idxSame_of _ _ _ (fun _ _ => by rw [hs']; rfl)
  unfold opFail
  simp [hnc, h1, h2, h3, h4, creatorOf, mintRestricted, updateRestricted, hnew, newClass]

theorem opFail_mint (s s' : State) (sender rcpt c t name uri uriHash data)
    (h : step s (.mint sender rcpt c t name uri uriHash data) = .ok s') :
    opFail s (.mint sender rcpt c t name uri uriHash data) s' = none := by
  obtain ⟨_, cl, hcl, hmr, hm⟩ := stepMint_ok h
  obtain ⟨hc, hn, hs'⟩ := nkMint_ok hm
  have hgate : (mintRestricted s c && creatorOf s c != some sender) = false := by
    simp only [mintRestricted, creatorOf, hcl, Option.map_some]
    cases hb : cl.mintRestricted with
    | false => rfl
    | true => simp [hmr hb]
  have hp1 : hasNFT s' c t = true := by rw [hs']; simp [hasNFT, tokenOf, get_put]
  have hp2 : ownerOf s' c t = some rcpt := by rw [hs']; simp [ownerOf, get_put]
  have h1 : classesSameExcept s s' [] = true := classesSame_of _ _ _ (fun _ _ => by rw [hs'])
  have h2 : tokensSameExcept s s' [(c, t)] = true :=
    tokensSame_of _ _ _ (fun k hk => by rw [hs']; simp only [tokenOf, get_put, not_mem_single hk, if_false])
  have h3 : ownersSameExcept s s' [(c, t)] = true :=
    ownersSame_of _ _ _ (fun k hk => by rw [hs']; simp only [ownerOf, get_put, not_mem_single hk, if_false])
  have h4 : idxSame s s' [(c, t)] = true :=
    idxSame_of _ _ _ (fun i hi => by
      have hne : (rcpt, c, t) ≠ (i.1, i.2.1, i.2.2) := by
        intro e; apply hi; simp only [Prod.mk.injEq] at e; simp [e.2.1, e.2.2]
      rw [hs']; simp only [idxHas, has_put, hne, if_false])
  unfold opFail
  simp [hc, hgate, hn, h1, h2, h3, h4, hp1, hp2]

theorem opFail_edit (s s' : State) (hs : Inv s) (sender c t name uri uriHash data)
    (h : step s (.edit sender c t name uri uriHash data) = .ok s') :
    opFail s (.edit sender c t name uri uriHash data) s' = none := by
  obtain ⟨_, cl, _, _, ho, hr⟩ := stepEdit_ok h
  have hn := has_of_owner hs ho
  have hfacts : hasNFT s' c t = true ∧ s'.classes = s.classes ∧ s'.owners = s.owners ∧ s'.idx = s.idx ∧
      ∀ k : ClassId × TokenId, (c, t) ≠ k → tokenOf s' k.1 k.2 = tokenOf s k.1 k.2 := by
    rcases hr with rfl | ⟨r, _, rfl⟩
    · exact ⟨hn, rfl, rfl, rfl, fun _ _ => rfl⟩
    · exact ⟨by simp [hasNFT, tokenOf, get_put], rfl, rfl, rfl,
        fun k hk => by simp only [tokenOf, get_put, hk, if_false]⟩
  obtain ⟨hp, e1, e2, e3, e4⟩ := hfacts
  have h1 : classesSameExcept s s' [] = true := classesSame_of _ _ _ (fun _ _ => by rw [e1])
  have h2 : tokensSameExcept s s' [(c, t)] = true := tokensSame_of _ _ _ (fun k hk => e4 k (not_mem_single hk))
  have h3 : ownersSameExcept s s' [] = true := ownersSame_of _ _ _ (fun _ _ => by unfold ownerOf; rw [e2])
  have h4 : idxSame s s' [] = true := idxSame_of _ _ _ (fun _ _ => by unfold idxHas; rw [e3])
  unfold opFail
  simp [ho, hn, hp, h1, h2, h3, h4]

theorem opFail_transfer (s s' : State) (hs : Inv s) (sender rcpt c t name uri uriHash data)
    (h : step s (.transfer sender rcpt c t name uri uriHash data) = .ok s') :
    opFail s (.transfer sender rcpt c t name uri uriHash data) s' = none := by
  obtain ⟨_, r, _, hr, ho, _, _, tk, htk, hs'⟩ := stepTransfer_ok h
  have hn := has_of_owner hs ho
  have htok : ∀ k : ClassId × TokenId, (c, t) ≠ k → Tbl.get tk k = Tbl.get s.tokens k := by
    intro k hk
    rcases htk with rfl | ⟨_, rfl⟩
    · rfl
    · simp only [get_put, hk, if_false]
  have hpost : hasNFT s' c t = true := by
    rw [hs']
    rcases htk with rfl | ⟨_, rfl⟩
    · exact hn
    · simp [hasNFT, tokenOf, get_put]
  have hp2 : ownerOf s' c t = some rcpt := by rw [hs']; simp [ownerOf, get_put]
  have h1 : classesSameExcept s s' [] = true := classesSame_of _ _ _ (fun _ _ => by rw [hs'])
  have h2 : tokensSameExcept s s' [(c, t)] = true :=
    tokensSame_of _ _ _ (fun k hk => by rw [hs']; exact htok k (not_mem_single hk))
  have h3 : ownersSameExcept s s' [(c, t)] = true :=
    ownersSame_of _ _ _ (fun k hk => by
      rw [hs']; simp only [ownerOf, get_put, get_del, not_mem_single hk, if_false])
  have h4 : idxSame s s' [(c, t)] = true :=
    idxSame_of _ _ _ (fun i hi => by
      have hne1 : (rcpt, c, t) ≠ (i.1, i.2.1, i.2.2) := by
        intro e; apply hi; simp only [Prod.mk.injEq] at e; simp [e.2.1, e.2.2]
      have hne2 : (sender, c, t) ≠ (i.1, i.2.1, i.2.2) := by
        intro e; apply hi; simp only [Prod.mk.injEq] at e; simp [e.2.1, e.2.2]
      rw [hs']; simp only [idxHas, has_put, has_del, hne1, hne2, if_false])
  unfold opFail
  simp [ho, hn, hpost, hp2, h1, h2, h3, h4]

theorem opFail_burn (s s' : State) (sender c t) (h : step s (.burn sender c t) = .ok s') :
    opFail s (.burn sender c t) s' = none := by
  obtain ⟨_, ho, hn, hs'⟩ := stepBurn_ok h
  have hp1 : hasNFT s' c t = false := by rw [hs']; simp [hasNFT, tokenOf, get_del]
  have hp2 : ownerOf s' c t = none := by rw [hs']; simp [ownerOf, get_del]
  have h1 : classesSameExcept s s' [] = true := classesSame_of _ _ _ (fun _ _ => by rw [hs'])
  have h2 : tokensSameExcept s s' [(c, t)] = true :=
    tokensSame_of _ _ _ (fun k hk => by rw [hs']; simp only [tokenOf, get_del, not_mem_single hk, if_false])
  have h3 : ownersSameExcept s s' [(c, t)] = true :=
    ownersSame_of _ _ _ (fun k hk => by rw [hs']; simp only [ownerOf, get_del, not_mem_single hk, if_false])
  have h4 : idxSame s s' [(c, t)] = true :=
    idxSame_of _ _ _ (fun i hi => by
      have hne : (sender, c, t) ≠ (i.1, i.2.1, i.2.2) := by
        intro e; apply hi; simp only [Prod.mk.injEq] at e; simp [e.2.1, e.2.2]
      rw [hs']; simp only [idxHas, has_del, hne, if_false])
  unfold opFail
  simp [ho, hn, hp1, hp2, h1, h2, h3, h4]

theorem opFail_transferDenom (s s' : State) (sender rcpt c) (h : step s (.transferDenom sender rcpt c) = .ok s') :
    opFail s (.transferDenom sender rcpt c) s' = none := by
  obtain ⟨_, cl, hcl, hcr, hs'⟩ := stepTransferDenom_ok h
  have hnew : AMap.get? s'.classes c = some { cl with creator := rcpt } := by
    rw [hs']; exact AMap.get?_set_self _ _ _
  have h1 : classesSameExcept s s' [c] = true :=
    classesSame_of _ _ _ (fun c' hc => by rw [hs']; exact AMap.get?_set_other _ _ _ _ (not_mem_single hc))
  have h2 : tokensSameExcept s s' [] = true := tokensSame_of _ _ _ (fun _ _ => by rw [hs']; rfl)
  have h3 : ownersSameExcept s s' [] = true := ownersSame_of _ _ _ (fun _ _ => by rw [hs']; rfl)
  have h4 : idxSame s s' [] = true := idxSame_of _ _ _ (fun _ _ => by rw [hs']; rfl)
  have h5 : supplySameExcept s s' [] = true := supplySame_of _ _ _ (fun _ _ => by rw [hs']; rfl)
  unfold opFail
  simp [h1, h2, h3, h4, h5, creatorOf, hcl, hcr, hnew]

theorem opFail_sound (s s' : State) (op : Op) (hs : Inv s) (h : step s op = .ok s') : opFail s op s' = none := by
  cases op with
  | issue sender id mr ur name symbol schema desc uri uriHash data => exact opFail_issue _ _ _ _ _ _ _ _ _ _ _ _ _ h
  | mint sender rcpt c t name uri uriHash data => exact opFail_mint _ _ _ _ _ _ _ _ _ _ h
  | edit sender c t name uri uriHash data => exact opFail_edit _ _ hs _ _ _ _ _ _ _ h
  | transfer sender rcpt c t name uri uriHash data => exact opFail_transfer _ _ hs _ _ _ _ _ _ _ _ h
  | burn sender c t => exact opFail_burn _ _ _ _ _ h
  | transferDenom sender rcpt c => exact opFail_transferDenom _ _ _ _ _ h


/-! ### the clauses that hold across every accepted message (`globalFail`) -/

theorem tokenOf_some_of_has {s : State} {c t} (h : hasNFT s c t = true) : ∃ r, tokenOf s c t = some r :=
  tokenOf_of_has h

theorem globalFail_sound (s s' : State) (op : Op) (hw : WF s) (hw' : WF s') (h : step s op = .ok s') :
    globalFail s op s' = none := by
  have c1 : ((classIds s).all fun c => flagsStable s s' c) = true := by
    rw [List.all_eq_true]
    intro c hc
    obtain ⟨cl, hcl⟩ := (mem_classIds s c).mp hc
    rcases class_step s s' op h c cl hcl with h1 | ⟨_, _, h1⟩ <;> simp [flagsStable, hcl, h1]
  have c2 : ((classIds s).all fun c => creatorOf s' c == creatorOf s c || opHandsOver s op s' c) = true := by
    rw [List.all_eq_true]
    intro c hc
    obtain ⟨cl, hcl⟩ := (mem_classIds s c).mp hc
    rcases class_step s s' op h c cl hcl with h1 | ⟨rcpt, hop, h1⟩
    · simp [creatorOf, hcl, h1]
    · rw [hop]; simp [opHandsOver, creatorOf, hcl, h1]
  have c3 : ((liveTokens s).all fun k =>
        !(updateRestricted s k.1) || !(hasNFT s' k.1 k.2) || tokenOf s' k.1 k.2 == tokenOf s k.1 k.2) = true := by
    rw [List.all_eq_true]
    intro k hk
    obtain ⟨r, hr⟩ := tokenOf_some_of_has ((mem_liveTokens hw k).mp hk)
    cases hur : updateRestricted s k.1 with
    | false => simp
    | true =>
      cases hl : hasNFT s' k.1 k.2 with
      | false => simp
      | true => simp [update_restricted_step s s' op h k.1 k.2 r hur hr hl, hr]
  have c4 : ((liveTokens s).all fun k => hasNFT s' k.1 k.2 || opBurns op k.1 k.2) = true := by
    rw [List.all_eq_true]
    intro k hk
    rcases (token_step s s' op h k.1 k.2).1 ((mem_liveTokens hw k).mp hk) with
      h1 | ⟨sender, hop, _, _⟩ | ⟨_, _, _, _, _, _, _, _, h1, _⟩
    · simp [h1.1]
    · rw [hop]; simp [opBurns]
    · simp [h1]
  have c5 : ((liveTokens s').all fun k => hasNFT s k.1 k.2 || opMints op k.1 k.2) = true := by
    rw [List.all_eq_true]
    intro k hk
    have hpost := (mem_liveTokens hw' k).mp hk
    cases hpre : hasNFT s k.1 k.2 with
    | true => simp
    | false =>
      obtain ⟨sender, rcpt, name, uri, uriHash, data, hop, _⟩ := (token_step s s' op h k.1 k.2).2 hpre hpost
      rw [hop]; simp [opMints]
  have c6 : ((liveTokens s).all fun k =>
        !(hasNFT s' k.1 k.2) || ownerOf s' k.1 k.2 == ownerOf s k.1 k.2 || opTransfers op k.1 k.2) = true := by
    rw [List.all_eq_true]
    intro k hk
    rcases (token_step s s' op h k.1 k.2).1 ((mem_liveTokens hw k).mp hk) with
      h1 | ⟨sender, _, _, h1⟩ | ⟨sender, rcpt, name, uri, uriHash, data, hop, _⟩
    · simp [h1.2]
    · simp [h1]
    · rw [hop]; simp [opTransfers]
  unfold globalFail
  simp only [c1, c2, c3, c4, c5, c6, Bool.not_true, Bool.false_eq_true, if_false]

/-! ### the theorems about what the driver evaluates -/

theorem nkMint_no_panic (s : State) (c t r a) (w : String) : nkMint s c t r a ≠ .error (.panic w) := by
  intro h; unfold nkMint at h
  split at h; · cases h
  split at h <;> cases h

theorem nkBurn_no_panic (s : State) (c t) (w : String) : nkBurn s c t ≠ .error (.panic w) := by
  intro h; unfold nkBurn at h
  split at h; · cases h
  split at h <;> cases h

theorem nkUpdate_no_panic (s : State) (c t r) (w : String) : nkUpdate s c t r ≠ .error (.panic w) := by
  intro h; unfold nkUpdate at h
  split at h; · cases h
  split at h <;> cases h

theorem nkTransfer_no_panic (s : State) (c t a) (w : String) : nkTransfer s c t a ≠ .error (.panic w) := by
  intro h; unfold nkTransfer at h
  split at h; · cases h
  split at h <;> cases h

/-- the model never panics: every failure of a message is an ordinary rejection -/
theorem no_panic (s : State) (op : Op) (w : String) : step s op ≠ .error (.panic w) := by
  intro h
  cases op with
  | issue sender id mr ur name symbol schema desc uri uriHash data =>
    simp only [step] at h; unfold stepIssue at h
    split at h; · cases h
    split at h <;> cases h
  | mint sender rcpt c t name uri uriHash data =>
    simp only [step] at h; unfold stepMint at h
    split at h; · cases h
    split at h; · cases h
    split at h; · cases h
    exact nkMint_no_panic _ _ _ _ _ _ h
  | edit sender c t name uri uriHash data =>
    simp only [step] at h; unfold stepEdit at h
    split at h; · cases h
    split at h; · cases h
    split at h; · cases h
    split at h; · cases h
    split at h; · cases h
    split at h; · cases h
    exact nkUpdate_no_panic _ _ _ _ _ h
  | transfer sender rcpt c t name uri uriHash data =>
    simp only [step] at h; unfold stepTransfer at h
    split at h; · cases h
    split at h; · cases h
    split at h; · cases h
    split at h; · cases h
    split at h; · cases h
    split at h; · exact nkTransfer_no_panic _ _ _ _ _ h
    split at h
    · rename_i e he
      cases h
      exact nkUpdate_no_panic _ _ _ _ _ he
    · exact nkTransfer_no_panic _ _ _ _ _ h
  | burn sender c t =>
    simp only [step] at h; unfold stepBurn at h
    split at h; · cases h
    split at h; · cases h
    exact nkBurn_no_panic _ _ _ _ h
  | transferDenom sender rcpt c =>
    simp only [step] at h; unfold stepTransferDenom at h
    split at h; · cases h
    split at h; · cases h
    split at h; · cases h
    split at h <;> cases h

/-- did the model accept / panic on this message? (the result class the harness prints) -/
def accepted (s : State) (op : Op) : Bool := (step s op).isOk
def panicked (s : State) (op : Op) : Bool := match step s op with | .error (.panic _) => true | _ => false

/-- **monitor soundness, delivered messages**: on every step of the model from a state
satisfying `Inv` and `WF` (every reachable state does), the driver's clause list for
`monitor C14` / `monitor C12` is empty — per-message authority and frame clauses, the global
stability clauses, rejected ⇒ unchanged, no panic, and the state invariant afterwards. -/
theorem monitor_sound (s : State) (op : Op) (hs : Inv s) (hw : WF s) :
    stepFails (obsOf s) op (accepted s op) (panicked s op) (obsOf (apply s op)) = [] := by
  have hi' : Inv (apply s op) := inv_apply s op hs
  have hw' : WF (apply s op) := wf_apply s op hw
  have hinv := invFail_sound (apply s op) hi' hw'
  unfold stepFails accepted panicked apply
  unfold apply at hinv
  cases h : step s op with
  | ok s' =>
    rw [h] at hinv
    have h1 := opFail_sound s s' op hs h
    have h2 := globalFail_sound s s' op hw (wf_step s s' op hw h) h
    simp only [stepFail, Except.isOk, Except.toBool, if_true]
    rw [show (obsOf s).st = s from rfl, show (obsOf s').st = s' from rfl, h1, h2, hinv]
    rfl
  | error e =>
    rw [h] at hinv
    cases e with
    | reject w =>
      simp only [stepFail, Except.isOk, Except.toBool, sameObs_refl s, hinv]
      rfl
    | panic w => exact absurd h (no_panic s op w)

/-- **monitor soundness, pure ValidateBasic cases** (`nft vjson`): the model state does not move -/
theorem pure_sound (s : State) : pureFails (obsOf s) (obsOf s) = [] := by
  unfold pureFails; rw [sameObs_refl]; rfl

/-- **monitor soundness, genesis ops** (`nft export`, `nft reimport`): the model's export
validates; the model's re-import succeeds, preserves every observed query and satisfies the
state clauses again -/
theorem genesis_sound (s : State) (hs : Inv s) (hw : WF s) :
    exportFails (validateGenesis (exportGenesis s)) = [] ∧
    ∃ s', importGenesis (exportGenesis s) = .ok s' ∧ reimportFails (obsOf s) true (obsOf s') = [] := by
  refine ⟨by rw [validate_export s hw hs]; rfl, ?_⟩
  obtain ⟨s', h1, h2, hg⟩ := import_export s hw hs
  refine ⟨s', h1, ?_⟩
  have hsame := sameObs_of s s' h2.tokens h2.owners h2.idx h2.classes h2.supply h2.balances
  have hinv := invFail_sound s' hg.inv (wf_of_obsEq h2 hg hw)
  unfold reimportFails
  rw [hsame, hinv]
  rfl

/-- over whole histories: from the empty chain, every line of every history passes the monitor -/
theorem monitor_sound_reachable (ops : List Op) (op : Op) :
    stepFails (obsOf (run {} ops)) op (accepted (run {} ops) op) (panicked (run {} ops) op)
      (obsOf (apply (run {} ops) op)) = [] :=
  monitor_sound _ op (inv_reachable ops) (wf_run {} ops wf_init)

/-- non-vacuity: the hypotheses are met by the concrete demo state of C14 (a reachable state
with a restricted class, a live and a burnt token), and the conclusion is about concrete lines;
`Audit/C14.lean` evaluates the same functions on it -/
example : Inv demo ∧ WF demo ∧
    stepFails (obsOf demo) (.burn "A2" "cla" "tok1") (accepted demo (.burn "A2" "cla" "tok1"))
      (panicked demo (.burn "A2" "cla" "tok1")) (obsOf (apply demo (.burn "A2" "cla" "tok1"))) = [] :=
  ⟨inv_reachable _, wf_run {} _ wf_init, monitor_sound _ _ (inv_reachable _) (wf_run {} _ wf_init)⟩

end Irismod.Proofs.NftMonitor
