/-
The community-pool operations (MsgCreatePoolWithCommunityPool, MsgFundCommunityPool, gov's
EndBlocker on one proposal with the farm hooks) seen from the farm module's own records: each of
them leaves pools, farmers, queue, ledgers and the farm / reward-collector accounts alone
(`CpFrame`), except a passed proposal whose handler creates one pool from escrowed funds
(`CpEffect.created`).  Every invariant family of C05/C06/C13/C12 is carried over these two shapes.
-/
import Irismod.Proofs.FarmInvert

namespace Irismod.Proofs.Farm
open Irismod Irismod.Sdk Irismod.Farm Irismod.Spec

/-! ### frames -/

/-- the farm module's own records are untouched (bank and community-pool state may differ) -/
structure Quiet (s s' : State) : Prop where
  pools   : s'.pools = s.pools
  farmers : s'.farmers = s.farmers
  queue   : s'.queue = s.queue
  height  : s'.height = s.height
  seq     : s'.seq = s.seq
  params  : s'.params = s.params
  ledger  : s'.ledger = s.ledger
  resp    : s'.resp = s.resp

theorem Quiet.refl (s : State) : Quiet s s := ⟨rfl, rfl, rfl, rfl, rfl, rfl, rfl, rfl⟩

theorem Quiet.trans {a b c : State} (h1 : Quiet a b) (h2 : Quiet b c) : Quiet a c :=
  ⟨h2.pools.trans h1.pools, h2.farmers.trans h1.farmers, h2.queue.trans h1.queue, h2.height.trans h1.height,
   h2.seq.trans h1.seq, h2.params.trans h1.params, h2.ledger.trans h1.ledger, h2.resp.trans h1.resp⟩

theorem BankOnly.quiet {s s' : State} (b : BankOnly s s') : Quiet s s' :=
  ⟨b.pools, b.farmers, b.queue, b.height, b.seq, b.params, b.ledger, b.resp⟩

/-- … and the farm and reward-collector accounts keep their balances -/
structure CpFrame (s s' : State) : Prop where
  quiet : Quiet s s'
  farm  : ∀ d, s'.bank.balOf farmAcc d = s.bank.balOf farmAcc d
  coll  : ∀ d, s'.bank.balOf collectorAcc d = s.bank.balOf collectorAcc d

theorem CpFrame.refl (s : State) : CpFrame s s := ⟨Quiet.refl s, fun _ => rfl, fun _ => rfl⟩

theorem CpFrame.trans {a b c : State} (h1 : CpFrame a b) (h2 : CpFrame b c) : CpFrame a c :=
  ⟨h1.quiet.trans h2.quiet, fun d => (h2.farm d).trans (h1.farm d), fun d => (h2.coll d).trans (h1.coll d)⟩

/-- only the community-pool component differs -/
theorem cpFrame_withCp (s : State) (c : Cp) : CpFrame s { s with cp := c } :=
  ⟨⟨rfl, rfl, rfl, rfl, rfl, rfl, rfl, rfl⟩, fun _ => rfl, fun _ => rfl⟩

/-- a send leaves every third account alone (also when source and destination coincide) -/
theorem sendAll_untouched {s s' : State} {src dst a : Addr} {cs : CoinList} (h : sendAll s src dst cs = .ok s')
    (h1 : a ≠ src) (h2 : a ≠ dst) : ∀ d, s'.bank.balOf a d = s.bank.balOf a d := by
  obtain ⟨_, hb⟩ := sendAll_ok h
  by_cases e : src = dst
  · subst e
    have hself : ∀ (cs : CoinList) (b b' : Bank), Bank.sendCoins b src src cs = some b' →
        ∀ a d, Bank.balOf b' a d = Bank.balOf b a d := by
      intro cs
      induction cs with
      | nil => intro b b' h a d; simp [Bank.sendCoins] at h; rw [h]
      | cons c t ih =>
        intro b b' h a d
        obtain ⟨d0, n⟩ := c
        simp only [Bank.sendCoins, Option.bind] at h
        cases h1 : Bank.send b src src d0 n with
        | none => simp [h1] at h
        | some b1 =>
          simp only [h1] at h
          rw [ih b1 b' h a d, Bank.send_self b b1 src d0 n h1 a d]
    exact fun d => hself _ _ _ hb _ _
  · obtain ⟨_, _, d3⟩ := sendCoins_deltas _ _ _ _ _ e hb
    exact fun d => d3 a d h1 h2

/-- a send between accounts other than the farm and the reward collector -/
theorem sendAll_cpFrame {s s' : State} {src dst : Addr} {cs : CoinList}
    (hs1 : src ≠ farmAcc) (hs2 : src ≠ collectorAcc) (hd1 : dst ≠ farmAcc) (hd2 : dst ≠ collectorAcc)
    (h : sendAll s src dst cs = .ok s') : CpFrame s s' :=
  ⟨(sendAll_ok h).1.quiet, sendAll_untouched h (Ne.symm hs1) (Ne.symm hd1), sendAll_untouched h (Ne.symm hs2) (Ne.symm hd2)⟩

theorem escrow_ne : escrowAcc ≠ farmAcc ∧ escrowAcc ≠ collectorAcc := by decide
theorem distr_ne : distrAcc ≠ farmAcc ∧ distrAcc ≠ collectorAcc ∧ distrAcc ≠ feesAcc := by decide
theorem gov_ne : govAcc ≠ farmAcc ∧ govAcc ≠ collectorAcc := by decide

theorem user_ne2 {a : Addr} (h : isModuleAcc a = false) : a ≠ farmAcc ∧ a ≠ collectorAcc := by
  unfold isModuleAcc at h
  simp only [Bool.or_eq_false_iff, decide_eq_false_iff_not] at h
  exact ⟨h.1.1.1.1.1, h.1.1.1.1.2⟩

/-! ### the proposers on record are user accounts -/

/-- every escrow info and every gov proposal names a user account as proposer (the signer of the
`MsgCreatePoolWithCommunityPool` that created it) -/
def CpUsers (s : State) : Prop :=
  (∀ pid e, AMap.get? s.cp.escrow pid = some e → isModuleAcc e.proposer = false) ∧
  (∀ pid pr, AMap.get? s.cp.props pid = some pr → isModuleAcc pr.proposer = false)

theorem cpUsers_of_eq {s s' : State} (he : s'.cp.escrow = s.cp.escrow) (hp : s'.cp.props = s.cp.props)
    (h : CpUsers s) : CpUsers s' :=
  ⟨fun pid e hg => h.1 pid e (by rw [← he]; exact hg), fun pid pr hg => h.2 pid pr (by rw [← hp]; exact hg)⟩

theorem cpUsers_of_cp {s s' : State} (hc : s'.cp = s.cp) (h : CpUsers s) : CpUsers s' :=
  cpUsers_of_eq (by rw [hc]) (by rw [hc]) h

theorem get?_erase_sub {K V : Type} [DecidableEq K] (m : AMap K V) (k k2 : K) (v : V)
    (h : AMap.get? (AMap.erase m k) k2 = some v) : AMap.get? m k2 = some v := by
  by_cases e : k = k2
  · subst e; rw [get?_erase_self] at h; cases h
  · rw [get?_erase_other _ _ _ e] at h; exact h

/-! ### the hooks -/

theorem refundEscrow_frame {s : State} {pid : Nat} {e : Escrow} (hu : isModuleAcc e.proposer = false) :
    CpFrame s (refundEscrow s pid e) := by
  obtain ⟨u1, u2⟩ := user_ne2 hu
  unfold refundEscrow
  split
  · exact CpFrame.refl _
  · rename_i s1 h1
    have f1 := sendAll_cpFrame escrow_ne.1 escrow_ne.2 u1 u2 h1
    split
    · exact f1
    · rename_i s2 h2
      have f2 := sendAll_cpFrame escrow_ne.1 escrow_ne.2 distr_ne.1 distr_ne.2.1 h2
      exact (f1.trans f2).trans (cpFrame_withCp _ _)

/-- `refundEscrow` touches neither the proposal table nor any escrow info but its own -/
theorem refundEscrow_tables {s : State} {pid : Nat} {e : Escrow} :
    (refundEscrow s pid e).cp.props = s.cp.props ∧
    ((refundEscrow s pid e).cp.escrow = s.cp.escrow ∨ (refundEscrow s pid e).cp.escrow = AMap.erase s.cp.escrow pid) ∧
    (refundEscrow s pid e).cp.nextId = s.cp.nextId ∧ (refundEscrow s pid e).cp.minDeposit = s.cp.minDeposit ∧
    (refundEscrow s pid e).cp.minFirst = s.cp.minFirst := by
  unfold refundEscrow
  split
  · exact ⟨rfl, Or.inl rfl, rfl, rfl, rfl⟩
  · rename_i s1 h1
    have b1 := (sendAll_ok h1).1
    split
    · exact ⟨by rw [b1.cp], Or.inl (by rw [b1.cp]), by rw [b1.cp], by rw [b1.cp], by rw [b1.cp]⟩
    · rename_i s2 h2
      have b2 := (sendAll_ok h2).1
      refine ⟨?_, Or.inr ?_, ?_, ?_, ?_⟩
      · show s2.cp.props = _; rw [b2.cp, b1.cp]
      · show AMap.erase s2.cp.escrow pid = _; rw [b2.cp, b1.cp]
      · show s2.cp.nextId = _; rw [b2.cp, b1.cp]
      · show s2.cp.minDeposit = _; rw [b2.cp, b1.cp]
      · show s2.cp.minFirst = _; rw [b2.cp, b1.cp]

theorem cpUsers_sub {s s' : State} (hp : s'.cp.props = s.cp.props)
    (he : s'.cp.escrow = s.cp.escrow ∨ ∃ pid, s'.cp.escrow = AMap.erase s.cp.escrow pid) (h : CpUsers s) : CpUsers s' := by
  refine ⟨?_, fun pid pr hg => h.2 pid pr (by rw [← hp]; exact hg)⟩
  intro pid e hg
  rcases he with he | ⟨p0, he⟩
  · exact h.1 pid e (by rw [← he]; exact hg)
  · rw [he] at hg; exact h.1 pid e (get?_erase_sub _ _ _ _ hg)

theorem hookVotingEnded_frame {s : State} {pid : Nat} (hu : CpUsers s) :
    CpFrame s (hookVotingEnded s pid) ∧ CpUsers (hookVotingEnded s pid) := by
  unfold hookVotingEnded
  split
  · exact ⟨CpFrame.refl _, hu⟩
  · rename_i info hi
    split
    · exact ⟨CpFrame.refl _, hu⟩
    · split
      · exact ⟨cpFrame_withCp _ _, cpUsers_sub (s := s) (s' := delEscrow s pid) rfl (Or.inr ⟨pid, rfl⟩) hu⟩
      · obtain ⟨t1, t2, _⟩ := refundEscrow_tables (s := s) (pid := pid) (e := info)
        refine ⟨refundEscrow_frame (hu.1 pid info hi), cpUsers_sub t1 ?_ hu⟩
        rcases t2 with t2 | t2
        · exact Or.inl t2
        · exact Or.inr ⟨pid, t2⟩

theorem hookFailedMinDeposit_frame {s : State} {pid : Nat} (hu : CpUsers s) :
    CpFrame s (hookFailedMinDeposit s pid) ∧ CpUsers (hookFailedMinDeposit s pid) := by
  unfold hookFailedMinDeposit
  split
  · exact ⟨CpFrame.refl _, hu⟩
  · rename_i info hi
    obtain ⟨t1, t2, _⟩ := refundEscrow_tables (s := s) (pid := pid) (e := info)
    refine ⟨refundEscrow_frame (hu.1 pid info hi), cpUsers_sub t1 ?_ hu⟩
    rcases t2 with t2 | t2
    · exact Or.inl t2
    · exact Or.inr ⟨pid, t2⟩

theorem refundDeposit_frame {s s1 : State} {pr : Proposal} (hu : isModuleAcc pr.proposer = false)
    (h : refundDeposit s pr = .ok s1) : CpFrame s s1 ∧ s1.cp = s.cp := by
  obtain ⟨u1, u2⟩ := user_ne2 hu
  unfold refundDeposit at h
  split at h
  · cases h; exact ⟨CpFrame.refl _, rfl⟩
  · split at h
    · cases h
    · rename_i s2 h2
      cases h
      exact ⟨sendAll_cpFrame gov_ne.1 gov_ne.2 u1 u2 h2, (sendAll_ok h2).1.cp⟩

/-! ### what a community-pool operation does to the farm module -/

/-- `createPoolCore` succeeded -/
theorem createPoolCore_ok {s2 s' : State} {id creator desc lpt start rpb total editable}
    (h : createPoolCore s2 id creator desc lpt start rpb total editable = .ok s') :
    ∃ m, getPool s2 id = none ∧ minInterval (newRules total rpb) = some m ∧
      s' = enqueue
        { s2 with seq := s2.seq + 1,
                  pools := AMap.set s2.pools id
                    { creator := creator, desc := desc, start := start, endH := start + (m : Int), last := 0,
                      editable := editable, lpt := lpt, locked := 0, rules := newRules total rpb } }
        id (start + (m : Int)) := by
  unfold createPoolCore at h
  split at h; · cases h
  rename_i hfresh
  split at h; · cases h
  rename_i m hm
  split at h; · cases h
  cases h
  have hnone : getPool s2 id = none := by
    cases hg : getPool s2 id with
    | none => rfl
    | some q => simp [hg] at hfresh
  exact ⟨m, hnone, hm, rfl⟩

theorem createPoolCore_cp {s2 s' : State} {id creator desc lpt start rpb total editable}
    (h : createPoolCore s2 id creator desc lpt start rpb total editable = .ok s') : s'.cp = s2.cp := by
  obtain ⟨m, _, _, rfl⟩ := createPoolCore_ok h
  unfold enqueue; split <;> rfl

/-- the shape of a successful run of the proposal handler -/
structure HandlerRan (s s2 : State) (c : Content) : Prop where
  desc   : c.desc.utf8ByteSize ≤ 280
  ne     : totalOf c ≠ []
  sorted : sortedCoins (totalOf c) = true
  run    : ∃ s1, sendAll s escrowAcc farmAcc (totalOf c) = .ok s1 ∧
             createPoolCore s1 (poolIdOf (s1.seq + 1)) distrAcc c.desc c.lpt s1.height c.rpb (totalOf c) false = .ok s2

theorem cpHandler_ok {s s2 : State} {c : Content} (h : cpHandler s c = .ok s2) : HandlerRan s s2 c := by
  unfold cpHandler at h
  split at h; · cases h
  rename_i hd
  split at h; · cases h
  rename_i hne
  split at h; · cases h
  rename_i hs
  split at h; · cases h
  rename_i s1 h1
  exact ⟨by omega, hne, by simpa using hs, s1, h1, h⟩

theorem cpHandler_cp {s s2 : State} {c : Content} (h : cpHandler s c = .ok s2) : s2.cp = s.cp := by
  obtain ⟨_, _, _, s1, h1, h2⟩ := cpHandler_ok h
  rw [createPoolCore_cp h2, (sendAll_ok h1).1.cp]

/-- the effect of a community-pool operation on the farm module's records: none, or one pool
created from escrowed funds between two steps that have none -/
inductive CpEffect (s s' : State) : Prop
  | frame : CpFrame s s' → CpEffect s s'
  | created (sa s2 : State) (c : Content) : CpFrame s sa → HandlerRan sa s2 c → CpFrame s2 s' → CpEffect s s'

theorem setProp_frame (s : State) (pid : Nat) (pr : Proposal) : CpFrame s (setProp s pid pr) := cpFrame_withCp _ _
theorem delProp_frame (s : State) (pid : Nat) : CpFrame s (delProp s pid) := cpFrame_withCp _ _

theorem cpUsers_setProp {s : State} {pid : Nat} {pr : Proposal} (hu : CpUsers s) (hp : isModuleAcc pr.proposer = false) :
    CpUsers (setProp s pid pr) := by
  refine ⟨hu.1, ?_⟩
  intro pid2 pr2 hg
  show isModuleAcc pr2.proposer = false
  have hg' : AMap.get? (AMap.set s.cp.props pid pr) pid2 = some pr2 := hg
  by_cases e : pid = pid2
  · subst e; rw [AMap.get?_set_self] at hg'; cases hg'; exact hp
  · rw [AMap.get?_set_other _ _ _ _ e] at hg'; exact hu.2 pid2 pr2 hg'

theorem cpUsers_delProp {s : State} {pid : Nat} (hu : CpUsers s) : CpUsers (delProp s pid) :=
  ⟨hu.1, fun pid2 pr2 hg => hu.2 pid2 pr2 (get?_erase_sub _ _ _ _ hg)⟩

theorem govTally_effect {s : State} {pid : Nat} {pr : Proposal} {passes : Bool} (hu : CpUsers s)
    (hpr : isModuleAcc pr.proposer = false) :
    CpEffect s (govTally s pid pr passes).1 ∧ CpUsers (govTally s pid pr passes).1 := by
  unfold govTally
  split
  · exact ⟨.frame (CpFrame.refl _), hu⟩
  · rename_i s1 h1
    obtain ⟨f1, hc1⟩ := refundDeposit_frame hpr h1
    have hu1 : CpUsers s1 := cpUsers_of_cp hc1 hu
    split
    · split
      · rename_i s2 h2
        have hu2 : CpUsers s2 := cpUsers_of_cp (cpHandler_cp h2) hu1
        have hu3 := cpUsers_setProp (pid := pid) (pr := { pr with status := .passed, deposit := 0 }) hu2 hpr
        obtain ⟨f4, hu4⟩ := hookVotingEnded_frame (pid := pid) hu3
        exact ⟨.created s1 s2 pr.content f1 (cpHandler_ok h2) ((setProp_frame _ _ _).trans f4), hu4⟩
      · have hu3 := cpUsers_setProp (pid := pid) (pr := { pr with status := .failed, deposit := 0 }) hu1 hpr
        obtain ⟨f4, hu4⟩ := hookVotingEnded_frame (pid := pid) hu3
        exact ⟨.frame ((f1.trans (setProp_frame _ _ _)).trans f4), hu4⟩
    · have hu3 := cpUsers_setProp (pid := pid) (pr := { pr with status := .rejected, deposit := 0 }) hu1 hpr
      obtain ⟨f4, hu4⟩ := hookVotingEnded_frame (pid := pid) hu3
      exact ⟨.frame ((f1.trans (setProp_frame _ _ _)).trans f4), hu4⟩

theorem govVote_effect {s : State} {pid : Nat} {passes : Bool} (hu : CpUsers s) :
    CpEffect s (govVote s pid passes).1 ∧ CpUsers (govVote s pid passes).1 := by
  unfold govVote
  split
  · obtain ⟨f, u⟩ := hookVotingEnded_frame (pid := pid) hu
    exact ⟨.frame f, u⟩
  · rename_i pr hpr
    split
    · exact govTally_effect hu (hu.2 pid pr hpr)
    · split
      · exact ⟨.frame (CpFrame.refl _), hu⟩
      · obtain ⟨f, u⟩ := hookVotingEnded_frame (pid := pid) hu
        exact ⟨.frame f, u⟩

theorem govFailDeposit_effect {s : State} {pid : Nat} (hu : CpUsers s) :
    CpFrame s (govFailDeposit s pid).1 ∧ CpUsers (govFailDeposit s pid).1 := by
  unfold govFailDeposit
  split
  · exact hookFailedMinDeposit_frame hu
  · rename_i pr hpr
    split
    · split
      · exact ⟨CpFrame.refl _, hu⟩
      · rename_i s1 h1
        obtain ⟨f1, hc1⟩ := refundDeposit_frame (hu.2 pid pr hpr) h1
        have hu1 : CpUsers s1 := cpUsers_of_cp hc1 (cpUsers_delProp (pid := pid) hu)
        obtain ⟨f2, u2⟩ := hookFailedMinDeposit_frame (pid := pid) hu1
        exact ⟨((delProp_frame s pid).trans f1).trans f2, u2⟩
    · split
      · exact ⟨CpFrame.refl _, hu⟩
      · exact hookFailedMinDeposit_frame hu

/-- gov's EndBlocker on one proposal, seen from the farm module -/
theorem govStep_effect {s s' : State} (hu : CpUsers s) (h : GovStep s s') : CpEffect s s' ∧ CpUsers s' := by
  obtain ⟨pid, h | h | h⟩ := h
  · rw [h]; exact govVote_effect hu
  · rw [h]; exact govVote_effect hu
  · rw [h]; obtain ⟨f, u⟩ := govFailDeposit_effect (pid := pid) hu; exact ⟨.frame f, u⟩

/-! ### the two messages -/

theorem stepFundCp_ok {s s' : State} {sender : Addr} {amt : CoinList} (h : stepFundCp s sender amt = .ok s') :
    ∃ s1, sendAll s sender distrAcc amt = .ok s1 ∧ s' = creditIf true s1 amt := by
  unfold stepFundCp at h
  split at h; · cases h
  split at h; · cases h
  split at h; · cases h
  rename_i s1 h1
  cases h
  exact ⟨s1, h1, rfl⟩

theorem fundCp_frame {s s' : State} {sender : Addr} {amt : CoinList} (hu : isModuleAcc sender = false)
    (h : stepFundCp s sender amt = .ok s') : CpFrame s s' ∧ s'.cp.escrow = s.cp.escrow ∧ s'.cp.props = s.cp.props := by
  obtain ⟨s1, h1, rfl⟩ := stepFundCp_ok h
  obtain ⟨u1, u2⟩ := user_ne2 hu
  have b1 := (sendAll_ok h1).1
  exact ⟨(sendAll_cpFrame u1 u2 distr_ne.1 distr_ne.2.1 h1).trans (cpFrame_withCp _ _),
    by show s1.cp.escrow = _; rw [b1.cp], by show s1.cp.props = _; rw [b1.cp]⟩

theorem escrowFromFeePool_ok {s s' : State} {applied : CoinList} (h : escrowFromFeePool s applied = .ok s') :
    ∃ pool' s1, cpSubCoins s.cp.pool applied = some pool' ∧ sendAll s distrAcc escrowAcc applied = .ok s1 ∧
      s' = { s1 with cp := { s1.cp with pool := pool' } } := by
  unfold escrowFromFeePool at h
  split at h; · cases h
  rename_i pool' hp
  split at h; · cases h
  rename_i s1 h1
  cases h
  exact ⟨pool', s1, hp, h1, rfl⟩

theorem cpRecord_ok {s s' : State} {proposer : Addr} {c : Content} {deposit : CoinList}
    (h : cpRecord s proposer c deposit = .ok s') :
    ∃ s1, (∀ x ∈ deposit, x.1 = depositDenom) ∧ deposit ≠ [] ∧ s.cp.minFirst ≤ amountOf deposit depositDenom ∧
      sendAll s proposer govAcc deposit = .ok s1 ∧
      s' = { s1 with cp := { s1.cp with
        props := AMap.set s1.cp.props s1.cp.nextId
          { proposer := proposer,
            status := if amountOf deposit depositDenom ≥ s1.cp.minDeposit then .voting else .deposit,
            deposit := amountOf deposit depositDenom, content := c },
        nextId := s1.cp.nextId + 1,
        escrow := AMap.set s1.cp.escrow s1.cp.nextId { proposer := proposer, applied := c.applied, selfBond := c.selfBond } } } := by
  unfold cpRecord at h
  split at h; · cases h
  rename_i hden
  split at h; · cases h
  rename_i hmin
  split at h; · cases h
  rename_i s1 h1
  cases h
  refine ⟨s1, ?_, ?_, ?_, h1, rfl⟩
  · intro x hx
    by_cases hne : x.1 = depositDenom
    · exact hne
    · exfalso
      apply hden
      simp only [List.any_eq_true, decide_eq_true_eq]
      exact ⟨x, hx, hne⟩
  · intro e; exact hmin (Or.inl e)
  · have : ¬ (amountOf deposit depositDenom < s.cp.minFirst) := fun e => hmin (Or.inr e)
    omega

/-- an accepted `MsgCreatePoolWithCommunityPool`, step by step -/
theorem stepCpSubmit_ok {s s' : State} {proposer : Addr} {title : String} {c : Content} {deposit : CoinList}
    (h : stepCpSubmit s proposer title c deposit = .ok s') :
    ∃ s1 s2 sx,
      sortedCoins c.applied = true ∧ sortedCoins c.selfBond = true ∧ sortedCoins deposit = true ∧
      (∀ x ∈ deposit, x.2 ≠ 0) ∧ c.applied ≠ [] ∧
      c.applied.length + c.selfBond.length = (totalOf c).length ∧
      sendAll s proposer escrowAcc c.selfBond = .ok s1 ∧ escrowFromFeePool s1 c.applied = .ok s2 ∧
      cpHandler s2 c = .ok sx ∧ cpRecord s2 proposer c deposit = .ok s' := by
  unfold stepCpSubmit at h
  split at h; · cases h
  rename_i hs
  split at h; · cases h
  rename_i hdep
  split at h; · cases h
  split at h; · cases h
  split at h; · cases h
  split at h; · cases h
  rename_i hap
  split at h; · cases h
  rename_i hlen
  split at h; · cases h
  unfold cpSubmitCore at h
  split at h; · cases h
  split at h; · cases h
  split at h; · cases h
  rename_i s1 h1
  split at h; · cases h
  rename_i s2 h2
  split at h; · cases h
  rename_i sx hx
  simp only [Bool.not_eq_true', Bool.and_eq_false_iff, not_or, Bool.not_eq_false] at hs
  simp only [not_or, Bool.not_eq_true', Bool.not_eq_false] at hdep
  refine ⟨s1, s2, sx, hs.1.2, hs.2, by simpa using hdep.1, ?_, hap, by omega, h1, h2, hx, h⟩
  intro x hx2 e
  have := hdep.2
  simp only [List.any_eq_true, decide_eq_true_eq, not_exists, not_and] at this
  exact this x hx2 e

theorem cpSubmit_frame {s s' : State} {proposer : Addr} {title : String} {c : Content} {deposit : CoinList}
    (hu : isModuleAcc proposer = false) (hcu : CpUsers s) (h : stepCpSubmit s proposer title c deposit = .ok s') :
    CpFrame s s' ∧ CpUsers s' := by
  obtain ⟨s1, s2, sx, _, _, _, _, _, _, h1, h2, _, h3⟩ := stepCpSubmit_ok h
  obtain ⟨u1, u2⟩ := user_ne2 hu
  obtain ⟨pool', s1', _, h2', rfl⟩ := escrowFromFeePool_ok h2
  obtain ⟨s3, _, _, _, h4, rfl⟩ := cpRecord_ok h3
  have f1 := sendAll_cpFrame u1 u2 escrow_ne.1 escrow_ne.2 h1
  have f2 := sendAll_cpFrame distr_ne.1 distr_ne.2.1 escrow_ne.1 escrow_ne.2 h2'
  have f3 := sendAll_cpFrame (s := { s1' with cp := { s1'.cp with pool := pool' } }) u1 u2 gov_ne.1 gov_ne.2 h4
  refine ⟨(((f1.trans f2).trans (cpFrame_withCp _ _)).trans f3).trans (cpFrame_withCp _ _), ?_⟩
  have b1 := (sendAll_ok h1).1
  have b2 := (sendAll_ok h2').1
  have b4 := (sendAll_ok h4).1
  have he3 : s3.cp.escrow = s.cp.escrow := by rw [b4.cp]; show s1'.cp.escrow = _; rw [b2.cp, b1.cp]
  have hp3 : s3.cp.props = s.cp.props := by rw [b4.cp]; show s1'.cp.props = _; rw [b2.cp, b1.cp]
  constructor
  · intro pid e hg
    have hg' : AMap.get? (AMap.set s3.cp.escrow s3.cp.nextId { proposer := proposer, applied := c.applied, selfBond := c.selfBond }) pid = some e := hg
    by_cases e0 : s3.cp.nextId = pid
    · subst e0; rw [AMap.get?_set_self] at hg'; cases hg'; exact hu
    · rw [AMap.get?_set_other _ _ _ _ e0, he3] at hg'; exact hcu.1 pid e hg'
  · intro pid pr hg
    have hg' : AMap.get? (AMap.set s3.cp.props s3.cp.nextId
        { proposer := proposer, status := if amountOf deposit depositDenom ≥ s3.cp.minDeposit then .voting else .deposit,
          deposit := amountOf deposit depositDenom, content := c }) pid = some pr := hg
    by_cases e0 : s3.cp.nextId = pid
    · subst e0; rw [AMap.get?_set_self] at hg'; cases hg'; exact hu
    · rw [AMap.get?_set_other _ _ _ _ e0, hp3] at hg'; exact hcu.2 pid pr hg'

/-! ### the same without any hypothesis on the proposers: the farm module's records alone -/

theorem withCp_quiet (s : State) (c : Cp) : Quiet s { s with cp := c } := ⟨rfl, rfl, rfl, rfl, rfl, rfl, rfl, rfl⟩

theorem sendAll_quiet {s s' : State} {src dst : Addr} {cs : CoinList} (h : sendAll s src dst cs = .ok s') : Quiet s s' :=
  (sendAll_ok h).1.quiet

theorem refundEscrow_quiet (s : State) (pid : Nat) (e : Escrow) : Quiet s (refundEscrow s pid e) := by
  unfold refundEscrow
  split
  · exact Quiet.refl _
  · rename_i s1 h1
    split
    · exact sendAll_quiet h1
    · rename_i s2 h2
      exact ((sendAll_quiet h1).trans (sendAll_quiet h2)).trans (withCp_quiet _ _)

theorem hookVotingEnded_quiet (s : State) (pid : Nat) : Quiet s (hookVotingEnded s pid) := by
  unfold hookVotingEnded
  split
  · exact Quiet.refl _
  · split
    · exact Quiet.refl _
    · split
      · exact withCp_quiet _ _
      · exact refundEscrow_quiet _ _ _

theorem hookFailedMinDeposit_quiet (s : State) (pid : Nat) : Quiet s (hookFailedMinDeposit s pid) := by
  unfold hookFailedMinDeposit
  split
  · exact Quiet.refl _
  · exact refundEscrow_quiet _ _ _

theorem refundDeposit_quiet {s s1 : State} {pr : Proposal} (h : refundDeposit s pr = .ok s1) : Quiet s s1 := by
  unfold refundDeposit at h
  split at h
  · cases h; exact Quiet.refl _
  · split at h
    · cases h
    · rename_i s2 h2
      cases h; exact sendAll_quiet h2

/-- `CpEffect` without the bank part -/
inductive QEffect (s s' : State) : Prop
  | frame : Quiet s s' → QEffect s s'
  | created (sa s2 : State) (c : Content) : Quiet s sa → HandlerRan sa s2 c → Quiet s2 s' → QEffect s s'

theorem CpEffect.toQ {s s' : State} (h : CpEffect s s') : QEffect s s' := by
  cases h with
  | frame f => exact .frame f.quiet
  | created sa s2 c f1 hd f2 => exact .created sa s2 c f1.quiet hd f2.quiet

theorem govTally_q (s : State) (pid : Nat) (pr : Proposal) (passes : Bool) : QEffect s (govTally s pid pr passes).1 := by
  unfold govTally
  split
  · exact .frame (Quiet.refl _)
  · rename_i s1 h1
    have f1 := refundDeposit_quiet h1
    split
    · split
      · rename_i s2 h2
        exact .created s1 s2 pr.content f1 (cpHandler_ok h2) ((withCp_quiet _ _).trans (hookVotingEnded_quiet _ _))
      · exact .frame ((f1.trans (withCp_quiet _ _)).trans (hookVotingEnded_quiet _ _))
    · exact .frame ((f1.trans (withCp_quiet _ _)).trans (hookVotingEnded_quiet _ _))

theorem govVote_q (s : State) (pid : Nat) (passes : Bool) : QEffect s (govVote s pid passes).1 := by
  unfold govVote
  split
  · exact .frame (hookVotingEnded_quiet _ _)
  · split
    · exact govTally_q _ _ _ _
    · split
      · exact .frame (Quiet.refl _)
      · exact .frame (hookVotingEnded_quiet _ _)

theorem govFailDeposit_quiet (s : State) (pid : Nat) : Quiet s (govFailDeposit s pid).1 := by
  unfold govFailDeposit
  split
  · exact hookFailedMinDeposit_quiet _ _
  · split
    · split
      · exact Quiet.refl _
      · rename_i s1 h1
        exact ((withCp_quiet _ _).trans (refundDeposit_quiet h1)).trans (hookFailedMinDeposit_quiet _ _)
    · split
      · exact Quiet.refl _
      · exact hookFailedMinDeposit_quiet _ _

theorem govStep_q {s s' : State} (h : GovStep s s') : QEffect s s' := by
  obtain ⟨pid, h | h | h⟩ := h
  · rw [h]; exact govVote_q _ _ _
  · rw [h]; exact govVote_q _ _ _
  · rw [h]; exact .frame (govFailDeposit_quiet _ _)

theorem fundCp_quiet {s s' : State} {sender : Addr} {amt : CoinList} (h : stepFundCp s sender amt = .ok s') : Quiet s s' := by
  obtain ⟨s1, h1, rfl⟩ := stepFundCp_ok h
  exact (sendAll_quiet h1).trans (withCp_quiet _ _)

theorem cpSubmit_quiet {s s' : State} {proposer : Addr} {title : String} {c : Content} {deposit : CoinList}
    (h : stepCpSubmit s proposer title c deposit = .ok s') : Quiet s s' := by
  obtain ⟨s1, s2, sx, _, _, _, _, _, _, h1, h2, _, h3⟩ := stepCpSubmit_ok h
  obtain ⟨pool', s1', _, h2', rfl⟩ := escrowFromFeePool_ok h2
  obtain ⟨s3, _, _, _, h4, rfl⟩ := cpRecord_ok h3
  exact ((((sendAll_quiet h1).trans (sendAll_quiet h2')).trans (withCp_quiet _ _)).trans
    (sendAll_quiet (s := { s1' with cp := { s1'.cp with pool := pool' } }) h4)).trans (withCp_quiet _ _)

end Irismod.Proofs.Farm
