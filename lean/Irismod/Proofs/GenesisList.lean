/-
List / association-list lemmas used by the genesis round-trip proofs (C12): ascending
duplicate-free iteration (`sortDedup`), key sets of `AMap`, and permutation-invariance of sums.
Core Lean only.
-/
import Irismod.Model.MtGenesis

namespace Irismod.Proofs.GenesisList
open Irismod Irismod.MtGenesis

/-! ### ascending duplicate-free lists of strings -/

def Sorted (l : List String) : Prop := l.Pairwise (· < ·)

theorem str_lt_of_not (a b : String) (h1 : ¬ a < b) (h2 : a ≠ b) : b < a := by
  apply Classical.byContradiction
  intro h3
  exact h2 (String.le_antisymm (String.not_lt.mp h3) (String.not_lt.mp h1))

theorem mem_ins (x y : String) (l : List String) : y ∈ ins x l ↔ y = x ∨ y ∈ l := by
  induction l with
  | nil => simp [ins]
  | cons z t ih =>
    unfold ins
    by_cases h1 : x < z
    · simp [h1]
    · by_cases h2 : x = z
      · subst h2; simp [h1]
      · simp only [h1, h2, if_false, List.mem_cons, ih]
        constructor
        · rintro (h | h | h) <;> simp [h]
        · rintro (h | h | h) <;> simp [h]

theorem sorted_ins (x : String) (l : List String) (h : Sorted l) : Sorted (ins x l) := by
  induction l with
  | nil => simp [ins, Sorted]
  | cons z t ih =>
    unfold Sorted at h
    rw [List.pairwise_cons] at h
    unfold ins
    by_cases h1 : x < z
    · simp only [h1, if_true, Sorted]
      rw [List.pairwise_cons, List.pairwise_cons]
      refine ⟨?_, h⟩
      intro a ha
      rcases List.mem_cons.mp ha with rfl | ha
      · exact h1
      · exact String.lt_trans h1 (h.1 a ha)
    · by_cases h2 : x = z
      · subst h2
        simp only [h1, if_false, if_true, Sorted]
        rw [List.pairwise_cons]; exact h
      · simp only [h1, h2, if_false, Sorted]
        rw [List.pairwise_cons]
        refine ⟨?_, ih h.2⟩
        intro a ha
        rcases (mem_ins x a t).mp ha with rfl | ha
        · exact str_lt_of_not _ _ h1 h2
        · exact h.1 a ha

theorem mem_sortDedup (y : String) (l : List String) : y ∈ sortDedup l ↔ y ∈ l := by
  induction l with
  | nil => simp [sortDedup]
  | cons x t ih =>
    have : sortDedup (x :: t) = ins x (sortDedup t) := rfl
    rw [this, mem_ins, ih]; simp

theorem sorted_sortDedup (l : List String) : Sorted (sortDedup l) := by
  induction l with
  | nil => simp [sortDedup, Sorted]
  | cons x t ih => exact sorted_ins x _ ih

theorem nodup_of_sorted {l : List String} (h : Sorted l) : l.Nodup := by
  unfold Sorted at h
  exact h.imp (fun {a b} hab heq => by subst heq; exact String.lt_irrefl _ hab)

theorem nodup_sortDedup (l : List String) : (sortDedup l).Nodup := nodup_of_sorted (sorted_sortDedup l)

/-- an ascending duplicate-free list is determined by its members -/
theorem sorted_ext : ∀ (l1 l2 : List String), Sorted l1 → Sorted l2 → (∀ x, x ∈ l1 ↔ x ∈ l2) → l1 = l2
  | [], [], _, _, _ => rfl
  | [], b :: t2, _, _, h => by have := (h b).mpr (by simp); simp at this
  | a :: t1, [], _, _, h => by have := (h a).mp (by simp); simp at this
  | a :: t1, b :: t2, h1, h2, h => by
    unfold Sorted at h1 h2
    rw [List.pairwise_cons] at h1 h2
    have hab : a = b := by
      apply Classical.byContradiction
      intro hne
      have ha : a ∈ b :: t2 := (h a).mp (by simp)
      have hb : b ∈ a :: t1 := (h b).mpr (by simp)
      rcases List.mem_cons.mp ha with e | ha
      · exact hne e
      · rcases List.mem_cons.mp hb with e | hb
        · exact hne e.symm
        · exact String.lt_asymm (h1.1 b hb) (h2.1 a ha)
    subst hab
    have ht : t1 = t2 := by
      apply sorted_ext t1 t2 h1.2 h2.2
      intro x
      constructor
      · intro hx
        have := (h x).mp (List.mem_cons_of_mem _ hx)
        rcases List.mem_cons.mp this with e | hx2
        · subst e; exact absurd (h1.1 x hx) (String.lt_irrefl _)
        · exact hx2
      · intro hx
        have := (h x).mpr (List.mem_cons_of_mem _ hx)
        rcases List.mem_cons.mp this with e | hx2
        · subst e; exact absurd (h2.1 x hx) (String.lt_irrefl _)
        · exact hx2
    rw [ht]

theorem sortDedup_congr {l1 l2 : List String} (h : ∀ x, x ∈ l1 ↔ x ∈ l2) : sortDedup l1 = sortDedup l2 :=
  sorted_ext _ _ (sorted_sortDedup l1) (sorted_sortDedup l2)
    (fun x => by rw [mem_sortDedup, mem_sortDedup]; exact h x)

theorem sortDedup_perm {l : List String} (h : l.Nodup) : (sortDedup l).Perm l :=
  (List.perm_ext_iff_of_nodup (nodup_sortDedup l) h).mpr (fun a => mem_sortDedup a l)

theorem sortDedup_idem_of_sorted {l : List String} (h : Sorted l) : sortDedup l = l :=
  sorted_ext _ _ (sorted_sortDedup l) h (fun x => mem_sortDedup x l)

theorem mem_heads {β : Type} (ks : List (String × β)) (a : String) : a ∈ heads ks ↔ ∃ b, (a, b) ∈ ks := by
  unfold heads
  rw [mem_sortDedup, List.mem_map]
  constructor
  · rintro ⟨⟨a', b⟩, hm, rfl⟩; exact ⟨b, hm⟩
  · rintro ⟨b, hm⟩; exact ⟨(a, b), hm, rfl⟩

theorem mem_tail {β : Type} (ks : List (String × β)) (a : String) (b : β) : b ∈ tail ks a ↔ (a, b) ∈ ks := by
  unfold tail
  rw [List.mem_map]
  constructor
  · rintro ⟨⟨a', b'⟩, hm, rfl⟩
    rw [List.mem_filter] at hm
    have : a' = a := by simpa using hm.2
    subst this; exact hm.1
  · intro hm
    exact ⟨(a, b), by rw [List.mem_filter]; exact ⟨hm, by simp⟩, rfl⟩

theorem nodup_heads {β : Type} (ks : List (String × β)) : (heads ks).Nodup := nodup_sortDedup _

theorem heads_congr {β : Type} {k1 k2 : List (String × β)} (h : ∀ x, x ∈ k1 ↔ x ∈ k2) : heads k1 = heads k2 := by
  apply sorted_ext _ _ (sorted_sortDedup _) (sorted_sortDedup _)
  intro a
  have h1 := mem_heads k1 a
  have h2 := mem_heads k2 a
  unfold heads at h1 h2
  rw [h1, h2]
  constructor
  · rintro ⟨b, hb⟩; exact ⟨b, (h _).mp hb⟩
  · rintro ⟨b, hb⟩; exact ⟨b, (h _).mpr hb⟩

theorem tail_mem_congr {β : Type} {k1 k2 : List (String × β)} (h : ∀ x, x ∈ k1 ↔ x ∈ k2) (a : String) :
    ∀ x, x ∈ tail k1 a ↔ x ∈ tail k2 a := by
  intro x; rw [mem_tail, mem_tail]; exact h _

theorem nodup_tail {β : Type} {ks : List (String × β)} (h : ks.Nodup) (a : String) : (tail ks a).Nodup := by
  unfold tail
  have hf : (ks.filter (fun k => k.1 = a)).Nodup := h.sublist List.filter_sublist
  unfold List.Nodup
  rw [List.pairwise_map]
  apply List.Pairwise.imp_of_mem ?_ hf
  intro x y hx hy hne heq
  rw [List.mem_filter] at hx hy
  have h1 : x.1 = a := by simpa using hx.2
  have h2 : y.1 = a := by simpa using hy.2
  exact hne (Prod.ext (h1.trans h2.symm) heq)

/-! ### key sets of association lists -/

section amap
variable {K V : Type} [DecidableEq K]

def NodupKeys (m : AMap K V) : Prop := (AMap.keys m).Nodup

theorem get?_eq_none_iff (m : AMap K V) (k : K) : AMap.get? m k = none ↔ k ∉ AMap.keys m := by
  induction m with
  | nil => simp [AMap.keys]
  | cons hd t ih =>
    obtain ⟨k', v'⟩ := hd
    by_cases hk : k' = k
    · subst hk; simp [AMap.get?, AMap.keys]
    · have hk2 : ¬ k = k' := fun e => hk e.symm
      simp only [AMap.get?, hk, if_false, ih, AMap.keys, List.map_cons, List.mem_cons, hk2, false_or]

theorem mem_keys_iff (m : AMap K V) (k : K) : k ∈ AMap.keys m ↔ ∃ v, AMap.get? m k = some v := by
  have := get?_eq_none_iff m k
  cases h : AMap.get? m k with
  | none => rw [h] at this; simp [this.mp rfl]
  | some v =>
    rw [h] at this
    simp only [reduceCtorEq, false_iff, Classical.not_not] at this
    simp [this]

theorem mem_of_get? {m : AMap K V} {k : K} {v : V} (h : AMap.get? m k = some v) : (k, v) ∈ m := by
  induction m with
  | nil => simp [AMap.get?] at h
  | cons hd t ih =>
    obtain ⟨k', v'⟩ := hd
    by_cases hk : k' = k
    · subst hk; simp [AMap.get?] at h; subst h; simp
    · simp only [AMap.get?, hk, if_false] at h
      exact List.mem_cons_of_mem _ (ih h)

theorem get?_of_mem {m : AMap K V} (hn : NodupKeys m) {k : K} {v : V} (h : (k, v) ∈ m) :
    AMap.get? m k = some v := by
  induction m with
  | nil => simp at h
  | cons hd t ih =>
    obtain ⟨k', v'⟩ := hd
    unfold NodupKeys AMap.keys at hn
    rw [List.map_cons, List.nodup_cons] at hn
    rcases List.mem_cons.mp h with e | ht
    · cases e; simp [AMap.get?]
    · have hne : k' ≠ k := by
        intro e; subst e
        exact hn.1 (List.mem_map.mpr ⟨(k', v), ht, rfl⟩)
      simp only [AMap.get?, hne, if_false]
      exact ih hn.2 ht

theorem get?_eq_some_iff {m : AMap K V} (hn : NodupKeys m) (k : K) (v : V) :
    AMap.get? m k = some v ↔ (k, v) ∈ m := ⟨mem_of_get?, get?_of_mem hn⟩

/-- two duplicate-free association lists with the same bindings answer every lookup alike -/
theorem get?_congr_of_mem {m1 m2 : AMap K V} (h1 : NodupKeys m1) (h2 : NodupKeys m2)
    (h : ∀ e, e ∈ m1 ↔ e ∈ m2) (k : K) : AMap.get? m1 k = AMap.get? m2 k := by
  cases hg : AMap.get? m1 k with
  | some v => exact (get?_of_mem h2 ((h _).mp (mem_of_get? hg))).symm
  | none =>
    cases hg2 : AMap.get? m2 k with
    | none => rfl
    | some v => rw [get?_of_mem h1 ((h _).mpr (mem_of_get? hg2))] at hg; cases hg

omit [DecidableEq K] in
theorem nodup_of_nodupKeys {m : AMap K V} (h : NodupKeys m) : m.Nodup := by
  unfold NodupKeys AMap.keys List.Nodup at h
  rw [List.pairwise_map] at h
  exact h.imp (fun {a b} hab heq => hab (by rw [heq]))

omit [DecidableEq K] in
theorem perm_of_mem {m1 m2 : AMap K V} (h1 : NodupKeys m1) (h2 : NodupKeys m2)
    (h : ∀ e, e ∈ m1 ↔ e ∈ m2) : m1.Perm m2 :=
  (List.perm_ext_iff_of_nodup (nodup_of_nodupKeys h1) (nodup_of_nodupKeys h2)).mpr h

theorem set_of_not_mem (m : AMap K V) (k : K) (v : V) (h : k ∉ AMap.keys m) :
    AMap.set m k v = m ++ [(k, v)] := by
  induction m with
  | nil => rfl
  | cons hd t ih =>
    obtain ⟨k', v'⟩ := hd
    simp only [AMap.keys, List.map_cons, List.mem_cons, not_or] at h
    have hk : ¬ k' = k := fun e => h.1 e.symm
    simp only [AMap.set, hk, if_false, List.cons_append]
    rw [ih h.2]

theorem keys_set_of_mem (m : AMap K V) (k : K) (v : V) (h : k ∈ AMap.keys m) :
    AMap.keys (AMap.set m k v) = AMap.keys m := by
  induction m with
  | nil => simp [AMap.keys] at h
  | cons hd t ih =>
    obtain ⟨k', v'⟩ := hd
    by_cases hk : k' = k
    · subst hk; simp [AMap.set, AMap.keys]
    · simp only [AMap.keys, List.map_cons, List.mem_cons] at h
      have ht : k ∈ AMap.keys t := by
        rcases h with e | ht
        · exact absurd e.symm hk
        · exact ht
      simp only [AMap.set, hk, if_false, AMap.keys, List.map_cons]
      have := ih ht
      unfold AMap.keys at this
      rw [this]

theorem keys_set_of_not_mem (m : AMap K V) (k : K) (v : V) (h : k ∉ AMap.keys m) :
    AMap.keys (AMap.set m k v) = AMap.keys m ++ [k] := by
  rw [set_of_not_mem m k v h]; simp [AMap.keys]

theorem mem_keys_set (m : AMap K V) (k x : K) (v : V) :
    x ∈ AMap.keys (AMap.set m k v) ↔ x = k ∨ x ∈ AMap.keys m := by
  by_cases h : k ∈ AMap.keys m
  · rw [keys_set_of_mem m k v h]
    constructor
    · exact Or.inr
    · rintro (e | e)
      · subst e; exact h
      · exact e
  · rw [keys_set_of_not_mem m k v h, List.mem_append]
    simp [or_comm]

theorem nodupKeys_set {m : AMap K V} (hn : NodupKeys m) (k : K) (v : V) : NodupKeys (AMap.set m k v) := by
  unfold NodupKeys at *
  by_cases h : k ∈ AMap.keys m
  · rw [keys_set_of_mem m k v h]; exact hn
  · rw [keys_set_of_not_mem m k v h, List.nodup_append]
    refine ⟨hn, by simp, ?_⟩
    intro a ha b hb
    simp only [List.mem_singleton] at hb
    subst hb
    intro e; subst e; exact h ha

theorem length_set_of_mem (m : AMap K V) (k : K) (v : V) (h : k ∈ AMap.keys m) :
    (AMap.set m k v).length = m.length := by
  have := congrArg List.length (keys_set_of_mem m k v h)
  simpa [AMap.keys] using this

theorem length_set_of_not_mem (m : AMap K V) (k : K) (v : V) (h : k ∉ AMap.keys m) :
    (AMap.set m k v).length = m.length + 1 := by
  rw [set_of_not_mem m k v h]; simp

theorem get?_append (m1 m2 : AMap K V) (k : K) :
    AMap.get? (m1 ++ m2) k = (AMap.get? m1 k).or (AMap.get? m2 k) := by
  induction m1 with
  | nil => simp [AMap.get?]
  | cons hd t ih =>
    obtain ⟨k', v'⟩ := hd
    by_cases hk : k' = k
    · simp [AMap.get?, hk]
    · simp [AMap.get?, hk, ih]

omit [DecidableEq K] in
theorem sumIf_perm (p : K → Bool) (f : V → Nat) {m1 m2 : AMap K V} (h : m1.Perm m2) :
    AMap.sumIf p f m1 = AMap.sumIf p f m2 := by
  induction h with
  | nil => rfl
  | cons x _ ih => obtain ⟨k, v⟩ := x; simp only [AMap.sumIf, ih]
  | swap x y l => obtain ⟨k, v⟩ := x; obtain ⟨k2, v2⟩ := y; simp only [AMap.sumIf]; omega
  | trans _ _ ih1 ih2 => rw [ih1, ih2]

omit [DecidableEq K] in
theorem sumIf_append (p : K → Bool) (f : V → Nat) (m1 m2 : AMap K V) :
    AMap.sumIf p f (m1 ++ m2) = AMap.sumIf p f m1 + AMap.sumIf p f m2 := by
  induction m1 with
  | nil => simp [AMap.sumIf]
  | cons hd t ih => obtain ⟨k, v⟩ := hd; simp only [List.cons_append, AMap.sumIf, ih]; omega

end amap

/-- tagged flatMap of duplicate-free pieces over a duplicate-free index list is duplicate-free -/
theorem nodup_flatMap_tag {A B : Type} {l : List A} (hl : l.Nodup) (f : A → List B) (tag : B → A)
    (htag : ∀ a ∈ l, ∀ b ∈ f a, tag b = a) (hf : ∀ a ∈ l, (f a).Nodup) : (l.flatMap f).Nodup := by
  unfold List.Nodup
  rw [List.pairwise_flatMap]
  refine ⟨hf, ?_⟩
  unfold List.Nodup at hl
  apply List.Pairwise.imp_of_mem ?_ hl
  intro a1 a2 h1 h2 hne x hx y hy hxy
  apply hne
  rw [← htag a1 h1 x hx, ← htag a2 h2 y hy, hxy]

end Irismod.Proofs.GenesisList
