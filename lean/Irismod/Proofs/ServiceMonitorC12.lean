/-
Monitor soundness, service slice of C12 (`Spec.C12S.checkExport` / `checkReimport` / `checkPrepReimport`,
evaluated by `drv-service monitor C12` on the lines `service export` / `reimport` / `prep_reimport`), the
clause `panic` shared by all service monitors (the model never panics on an invariant state), and the
owner ↦ providers index the clause `registrySame` reads (`OwnerIdx`: kept by every operation).

The two recorded findings the C12 monitor classifies fire exactly on their class:
 * F-gen-6  (`export-invalid`, `reimport-failed`): only when some stored context is live (`hasLiveCtx`);
 * F-gen-14 (`dropped-liabilities-stranded`): only when the accepted plain round trip drops earned fees.
-/
import Irismod.Proofs.ServiceMonitorBase
import Irismod.Proofs.ServiceMonitorInv

namespace Irismod.Proofs.ServiceMonitor
open Irismod Irismod.Sdk Irismod.Service Irismod.ServiceGenesis Irismod.Proofs.Service Irismod.Proofs.ServiceGenesis
open Irismod.Spec.C07 Irismod.Spec.C12S

/-! ### the owner ↦ provider index -/

/-- `ownerProv` (the key set `SetOwnerProvider` writes) lists exactly the pairs of the provider ↦ owner index -/
def OwnerIdx (s : State) : Prop := ∀ o p, (o, p) ∈ s.ownerProv ↔ AMap.get? s.owners p = some o

/-- neither index moved -/
def OPFrame (s s' : State) : Prop := s'.ownerProv = s.ownerProv ∧ s'.owners = s.owners

theorem OPFrame.refl (s : State) : OPFrame s s := ⟨rfl, rfl⟩
theorem OPFrame.trans {a b c : State} (h1 : OPFrame a b) (h2 : OPFrame b c) : OPFrame a c :=
  ⟨h2.1.trans h1.1, h2.2.trans h1.2⟩
theorem OwnerIdx.of_frame {s s' : State} (h : OwnerIdx s) (f : OPFrame s s') : OwnerIdx s' := by
  intro o p; rw [f.1, f.2]; exact h o p

theorem opf_slash (s : State) (svc : String) (p : Addr) : OPFrame s (slash s svc p) := by
  unfold slash
  split
  · exact ⟨rfl, rfl⟩
  · split
    · exact ⟨rfl, rfl⟩
    · split <;> exact ⟨rfl, rfl⟩

theorem opf_refund (s : State) (c : Addr) (d : Denom) (n : Nat) : OPFrame s (refund s c d n) := by
  unfold refund; split <;> exact ⟨rfl, rfl⟩

theorem opf_expireReq (s : State) (rid : ReqId) : OPFrame s (expireReq s rid) := by
  unfold expireReq
  split
  · exact ⟨rfl, rfl⟩
  · exact ((opf_slash _ _ _).trans (opf_refund _ _ _ _)).trans ⟨rfl, rfl⟩

theorem opf_foldl {α : Type} (f : State → α → State) (hf : ∀ s a, OPFrame s (f s a)) :
    ∀ (l : List α) (s : State), OPFrame s (l.foldl f s)
  | [], s => OPFrame.refl s
  | a :: t, s => (hf s a).trans (opf_foldl f hf t (f s a))

theorem opf_completeBatch (s : State) (rc : Ctx) (id : CtxId) : OPFrame s (completeBatch s rc id).1 := by
  unfold completeBatch callback; split <;> exact ⟨rfl, rfl⟩

theorem opf_expirePhase (s : State) (id : CtxId) : OPFrame s (expirePhase s id).1 := by
  unfold expirePhase
  split
  · exact (opf_foldl expireReq opf_expireReq _ s).trans (opf_completeBatch _ _ _)
  · exact OPFrame.refl s

theorem opf_settleCtx (s : State) (id : CtxId) (rc : Ctx) : OPFrame s (settleCtx s id rc) := by
  unfold settleCtx
  split
  · exact ⟨rfl, rfl⟩
  · split
    · split <;> exact ⟨rfl, rfl⟩
    · exact ⟨rfl, rfl⟩

theorem opf_expireCtx (s : State) (id : CtxId) : OPFrame s (expireCtx s id) := by
  unfold expireCtx finishExpire
  have h1 := opf_expirePhase s id
  have h2 : OPFrame (expirePhase s id).1 (setCtx (delExp (expirePhase s id).1 id (expirePhase s id).1.height) id (expirePhase s id).2) :=
    ⟨rfl, rfl⟩
  have h3 := opf_settleCtx (setCtx (delExp (expirePhase s id).1 id (expirePhase s id).1.height) id (expirePhase s id).2) id
    (expirePhase s id).2
  exact ((h1.trans h2).trans h3).trans ⟨rfl, rfl⟩

theorem opf_mkRequests (id : CtxId) (b : Nat) (svc : String) (cons : Addr) (to : Int) :
    ∀ (ps : List Addr) (i : Nat) (s : State), OPFrame s (mkRequests s id b svc cons to ps i)
  | [], _, s => OPFrame.refl s
  | p :: rest, i, s => by
    simp only [mkRequests]
    exact OPFrame.trans (b := addRequest s (reqIdOf id b s.height i) (mkReq s id b svc cons to p)) ⟨rfl, rfl⟩
      (opf_mkRequests id b svc cons to rest (i + 1) _)

theorem opf_onPaused (s : State) (id : CtxId) (c : Ctx) (cause : String) : OPFrame s (onPaused s id c cause) := by
  unfold onPaused; split <;> exact ⟨rfl, rfl⟩

theorem opf_initiateRequests (t : State) (id : CtxId) (provs : List Addr) : OPFrame t (initiateRequests t id provs) := by
  unfold initiateRequests
  exact OPFrame.trans (opf_mkRequests _ _ _ _ _ _ _ t) ⟨rfl, rfl⟩

theorem opf_newBatch (s : State) (id : CtxId) : OPFrame s (newBatch s id) := by
  unfold newBatch
  split
  · split
    · exact (opf_onPaused _ _ _ _).trans ⟨rfl, rfl⟩
    · split
      · unfold chargeAndStart
        split
        · exact OPFrame.trans (b := { s with bank := creditCoins (debitCoins s.bank (getCtx s id).consumer (sortCoins _)).1 reqAcc (sortCoins _) })
            ⟨rfl, rfl⟩ (OPFrame.trans (opf_initiateRequests _ _ _) ⟨rfl, rfl⟩)
        · exact (opf_onPaused _ _ _ _).trans ⟨rfl, rfl⟩
      · exact ⟨rfl, rfl⟩
  · exact ⟨rfl, rfl⟩

theorem opf_endBlock (s : State) : OPFrame s (endBlock s) := by
  unfold endBlock newPhase expiredPhase
  exact (opf_foldl expireCtx opf_expireCtx _ s).trans (opf_foldl newBatch opf_newBatch _ _)

theorem opf_nextBlock (s : State) (dt : Int) : OPFrame s (nextBlock s dt) :=
  (opf_endBlock s).trans ⟨rfl, rfl⟩

theorem opf_skipBlocks (dt : Int) : ∀ (n : Nat) (s : State), OPFrame s (skipBlocks s dt n)
  | 0, s => OPFrame.refl s
  | n + 1, s => (opf_nextBlock s dt).trans (opf_skipBlocks dt n _)

/-! ### message handlers -/

theorem opf_keeperCtx {s s' : State} {id : CtxId} {consumer : Addr}
    (h : keeperPause s id consumer = .ok s' ∨ keeperStart s id consumer = .ok s' ∨ keeperKill s id consumer = .ok s') :
    OPFrame s s' := by
  rcases h with h | h | h
  · unfold keeperPause at h
    split at h
    · cases h
    split at h
    · cases h
    split at h
    · cases h
    split at h
    · cases h
    cases h; exact ⟨rfl, rfl⟩
  · unfold keeperStart at h
    split at h
    · cases h
    split at h
    · cases h
    split at h
    · cases h
    split at h
    · cases h
    cases h
    split <;> exact ⟨rfl, rfl⟩
  · unfold keeperKill at h
    split at h
    · cases h
    split at h
    · cases h
    split at h
    · cases h
    cases h; exact ⟨rfl, rfl⟩

theorem opf_keeperUpdate {s s' : State} {id providers thr cap timeout freq total consumer}
    (h : keeperUpdate s id providers thr cap timeout freq total consumer = .ok s') : OPFrame s s' := by
  unfold keeperUpdate at h
  split at h
  · cases h
  split at h
  · cases h
  split at h
  · cases h
  split at h
  · cases h
  split at h
  · cases h
  split at h
  · cases h
  split at h
  · cases h
  split at h
  · cases h
  split at h
  · cases h
  cases h; exact ⟨rfl, rfl⟩

theorem opf_createCtx {s s' : State} {newId svc providers consumer inputOk cap timeout repeated freq total st thr moduleName}
    (h : createCtx s newId svc providers consumer inputOk cap timeout repeated freq total st thr moduleName = .ok s') :
    OPFrame s s' := by
  unfold createCtx at h
  split at h
  · cases h
  split at h
  · cases h
  split at h
  · cases h
  split at h
  · cases h
  split at h
  · cases h
  cases h
  unfold createState
  split <;> exact ⟨rfl, rfl⟩

theorem opf_countResponse (t : State) (id : CtxId) : OPFrame t (countResponse t id) := by
  unfold countResponse storeCtx
  split
  · exact OPFrame.trans (opf_completeBatch _ _ _) ⟨rfl, rfl⟩
  · exact ⟨rfl, rfl⟩

theorem opf_keeperRespond {s s' : State} {provider : Addr} {rid : ReqId} {hasOut : Bool}
    (h : keeperRespond s provider rid hasOut = .ok s') : OPFrame s s' := by
  unfold keeperRespond at h
  split at h
  · cases h
  split at h
  · cases h
  split at h
  · cases h
  split at h
  · cases h
  rename_i s1 hfee
  cases h
  have h1 : OPFrame s s1 := by
    unfold addEarnedFee at hfee
    split at hfee
    · cases hfee
    split at hfee
    · cases hfee
    cases hfee; exact ⟨rfl, rfl⟩
  exact OPFrame.trans h1 (OPFrame.trans (b := recordResponse s1 rid provider _ _ hasOut) ⟨rfl, rfl⟩ (opf_countResponse _ _))

theorem opf_keeperWithdraw {s s' : State} {owner provider} (h : keeperWithdraw s owner provider = .ok s') : OPFrame s s' := by
  unfold keeperWithdraw at h
  split at h
  · unfold withdrawProvider at h
    split at h
    · cases h
    split at h
    · cases h
    split at h
    · cases h
    cases h; exact ⟨rfl, rfl⟩
  · unfold withdrawOwner at h
    split at h
    · cases h
    cases h; exact ⟨rfl, rfl⟩

theorem ownerIdx_bind {s : State} (h : OwnerIdx s) (owner provider : Addr) (svc : String) (d qos : Nat) (pr : Pricing)
    (bank : Bank) : OwnerIdx (bindState s owner provider svc d qos pr bank) := by
  intro o p
  unfold bindState
  by_cases hc : AMap.contains s.owners provider = true
  · simp only [hc, if_true]; exact h o p
  · simp only [hc, Bool.false_eq_true, if_false]
    have hn : AMap.get? s.owners provider = none := (contains_false_iff _ _).mp (by simpa using hc)
    rw [List.mem_append, List.mem_singleton]
    by_cases hp : provider = p
    · subst hp
      rw [AMap.get?_set_self]
      constructor
      · rintro (h1 | h1)
        · rw [(h o provider).mp h1] at hn; cases hn
        · rw [(Prod.mk.inj h1).1]
      · intro h1
        right
        rw [Option.some.inj h1]
    · rw [AMap.get?_set_other _ _ _ _ hp]
      constructor
      · rintro (h1 | h1)
        · exact (h o p).mp h1
        · exact absurd (Prod.mk.inj h1).2.symm hp
      · intro h1; exact Or.inl ((h o p).mpr h1)

/-- the owner index is kept by every accepted operation -/
theorem ownerIdx_stepCore {s s' : State} {op : Op} (hs : OwnerIdx s) (h : stepCore s op = .ok s') : OwnerIdx s' := by
  cases op with
  | define sender name schOk =>
    simp only [stepCore, stepDefine] at h
    split at h
    · cases h
    split at h
    · cases h
    split at h
    · cases h
    split at h
    · cases h
    cases h
    exact hs.of_frame ⟨rfl, rfl⟩
  | bind owner provider svc dep qos pin optsOk =>
    simp only [stepCore, stepBind] at h
    split at h
    · cases h
    split at h
    · cases h
    obtain ⟨d, pr, bank, _, _, _, rfl⟩ := keeperBind_inv h
    exact ownerIdx_bind hs _ _ _ _ _ _ _
  | updateBinding owner provider svc dep qos pin opts =>
    simp only [stepCore, stepUpdateBinding] at h
    split at h
    · cases h
    obtain ⟨b, d, pr, bank, _, _, _, _, rfl⟩ := keeperUpdateBinding_inv h
    exact hs.of_frame ⟨rfl, rfl⟩
  | setWithdraw owner addr =>
    simp only [stepCore, stepSetWithdraw] at h
    split at h
    · cases h
    split at h
    · cases h
    cases h
    exact hs.of_frame ⟨rfl, rfl⟩
  | enable owner provider svc dep =>
    simp only [stepCore, stepEnable] at h
    split at h
    · cases h
    unfold keeperEnable at h
    split at h
    · cases h
    split at h
    · cases h
    split at h
    · cases h
    split at h
    · cases h
    split at h
    · cases h
    split at h
    · cases h
    cases h
    exact hs.of_frame ⟨rfl, rfl⟩
  | disable owner provider svc =>
    simp only [stepCore, stepDisable] at h
    split at h
    · cases h
    split at h
    · cases h
    split at h
    · cases h
    split at h
    · cases h
    cases h
    exact hs.of_frame ⟨rfl, rfl⟩
  | refundDeposit owner provider svc =>
    simp only [stepCore, stepRefundDeposit] at h
    split at h
    · cases h
    unfold keeperRefundDeposit at h
    split at h
    · cases h
    split at h
    · cases h
    split at h
    · cases h
    split at h
    · cases h
    split at h
    · cases h
    split at h
    · cases h
    cases h
    exact hs.of_frame ⟨rfl, rfl⟩
  | call tx consumer svc providers cap timeout repeated freq total inputOk =>
    simp only [stepCore, stepCall] at h
    split at h
    · cases h
    split at h
    · cases h
    split at h
    · cases h
    exact hs.of_frame (opf_createCtx h)
  | mcall tx consumer svc providers cap timeout repeated freq total inputOk paused thr modName =>
    exact hs.of_frame (opf_createCtx h)
  | respond provider rid code out resOk =>
    simp only [stepCore, stepRespond] at h
    split at h
    · cases h
    split at h
    · cases h
    exact hs.of_frame (opf_keeperRespond h)
  | withdraw owner provider =>
    simp only [stepCore, stepWithdraw] at h
    split at h
    · cases h
    split at h
    · cases h
    exact hs.of_frame (opf_keeperWithdraw h)
  | withdrawK owner provider => exact hs.of_frame (opf_keeperWithdraw h)
  | pause consumer id => exact hs.of_frame (opf_keeperCtx (Or.inl (stepPause_inv h)))
  | start consumer id => exact hs.of_frame (opf_keeperCtx (Or.inr (Or.inl (stepStart_inv h))))
  | kill consumer id => exact hs.of_frame (opf_keeperCtx (Or.inr (Or.inr (stepKill_inv h))))
  | updateCtx consumer id providers cap timeout freq total => exact hs.of_frame (opf_keeperUpdate (stepUpdateCtx_inv h))
  | mpause consumer id => exact hs.of_frame (opf_keeperCtx (Or.inl h))
  | mstart consumer id => exact hs.of_frame (opf_keeperCtx (Or.inr (Or.inl h)))
  | mkill consumer id => exact hs.of_frame (opf_keeperCtx (Or.inr (Or.inr h)))
  | mupdate consumer id providers thr cap timeout freq total => exact hs.of_frame (opf_keeperUpdate h)
  | setRate d r =>
    simp only [stepCore] at h
    cases h
    exact hs.of_frame ⟨rfl, rfl⟩
  | next dt =>
    simp only [stepCore] at h
    cases h
    exact hs.of_frame (opf_nextBlock s dt)
  | skip n dt =>
    simp only [stepCore] at h
    cases h
    exact hs.of_frame (opf_skipBlocks dt n s)

theorem ownerIdx_apply {s : State} (op : Op) (hs : OwnerIdx s) : OwnerIdx (apply s op) := by
  unfold apply step
  have h0 : OwnerIdx { s with cb := [] } := hs.of_frame ⟨rfl, rfl⟩
  cases h : stepCore { s with cb := [] } op with
  | ok s' => exact ownerIdx_stepCore h0 h
  | error e => exact h0

theorem ownerIdx_genesis {s : State} (g : Irismod.Props.C12.Service.Genesis s) (ho : s.ownerProv = []) : OwnerIdx s := by
  intro o p
  rw [ho, g.owners]
  simp [AMap.get?]

/-! ### the model never panics on an invariant state (clause `panic`) -/

def NoPanic (r : R) : Prop := ∀ why, r ≠ .error (.panic why)

theorem np_ok (s : State) : NoPanic (.ok s) := fun _ h => by cases h
theorem np_rej (w : String) : NoPanic (rej w) := fun _ h => by cases h

theorem checkAuthority_np (s : State) (c : Addr) (id : CtxId) (b : Bool) (why : String) :
    checkAuthority s c id b ≠ .error (.panic why) := by
  intro h
  unfold checkAuthority at h
  split at h
  · cases h
  split at h
  · cases h
  split at h <;> cases h

theorem moduleAuth_np (s : State) (rc : Ctx) (c : Addr) (id : CtxId) (why : String) :
    moduleAuth s rc c id ≠ .error (.panic why) := by
  intro h
  unfold moduleAuth at h
  split at h
  · exact checkAuthority_np _ _ _ _ _ h
  · cases h

theorem ctxMsgGuard_np (s : State) (c : Addr) (id : String) (why : String) :
    ctxMsgGuard s c id ≠ .error (.panic why) := by
  intro h
  unfold ctxMsgGuard at h
  split at h
  · cases h
  split at h
  · cases h
  exact checkAuthority_np _ _ _ _ _ h

theorem keeperPause_np (s : State) (id : CtxId) (c : Addr) : NoPanic (keeperPause s id c) := by
  intro why h
  unfold keeperPause at h
  split at h
  · cases h
  split at h
  · rename_i e he
    cases h
    exact moduleAuth_np _ _ _ _ _ he
  split at h
  · cases h
  split at h <;> cases h

theorem keeperStart_np (s : State) (id : CtxId) (c : Addr) : NoPanic (keeperStart s id c) := by
  intro why h
  unfold keeperStart at h
  split at h
  · cases h
  split at h
  · rename_i e he
    cases h
    exact moduleAuth_np _ _ _ _ _ he
  split at h
  · cases h
  split at h <;> cases h

theorem keeperKill_np (s : State) (id : CtxId) (c : Addr) : NoPanic (keeperKill s id c) := by
  intro why h
  unfold keeperKill at h
  split at h
  · cases h
  split at h
  · rename_i e he
    cases h
    exact moduleAuth_np _ _ _ _ _ he
  split at h <;> cases h

theorem keeperUpdate_np (s : State) (id : CtxId) (providers : List Addr) (thr : Nat) (cap : Coins) (timeout : Int)
    (freq : Nat) (total : Int) (c : Addr) : NoPanic (keeperUpdate s id providers thr cap timeout freq total c) := by
  intro why h
  unfold keeperUpdate at h
  split at h
  · cases h
  split at h
  · rename_i e he
    cases h
    exact moduleAuth_np _ _ _ _ _ he
  split at h
  · cases h
  split at h
  · cases h
  split at h
  · cases h
  split at h
  · cases h
  split at h
  · cases h
  split at h
  · cases h
  split at h <;> cases h

theorem createCtx_np (s : State) (newId svc providers consumer inputOk cap timeout repeated freq total st thr moduleName) :
    NoPanic (createCtx s newId svc providers consumer inputOk cap timeout repeated freq total st thr moduleName) := by
  intro why h
  unfold createCtx at h
  split at h
  · cases h
  split at h
  · cases h
  split at h
  · cases h
  split at h
  · cases h
  split at h <;> cases h

theorem le_sumIf_of_mem {K V : Type} (q : K → Bool) (f : V → Nat) : ∀ (m : AMap K V) (e : K × V), e ∈ m → q e.1 = true →
    f e.2 ≤ AMap.sumIf q f m
  | [], _, hm, _ => by cases hm
  | (k, v) :: t, e, hm, hq => by
    simp only [AMap.sumIf]
    rcases List.mem_cons.mp hm with h1 | h1
    · subst h1
      simp only [hq, if_true]
      omega
    · have := le_sumIf_of_mem q f t e h1 hq
      omega

/-- on a state whose tallies agree the per-provider withdrawal never hits the negative-amount panic of `Coins.Sub` -/
theorem withdrawProvider_np {s : State} (ht : TB s) (owner p : Addr) : NoPanic (withdrawProvider s owner p) := by
  intro why h
  unfold withdrawProvider at h
  split at h
  · cases h
  rename_i hown
  have ho : AMap.get? s.owners p = some owner := Decidable.of_not_not hown
  split at h
  · rename_i hta
    clear h
    unfold ownerTallyAfter at hta
    split at hta
    · cases hta
    · rw [Option.map_eq_none_iff] at hta
      unfold coinsSub at hta
      split at hta
      · rename_i hany
        rw [List.any_eq_true] at hany
        obtain ⟨e, he, hlt⟩ := hany
        simp only [decide_eq_true_eq] at hlt
        -- e = (d, n) with ((p, d), n) ∈ s.earned
        unfold entriesOf at he
        rw [List.mem_map] at he
        obtain ⟨x, hx, hxe⟩ := he
        rw [List.mem_filter] at hx
        have hx1 : x.1.1 = p := by simpa using hx.2
        subst hxe
        simp only at hlt
        have hnd := entriesOf_nodup ht.nd2 owner
        rw [amountOf_eq_coinsIn _ _ hnd, coinsIn_entriesOf] at hlt
        have htally := ht.tally owner x.1.2
        unfold providersEarned ownerEarned at htally
        rw [← htally] at hlt
        have hle := le_sumIf_of_mem (fun k : Addr × Denom => decide (k.2 = x.1.2) && ownedBy s owner k.1) id s.earned x hx.1
          (by simp [ownedBy, hx1, ho])
        simp only [id] at hle
        omega
      · cases hta
  · split at h <;> cases h

theorem keeperWithdraw_np {s : State} (ht : TB s) (owner : Addr) (provider : Option Addr) :
    NoPanic (keeperWithdraw s owner provider) := by
  intro why h
  unfold keeperWithdraw at h
  split at h
  · exact withdrawProvider_np ht _ _ why h
  · unfold withdrawOwner at h
    split at h <;> cases h

/-- **the model never panics** on a state whose earned-fee tallies agree (bundle `TB`) -/
theorem stepCore_never_panics {s : State} (ht : TB s) (op : Op) : NoPanic (stepCore s op) := by
  intro why h
  cases op with
  | define sender name schOk =>
    simp only [stepCore, stepDefine] at h
    repeat (first | (split at h) | cases h)
  | bind owner provider svc dep qos pin optsOk =>
    simp only [stepCore, stepBind, keeperBind] at h
    repeat (first | (split at h) | cases h)
  | updateBinding owner provider svc dep qos pin opts =>
    simp only [stepCore, stepUpdateBinding, keeperUpdateBinding] at h
    repeat (first | (split at h) | cases h)
  | setWithdraw owner addr =>
    simp only [stepCore, stepSetWithdraw] at h
    repeat (first | (split at h) | cases h)
  | enable owner provider svc dep =>
    simp only [stepCore, stepEnable, keeperEnable] at h
    repeat (first | (split at h) | cases h)
  | disable owner provider svc =>
    simp only [stepCore, stepDisable] at h
    repeat (first | (split at h) | cases h)
  | refundDeposit owner provider svc =>
    simp only [stepCore, stepRefundDeposit, keeperRefundDeposit] at h
    repeat (first | (split at h) | cases h)
  | call tx consumer svc providers cap timeout repeated freq total inputOk =>
    simp only [stepCore, stepCall] at h
    split at h
    · cases h
    split at h
    · cases h
    split at h
    · cases h
    exact createCtx_np _ _ _ _ _ _ _ _ _ _ _ _ _ _ why h
  | mcall tx consumer svc providers cap timeout repeated freq total inputOk paused thr modName =>
    exact createCtx_np _ _ _ _ _ _ _ _ _ _ _ _ _ _ why h
  | respond provider rid code out resOk =>
    simp only [stepCore, stepRespond, keeperRespond] at h
    repeat (first | (split at h) | cases h)
  | withdraw owner provider =>
    simp only [stepCore, stepWithdraw] at h
    split at h
    · cases h
    split at h
    · cases h
    exact keeperWithdraw_np ht _ _ why h
  | withdrawK owner provider => exact keeperWithdraw_np ht _ _ why h
  | pause consumer id =>
    simp only [stepCore, stepPause] at h
    split at h
    · rename_i e he
      cases h
      exact ctxMsgGuard_np _ _ _ _ he
    · exact keeperPause_np _ _ _ why h
  | start consumer id =>
    simp only [stepCore, stepStart] at h
    split at h
    · rename_i e he
      cases h
      exact ctxMsgGuard_np _ _ _ _ he
    · exact keeperStart_np _ _ _ why h
  | kill consumer id =>
    simp only [stepCore, stepKill] at h
    split at h
    · rename_i e he
      cases h
      exact ctxMsgGuard_np _ _ _ _ he
    · exact keeperKill_np _ _ _ why h
  | updateCtx consumer id providers cap timeout freq total =>
    simp only [stepCore, stepUpdateCtx] at h
    split at h
    · cases h
    split at h
    · cases h
    split at h
    · cases h
    split at h
    · cases h
    split at h
    · rename_i e he
      cases h
      exact checkAuthority_np _ _ _ _ _ he
    · exact keeperUpdate_np _ _ _ _ _ _ _ _ _ why h
  | mpause consumer id => exact keeperPause_np _ _ _ why h
  | mstart consumer id => exact keeperStart_np _ _ _ why h
  | mkill consumer id => exact keeperKill_np _ _ _ why h
  | mupdate consumer id providers thr cap timeout freq total => exact keeperUpdate_np _ _ _ _ _ _ _ _ _ why h
  | setRate d r => simp only [stepCore] at h; cases h
  | next dt => simp only [stepCore] at h; cases h
  | skip n dt => simp only [stepCore] at h; cases h

theorem step_never_panics {s : State} (hs : SInv s) (op : Op) (why : String) : step s op ≠ .error (.panic why) := by
  unfold step
  exact stepCore_never_panics (s := { s with cb := [] }) (hs.tb.of_frame (TBFrame.of_eq rfl rfl rfl rfl rfl)) op why

/-! ### the genesis lines -/

theorem sameMap_of {K V : Type} [DecidableEq K] [DecidableEq V] (a b : AMap K V)
    (h : ∀ k, AMap.get? b k = AMap.get? a k) : sameMap a b = true := by
  unfold sameMap
  simp only [Bool.and_eq_true, List.all_eq_true, beq_iff_eq]
  exact ⟨fun e _ => h e.1, fun e _ => (h e.1).symm⟩

theorem sameSet_of {A : Type} [DecidableEq A] (a b : List A) (h : ∀ x, x ∈ a ↔ x ∈ b) : sameSet a b = true := by
  unfold sameSet
  simp only [Bool.and_eq_true, List.all_eq_true, List.contains_iff_mem]
  exact ⟨fun x hx => (h x).mp hx, fun x hx => (h x).mpr hx⟩

theorem balsSameExcept_of_bank (ds : List Denom) (pre post : State) (h : post.bank = pre.bank) :
    balsSameExcept ds pre post [] = true := by
  unfold balsSameExcept bal
  simp [h]

theorem mem_ownerProvOf_aux : ∀ (l : List ((String × Addr) × Binding)) (acc : List (Addr × Addr)) (x : Addr × Addr),
    x ∈ l.foldl (fun acc e => if acc.contains (e.2.owner, e.1.2) then acc else acc ++ [(e.2.owner, e.1.2)]) acc ↔
      x ∈ acc ∨ ∃ e, e ∈ l ∧ (e.2.owner, e.1.2) = x
  | [], acc, x => by simp
  | e :: t, acc, x => by
    simp only [List.foldl]
    rw [mem_ownerProvOf_aux t _ x]
    by_cases hc : acc.contains (e.2.owner, e.1.2) = true
    · rw [if_pos hc]
      rw [List.contains_iff_mem] at hc
      constructor
      · rintro (h | ⟨e', he', hx⟩)
        · exact Or.inl h
        · exact Or.inr ⟨e', List.mem_cons_of_mem _ he', hx⟩
      · rintro (h | ⟨e', he', hx⟩)
        · exact Or.inl h
        · rcases List.mem_cons.mp he' with h1 | h1
          · subst h1; left; rw [← hx]; exact hc
          · exact Or.inr ⟨e', h1, hx⟩
    · rw [if_neg hc]
      constructor
      · rintro (h | ⟨e', he', hx⟩)
        · rcases List.mem_append.mp h with h1 | h1
          · exact Or.inl h1
          · right
            rw [List.mem_singleton] at h1
            exact ⟨e, List.mem_cons_self .., h1.symm⟩
        · exact Or.inr ⟨e', List.mem_cons_of_mem _ he', hx⟩
      · rintro (h | ⟨e', he', hx⟩)
        · exact Or.inl (List.mem_append_left _ h)
        · rcases List.mem_cons.mp he' with h1 | h1
          · subst h1; left; rw [← hx]; exact List.mem_append_right _ (List.mem_singleton.mpr rfl)
          · exact Or.inr ⟨e', h1, hx⟩

theorem mem_ownerProvOf (l : List ((String × Addr) × Binding)) (x : Addr × Addr) :
    x ∈ ownerProvOf l ↔ ∃ e, e ∈ l ∧ (e.2.owner, e.1.2) = x := by
  unfold ownerProvOf
  rw [mem_ownerProvOf_aux]
  simp

/-- the owner ↦ provider key set is rebuilt from the bindings -/
theorem roundTrip_ownerProv (rank : Addr → Nat) {s : State} (ho : OwnersInv s) (hi : OwnerIdx s) (x : Addr × Addr) :
    x ∈ s.ownerProv ↔ x ∈ (roundTrip rank s).ownerProv := by
  have e : (roundTrip rank s).ownerProv = ownerProvOf (entries (leBind rank) s.binds) := rfl
  rw [e, mem_ownerProvOf]
  obtain ⟨o, p⟩ := x
  rw [hi o p]
  constructor
  · intro h
    obtain ⟨svc, b, hb⟩ := ho.own2 p o h
    have h1 := ho.own1 _ _ hb
    simp only at h1
    rw [h] at h1
    refine ⟨((svc, p), b), (mem_entries _ _ _).mpr hb, ?_⟩
    simp only [Prod.mk.injEq, and_true]
    exact (Option.some.inj h1).symm
  · rintro ⟨e, he, hx⟩
    rw [mem_entries] at he
    have h1 := ho.own1 _ _ he
    simp only [Prod.mk.injEq] at hx
    rw [hx.1, hx.2] at h1
    exact h1

theorem registrySame_roundTrip (rank : Addr → Nat) {s : State} (ho : OwnersInv s) (hi : OwnerIdx s) (pre : State)
    (e1 : pre.defs = s.defs) (e2 : pre.binds = s.binds) (e3 : pre.owners = s.owners) (e4 : pre.ownerProv = s.ownerProv)
    (e5 : pre.wd = s.wd) : registrySame pre (roundTrip rank s) = true := by
  obtain ⟨_, l2, l3, l4, _⟩ := roundTrip_lookups rank s
  unfold registrySame
  rw [e1, e2, e3, e4, e5, sameMap_of _ _ l2, sameMap_of _ _ l3, sameMap_of _ _ (roundTrip_owners rank ho), sameMap_of _ _ l4,
    sameSet_of _ _ (roundTrip_ownerProv rank ho hi)]
  rfl

theorem ctxsAre_of (f : Ctx → Ctx) (pre post : State) (h : ∀ id, AMap.get? post.ctxs id = (AMap.get? pre.ctxs id).map f) :
    ctxsAre f pre post = true := by
  unfold ctxsAre
  simp only [Bool.and_eq_true, List.all_eq_true, beq_iff_eq]
  refine ⟨fun e _ => h e.1, ?_⟩
  intro e he
  obtain ⟨v, hv⟩ := mem_get? _ e he
  have := h e.1
  rw [hv] at this
  cases hp : AMap.get? pre.ctxs e.1 with
  | none => rw [hp] at this; cases this
  | some c => rfl

theorem quiescent_of_not_live {s : State} (h : hasLiveCtx s = false) : Quiescent s := by
  intro id c hg
  unfold hasLiveCtx at h
  have hm := get?_mem _ _ _ hg
  cases hq : ctxQuiet c with
  | true => rfl
  | false =>
    exfalso
    have : (s.ctxs.any fun e => !(ctxQuiet e.2)) = true := by
      rw [List.any_eq_true]
      exact ⟨(id, c), hm, by simp [hq]⟩
    rw [h] at this
    cases this

/-- an export the module's own `ValidateGenesis` rejects: some stored context is live (F-gen-6) -/
theorem live_of_invalid_export (rank : Addr → Nat) {s : State} (hf : FieldsOk s)
    (h : genesisValid (exportGenesis rank s) = false) : hasLiveCtx s = true := by
  cases hl : hasLiveCtx s with
  | true => rfl
  | false =>
    have := genesisValid_export rank hf (quiescent_of_not_live hl)
    rw [h] at this
    cases this

/-- **`service export`**: the only failure the clause can report on a model step is the recorded finding F-gen-6,
and only when a stored context really is live -/
theorem c12_export_sound (rank : Addr → Nat) {s : State} (hs : SInv s) :
    ∀ f, f ∈ checkExport s (genesisValid (exportGenesis rank s)) → f.cls = "F-gen-6" ∧ hasLiveCtx s = true := by
  intro f hf
  unfold checkExport at hf
  cases hv : genesisValid (exportGenesis rank s) with
  | true => rw [hv] at hf; simp at hf
  | false =>
    have hl := live_of_invalid_export rank hs.gi.fields hv
    rw [hv, hl] at hf
    simp only [Bool.false_eq_true, if_false, if_true, List.mem_singleton] at hf
    subst hf
    exact ⟨rfl, hl⟩

/-- … and on a state whose contexts are all quiet it reports nothing -/
theorem c12_export_quiet (rank : Addr → Nat) {s : State} (hs : SInv s) (hq : Quiescent s) :
    checkExport s (genesisValid (exportGenesis rank s)) = [] := by
  unfold checkExport
  rw [genesisValid_export rank hs.gi.fields hq]
  rfl

/-- the model's side of a `service reimport` line (as `Driver.Service.modelLine` computes it) -/
def reimportOk (rank : Addr → Nat) (s : State) : Bool :=
  match reimport rank { s with cb := [] } with
  | .ok _ => true
  | .error _ => false

def reimportPost (rank : Addr → Nat) (s : State) : State :=
  match reimport rank { s with cb := [] } with
  | .ok s' => s'
  | .error _ => { s with cb := [] }

def prepReimportOk (rank : Addr → Nat) (s : State) : Bool :=
  match prepReimport rank { s with cb := [] } with
  | .ok _ => true
  | .error _ => false

def prepReimportPost (rank : Addr → Nat) (s : State) : State :=
  match prepReimport rank { s with cb := [] } with
  | .ok s' => s'
  | .error _ => { s with cb := [] }

theorem reach_nocb {s : State} (h : Reach s) : Reach { s with cb := [] } := by
  refine ⟨⟨h.1.1.of_same ⟨rfl, rfl, rfl, rfl, rfl, rfl, rfl⟩,
    DI.of_core (s' := { s with cb := [] }) h.1.2.1 ⟨rfl, rfl, rfl, rfl⟩ rfl,
    h.1.2.2.1.of_binds rfl, EscrowInv.of_frame ⟨fun _ => rfl, rfl, fun _ _ => rfl, rfl⟩ h.1.2.2.2⟩,
    h.2.1.of_frame (TBFrame.of_eq rfl rfl rfl rfl rfl), h.2.2.of_frame (GFrame.of_eq rfl rfl rfl rfl rfl rfl)⟩

/-- **`service reimport`** (export, wipe, `InitGenesis`): every failure the clause group reports on a model step
carries the class of a recorded finding whose condition really holds — F-gen-6 when the import is refused (then some
context is live), F-gen-14 when it is accepted and earned fees are dropped; every other clause passes -/
theorem c12_reimport_sound (rank : Addr → Nat) (ds : List Denom) {s : State} (hs : SInv s) (hi : OwnerIdx s) :
    ∀ f, f ∈ checkReimport ds s (reimportPost rank s) (reimportOk rank s) →
      (f.cls = "F-gen-6" ∧ reimportOk rank s = false ∧ hasLiveCtx s = true) ∨
      (f.cls = "F-gen-14" ∧ reimportOk rank s = true ∧ ∃ d, d ∈ ds ∧ liabilities s d ≠ 0) := by
  intro f hf
  have hr0 := reach_nocb hs.reach
  have hrd : reimport rank { s with cb := [] } = importGenesis { s with cb := [] } (exportGenesis rank { s with cb := [] }) := rfl
  cases hv : genesisValid (exportGenesis rank { s with cb := [] }) with
  | false =>
    have hl : hasLiveCtx s = true :=
      (live_of_invalid_export rank hr0.2.2.fields hv : hasLiveCtx { s with cb := [] } = true)
    have hok : reimportOk rank s = false := by
      unfold reimportOk; rw [hrd]; unfold importGenesis; rw [hv]; rfl
    left
    unfold checkReimport at hf
    rw [hok, hl] at hf
    simp only [Bool.not_false, if_true, List.mem_singleton] at hf
    subst hf
    exact ⟨rfl, hok, hl⟩
  | true =>
    have hre := reimport_ok (rank := rank) (s := { s with cb := [] }) hv
    have hok : reimportOk rank s = true := by unfold reimportOk; rw [hre]
    have hpost : reimportPost rank s = roundTrip rank { s with cb := [] } := by unfold reimportPost; rw [hre]
    have hi0 : OwnerIdx { s with cb := [] } := hi.of_frame ⟨rfl, rfl⟩
    have c1 : registrySame s (roundTrip rank { s with cb := [] }) = true :=
      registrySame_roundTrip rank hr0.2.2.own hi0 s rfl rfl rfl rfl rfl
    have c2 : ctxsAre id s (roundTrip rank { s with cb := [] }) = true := by
      apply ctxsAre_of
      intro k
      rw [(roundTrip_lookups rank { s with cb := [] }).2.2.2.2 k]
      simp
    have c3 : balsSameExcept ds s (roundTrip rank { s with cb := [] }) [] = true := balsSameExcept_of_bank ds _ _ rfl
    right
    unfold checkReimport at hf
    rw [hok, hpost, c1, c2, c3] at hf
    simp only [Bool.not_true, Bool.false_eq_true, if_false, if_true, List.nil_append] at hf
    split at hf
    · cases hf
    · rename_i hall
      rw [List.mem_singleton] at hf
      subst hf
      refine ⟨rfl, hok, ?_⟩
      rw [Bool.not_eq_true, List.all_eq_false] at hall
      obtain ⟨d, hd, hne⟩ := hall
      exact ⟨d, hd, by simpa using hne⟩

/-- … and when every context is quiet and nothing is owed, the plain round trip raises nothing -/
theorem c12_reimport_quiet (rank : Addr → Nat) (ds : List Denom) {s : State} (hs : SInv s) (hi : OwnerIdx s)
    (hq : Quiescent s) (hz : ∀ d, liabilities s d = 0) :
    checkReimport ds s (reimportPost rank s) (reimportOk rank s) = [] := by
  cases hc : checkReimport ds s (reimportPost rank s) (reimportOk rank s) with
  | nil => rfl
  | cons f t =>
    exfalso
    rcases c12_reimport_sound rank ds hs hi f (by rw [hc]; exact List.mem_cons_self ..) with ⟨_, hno, _⟩ | ⟨_, _, d, _, hne⟩
    · have hq0 : Quiescent { s with cb := [] } := hq
      have hre := reimport_ok (rank := rank) (genesisValid_export rank (reach_nocb hs.reach).2.2.fields hq0)
      unfold reimportOk at hno
      rw [hre] at hno
      cases hno
    · exact hne (hz d)

theorem users_ne_reqAcc : ∀ a, a ∈ users → a ≠ reqAcc := by decide

/-- **`service prep_reimport`** (`PrepForZeroHeightGenesis`, export, wipe, `InitGenesis`): on every invariant state the
model accepts the line and every clause passes — registry kept, contexts reset, exact payouts, escrows settled.
`hfc`: the fee collector account is neither the consumer of an open request nor a provider with earned fees (module
accounts hold no keys; the clause `prep-other-escrows-untouched` demands that its balance does not move) -/
theorem c12_prep_reimport_sound (rank : Addr → Nat) (ds : List Denom) {s : State} (hs : SInv s) (hi : OwnerIdx s)
    (hfc : ∀ d, refundTo s fcAcc d = 0 ∧ earnedOf s fcAcc d = 0) :
    prepReimportOk rank s = true ∧
    checkPrepReimport ds s (prepReimportPost rank s) (prepReimportOk rank s) = [] := by
  have hr0 := reach_nocb hs.reach
  obtain ⟨b2, _, _, q3, q4, q5, q6⟩ := prepReimport_spec rank hr0
  have hok : prepReimportOk rank s = true := by unfold prepReimportOk; rw [q3]
  have hpost : prepReimportPost rank s = roundTrip rank (prepared { s with cb := [] } b2) := by
    unfold prepReimportPost; rw [q3]
  refine ⟨hok, ?_⟩
  have hbank : (roundTrip rank (prepared { s with cb := [] } b2)).bank = b2 := rfl
  have hown : OwnersInv (prepared { s with cb := [] } b2) := ⟨hr0.2.2.own.own1, hr0.2.2.own.own2⟩
  have hi0 : OwnerIdx (prepared { s with cb := [] } b2) := hi.of_frame ⟨rfl, rfl⟩
  have c1 : registrySame s (roundTrip rank (prepared { s with cb := [] } b2)) = true :=
    registrySame_roundTrip rank hown hi0 s rfl rfl rfl rfl rfl
  have c2 : ctxsAre resetCtx s (roundTrip rank (prepared { s with cb := [] } b2)) = true := by
    apply ctxsAre_of
    intro k
    rw [(roundTrip_lookups rank (prepared { s with cb := [] } b2)).2.2.2.2 k]
    exact get?_resetCtxs s.ctxs k
  have c3 : users.all (fun a => ds.all fun d =>
      Bank.balOf (roundTrip rank (prepared { s with cb := [] } b2)).bank a d ==
        Bank.balOf s.bank a d + refundTo s a d + earnedOf s a d) = true := by
    rw [List.all_eq_true]
    intro a ha
    rw [List.all_eq_true]
    intro d _
    rw [hbank, beq_iff_eq]
    exact q5 a d (users_ne_reqAcc a ha)
  have c4 : ds.all (fun d => Bank.balOf (roundTrip rank (prepared { s with cb := [] } b2)).bank reqAcc d + liabilities s d ==
      Bank.balOf s.bank reqAcc d) = true := by
    rw [List.all_eq_true]
    intro d _
    rw [hbank, beq_iff_eq, q4 d]
    have := hs.escrow d
    unfold liabilities
    omega
  have c5 : ds.all (fun d => Bank.balOf (roundTrip rank (prepared { s with cb := [] } b2)).bank depAcc d == Bank.balOf s.bank depAcc d &&
      Bank.balOf (roundTrip rank (prepared { s with cb := [] } b2)).bank fcAcc d == Bank.balOf s.bank fcAcc d) = true := by
    rw [List.all_eq_true]
    intro d _
    rw [hbank, Bool.and_eq_true, beq_iff_eq, beq_iff_eq]
    refine ⟨q6 d, ?_⟩
    have h1 := q5 fcAcc d (by decide)
    have h2 := hfc d
    have e1 : refundTo { s with cb := [] } fcAcc d = refundTo s fcAcc d := rfl
    have e2 : earnedOf { s with cb := [] } fcAcc d = earnedOf s fcAcc d := rfl
    have e3 : Bank.balOf ({ s with cb := [] } : State).bank fcAcc d = Bank.balOf s.bank fcAcc d := rfl
    omega
  have c6 : ds.all (fun d => liabilities (roundTrip rank (prepared { s with cb := [] } b2)) d == 0) = true := by
    rw [List.all_eq_true]
    intro d _
    rfl
  unfold checkPrepReimport
  rw [hok, hpost, c1, c2, c3, c4, c5, c6]
  rfl

/-! ### the state after a genesis line satisfies the line invariant again -/

/-- the re-imported chain: empty scheduler, every context quiet, escrows matching — the invariant holds again -/
theorem sinv_roundTrip (rank : Addr → Nat) {t : State} (hu : UsersInv t) (hd : DepositInv t) (hnp0 : NoPromo t) (hg : GI t)
    (hc : CtxsOk t) (hq : Quiescent t) (hreq : ∀ d, Bank.balOf t.bank reqAcc d = 0) :
    SInv (roundTrip rank t) ∧ CtxsNodup (roundTrip rank t) ∧ MarkersNodup (roundTrip rank t) := by
  obtain ⟨l1, l2, l3, l4, l5⟩ := roundTrip_lookups rank t
  have lo := roundTrip_owners rank hg.own
  have hquiet : ∀ id c, AMap.get? (roundTrip rank t).ctxs id = some c → ctxQuiet c = true := by
    intro id c hg; rw [l5] at hg; exact hq id c hg
  have hnotrun : ∀ id c, AMap.get? (roundTrip rank t).ctxs id = some c → c.batchState ≠ .running ∧ c.state ≠ .running := by
    intro id c hg
    have := hquiet id c hg
    unfold ctxQuiet at this
    simp only [Bool.and_eq_true, beq_iff_eq] at this
    rw [this.1, this.2]
    exact ⟨by decide, by decide⟩
  have eNQ : (roundTrip rank t).newQ = [] := rfl
  have eNH : (roundTrip rank t).newH = [] := rfl
  have eEQ : (roundTrip rank t).expQ = [] := rfl
  have eEH : (roundTrip rank t).expH = [] := rfl
  have eAct : (roundTrip rank t).active = [] := rfl
  have eRes : (roundTrip rank t).resps = [] := rfl
  have eEar : (roundTrip rank t).earned = [] := rfl
  have eOea : (roundTrip rank t).oearned = [] := rfl
  have eReq : (roundTrip rank t).reqs = [] := rfl
  have hwf : WF (roundTrip rank t) := by
    refine ⟨?_, ?_, ?_, ?_, ?_, ?_, ?_, ?_, ?_⟩
    · rw [eNQ, eNH]
      constructor
      · intro _ _ h; cases h
      · intro _ _ h; simp [AMap.get?] at h
    · rw [eEQ, eEH]
      constructor
      · intro _ _ h; cases h
      · intro _ _ h; simp [AMap.get?] at h
    · intro id h; rw [eNH] at h; simp [AMap.contains, AMap.get?] at h
    · intro id h
      rw [eNH, eEH] at h
      simp [AMap.contains, AMap.get?] at h
    · intro r h; rw [eAct] at h; cases h
    · rw [eAct]; simp
    · rw [eNQ]; simp
    · rw [eEQ]; simp
    · intro id c hg hrun; exact absurd hrun (hnotrun id c hg).1
  have husers : UsersInv (roundTrip rank t) := by
    refine ⟨?_, ?_, ?_⟩
    · intro k b h; rw [l3] at h; exact hu.owners k b h
    · intro id c h; rw [l5] at h; exact hu.consumers id c h
    · intro o a h; rw [l4] at h; exact hu.wds o a h
  have hdep : DepositInv (roundTrip rank t) := by
    intro d
    have e1 : (roundTrip rank t).bank = t.bank := rfl
    rw [e1, l1, depositSum_roundTrip rank hg.nd]
    exact hd d
  have hnp : NoPromo (roundTrip rank t) := by
    intro k b h; rw [l3] at h; exact hnp0 k b h
  have hesc : EscrowInv (roundTrip rank t) := by
    intro d
    have e1 : (roundTrip rank t).bank = t.bank := rfl
    rw [e1, hreq d]
    rfl
  have htb : TB (roundTrip rank t) := by
    refine ⟨fun _ _ => rfl, ?_, ?_, ?_, ?_, ?_⟩
    · unfold KeysNodup; rw [eEar]; exact List.nodup_nil
    · unfold KeysNodup; rw [eOea]; exact List.nodup_nil
    · intro e he; rw [eEar] at he; cases he
    · intro e he; rw [eReq] at he; cases he
    intro e he
    obtain ⟨v, hv⟩ := mem_get? _ e he
    rw [l3] at hv
    have := hg.own.own1 _ _ hv
    rw [contains_iff]
    exact ⟨_, by rw [lo]; exact this⟩
  have hgi : GI (roundTrip rank t) := by
    refine ⟨⟨by rw [l1]; exact hg.fields.params, ?_, ?_, ?_, ?_⟩, ⟨?_, ?_⟩, ?_, ?_⟩
    · intro n a h; rw [l2] at h; exact hg.fields.defs n a h
    · intro k b h; rw [l3] at h; exact hg.fields.binds k b h
    · intro o a h; rw [l4] at h; exact hg.fields.wd o a h
    · intro id c h; rw [l5] at h; exact hg.fields.ctxs id c h
    · intro k b h; rw [l3] at h; rw [lo]; exact hg.own.own1 k b h
    · intro p o h
      rw [lo] at h
      obtain ⟨svc, b, hb⟩ := hg.own.own2 p o h
      exact ⟨svc, b, by rw [l3]; exact hb⟩
    · have e : (roundTrip rank t).binds = rebuild (entries (leBind rank) t.binds) := rfl
      rw [e, rebuild_entries]
      exact nodupKeys_entries _ _
    · intro k b h; rw [l3] at h; exact hg.prov k b h
  have hctxsok : CtxsOk (roundTrip rank t) := by
    intro id c h; rw [l5] at h; exact hc id c h
  have hns : Irismod.Spec.C13S.NoStale (roundTrip rank t) := by
    constructor
    · intro _ _ h; rw [eNQ] at h; cases h
    · intro _ _ h; rw [eEQ] at h; cases h
  have hpast : ActPast (roundTrip rank t) := by intro r h; rw [eAct] at h; cases h
  have hresp : RespInv (roundTrip rank t) := by
    constructor
    · unfold KeysNodup; rw [eRes]; exact List.nodup_nil
    · intro e he; rw [eRes] at he; cases he
  have haw : Awaits (roundTrip rank t) :=
    ⟨fun id c hg hrun => absurd hrun (hnotrun id c hg).1, fun id c hg hrun => absurd hrun (hnotrun id c hg).2⟩
  have hmk : MarkersNodup (roundTrip rank t) := by
    constructor
    · unfold KeysNodup; rw [eNH]; exact List.nodup_nil
    · unfold KeysNodup; rw [eEH]; exact List.nodup_nil
  refine ⟨⟨⟨⟨hwf, ⟨husers, hdep⟩, hnp, hesc⟩, htb, hgi⟩, ⟨hwf, hctxsok, hns⟩, hpast, hresp, haw⟩, ?_, hmk⟩
  · have e : (roundTrip rank t).ctxs = rebuild (entries leStr t.ctxs) := rfl
    unfold CtxsNodup
    rw [e, rebuild_entries]
    exact nodupKeys_entries _ _

theorem ownerIdx_roundTrip (rank : Addr → Nat) {t : State} (ho : OwnersInv t) : OwnerIdx (roundTrip rank t) := by
  intro o p
  have e : (roundTrip rank t).ownerProv = ownerProvOf (entries (leBind rank) t.binds) := rfl
  rw [e, mem_ownerProvOf, roundTrip_owners rank ho]
  constructor
  · rintro ⟨e, he, hx⟩
    rw [mem_entries] at he
    have h1 := ho.own1 _ _ he
    simp only [Prod.mk.injEq] at hx
    rw [hx.1, hx.2] at h1
    exact h1
  · intro h
    obtain ⟨svc, b, hb⟩ := ho.own2 p o h
    have h1 := ho.own1 _ _ hb
    simp only at h1
    rw [h] at h1
    refine ⟨((svc, p), b), (mem_entries _ _ _).mpr hb, ?_⟩
    simp only [Prod.mk.injEq, and_true]
    exact (Option.some.inj h1).symm

theorem resetCtx_timing (c : Ctx) : timing (resetCtx c) = timing c := rfl

/-- the line invariant after `service prep_reimport`, on every invariant state -/
theorem sinv_prepReimport (rank : Addr → Nat) {s : State} (hs : SInv s) :
    SInv (prepReimportPost rank s) ∧ CtxsNodup (prepReimportPost rank s) ∧ MarkersNodup (prepReimportPost rank s) ∧
    OwnerIdx (prepReimportPost rank s) := by
  have hr0 := reach_nocb hs.reach
  obtain ⟨b2, _, _, q3, q4, _, q6⟩ := prepReimport_spec rank hr0
  have hpost : prepReimportPost rank s = roundTrip rank (prepared { s with cb := [] } b2) := by
    unfold prepReimportPost; rw [q3]
  rw [hpost]
  have hown : OwnersInv (prepared { s with cb := [] } b2) := ⟨hr0.2.2.own.own1, hr0.2.2.own.own2⟩
  have hu : UsersInv (prepared { s with cb := [] } b2) := by
    refine ⟨hr0.1.2.1.1.owners, ?_, hr0.1.2.1.1.wds⟩
    intro id c hg
    simp only [prepared] at hg
    rw [get?_resetCtxs] at hg
    cases hc : AMap.get? s.ctxs id with
    | none => rw [hc] at hg; cases hg
    | some c0 =>
      rw [hc] at hg
      simp only [Option.map_some, Option.some.injEq] at hg
      subst hg
      exact hs.di.1.consumers id c0 hc
  have hd : DepositInv (prepared { s with cb := [] } b2) := by
    intro d
    have := hs.di.2 d
    have e1 : (prepared { s with cb := [] } b2).bank = b2 := rfl
    rw [e1, q6 d]
    exact this
  have hgi : GI (prepared { s with cb := [] } b2) :=
    ⟨fieldsOk_prepared hr0.2.2.fields b2, hown, hr0.2.2.nd, hr0.2.2.prov⟩
  have hc : CtxsOk (prepared { s with cb := [] } b2) := by
    intro id c hg
    simp only [prepared] at hg
    rw [get?_resetCtxs] at hg
    cases hc : AMap.get? s.ctxs id with
    | none => rw [hc] at hg; cases hg
    | some c0 =>
      rw [hc] at hg
      simp only [Option.map_some, Option.some.injEq] at hg
      subst hg
      exact (hs.ctxsOk id c0 hc).of_timing (resetCtx_timing c0)
  obtain ⟨a1, a2, a3⟩ := sinv_roundTrip rank hu hd hr0.1.2.2.1 hgi hc (quiescent_prepared _ b2) q4
  exact ⟨a1, a2, a3, ownerIdx_roundTrip rank hown⟩

/-- the line invariant after an accepted `service reimport` that leaves nothing stranded (every context quiet — otherwise
the line is refused, F-gen-6 — and no earned fee outstanding — otherwise F-gen-14 leaves them in the escrow of the new
chain, where C07's identity then fails by exactly that amount) -/
theorem sinv_reimport (rank : Addr → Nat) {s : State} (hs : SInv s) (hq : Quiescent s) (hz : ∀ d, liabilities s d = 0) :
    reimportOk rank s = true ∧
    SInv (reimportPost rank s) ∧ CtxsNodup (reimportPost rank s) ∧ MarkersNodup (reimportPost rank s) ∧
    OwnerIdx (reimportPost rank s) := by
  have hr0 := reach_nocb hs.reach
  have hq0 : Quiescent { s with cb := [] } := hq
  have hre := reimport_ok (rank := rank) (genesisValid_export rank hr0.2.2.fields hq0)
  have hok : reimportOk rank s = true := by unfold reimportOk; rw [hre]
  have hpost : reimportPost rank s = roundTrip rank { s with cb := [] } := by unfold reimportPost; rw [hre]
  rw [hpost]
  have hreq : ∀ d, Bank.balOf ({ s with cb := [] } : State).bank reqAcc d = 0 := by
    intro d
    have h1 := hs.escrow d
    have h2 := hz d
    unfold liabilities at h2
    show Bank.balOf s.bank reqAcc d = 0
    omega
  obtain ⟨a1, a2, a3⟩ := sinv_roundTrip rank hr0.1.2.1.1 hr0.1.2.1.2 hr0.1.2.2.1 hr0.2.2
    (show CtxsOk { s with cb := [] } from hs.ctxsOk) hq0 hreq
  exact ⟨hok, a1, a2, a3, ownerIdx_roundTrip rank hr0.2.2.own⟩

end Irismod.Proofs.ServiceMonitor
