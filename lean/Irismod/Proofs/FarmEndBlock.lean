/-
The EndBlocker on the invariant bundle: it never rejects half-way, handles exactly the pools
due at the current height, and leaves the bundle intact at the next height.
-/
import Irismod.Proofs.FarmTotal

namespace Irismod.Proofs.Farm
open Irismod Irismod.Sdk Irismod.Farm Irismod.Spec

/-! ### the iteration order -/

theorem mem_insertId {x a : PoolId} : ∀ {l : List PoolId}, a ∈ insertId x l ↔ a = x ∨ a ∈ l
  | [] => by simp [insertId]
  | y :: ys => by
    unfold insertId
    split
    · simp
    · simp only [List.mem_cons, mem_insertId (l := ys)]
      constructor
      · rintro (h | h | h)
        · exact Or.inr (Or.inl h)
        · exact Or.inl h
        · exact Or.inr (Or.inr h)
      · rintro (h | h | h)
        · exact Or.inr (Or.inl h)
        · exact Or.inl h
        · exact Or.inr (Or.inr h)

theorem nodup_insertId {x : PoolId} : ∀ {l : List PoolId}, x ∉ l → l.Nodup → (insertId x l).Nodup
  | [], _, _ => by simp [insertId]
  | y :: ys, hx, hn => by
    unfold insertId
    simp only [List.mem_cons, not_or] at hx
    simp only [List.nodup_cons] at hn
    split
    · simp only [List.nodup_cons, List.mem_cons, not_or]
      exact ⟨⟨hx.1, hx.2⟩, hn.1, hn.2⟩
    · simp only [List.nodup_cons]
      refine ⟨?_, nodup_insertId hx.2 hn.2⟩
      rw [mem_insertId]
      intro h; rcases h with h | h
      · exact hx.1 h.symm
      · exact hn.1 h

theorem mem_sortIds {a : PoolId} : ∀ {l : List PoolId}, a ∈ sortIds l ↔ a ∈ l
  | [] => by simp [sortIds]
  | x :: xs => by
    have ih := mem_sortIds (a := a) (l := xs)
    unfold sortIds at ih ⊢
    simp only [List.foldr_cons, mem_insertId, ih, List.mem_cons]

theorem nodup_sortIds : ∀ {l : List PoolId}, l.Nodup → (sortIds l).Nodup
  | [], _ => by simp [sortIds]
  | x :: xs, hn => by
    simp only [List.nodup_cons] at hn
    have ih := nodup_sortIds hn.2
    unfold sortIds at ih ⊢
    simp only [List.foldr_cons]
    exact nodup_insertId (by
      have := mem_sortIds (a := x) (l := xs)
      unfold sortIds at this
      rw [this]; exact hn.1) ih

theorem nodup_dueList (h : Int) : ∀ (q : List (Int × PoolId)), q.Nodup →
    ((q.filter fun e => e.1 = h).map (·.2)).Nodup
  | [], _ => by simp
  | (h0, i) :: t, hn => by
    simp only [List.nodup_cons] at hn
    have ih := nodup_dueList h t hn.2
    by_cases e : h0 = h
    · subst e
      simp only [List.filter, decide_true, List.map_cons, List.nodup_cons]
      refine ⟨?_, ih⟩
      intro hm
      simp only [List.mem_map, List.mem_filter, decide_eq_true_eq] at hm
      obtain ⟨⟨h1, i1⟩, ⟨hm1, e1⟩, e2⟩ := hm
      simp only at e1 e2
      subst e1 e2
      exact hn.1 hm1
    · simp only [List.filter, e, decide_false]
      exact ih

theorem mem_dueIds {s : State} {id : PoolId} : id ∈ dueIds s ↔ (s.height, id) ∈ s.queue := by
  unfold dueIds
  rw [mem_sortIds]
  simp only [List.mem_map, List.mem_filter, decide_eq_true_eq]
  constructor
  · rintro ⟨⟨h, i⟩, ⟨hm, e1⟩, e2⟩
    simp only at e1 e2; subst e1 e2; exact hm
  · intro hm; exact ⟨(s.height, id), ⟨hm, rfl⟩, rfl⟩

/-! ### the loop -/

/-- a due pool was handled: dequeued, ended at this height, budget returned -/
def Handled (s' : State) (h : Int) (id : PoolId) : Prop :=
  ∃ pf, getPool s' id = some pf ∧ pf.endH = h ∧ ∀ r ∈ pf.rules, r.remaining = 0 ∧ r.nRefund ≥ 1

theorem endBlockOne_inv {s : State} {id : PoolId} (hi : Inv s) (hdue : (s.height, id) ∈ s.queue) :
    (∃ w, endBlockOne s id = .error (.panic w)) ∨
    ∃ s', endBlockOne s id = .ok s' ∧ Inv s' ∧ s'.height = s.height ∧
      (∀ e, e ∈ s'.queue ↔ e ∈ s.queue ∧ e ≠ (s.height, id)) ∧
      (∀ id2, id ≠ id2 → getPool s' id2 = getPool s id2) ∧ Handled s' s.height id := by
  obtain ⟨p, hp, hend, _⟩ := hi.core.queue.1 _ _ hdue
  have hact : C06.active s id p = true := by unfold C06.active; rw [hend]; simpa using hdue
  have hv := refund_verdict hi hp hact (by omega)
  unfold endBlockOne
  rw [hp]
  simp only
  generalize hr : refund s id p = res at hv
  obtain ⟨s1, r⟩ := res
  simp only at hv
  rcases hv with e | e | ⟨w, e⟩
  · subst e
    obtain ⟨i1, h1, q1, o1, hd1⟩ := inv_refund hi hp hact (Or.inl hr)
    right
    refine ⟨s1, rfl, i1, h1, ?_, o1, hd1⟩
    intro e; rw [q1, mem_dequeue, hend]
  · subst e
    obtain ⟨i1, h1, q1, o1, hd1⟩ := inv_refund hi hp hact (Or.inr hr)
    right
    refine ⟨s1, rfl, i1, h1, ?_, o1, hd1⟩
    intro e; rw [q1, mem_dequeue, hend]
  · subst e
    left; exact ⟨w, rfl⟩

theorem endBlockIds_inv : ∀ (ids : List PoolId) {s : State}, Inv s → ids.Nodup →
    (∀ id ∈ ids, (s.height, id) ∈ s.queue) →
    (∃ w, endBlockIds s ids = .error (.panic w)) ∨
    ∃ s', endBlockIds s ids = .ok s' ∧ Inv s' ∧ s'.height = s.height ∧
      (∀ e, e ∈ s'.queue ↔ e ∈ s.queue ∧ ∀ id ∈ ids, e ≠ (s.height, id)) ∧
      (∀ id2, id2 ∉ ids → getPool s' id2 = getPool s id2) ∧ (∀ id ∈ ids, Handled s' s.height id)
  | [], s, hi, _, _ => Or.inr ⟨s, rfl, hi, rfl, by simp, by simp, by simp⟩
  | id :: ids, s, hi, hn, hdue => by
    simp only [List.nodup_cons] at hn
    unfold endBlockIds
    rcases endBlockOne_inv hi (hdue id (by simp)) with ⟨w, e⟩ | ⟨s1, e, i1, h1, q1, o1, hd1⟩
    · left; rw [e]; exact ⟨w, rfl⟩
    · rw [e]
      simp only
      have hdue1 : ∀ id2 ∈ ids, (s1.height, id2) ∈ s1.queue := by
        intro id2 hm
        rw [h1, q1]
        refine ⟨hdue id2 (by simp [hm]), ?_⟩
        intro e2
        have : id2 = id := (Prod.mk.inj e2).2
        subst this
        exact hn.1 hm
      rcases endBlockIds_inv ids i1 hn.2 hdue1 with ⟨w, e2⟩ | ⟨s2, e2, i2, h2, q2, o2, hd2⟩
      · left; exact ⟨w, e2⟩
      · right
        refine ⟨s2, e2, i2, by rw [h2, h1], ?_, ?_, ?_⟩
        · intro x
          rw [q2, q1, h1]
          constructor
          · rintro ⟨⟨hx, hne⟩, hall⟩
            refine ⟨hx, ?_⟩
            intro i hi2
            simp only [List.mem_cons] at hi2
            rcases hi2 with e3 | e3
            · subst e3; exact hne
            · exact hall i e3
          · rintro ⟨hx, hall⟩
            exact ⟨⟨hx, hall id (by simp)⟩, fun i hi2 => hall i (by simp [hi2])⟩
        · intro id2 hnm
          simp only [List.mem_cons, not_or] at hnm
          rw [o2 id2 hnm.2, o1 id2 (Ne.symm hnm.1)]
        · intro i hi2
          simp only [List.mem_cons] at hi2
          rcases hi2 with e3 | e3
          · subst e3
            obtain ⟨pf, hpf, h3, h4⟩ := hd1
            exact ⟨pf, by rw [o2 i hn.1]; exact hpf, h3, h4⟩
          · have := hd2 i e3
            rw [h1] at this; exact this

/-- moving to the next height keeps the bundle once no entry is due any more -/
theorem inv_nextHeight {s : State} (hi : Inv s) (hnodue : ∀ id, (s.height, id) ∉ s.queue) :
    Inv { s with height := s.height + 1 } := by
  obtain ⟨q1, q2, q3⟩ := hi.core.queue
  refine ⟨⟨?_, hi.core.wf, ?_, ?_, hi.core.budget, hi.core.debt, hi.core.fpool, ?_⟩,
    Stakes.of_same (s := s) ⟨rfl, fun _ => rfl⟩ hi.stakes, hi.modacc, hi.cpu⟩
  · show 0 ≤ s.height + 1; have := hi.core.hnn; omega
  · intro id p hp
    have t := hi.core.time id p hp
    exact ⟨by show p.last ≤ s.height + 1; have := t.lastLe; omega, t.staked,
           fun hlt => t.fresh (by have : s.height + 1 < p.start := hlt; omega)⟩
  · refine ⟨?_, ?_, q3⟩
    · intro h id hm
      obtain ⟨p, hp, he, hl⟩ := q1 h id hm
      refine ⟨p, hp, he, ?_⟩
      show s.height + 1 ≤ h
      have : h ≠ s.height := by intro e; subst e; exact hnodue id hm
      omega
    · intro id p hp hlt
      exact q2 id p hp (by have : s.height + 1 < p.endH := hlt; omega)
  · intro id p hp r hr
    exact (hi.core.ghost id p hp r hr).transfer (fun h => h)
      (by intro h; show p.endH ≤ s.height + 1; omega)

theorem endBlocker_inv {s : State} (hi : Inv s) :
    (∃ w, endBlocker s = .error (.panic w)) ∨
    ∃ s', endBlocker s = .ok s' ∧ Inv { s' with height := s'.height + 1 } ∧ s'.height = s.height ∧
      (∀ e, e ∈ s'.queue ↔ e ∈ s.queue ∧ e.1 ≠ s.height) ∧
      (∀ id, (s.height, id) ∉ s.queue → getPool s' id = getPool s id) ∧
      (∀ id, (s.height, id) ∈ s.queue → Handled s' s.height id) := by
  unfold endBlocker
  have hn : (dueIds s).Nodup := nodup_sortIds (nodup_dueList _ _ hi.core.queue.2.2)
  rcases endBlockIds_inv (dueIds s) hi hn (fun id hm => mem_dueIds.mp hm) with ⟨w, e⟩ | ⟨s', e, i1, h1, q1, o1, hd1⟩
  · exact Or.inl ⟨w, e⟩
  · right
    have hq : ∀ e, e ∈ s'.queue ↔ e ∈ s.queue ∧ e.1 ≠ s.height := by
      intro x
      rw [q1]
      constructor
      · rintro ⟨hx, hall⟩
        refine ⟨hx, ?_⟩
        intro e1
        obtain ⟨h, i⟩ := x
        simp only at e1; subst e1
        exact hall i (mem_dueIds.mpr hx) rfl
      · rintro ⟨hx, hne⟩
        exact ⟨hx, fun i _ e2 => hne (by rw [e2])⟩
    refine ⟨s', e, ?_, h1, hq, ?_, ?_⟩
    · apply inv_nextHeight i1
      intro id hm
      rw [hq] at hm
      exact hm.2 (by rw [h1])
    · intro id hnm; exact o1 id (fun hm => hnm (mem_dueIds.mp hm))
    · intro id hm; exact hd1 id (mem_dueIds.mpr hm)

theorem endBlocks_inv : ∀ (n : Nat) {s : State}, Inv s → Inv (endBlocks n s).1
  | 0, _, hi => hi
  | n + 1, s, hi => by
    unfold endBlocks
    rcases endBlocker_inv hi with ⟨w, e⟩ | ⟨s', e, i1, _⟩
    · rw [e]; exact hi
    · rw [e]; exact endBlocks_inv n i1

end Irismod.Proofs.Farm
