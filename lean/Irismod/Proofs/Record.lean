/-
Helper lemmas for C19 (record): injectivity of the counter suffix, "equal ids => equal
preimages or an exhibited SHA-256 collision", the log of a history is well-formed, and the
store of a history is the replay of its log.
-/
import Irismod.Spec.C19

namespace Irismod.Proofs.Record
open Irismod Irismod.Record Irismod.Spec.C19

/-! ### bytes -/

theorem u8_ofNat_inj {a b : Nat} (ha : a < 256) (hb : b < 256) (h : UInt8.ofNat a = UInt8.ofNat b) :
    a = b := by
  have h2 := congrArg UInt8.toNat h
  simp only [UInt8.toNat_ofNat'] at h2
  omega

theorem be32_length (c : UInt32) : (be32 c).length = 4 := rfl

/-- the big-endian counter suffix determines the counter -/
theorem be32_inj {a b : UInt32} (h : be32 a = be32 b) : a = b := by
  have ha : a.toNat < 2^32 := a.toNat_lt
  have hb : b.toNat < 2^32 := b.toNat_lt
  unfold be32 at h
  simp only [List.cons.injEq, and_true] at h
  obtain ⟨h0, h1, h2, h3⟩ := h
  have e0 := u8_ofNat_inj (by omega) (by omega) h0
  have e1 := u8_ofNat_inj (by omega) (by omega) h1
  have e2 := u8_ofNat_inj (by omega) (by omega) h2
  have e3 := u8_ofNat_inj (by omega) (by omega) h3
  apply UInt32.toNat_inj.mp
  omega

theorem toBA_inj {a b : Bytes} (h : toBA a = toBA b) : a = b := by
  unfold toBA at h
  have h2 : a.toArray = b.toArray := by injection h
  simpa using congrArg Array.toList h2

/-- equal ids come from equal hashed byte strings, or the two byte strings are a SHA-256 collision -/
theorem id_eq_cases {p q : Bytes} (h : idOfPre p = idOfPre q) : p = q ∨ Collision := by
  by_cases hpq : p = q
  · exact Or.inl hpq
  · right
    refine ⟨toBA p, toBA q, fun hc => hpq (toBA_inj hc), ?_⟩
    unfold idOfPre at h
    exact ByteArray.ext h

/-- equal preimages carry equal counters (the suffix has fixed length 4) and equal record bytes -/
theorem preimage_eq {r1 r2 : Rec} {c1 c2 : UInt32}
    (h : encRecord r1 ++ be32 c1 = encRecord r2 ++ be32 c2) : encRecord r1 = encRecord r2 ∧ c1 = c2 := by
  have := List.append_inj' h (by simp [be32_length])
  exact ⟨this.1, be32_inj this.2⟩

theorem ofNat_eq_mod {a b : Nat} (h : UInt32.ofNat a = UInt32.ofNat b) : a % 2^32 = b % 2^32 := by
  have h2 := congrArg UInt32.toNat h
  simpa [UInt32.toNat_ofNat'] using h2

theorem ofNat_succ (n : Nat) : UInt32.ofNat n + 1 = UInt32.ofNat (n + 1) := by
  apply UInt32.toNat_inj.mp
  simp [UInt32.toNat_add, UInt32.toNat_ofNat']

/-! ### well-formed logs -/

theorem wf_append {n : Nat} {l1 l2 : List Entry} (h1 : WF n l1) (h2 : WF (n + l1.length) l2) :
    WF n (l1 ++ l2) := by
  induction l1 generalizing n with
  | nil => simpa using h2
  | cons e t ih =>
    obtain ⟨a, b, c⟩ := h1
    refine ⟨a, b, ?_⟩
    apply ih c
    have : n + 1 + t.length = n + (e :: t).length := by simp; omega
    rw [this]; exact h2

theorem wf_getElem {n : Nat} {log : List Entry} (h : WF n log) (k : Nat) (hk : k < log.length) :
    log[k].pre = encRecord log[k].rcd ++ be32 (UInt32.ofNat (n + k)) ∧ log[k].id = idOfPre log[k].pre := by
  induction log generalizing n k with
  | nil => simp at hk
  | cons e t ih =>
    obtain ⟨a, b, c⟩ := h
    cases k with
    | zero => exact ⟨a, b⟩
    | succ k =>
      have := ih c k (by simpa using hk)
      have e2 : n + 1 + k = n + (k + 1) := by omega
      simpa [e2] using this

/-- two creations of a well-formed log with the same id: the counter wrapped between them
    (at least 2^32 creations apart) or a SHA-256 collision is exhibited -/
theorem wf_same_id {n : Nat} {log : List Entry} (h : WF n log) (i j : Nat) (hi : i < log.length)
    (hj : j < log.length) (hij : i < j) (hid : log[i].id = log[j].id) :
    2^32 ≤ j - i ∨ Collision := by
  obtain ⟨pi, ii⟩ := wf_getElem h i hi
  obtain ⟨pj, ij⟩ := wf_getElem h j hj
  rw [ii, ij] at hid
  rcases id_eq_cases hid with hp | hc
  · left
    rw [pi, pj] at hp
    have := ofNat_eq_mod (preimage_eq hp).2
    omega
  · exact Or.inr hc

theorem wf_noClash {n : Nat} {log : List Entry} (h : WF n log) (hlen : log.length ≤ 2^32) :
    NoClash log ∨ Collision := by
  by_cases hc : Collision
  · exact Or.inr hc
  · left
    unfold NoClash
    rw [List.pairwise_iff_getElem]
    intro i j hi hj hij hid
    rcases wf_same_id h i j hi hj hij hid with hw | hc2
    · omega
    · exact hc hc2

/-! ### the log of a transaction and of a history -/

theorem txEntries_length (h : String) (c : UInt32) (msgs : List Msg) :
    (txEntries h c msgs).length = msgs.length := by
  induction msgs generalizing c with
  | nil => rfl
  | cons m t ih => simp [txEntries, ih]

theorem wf_txEntries (h : String) (n : Nat) (msgs : List Msg) :
    WF n (txEntries h (UInt32.ofNat n) msgs) := by
  induction msgs generalizing n with
  | nil => trivial
  | cons m t ih =>
    refine ⟨rfl, rfl, ?_⟩
    rw [ofNat_succ]
    exact ih (n + 1)

/-- folding `CreateRecord` over the messages = replaying the transaction's entries, and the
    counter advances by the number of messages -/
theorem foldl_createOne (h : String) (s : State) (msgs : List Msg) :
    (msgs.foldl (createOne h) s).recs = replayOn s.recs (txEntries h s.counter msgs) ∧
    (msgs.foldl (createOne h) s).counter = s.counter + UInt32.ofNat msgs.length := by
  induction msgs generalizing s with
  | nil => simp [replayOn, txEntries]
  | cons m t ih =>
    have := ih (createOne h s m)
    simp only [List.foldl_cons]
    refine ⟨?_, ?_⟩
    · rw [this.1]; rfl
    · rw [this.2]
      simp only [createOne, addRecord, List.length_cons]
      apply UInt32.toNat_inj.mp
      simp [UInt32.toNat_add, UInt32.toNat_ofNat']
      omega

theorem stepTx_ok {s s' : State} {h : String} {msgs : List Msg} (hst : stepTx s h msgs = .ok s') :
    s' = msgs.foldl (createOne h) s := by
  unfold stepTx at hst
  split at hst; · cases hst
  split at hst; · cases hst
  cases hst; rfl

theorem apply_recs (s : State) (op : Op) :
    (apply s op).recs = replayOn s.recs (opEntries s op) ∧
    (apply s op).counter = s.counter + UInt32.ofNat (opEntries s op).length := by
  cases op with
  | tx b msgs =>
    simp only [apply, opEntries, step]
    cases hst : stepTx s (txHashOf b) msgs with
    | error e => simp [replayOn]
    | ok s' =>
      simp only
      rw [stepTx_ok hst, txEntries_length]
      exact foldl_createOne (txHashOf b) s msgs
  | query id => simp [apply, step, opEntries, replayOn]
  | queryAll => simp [apply, step, opEntries, replayOn]
  | nextBlock => simp [apply, step, opEntries, replayOn]

theorem wf_opEntries (s : State) (op : Op) : WF s.counter.toNat (opEntries s op) := by
  cases op with
  | tx b msgs =>
    simp only [opEntries]
    split
    · have := wf_txEntries (txHashOf b) s.counter.toNat msgs
      rwa [UInt32.ofNat_toNat] at this
    · trivial
  | query id => trivial
  | queryAll => trivial
  | nextBlock => trivial

theorem wf_shift {n m : Nat} {log : List Entry} (h : WF n log) (hm : UInt32.ofNat n = UInt32.ofNat m) :
    WF m log := by
  induction log generalizing n m with
  | nil => trivial
  | cons e t ih =>
    obtain ⟨a, b, c⟩ := h
    refine ⟨by rw [← hm]; exact a, b, ih c ?_⟩
    rw [← ofNat_succ, ← ofNat_succ, hm]

theorem replayOn_append (m : AMap Id Rec) (l1 l2 : List Entry) :
    replayOn m (l1 ++ l2) = replayOn (replayOn m l1) l2 := by
  simp [replayOn, List.foldl_append]

/-- the store of a history is the replay of its creation log, and the log is well-formed -/
theorem run_log (s : State) (ops : List Op) :
    (run s ops).recs = replayOn s.recs (runLog s ops) ∧ WF s.counter.toNat (runLog s ops) := by
  induction ops generalizing s with
  | nil => exact ⟨rfl, trivial⟩
  | cons op t ih =>
    have hA := apply_recs s op
    have hI := ih (apply s op)
    refine ⟨?_, ?_⟩
    · show (run (apply s op) t).recs = _
      rw [hI.1, hA.1]; simp [runLog, replayOn_append]
    · show WF _ (opEntries s op ++ runLog (apply s op) t)
      apply wf_append (wf_opEntries s op)
      apply wf_shift hI.2
      rw [UInt32.ofNat_toNat, hA.2]
      apply UInt32.toNat_inj.mp
      simp [UInt32.toNat_add, UInt32.toNat_ofNat']

/-! ### reading a replayed store -/

theorem get_replay_notin (m : AMap Id Rec) (log : List Entry) (id : Id)
    (h : ∀ e ∈ log, e.id ≠ id) : AMap.get? (replayOn m log) id = AMap.get? m id := by
  induction log generalizing m with
  | nil => rfl
  | cons e t ih =>
    have h1 : e.id ≠ id := h e (by simp)
    have : replayOn m (e :: t) = replayOn (AMap.set m e.id e.rcd) t := rfl
    rw [this, ih _ (fun x hx => h x (by simp [hx])), AMap.get?_set_other _ _ _ _ h1]

/-- in a clash-free log every entry is read back from the replayed store -/
theorem get_replay_noClash (m : AMap Id Rec) (log : List Entry) (hn : NoClash log)
    (e : Entry) (he : e ∈ log) : AMap.get? (replayOn m log) e.id = some e.rcd := by
  induction log generalizing m with
  | nil => simp at he
  | cons x t ih =>
    unfold NoClash at hn
    rw [List.pairwise_cons] at hn
    have hr : replayOn m (x :: t) = replayOn (AMap.set m x.id x.rcd) t := rfl
    rw [hr]
    rcases List.mem_cons.mp he with rfl | het
    · rw [get_replay_notin _ _ _ (fun y hy => (hn.1 y hy).symm), AMap.get?_set_self]
    · exact ih _ hn.2 het

/-- a key of the store changes only when an entry with that id is replayed -/
theorem get_replay_stable (m : AMap Id Rec) (log : List Entry) (id : Id) (r : Rec)
    (h : AMap.get? m id = some r) :
    AMap.get? (replayOn m log) id = some r ∨ ∃ e ∈ log, e.id = id := by
  by_cases hx : ∃ e ∈ log, e.id = id
  · exact Or.inr hx
  · left
    rw [get_replay_notin _ _ _ (fun e he hid => hx ⟨e, he, hid⟩), h]

theorem runLog_append (s : State) (a b : List Op) :
    runLog s (a ++ b) = runLog s a ++ runLog (run s a) b := by
  induction a generalizing s with
  | nil => rfl
  | cons op t ih => simp [runLog, ih, run, List.foldl_cons, List.append_assoc]

end Irismod.Proofs.Record
