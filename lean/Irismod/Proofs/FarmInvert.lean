/-
Inversion lemmas: what an accepted farm message went through.  Each invariant proof starts
from these instead of unfolding the handlers again.
-/
import Irismod.Proofs.FarmFrame

namespace Irismod.Proofs.Farm
open Irismod Irismod.Sdk Irismod.Farm Irismod.Spec

theorem stepStake_ok {s s' : State} {sender id denom amt} (h : stepStake s sender id denom amt = .ok s') :
    ∃ p s1 s2 p1 rewards debt s3,
      validPoolId id = true ∧ 0 < amt ∧ getPool s id = some p ∧ p.start ≤ s.height ∧ expired s id p = false ∧ denom = p.lpt ∧
      sendAll s sender farmAcc (nonzero [(denom, amt)]) = .ok s1 ∧
      updatePool s1 id p (amt : Int) false = (s2, .ok p1) ∧
      caclRewards p1.rules ((getFarmer s sender id).getD { locked := 0, debt := [] }) (amt : Int) = some (rewards, debt) ∧
      payRewards s2 sender rewards = .ok s3 ∧
      s' = { s3 with
        farmers := AMap.set s3.farmers (sender, id)
          { locked := ((getFarmer s sender id).getD { locked := 0, debt := [] }).locked + amt, debt := debt },
        ledger := bookLedger s3.ledger sender id ((getFarmer s sender id).getD { locked := 0, debt := [] }).locked rewards p1.rules,
        resp := rewards } := by
  unfold stepStake at h
  split at h; · cases h
  rename_i hv
  split at h; · cases h
  rename_i hpos
  split at h; · cases h
  rename_i p hp
  split at h; · cases h
  rename_i hst
  split at h; · cases h
  rename_i hex
  split at h; · cases h
  rename_i hden
  split at h; · cases h
  rename_i s1 h1
  split at h; · cases h
  rename_i s2 p1 hu
  split at h; · cases h
  rename_i rewards debt hc
  split at h; · cases h
  rename_i s3 h3
  cases h
  refine ⟨p, s1, s2, p1, rewards, debt, s3, by simpa using hv, by omega, hp, by omega, by simpa using hex, by simpa using hden, h1, hu, hc, h3, rfl⟩

theorem stepHarvest_ok {s s' : State} {sender id} (h : stepHarvest s sender id = .ok s') :
    ∃ p f s1 p1 rewards debt s2,
      validPoolId id = true ∧ getPool s id = some p ∧ expired s id p = false ∧ getFarmer s sender id = some f ∧
      updatePool s id p 0 false = (s1, .ok p1) ∧
      caclRewards p1.rules f 0 = some (rewards, debt) ∧
      payRewards s1 sender rewards = .ok s2 ∧
      s' = { s2 with farmers := AMap.set s2.farmers (sender, id) { f with debt := debt },
                     ledger := bookLedger s2.ledger sender id f.locked rewards p1.rules,
                     resp := rewards } := by
  unfold stepHarvest at h
  split at h; · cases h
  rename_i hv
  split at h; · cases h
  rename_i p hp
  split at h; · cases h
  rename_i hex
  split at h; · cases h
  rename_i f hf
  split at h; · cases h
  rename_i s1 p1 hu
  split at h; · cases h
  rename_i rewards debt hc
  split at h; · cases h
  rename_i s2 h2
  cases h
  exact ⟨p, f, s1, p1, rewards, debt, s2, by simpa using hv, hp, by simpa using hex, hf, hu, hc, h2, rfl⟩

theorem stepUnstake_ok {s s' : State} {sender id denom amt} (h : stepUnstake s sender id denom amt = .ok s') :
    ∃ p f s1 p1 s2 rewards debt s3,
      validPoolId id = true ∧ 0 < amt ∧ getPool s id = some p ∧ denom = p.lpt ∧ getFarmer s sender id = some f ∧
      amt ≤ f.locked ∧ amt ≤ p.locked ∧
      unstakePool s id p amt = (s1, .ok p1) ∧
      sendAll s1 farmAcc sender (nonzero [(denom, amt)]) = .ok s2 ∧
      caclRewards p1.rules f (-(amt : Int)) = some (rewards, debt) ∧
      payRewards s2 sender rewards = .ok s3 ∧
      s' = { s3 with
        farmers := if f.locked - amt = 0 then AMap.erase s3.farmers (sender, id)
                   else AMap.set s3.farmers (sender, id) { locked := f.locked - amt, debt := debt },
        ledger := bookLedger s3.ledger sender id f.locked rewards p1.rules,
        resp := rewards } := by
  unfold stepUnstake at h
  split at h; · cases h
  rename_i hv
  split at h; · cases h
  rename_i hpos
  split at h; · cases h
  rename_i p hp
  split at h; · cases h
  rename_i hden
  split at h; · cases h
  rename_i f hf0
  split at h; · cases h
  rename_i s2 p1 rewards debt hat
  unfold unstakeAt at hat
  split at hat; · cases hat
  rename_i hamt
  split at hat; · cases hat
  rename_i hamt2
  split at hat; · cases hat
  rename_i s1 p1' hbr
  split at hat; · cases hat
  rename_i s2' h2
  split at hat; · cases hat
  rename_i rewards' debt' hc
  simp only [Except.ok.injEq, Prod.mk.injEq] at hat
  obtain ⟨e1, e2, e3, e4⟩ := hat
  subst e1 e2 e3 e4
  unfold unstakeFinish at h
  split at h; · cases h
  rename_i s3 h3
  cases h
  exact ⟨p, f, s1, _, _, _, _, s3, by simpa using hv, by omega, hp, by simpa using hden, hf0, by omega, by omega, hbr, h2, hc, h3, rfl⟩

theorem stepDestroyPool_ok {s s' : State} {sender id} (h : stepDestroyPool s sender id = .ok s') :
    ∃ p, getPool s id = some p ∧ sender = p.creator ∧ p.editable = true ∧ expired s id p = false ∧
      refund s id p = (s', none) := by
  unfold stepDestroyPool at h
  split at h; · cases h
  rename_i p hp
  split at h; · cases h
  rename_i hc
  split at h; · cases h
  rename_i he
  split at h; · cases h
  rename_i hx
  split at h
  · cases h
  · rename_i s1 hr
    cases h
    exact ⟨p, hp, by simpa using hc, by simpa using he, by simpa using hx, hr⟩

theorem adjustPoolAt_ok {s s' : State} {sender id p add rpb} (h : adjustPoolAt s sender id p add rpb = .ok s') :
    ∃ s1 p1 s2,
      p.editable = true ∧ sender = p.creator ∧ expired s id p = false ∧
      (rpb.length ≤ p.rules.length ∧ ∀ c ∈ rpb, ∃ r ∈ p.rules, r.denom = c.1) ∧
      (∀ c ∈ add, ∃ r ∈ p.rules, r.denom = c.1 ∧ r.remaining ≠ 0) ∧
      updatePool s id p 0 false = (s1, .ok p1) ∧
      (∀ c ∈ add, c.2 ≠ 0) ∧
      sendAll s1 sender farmAcc add = .ok s2 ∧
      adjustCore s2 id p1 (if p.start ≤ s.height then s.height else p.start) (decide (p1.start ≤ s.height)) add rpb = .ok s' := by
  unfold adjustPoolAt at h
  split at h; · cases h
  rename_i he
  split at h; · cases h
  rename_i hc
  split at h; · cases h
  rename_i hx
  split at h; · cases h
  rename_i hrpb
  split at h; · cases h
  rename_i hadd
  split at h; · cases h
  rename_i s1 p1 hu
  split at h; · cases h
  rename_i hz
  split at h; · cases h
  rename_i s2 h2
  refine ⟨s1, p1, s2, by simpa using he, by simpa using hc, by simpa using hx, ?_, ?_, hu, ?_, h2, h⟩
  · simp only [not_or, Nat.not_lt] at hrpb
    refine ⟨hrpb.1, ?_⟩
    intro c hcm
    have h2 := hrpb.2
    simp at h2
    exact h2 c.1 c.2 hcm
  · simp only [not_or] at hadd
    intro c hcm
    have h2 := hadd.2
    simp at h2
    exact h2 c.1 c.2 hcm
  · intro c hcm e
    apply hz
    simp only [List.any_eq_true, decide_eq_true_eq]
    exact ⟨c, hcm, e⟩

theorem stepAdjustPool_ok {s s' : State} {sender id add rpb} (h : stepAdjustPool s sender id add rpb = .ok s') :
    ∃ p, sortedCoins (add.getD []) = true ∧ sortedCoins (rpb.getD []) = true ∧ validPoolId id = true ∧
      getPool s id = some p ∧ adjustPoolAt s sender id p (add.getD []) (rpb.getD []) = .ok s' := by
  unfold stepAdjustPool at h
  split at h; · cases h
  rename_i hs
  split at h; · cases h
  rename_i hv
  split at h; · cases h
  split at h; · cases h
  split at h; · cases h
  rename_i p hp
  simp only [Bool.not_eq_true', Bool.and_eq_false_iff, not_or, Bool.not_eq_false] at hs
  exact ⟨p, hs.1, hs.2, by simpa using hv, hp, h⟩

theorem stepCreatePool_ok {s s' : State} {id sender desc lpt start rpb total editable}
    (h : stepCreatePool s id sender desc lpt start rpb total editable = .ok s') :
    ∃ s1 s2 m,
      sortedCoins rpb = true ∧ sortedCoins total = true ∧ total ≠ [] ∧ validateReward rpb total = .ok () ∧
      s.height ≤ start ∧ deductFee s sender = .ok s1 ∧ sendAll s1 sender farmAcc total = .ok s2 ∧
      getPool s2 id = none ∧ minInterval (newRules total rpb) = some m ∧
      s' = enqueue
        { s2 with seq := s2.seq + 1,
                  pools := AMap.set s2.pools id
                    { creator := sender, desc := desc, start := start, endH := start + (m : Int), last := 0,
                      editable := editable, lpt := lpt, locked := 0, rules := newRules total rpb } }
        id (start + (m : Int)) := by
  unfold stepCreatePool at h
  split at h; · cases h
  rename_i hs
  split at h; · cases h
  split at h; · cases h
  split at h; · cases h
  rename_i htot
  split at h; · cases h
  rename_i u hvr
  split at h; · cases h
  rename_i hst
  split at h; · cases h
  split at h; · cases h
  split at h; · cases h
  rename_i s1 h1
  split at h; · cases h
  rename_i s2 h2
  unfold createPoolCore at h
  split at h; · cases h
  rename_i hfresh
  split at h; · cases h
  rename_i m hm
  split at h; · cases h
  cases h
  simp only [Bool.not_eq_true', Bool.and_eq_false_iff, not_or, Bool.not_eq_false] at hs
  have hnone : getPool s2 id = none := by
    cases hg : getPool s2 id with
    | none => rfl
    | some q => simp [hg] at hfresh
  exact ⟨s1, s2, m, hs.1, hs.2, htot, hvr, by omega, h1, h2, hnone, hm, rfl⟩

/-- what gov's EndBlocker does with one proposal (`cpPass` / `cpReject` / `cpFailDeposit`) -/
def GovStep (s s' : State) : Prop :=
  ∃ pid, s' = (govVote s pid true).1 ∨ s' = (govVote s pid false).1 ∨ s' = (govFailDeposit s pid).1

/-- what `apply` does: a block end, nothing, an accepted message of a user account, or gov's
EndBlocker on one proposal -/
theorem apply_cases (s : State) (op : Op) :
    (∃ n, op = .endBlocks n ∧ apply s op = (endBlocks n s).1) ∨ apply s op = s ∨
    (stepMsg s op = .ok (apply s op) ∧ isModuleAcc op.sender = false ∧ ∀ n, op ≠ .endBlocks n) ∨
    GovStep s (apply s op) := by
  cases op with
  | endBlocks n => exact Or.inl ⟨n, rfl, rfl⟩
  | cpPass pid => exact Or.inr (Or.inr (Or.inr ⟨pid, Or.inl rfl⟩))
  | cpReject pid => exact Or.inr (Or.inr (Or.inr ⟨pid, Or.inr (Or.inl rfl)⟩))
  | cpFailDeposit pid => exact Or.inr (Or.inr (Or.inr ⟨pid, Or.inr (Or.inr rfl)⟩))
  | cpSubmit proposer title c deposit =>
    by_cases hm : isModuleAcc proposer = true
    · right; left; simp [apply, step, Op.sender, hm]
    · cases hsm : stepMsg s (.cpSubmit proposer title c deposit) with
      | error e => right; left; simp [apply, step, Op.sender, hm, hsm]
      | ok s' => right; right; left; simp [apply, step, Op.sender, hm, hsm]
  | fundCp sender amt =>
    by_cases hm : isModuleAcc sender = true
    · right; left; simp [apply, step, Op.sender, hm]
    · cases hsm : stepMsg s (.fundCp sender amt) with
      | error e => right; left; simp [apply, step, Op.sender, hm, hsm]
      | ok s' => right; right; left; simp [apply, step, Op.sender, hm, hsm]
  | createPool sender desc lpt start rpb total editable =>
    by_cases hm : isModuleAcc sender = true
    · right; left; simp [apply, step, Op.sender, hm]
    · cases hsm : stepMsg s (.createPool sender desc lpt start rpb total editable) with
      | error e => right; left; simp [apply, step, Op.sender, hm, hsm]
      | ok s' => right; right; left; simp [apply, step, Op.sender, hm, hsm]
  | destroyPool sender id =>
    by_cases hm : isModuleAcc sender = true
    · right; left; simp [apply, step, Op.sender, hm]
    · cases hsm : stepMsg s (.destroyPool sender id) with
      | error e => right; left; simp [apply, step, Op.sender, hm, hsm]
      | ok s' => right; right; left; simp [apply, step, Op.sender, hm, hsm]
  | adjustPool sender id add rpb =>
    by_cases hm : isModuleAcc sender = true
    · right; left; simp [apply, step, Op.sender, hm]
    · cases hsm : stepMsg s (.adjustPool sender id add rpb) with
      | error e => right; left; simp [apply, step, Op.sender, hm, hsm]
      | ok s' => right; right; left; simp [apply, step, Op.sender, hm, hsm]
  | stake sender id denom amt =>
    by_cases hm : isModuleAcc sender = true
    · right; left; simp [apply, step, Op.sender, hm]
    · cases hsm : stepMsg s (.stake sender id denom amt) with
      | error e => right; left; simp [apply, step, Op.sender, hm, hsm]
      | ok s' => right; right; left; simp [apply, step, Op.sender, hm, hsm]
  | unstake sender id denom amt =>
    by_cases hm : isModuleAcc sender = true
    · right; left; simp [apply, step, Op.sender, hm]
    · cases hsm : stepMsg s (.unstake sender id denom amt) with
      | error e => right; left; simp [apply, step, Op.sender, hm, hsm]
      | ok s' => right; right; left; simp [apply, step, Op.sender, hm, hsm]
  | harvest sender id =>
    by_cases hm : isModuleAcc sender = true
    · right; left; simp [apply, step, Op.sender, hm]
    · cases hsm : stepMsg s (.harvest sender id) with
      | error e => right; left; simp [apply, step, Op.sender, hm, hsm]
      | ok s' => right; right; left; simp [apply, step, Op.sender, hm, hsm]

end Irismod.Proofs.Farm
