/-
C05(a): Σ farmers' stakes = pool total, preserved by every operation — including block ends
whose refunds fail half-way (no hypothesis on budgets or ledgers is needed).
-/
import Irismod.Proofs.FarmCpFrame

namespace Irismod.Proofs.Farm
open Irismod Irismod.Sdk Irismod.Farm Irismod.Spec

/-- the stake bookkeeping invariant -/
structure Stakes (s : State) : Prop where
  sum   : C05.StakesSum s
  nodup : NodupKeys s.farmers

/-- nothing about stakes moved -/
structure SameStakes (s s' : State) : Prop where
  farmers : s'.farmers = s.farmers
  locked  : ∀ id, C05.lockedOf s' id = C05.lockedOf s id

theorem SameStakes.refl (s : State) : SameStakes s s := ⟨rfl, fun _ => rfl⟩
theorem SameStakes.trans {a b c : State} (h1 : SameStakes a b) (h2 : SameStakes b c) : SameStakes a c :=
  ⟨h2.farmers.trans h1.farmers, fun id => (h2.locked id).trans (h1.locked id)⟩

theorem Stakes.of_same {s s' : State} (h : SameStakes s s') (hs : Stakes s) : Stakes s' := by
  refine ⟨?_, by rw [h.farmers]; exact hs.nodup⟩
  intro id
  rw [stakedSum_eq h.farmers, h.locked]
  exact hs.sum id

theorem BankOnly.sameStakes {s s' : State} (h : BankOnly s s') : SameStakes s s' :=
  ⟨h.farmers, fun id => by unfold C05.lockedOf getPool; rw [h.pools]⟩

theorem Quiet.sameStakes {s s' : State} (h : Quiet s s') : SameStakes s s' :=
  ⟨h.farmers, fun id => by unfold C05.lockedOf getPool; rw [h.pools]⟩

/-- replacing pool `id` by a record with the same total changes no stake bookkeeping -/
theorem sameStakes_set {s s' : State} {id : PoolId} {p q : Pool} (hp : getPool s id = some p)
    (hpools : s'.pools = AMap.set s.pools id q) (hf : s'.farmers = s.farmers) (hl : q.locked = p.locked) :
    SameStakes s s' := by
  refine ⟨hf, ?_⟩
  intro id2
  by_cases e : id = id2
  · subst e
    unfold C05.lockedOf
    rw [getPool_set_self _ _ _ _ hpools, hp]; simp [hl]
  · exact lockedOf_eq id2 (getPool_set_other s s' id id2 q hpools e)

theorem dequeue_sameStakes (s : State) (id : PoolId) (h : Int) : SameStakes s (dequeue s id h) :=
  ⟨rfl, fun _ => rfl⟩

theorem enqueue_sameStakes (s : State) (id : PoolId) (h : Int) : SameStakes s (enqueue s id h) := by
  unfold enqueue; split
  · exact SameStakes.refl _
  · exact ⟨rfl, fun _ => rfl⟩

theorem getPool_dequeue (s : State) (id id2 : PoolId) (h : Int) : getPool (dequeue s id h) id2 = getPool s id2 := rfl

theorem updErr_sameStakes {s s1 : State} {id : PoolId} {p : Pool} {e : Err} (hp : getPool s id = some p)
    (h : UpdErr s s1 id p e) : SameStakes s s1 := by
  rcases h.pools with hpl | ⟨rs, hpl, _⟩
  · exact ⟨h.farmers, fun id2 => by unfold C05.lockedOf getPool; rw [hpl]⟩
  · exact sameStakes_set hp hpl h.farmers rfl

theorem updOk_locked {s s' : State} {id : PoolId} {p p' : Pool} {amount : Int} {d : Bool}
    (h : UpdOk s s' id p p' amount d) : (p'.locked : Int) = (p.locked : Int) + amount := by
  have := h.pool
  have hl : p'.locked = ((p.locked : Int) + amount).toNat := by rw [this]; rfl
  have := h.nonneg
  omega

/-- `refund` moves no stake, whatever its verdict -/
theorem refund_sameStakes {s : State} {id : PoolId} {p : Pool} (hp : getPool s id = some p) :
    SameStakes s (refund s id p).1 := by
  unfold refund
  have hp0 : getPool (dequeue s id p.endH) id = some p := hp
  split
  · rename_i s1 e hu
    exact (dequeue_sameStakes s id p.endH).trans (updErr_sameStakes hp0 (updatePool_err hu))
  · rename_i s1 p1 hu
    have ok := updatePool_ok hu
    have hl := updOk_locked ok
    have h1 : SameStakes (dequeue s id p.endH) s1 := sameStakes_set hp0 ok.pools ok.farmers (by omega)
    have hp1 : getPool s1 id = some p1 := getPool_set_self _ _ _ _ ok.pools
    have h2 : SameStakes s1 (setPool s1 id { p1 with rules := zeroRules p1.rules }) :=
      sameStakes_set hp1 rfl rfl rfl
    split
    · exact ((dequeue_sameStakes s id p.endH).trans h1).trans h2
    · split
      · exact ((dequeue_sameStakes s id p.endH).trans h1).trans h2
      · rename_i s2 hs2
        exact ((((dequeue_sameStakes s id p.endH).trans h1).trans h2).trans (sendAll_ok hs2).1.sameStakes).trans
          (cpFrame_withCp _ _).quiet.sameStakes

theorem endBlockOne_sameStakes {s s' : State} {id : PoolId} (h : endBlockOne s id = .ok s') : SameStakes s s' := by
  unfold endBlockOne at h
  split at h
  · cases h; exact SameStakes.refl _
  · rename_i p hp
    have := refund_sameStakes hp
    generalize refund s id p = res at h this
    obtain ⟨s1, r⟩ := res
    split at h
    · cases h
    · rename_i s2 r2 _ heq
      cases h
      cases heq
      exact this

theorem endBlockIds_sameStakes : ∀ (ids : List PoolId) {s s' : State}, endBlockIds s ids = .ok s' → SameStakes s s'
  | [], s, s', h => by simp [endBlockIds] at h; subst h; exact SameStakes.refl _
  | id :: ids, s, s', h => by
    unfold endBlockIds at h
    split at h
    · cases h
    · rename_i s1 h1
      exact (endBlockOne_sameStakes h1).trans (endBlockIds_sameStakes ids h)

theorem endBlocks_sameStakes : ∀ (n : Nat) (s : State), SameStakes s (endBlocks n s).1
  | 0, s => SameStakes.refl _
  | n + 1, s => by
    unfold endBlocks
    split
    · exact SameStakes.refl _
    · rename_i s1 h1
      have a := endBlockIds_sameStakes _ h1
      have b : SameStakes s1 { s1 with height := s1.height + 1 } := ⟨rfl, fun _ => rfl⟩
      exact (a.trans b).trans (endBlocks_sameStakes n _)

/-! ### the messages -/

/-- a pool created under a fresh id with no stake -/
theorem stakes_createCore {s2 s' : State} {id creator desc lpt start rpb total editable}
    (hs2 : Stakes s2) (h : createPoolCore s2 id creator desc lpt start rpb total editable = .ok s') : Stakes s' := by
  obtain ⟨m, hnone, _, rfl⟩ := createPoolCore_ok h
  apply Stakes.of_same (enqueue_sameStakes _ _ _)
  refine ⟨?_, hs2.nodup⟩
  intro id2
  have hsum := hs2.sum id2
  by_cases e : id = id2
  · subst e
    have : C05.lockedOf s2 id = 0 := by unfold C05.lockedOf; rw [hnone]; rfl
    rw [this] at hsum
    show C05.stakedSum s2 id = _
    rw [hsum]
    unfold C05.lockedOf getPool
    simp [AMap.get?_set_self]
  · show C05.stakedSum s2 id2 = _
    rw [hsum]
    unfold C05.lockedOf getPool
    simp [AMap.get?_set_other _ _ _ _ e]

theorem stakes_createPool {s s' : State} {id sender desc lpt start rpb total editable}
    (hs : Stakes s) (h : stepCreatePool s id sender desc lpt start rpb total editable = .ok s') : Stakes s' := by
  obtain ⟨s1, s2, m, _, _, _, _, _, h1, h2, hnone, _, rfl⟩ := stepCreatePool_ok h
  have b12 : BankOnly s s2 := (deductFee_ok h1).trans (sendAll_ok h2).1
  have hs2 : Stakes s2 := Stakes.of_same b12.sameStakes hs
  apply Stakes.of_same (enqueue_sameStakes _ _ _)
  refine ⟨?_, hs2.nodup⟩
  intro id2
  have hsum := hs2.sum id2
  by_cases e : id = id2
  · subst e
    have : C05.lockedOf s2 id = 0 := by unfold C05.lockedOf; rw [hnone]; rfl
    rw [this] at hsum
    show C05.stakedSum s2 id = _
    rw [hsum]
    unfold C05.lockedOf getPool
    simp [AMap.get?_set_self]
  · show C05.stakedSum s2 id2 = _
    rw [hsum]
    unfold C05.lockedOf getPool
    simp [AMap.get?_set_other _ _ _ _ e]

/-- a community-pool operation moves no stake -/
theorem stakes_qEffect {s s' : State} (hs : Stakes s) (h : QEffect s s') : Stakes s' := by
  cases h with
  | frame f => exact Stakes.of_same f.sameStakes hs
  | created sa s2 c f1 hd f2 =>
    obtain ⟨_, _, _, s1, h1, h2⟩ := hd
    have hsa := Stakes.of_same f1.sameStakes hs
    have hs1 := Stakes.of_same (sendAll_ok h1).1.sameStakes hsa
    exact Stakes.of_same f2.sameStakes (stakes_createCore hs1 h2)

theorem stakes_destroyPool {s s' : State} {sender id} (hs : Stakes s) (h : stepDestroyPool s sender id = .ok s') :
    Stakes s' := by
  obtain ⟨p, hp, _, _, _, hr⟩ := stepDestroyPool_ok h
  have := refund_sameStakes hp
  rw [hr] at this
  exact Stakes.of_same this hs

theorem adjustCore_sameStakes {s s' : State} {id : PoolId} {p1 : Pool} {sh : Int} {st : Bool} {add rpb : CoinList}
    (hp : getPool s id = some p1) (h : adjustCore s id p1 sh st add rpb = .ok s') : SameStakes s s' := by
  unfold adjustCore at h
  split at h; · cases h
  split at h; · cases h
  split at h
  · cases h; exact sameStakes_set hp rfl rfl rfl
  · rename_i ah _ _ _
    cases h
    have a := dequeue_sameStakes s id p1.endH
    have b : SameStakes (dequeue s id p1.endH) (setPool (dequeue s id p1.endH) id
        { p1 with rules := adjustRules add rpb p1.rules, endH := sh + (ah : Int) }) :=
      sameStakes_set (p := p1) (q := { p1 with rules := adjustRules add rpb p1.rules, endH := sh + (ah : Int) })
        hp rfl rfl rfl
    exact (a.trans b).trans (enqueue_sameStakes _ _ _)

theorem stakes_adjustPool {s s' : State} {sender id add rpb} (hs : Stakes s)
    (h : stepAdjustPool s sender id add rpb = .ok s') : Stakes s' := by
  obtain ⟨p, _, _, _, hp, hat⟩ := stepAdjustPool_ok h
  obtain ⟨s1, p1, s2, _, _, _, _, _, hu, _, h2, hcore⟩ := adjustPoolAt_ok hat
  have ok := updatePool_ok hu
  have hl := updOk_locked ok
  have a : SameStakes s s1 := sameStakes_set hp ok.pools ok.farmers (by omega)
  have b := (sendAll_ok h2).1
  have hp2 : getPool s2 id = some p1 := by
    unfold getPool; rw [b.pools]; exact getPool_set_self _ _ _ _ ok.pools
  exact Stakes.of_same ((a.trans b.sameStakes).trans (adjustCore_sameStakes hp2 hcore)) hs

/-- an interaction that moves farmer `(a,id)`'s stake and the pool total by the same amount -/
theorem stakes_move {s s' : State} {id : PoolId} {p q : Pool} (a : Addr) (g : Farmer) (delta : Int)
    (hs : Stakes s) (hp : getPool s id = some p) (hpools : s'.pools = AMap.set s.pools id q)
    (hq : (q.locked : Int) = p.locked + delta)
    (hf : s'.farmers = AMap.set s.farmers (a, id) g)
    (hg : (g.locked : Int) = (((getFarmer s a id).map (·.locked)).getD 0 : Nat) + delta) : Stakes s' := by
  refine ⟨?_, by rw [hf]; exact nodupKeys_set _ _ _ hs.nodup⟩
  intro id2
  by_cases e : id = id2
  · subst e
    have h1 := stakedSum_set_self s.farmers s' a id g hf
    have h2 := hs.sum id
    unfold C05.stakedSum at h2
    unfold C05.lockedOf at h2 ⊢
    rw [hp] at h2
    rw [getPool_set_self _ _ _ _ hpools]
    simp only [Option.map, Option.getD] at h2 ⊢
    unfold getFarmer at hg
    omega
  · rw [stakedSum_set_other s.farmers s' a id id2 g hf e, lockedOf_eq id2 (getPool_set_other s s' id id2 q hpools e)]
    exact hs.sum id2

theorem stakes_stake {s s' : State} {sender id denom amt} (hs : Stakes s)
    (h : stepStake s sender id denom amt = .ok s') : Stakes s' := by
  obtain ⟨p, s1, s2, p1, rewards, debt, s3, _, _, hp, _, _, _, h1, hu, _, h3, rfl⟩ := stepStake_ok h
  have b1 := (sendAll_ok h1).1
  have ok := updatePool_ok hu
  have b3 := (payRewards_ok h3).1
  refine stakes_move (q := p1) sender
    { locked := ((getFarmer s sender id).getD { locked := 0, debt := [] }).locked + amt, debt := debt }
    (amt : Int) hs hp ?_ (updOk_locked ok) ?_ ?_
  · show s3.pools = _; rw [b3.pools, ok.pools, b1.pools]
  · show AMap.set s3.farmers _ _ = _; rw [b3.farmers, ok.farmers, b1.farmers]
  · unfold getFarmer
    cases AMap.get? s.farmers (sender, id) <;> simp

theorem stakes_harvest {s s' : State} {sender id} (hs : Stakes s)
    (h : stepHarvest s sender id = .ok s') : Stakes s' := by
  obtain ⟨p, f, s1, p1, rewards, debt, s2, _, hp, _, hf, hu, _, h2, rfl⟩ := stepHarvest_ok h
  have ok := updatePool_ok hu
  have b2 := (payRewards_ok h2).1
  refine stakes_move (q := p1) sender { f with debt := debt } 0 hs hp ?_ (updOk_locked ok) ?_ ?_
  · show s2.pools = _; rw [b2.pools, ok.pools]
  · show AMap.set s2.farmers _ _ = _; rw [b2.farmers, ok.farmers]
  · rw [hf]; simp

theorem unstakePool_ok {s s1 : State} {id : PoolId} {p p1 : Pool} {amt : Nat} (hle : amt ≤ p.locked)
    (h : unstakePool s id p amt = (s1, .ok p1)) :
    s1.pools = AMap.set s.pools id p1 ∧ s1.farmers = s.farmers ∧ (p1.locked : Int) = p.locked - amt := by
  unfold unstakePool at h
  split at h
  · simp only [Prod.mk.injEq, Except.ok.injEq] at h
    obtain ⟨e1, e2⟩ := h
    subst e1 e2
    exact ⟨rfl, rfl, by simp only; omega⟩
  · have ok := updatePool_ok h
    exact ⟨ok.pools, ok.farmers, by have := updOk_locked ok; omega⟩

theorem stakes_unstake {s s' : State} {sender id denom amt} (hs : Stakes s)
    (h : stepUnstake s sender id denom amt = .ok s') : Stakes s' := by
  obtain ⟨p, f, s1, p1, s2, rewards, debt, s3, _, _, hp, _, hf0, hamt, hamt2, hbr, h2, _, h3, rfl⟩ := stepUnstake_ok h
  have b2 := (sendAll_ok h2).1
  have b3 := (payRewards_ok h3).1
  obtain ⟨hpl, hfm, hlk⟩ := unstakePool_ok hamt2 hbr
  by_cases hz : f.locked - amt = 0
  · -- the farmer record is deleted
    simp only [hz, if_true]
    have hfe : f.locked = amt := by omega
    refine ⟨?_, ?_⟩
    · intro id2
      by_cases e : id = id2
      · subst e
        have h1 := stakedSum_erase_self s.farmers
          { s3 with farmers := AMap.erase s3.farmers (sender, id), ledger := bookLedger s3.ledger sender id f.locked rewards p1.rules, resp := rewards }
          sender id hs.nodup (by show AMap.erase s3.farmers _ = _; rw [b3.farmers, b2.farmers, hfm])
        have h2s := hs.sum id
        unfold C05.stakedSum at h2s
        unfold C05.lockedOf at h2s ⊢
        rw [hp] at h2s
        have : getPool { s3 with farmers := AMap.erase s3.farmers (sender, id), ledger := bookLedger s3.ledger sender id f.locked rewards p1.rules, resp := rewards } id = some p1 := by
          unfold getPool; show AMap.get? s3.pools id = _; rw [b3.pools, b2.pools, hpl, AMap.get?_set_self]
        rw [this]
        unfold getFarmer at hf0
        rw [hf0] at h1
        simp only [Option.map, Option.getD] at h1 h2s ⊢
        omega
      · have h1 := stakedSum_erase_other s.farmers
          { s3 with farmers := AMap.erase s3.farmers (sender, id), ledger := bookLedger s3.ledger sender id f.locked rewards p1.rules, resp := rewards }
          sender id id2 (by show AMap.erase s3.farmers _ = _; rw [b3.farmers, b2.farmers, hfm]) e
        rw [h1]
        have : getPool { s3 with farmers := AMap.erase s3.farmers (sender, id), ledger := bookLedger s3.ledger sender id f.locked rewards p1.rules, resp := rewards } id2 = getPool s id2 := by
          unfold getPool; show AMap.get? s3.pools id2 = _; rw [b3.pools, b2.pools, hpl, AMap.get?_set_other _ _ _ _ e]
        rw [lockedOf_eq id2 this]
        exact hs.sum id2
    · show NodupKeys (AMap.erase s3.farmers _)
      rw [b3.farmers, b2.farmers, hfm]
      exact nodupKeys_erase _ _ hs.nodup
  · simp only [hz, if_false]
    refine stakes_move (q := p1) sender { locked := f.locked - amt, debt := debt } (-(amt : Int)) hs hp ?_ (by omega) ?_ ?_
    · show s3.pools = _; rw [b3.pools, b2.pools, hpl]
    · show AMap.set s3.farmers _ _ = _; rw [b3.farmers, b2.farmers, hfm]
    · rw [hf0]; simp only [Option.map, Option.getD]; omega

theorem stakes_stepMsg {s s' : State} {op : Op} (hs : Stakes s) (h : stepMsg s op = .ok s') : Stakes s' := by
  cases op with
  | createPool sender desc lpt start rpb total editable => exact stakes_createPool hs h
  | destroyPool sender id => exact stakes_destroyPool hs h
  | adjustPool sender id add rpb => exact stakes_adjustPool hs h
  | stake sender id denom amt => exact stakes_stake hs h
  | unstake sender id denom amt => exact stakes_unstake hs h
  | harvest sender id => exact stakes_harvest hs h
  | endBlocks n => simp [stepMsg] at h; subst h; exact hs
  | cpPass pid => simp [stepMsg] at h; subst h; exact hs
  | cpReject pid => simp [stepMsg] at h; subst h; exact hs
  | cpFailDeposit pid => simp [stepMsg] at h; subst h; exact hs
  | cpSubmit proposer title c deposit => exact Stakes.of_same (cpSubmit_quiet h).sameStakes hs
  | fundCp sender amt => exact Stakes.of_same (fundCp_quiet h).sameStakes hs

/-- gov's EndBlocker on one proposal moves no stake (no hypothesis on the proposers needed: only
the bank and the community-pool tables are written besides the pool a passed proposal creates) -/
theorem stakes_govStep {s s' : State} (hs : Stakes s) (h : GovStep s s') : Stakes s' :=
  stakes_qEffect hs (govStep_q h)

theorem stakes_apply (s : State) (op : Op) (hs : Stakes s) : Stakes (apply s op) := by
  rcases apply_cases s op with ⟨n, _, h⟩ | h | ⟨h, _, _⟩ | h
  · rw [h]; exact Stakes.of_same (endBlocks_sameStakes n s) hs
  · rw [h]; exact hs
  · exact stakes_stepMsg hs h
  · exact stakes_govStep hs h

end Irismod.Proofs.Farm
