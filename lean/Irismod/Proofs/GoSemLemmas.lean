/-
Rewriting lemmas for the Go library surface (`Sdk/GoSem.lean`) on non-negative operands: the
regenerated translations (`Gen/Pure.lean`) compute over `Int` with the library's range checks,
the hand-written models over `ℕ` with explicit `…Fits` guards.  These lemmas move a translated
computation into `ℕ`, one library call at a time.
-/
import Irismod.Sdk.GoSem
namespace Irismod.GoSem
open Irismod.Sdk

/-! Sequencing in the `Option` monad, as *propositional* rewrites.  (The library's `Option.bind_some` is a
`rfl`-lemma: `simp` then leaves the kernel a definitional check `(some v).bind f ≡ f v` whose failed first attempt
— comparing the arguments of the two `bind`s — evaluates range checks against the 2^256 literal in unary.) -/
theorem obind_some {α β : Type} (a : α) (f : α → Option β) : (some a >>= f) = f a := by
  cases h : f a <;> simp [h]
theorem obind_none {α β : Type} (f : α → Option β) : ((none : Option α) >>= f) = none := by
  simp

theorem chkInt_natCast (n : Nat) : chkInt (n : Int) = if n < pow2_256 then some (n : Int) else none := by
  simp [chkInt, inInt256]

@[simp] theorem Int_Mul_nat (a b : Nat) :
    Int_Mul (a : Int) (b : Int) = if a * b < pow2_256 then some ((a * b : Nat) : Int) else none := by
  simp only [Int_Mul, I256.mul, ← Int.natCast_mul, chkInt_natCast]

@[simp] theorem Int_Add_nat (a b : Nat) :
    Int_Add (a : Int) (b : Int) = if a + b < pow2_256 then some ((a + b : Nat) : Int) else none := by
  simp only [Int_Add, I256.add, ← Int.natCast_add, chkInt_natCast]

theorem Int_Sub_nat (a b : Nat) (h : b ≤ a) :
    Int_Sub (a : Int) (b : Int) = if a - b < pow2_256 then some ((a - b : Nat) : Int) else none := by
  simp only [Int_Sub, I256.sub, ← Int.ofNat_sub h, chkInt_natCast]

@[simp] theorem Int_Quo_nat (a b : Nat) :
    Int_Quo (a : Int) (b : Int) = if b = 0 then none else some ((a / b : Nat) : Int) := by
  simp only [Int_Quo, I256.quo, Int.natCast_eq_zero]
  split
  · rfl
  · rw [Int.tdiv_eq_ediv_of_nonneg (Int.natCast_nonneg a)]; rfl

@[simp] theorem NewIntFromBigInt_nat (a : Nat) :
    NewIntFromBigInt (a : Int) = if a < pow2_256 then some (a : Int) else none := chkInt_natCast a

/-- 10^18 as an opaque-looking constant (a bare literal under a cast sends `simp`'s proof terms into kernel
arithmetic on the numeral) -/
def ten18 : Nat := 1000000000000000000
theorem NewIntWithDecimal_one_18 : NewIntWithDecimal 1 18 = some ((ten18 : Nat) : Int) := by
  decide

@[simp] theorem Big_Quo_nat (a b : Nat) :
    Big_Quo (a : Int) (b : Int) = if b = 0 then none else some ((a / b : Nat) : Int) := by
  simp only [Big_Quo, Int.natCast_eq_zero]
  split
  · rfl
  · rw [Int.tdiv_eq_ediv_of_nonneg (Int.natCast_nonneg a)]; rfl

@[simp] theorem Big_Mul_nat (a b : Nat) : Big_Mul (a : Int) (b : Int) = ((a * b : Nat) : Int) := by
  simp [Big_Mul]
@[simp] theorem Big_Add_nat (a b : Nat) : Big_Add (a : Int) (b : Int) = ((a + b : Nat) : Int) := by
  simp [Big_Add]

theorem Big_Exp_ten_nat (n : Nat) : Big_Exp (Big_NewInt 10) (Big_NewInt (n : Int)) = ((10 ^ n : Nat) : Int) := by
  unfold Big_Exp Big_NewInt
  by_cases h : (n : Int) ≤ 0
  · have : n = 0 := by omega
    subst this; rfl
  · rw [if_neg h]; simp

/-! comparisons against the constants 0 and 1, with the `Decidable` instance of the right-hand side re-synthesised
(`simp` does not rewrite inside instance arguments) -/
theorem Dec_LT_zero (d : Dec) : Dec_LT d LegacyZeroDec = decide (d.raw < 0) := rfl
theorem Dec_GT_zero (d : Dec) : Dec_GT d LegacyZeroDec = decide (0 < d.raw) := rfl
theorem Dec_GTE_zero (d : Dec) : Dec_GTE d LegacyZeroDec = decide (0 ≤ d.raw) := rfl
theorem Dec_LT_one (d : Dec) : Dec_LT d LegacyOneDec = decide (d.raw < precision) := rfl
theorem Dec_GT_one (d : Dec) : Dec_GT d LegacyOneDec = decide (precision < d.raw) := rfl
theorem Dec_GTE_one (d : Dec) : Dec_GTE d LegacyOneDec = decide (precision ≤ d.raw) := rfl
theorem Dec_GT_new1 (d : Dec) : Dec_GT d (LegacyNewDec 1) = decide (precision < d.raw) := rfl

theorem LegacyZeroDec_raw : LegacyZeroDec.raw = 0 := rfl
theorem LegacyOneDec_raw : LegacyOneDec.raw = precision := rfl
theorem LegacyNewDec_one_raw : (LegacyNewDec 1).raw = precision := by decide

end Irismod.GoSem

namespace Irismod.GoSem
open Irismod.Sdk

/-! coins of one denomination with non-negative amounts -/
theorem Coin_Add_nat (d : String) (a b : Nat) :
    Coin_Add ⟨d, (a : Int)⟩ ⟨d, (b : Int)⟩ = if a + b < pow2_256 then some ⟨d, ((a + b : Nat) : Int)⟩ else none := by
  simp only [Coin_Add, if_true, I256.add, ← Int.natCast_add, chkInt_natCast]
  split <;> rfl

theorem Coin_Sub_nat (d : String) (a b : Nat) (h : b ≤ a) (ha : a < pow2_256) :
    Coin_Sub ⟨d, (a : Int)⟩ ⟨d, (b : Int)⟩ = some ⟨d, ((a - b : Nat) : Int)⟩ := by
  have hlt : a - b < pow2_256 := by omega
  have hn : ¬ ((a - b : Nat) : Int) < 0 := by omega
  simp only [Coin_Sub, if_true, I256.sub, ← Int.ofNat_sub h, chkInt_natCast, hlt, hn, if_false]

theorem Coin_IsLT_nat (d : String) (a b : Nat) :
    Coin_IsLT ⟨d, (a : Int)⟩ ⟨d, (b : Int)⟩ = some (decide (a < b)) := by
  simp only [Coin_IsLT, if_true, Int.ofNat_lt]

theorem NewCoin_nat (d : String) (n : Nat) (hd : ValidateDenom d = true) : NewCoin d (n : Int) = some ⟨d, (n : Int)⟩ := by
  have : (0 : Int) ≤ (n : Int) := Int.natCast_nonneg n
  simp [NewCoin, hd, this]

end Irismod.GoSem
