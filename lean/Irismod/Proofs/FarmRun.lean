/-
The invariant bundle along whole histories.
-/
import Irismod.Proofs.FarmEndBlock

namespace Irismod.Proofs.Farm
open Irismod Irismod.Sdk Irismod.Farm Irismod.Spec

theorem inv_stepMsg {s s' : State} {op : Op} (hi : Inv s) (hu : isModuleAcc op.sender = false)
    (h : stepMsg s op = .ok s') : Inv s' := by
  cases op with
  | createPool sender desc lpt start rpb total editable => exact inv_createPool hi hu h
  | destroyPool sender id => exact inv_destroyPool hi h
  | adjustPool sender id add rpb => exact inv_adjustPool hi hu h
  | stake sender id denom amt => exact inv_stake hi hu h
  | unstake sender id denom amt => exact inv_unstake hi hu h
  | harvest sender id => exact inv_harvest hi hu h
  | endBlocks n => simp [stepMsg] at h; subst h; exact hi
  | cpPass pid => simp [stepMsg] at h; subst h; exact hi
  | cpReject pid => simp [stepMsg] at h; subst h; exact hi
  | cpFailDeposit pid => simp [stepMsg] at h; subst h; exact hi
  | cpSubmit proposer title c deposit =>
    obtain ⟨f, u⟩ := cpSubmit_frame hu hi.cpu h
    exact (inv0_cpFrame f hi.inv0).withUsers u
  | fundCp sender amt =>
    obtain ⟨f, he, hp⟩ := fundCp_frame hu h
    exact (inv0_cpFrame f hi.inv0).withUsers (cpUsers_of_eq he hp hi.cpu)

/-- gov's EndBlocker on one proposal (with the farm hooks and, for a passed proposal, the pool
its handler creates) keeps the bundle -/
theorem inv_govStep {s s' : State} (hi : Inv s) (h : GovStep s s') : Inv s' := by
  obtain ⟨e, u⟩ := govStep_effect hi.cpu h
  exact (inv0_cpEffect e hi.inv0).withUsers u

/-- every operation keeps the bundle -/
theorem inv_apply (s : State) (op : Op) (hi : Inv s) : Inv (apply s op) := by
  rcases apply_cases s op with ⟨n, _, h⟩ | h | ⟨h, hu, _⟩ | h
  · rw [h]; exact endBlocks_inv n hi
  · rw [h]; exact hi
  · exact inv_stepMsg hi hu h
  · exact inv_govStep hi h

theorem inv_run : ∀ (ops : List Op) (s : State), Inv s → Inv (run s ops)
  | [], _, hi => hi
  | op :: ops, s, hi => by
    show Inv (run (apply s op) ops)
    exact inv_run ops _ (inv_apply s op hi)

theorem inv_genesis {s : State} (hg : C05.Genesis s) (hh : 0 ≤ s.height) : Inv s := by
  obtain ⟨hp, hf, hq, _, _, hb, _, hesc, hprops, _⟩ := hg
  have gp : ∀ id, getPool s id = none := fun id => by unfold getPool; rw [hp]; rfl
  have gf : ∀ a id, getFarmer s a id = none := fun a id => by unfold getFarmer; rw [hf]; rfl
  refine ⟨⟨hh, ?_, ?_, ⟨?_, ?_, ?_⟩, ?_, ?_, ?_, ?_⟩, ⟨?_, ?_⟩, ?_,
    ⟨fun pid e h => (by rw [hesc] at h; cases h), fun pid pr h => (by rw [hprops] at h; cases h)⟩⟩
  · intro id p h; rw [gp] at h; cases h
  · intro id p h; rw [gp] at h; cases h
  · intro h id hm; rw [hq] at hm; cases hm
  · intro id p h; rw [gp] at h; cases h
  · rw [hq]; exact List.nodup_nil
  · intro id p h; rw [gp] at h; cases h
  · intro a id f p h; rw [gf] at h; cases h
  · intro a id f h; rw [gf] at h; cases h
  · intro id p h; rw [gp] at h; cases h
  · intro id
    unfold C05.stakedSum C05.lockedOf
    rw [hf, gp]; rfl
  · unfold NodupKeys; rw [hf]; exact List.nodup_nil
  · intro d
    rw [hb d]
    unfold C05.expectedFarm; rw [hp]; rfl

theorem stakes_run : ∀ (ops : List Op) (s : State), Stakes s → Stakes (run s ops)
  | [], _, hs => hs
  | op :: ops, s, hs => stakes_run ops _ (stakes_apply s op hs)

end Irismod.Proofs.Farm
