import Irismod.Props.C14
import Irismod.Proofs.NftMonitor
open Irismod Irismod.Nft Irismod.Spec.C14 Irismod.Props.C14 Irismod.Proofs.NftMonitor
#print axioms inv_init
#print axioms inv_step
#print axioms inv_run
#print axioms inv_reachable
#print axioms one_owner
#print axioms no_ghost_owner
#print axioms one_owner_reachable
#print axioms supply_eq_count
#print axioms balances_sum
#print axioms covers_run
#print axioms supply_count_balances_reachable
#print axioms transfer_only_owner
#print axioms edit_only_owner
#print axioms burn_only_owner
#print axioms rejected_unchanged
#print axioms nonowner_rejected
#print axioms mint_restricted_only_creator
#print axioms mint_by_stranger_rejected
#print axioms class_step
#print axioms class_handover_only_creator
#print axioms class_stable_run
#print axioms token_step
#print axioms update_restricted_step
#print axioms update_restricted_stable
#print axioms update_restricted_run
#print axioms burn_then_remint
-- monitor soundness: every clause `monitor C14` evaluates holds on every model step
#print axioms invFail_sound
#print axioms opFail_sound
#print axioms globalFail_sound
#print axioms no_panic
#print axioms monitor_sound
#print axioms pure_sound
#print axioms monitor_sound_reachable

-- non-vacuity: `demo` is a reachable state with a mint- and update-restricted class handed over from
-- A0 to A3, a live token tok1 owned by A2 (minted to A1, transferred) and a burnt token tok2. It
-- satisfies the executable form of the invariant; the owner's plain transfer and burn are accepted,
-- a stranger's are not; an edit and a transfer-with-changes on the update-restricted class are
-- refused even for the owner; only the new creator mints; the burnt id can be minted again.
def dnm := doNotModify
#eval s!"nonvacuous {invB (obsOf demo)
  && hasNFT demo "cla" "tok1" && ownerOf demo "cla" "tok1" == some "A2" && !hasNFT demo "cla" "tok2"
  && tokenCount demo "cla" == 1 && supplyOf demo "cla" == 1 && balanceOf demo "A2" "cla" == 1
  && creatorOf demo "cla" == some "A3" && updateRestricted demo "cla" && mintRestricted demo "cla"
  && (step demo (.transfer "A2" "A0" "cla" "tok1" dnm dnm dnm dnm)).isOk
  && !(step demo (.transfer "A1" "A0" "cla" "tok1" dnm dnm dnm dnm)).isOk
  && !(step demo (.transfer "A2" "A0" "cla" "tok1" "6e6577" dnm dnm dnm)).isOk
  && !(step demo (.edit "A2" "cla" "tok1" "6e6577" dnm dnm dnm)).isOk
  && (step demo (.burn "A2" "cla" "tok1")).isOk && !(step demo (.burn "A0" "cla" "tok1")).isOk
  && (step demo (.mint "A3" "A1" "cla" "tok2" "" "" "" "")).isOk
  && !(step demo (.mint "A0" "A1" "cla" "tok2" "" "" "" "")).isOk
  && !(step demo (.mint "A3" "A1" "cla" "tok1" "" "" "" "")).isOk
  && (step demo (.transferDenom "A3" "A1" "cla")).isOk && !(step demo (.transferDenom "A0" "A1" "cla")).isOk
  && stepOk (obsOf demo) (.transfer "A2" "A0" "cla" "tok1" dnm dnm dnm dnm) true
       (obsOf (apply demo (.transfer "A2" "A0" "cla" "tok1" dnm dnm dnm dnm)))
  && burnVB "A2" "cla" "tok1" && mintVB "A3" "A1" "cla" "tok1" "" (dataOkPlain "7b7d")}"
-- the monitor functions of the driver evaluated on the demo state: an accepted burn, a rejected burn, a pure case
#eval s!"nonvacuous monitor {(stepFails (obsOf demo) (.burn "A2" "cla" "tok1") (accepted demo (.burn "A2" "cla" "tok1")) (panicked demo (.burn "A2" "cla" "tok1")) (obsOf (apply demo (.burn "A2" "cla" "tok1")))).isEmpty && accepted demo (.burn "A2" "cla" "tok1") && !accepted demo (.burn "A0" "cla" "tok1") && (stepFails (obsOf demo) (.burn "A0" "cla" "tok1") false false (obsOf demo)).isEmpty && (pureFails (obsOf demo) (obsOf demo)).isEmpty && !(stepFails (obsOf demo) (.burn "A0" "cla" "tok1") true false (obsOf (apply demo (.burn "A2" "cla" "tok1")))).isEmpty}"
