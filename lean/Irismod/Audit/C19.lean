import Irismod.Props.C19
import Irismod.Gen.RecordMutators
import Irismod.Proofs.RecordMonitor
open Irismod Irismod.Record Irismod.Props.C19
#print axioms rejected_unchanged
#print axioms reads_unchanged
#print axioms created_records_exact
#print axioms counter_counts_creations
#print axioms append_only_step
#print axioms never_deleted
#print axioms ids_unique
#print axioms identical_records_distinct_preimages
#print axioms immutable_forever
#print axioms every_returned_id_reads_back
#print axioms Irismod.Gen.RecordMutators.one_writer_no_deleter
-- monitor soundness: every clause `drv-record monitor C19` evaluates (Spec.C19.stepFails) holds on every model step (Proofs/RecordMonitor.lean)
#print axioms Irismod.Proofs.RecordMonitor.monitor_sound
#print axioms Irismod.Proofs.RecordMonitor.monitor_sound_model
#print axioms Irismod.Proofs.RecordMonitor.line_inv
#print axioms Irismod.Proofs.RecordMonitor.reset_inv
#print axioms Irismod.Proofs.RecordMonitor.monitor_sound_run
#print axioms Irismod.Proofs.RecordMonitor.step_never_panics
#print axioms Irismod.Proofs.RecordMonitor.hexId_inj
#print axioms Irismod.Proofs.RecordMonitor.isHex64_hexId
#print axioms Irismod.Proofs.RecordMonitor.sha256_size
#print axioms Irismod.Proofs.RecordMonitor.opEntries_id_size
#print axioms Irismod.Proofs.RecordMonitor.MonInv.known_learn
-- non-vacuity: one tx with two byte-identical messages + the same tx bytes again: three creations, three distinct ids, all read back
#eval s!"nonvacuous {demoNonvacuous}"
-- non-vacuity of monitor soundness: the monitor (stepFails / advance) passes every line of the model's own observation stream of the demo history
#eval s!"nonvacuous monitor {Irismod.Proofs.RecordMonitor.monRun {} {} demoOps}"
