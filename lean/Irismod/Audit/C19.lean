import Irismod.Props.C19
import Irismod.Gen.RecordMutators
open Irismod Irismod.Record Irismod.Props.C19
#print axioms rejected_unchanged
#print axioms reads_unchanged
#print axioms created_records_exact
#print axioms counter_counts_creations
#print axioms append_only_step
#print axioms never_deleted
#print axioms ids_unique
#print axioms identical_records_distinct_preimages
#print axioms immutable_forever
#print axioms every_returned_id_reads_back
#print axioms Irismod.Gen.RecordMutators.one_writer_no_deleter
-- non-vacuity: one tx with two byte-identical messages + the same tx bytes again: three creations, three distinct ids, all read back
#eval s!"nonvacuous {demoNonvacuous}"
