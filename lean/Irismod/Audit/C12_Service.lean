import Irismod.Props.C12_Service
import Irismod.Proofs.ServiceMonitor
open Irismod Irismod.Sdk Irismod.Service Irismod.ServiceGenesis Irismod.Props.C12.Service Irismod.Proofs.ServiceGenesis
#print axioms gi_genesis
#print axioms reach_genesis
#print axioms reach_apply
#print axioms reach_run
#print axioms reach_reachable
#print axioms lookups_preserved
#print axioms dropped_on_import
#print axioms export_fixpoint
#print axioms export_rejected_with_live_context
#print axioms plain_export_reimports_fails
#print axioms plain_export_reimports_partial
#print axioms plain_roundtrip
#print axioms plain_roundtrip_keeps_escrow_identity_fails
#print axioms plain_roundtrip_strands_earned_fees
#print axioms plain_roundtrip_keeps_escrow_identity_partial
#print axioms prep_roundtrip
#print axioms prep_roundtrip_reachable
#print axioms reset_context_fields
#print axioms Irismod.Proofs.ServiceGenesis.get?_rebuild_entries
#print axioms Irismod.Proofs.ServiceGenesis.entries_fixpoint
#print axioms Irismod.Proofs.ServiceGenesis.GI_stepCore
#print axioms Irismod.Proofs.ServiceGenesis.prepZeroHeight_spec

/-- a concrete history on an unused chain: a definition, a binding (out of key order: s2 before s1), a call whose
request A0 answers, blocks until the context is gone, a second call left running -/
def g0 : State :=
  { params := okParams, height := 10, time := 1000, supplied := ["stake"],
    bank := { bal := [(("A3", "stake"), 10000), (("A5", "stake"), 1000)] } }

def pin10 : PricingIn := { jsonOk := true, amount := 10, denom := "stake", ptime := [], pvol := [] }

def hist1 : List Op :=
  [.define "A3" "s2" true, .define "A3" "s1" true,
   .bind "A3" "A1" "s2" [("stake", 50)] 1 pin10 true, .bind "A3" "A0" "s1" [("stake", 100)] 1 pin10 true,
   .setWithdraw "A3" "A4",
   .call "n1" "A5" "s1" ["A0"] [("stake", 100)] 2 false 0 0 true, .next 5]

def g1 : State := run g0 hist1
def rid1 : ReqId := ⟨ctxIdOf "n1" 0, 1, 10, 0⟩
/-- the request is open: the plain export is rejected, the prepare step refunds it -/
def g2 : State := run g1 [.respond "A0" (some rid1) 200 .good true, .next 5, .next 5]
/-- A0 has earned 9stake, no context is left: the plain export is accepted and strands them -/
def rank0 : Addr → Nat := fun a => (["A1", "A0"].idxOf a)

def okS : Except Err State → Option State
  | .ok s => some s
  | .error _ => none

-- non-vacuity: the history is accepted and non-trivial; with the request open the plain re-import panics while the
-- prepare step pays the consumer back (990 + 10), empties the escrow and keeps definitions / bindings / owner index /
-- withdraw address; after the answer and the expiry the plain round trip is accepted, is a fixpoint, keeps the
-- registry, and leaves 9stake in the request escrow with no earned-fee entry; the prepare step pays them to A0
#eval s!"nonvacuous {g1.active == [rid1] && g1.ctxs.length == 1 && (okS (reimport rank0 g1)).isNone && (match prepReimport rank0 g1 with | .ok s => Bank.balOf s.bank "A5" "stake" == 1000 && Bank.balOf s.bank reqAcc "stake" == 0 && Bank.balOf s.bank depAcc "stake" == 150 && s.active.isEmpty && AMap.get? s.owners "A0" == some "A3" && AMap.get? s.wd "A3" == some "A4" && (AMap.get? s.binds ("s1", "A0")).map (·.deposit) == some 100 && (s.ctxs.map (·.2.state)) == [CtxState.paused] && (exportGenesis rank0 s).binds.map (·.1) == [("s1", "A0"), ("s2", "A1")] | .error _ => false) && g2.ctxs.isEmpty && AMap.getD g2.earned ("A0", "stake") 0 == 9 && (match reimport rank0 g2 with | .ok s => s.earned.isEmpty && Bank.balOf s.bank reqAcc "stake" == 9 && (exportGenesis rank0 s).binds == (exportGenesis rank0 g2).binds && (exportGenesis rank0 s).defs == [("s1", "A3"), ("s2", "A3")] | .error _ => false) && (match prepReimport rank0 g2 with | .ok s => Bank.balOf s.bank "A0" "stake" == 9 && Bank.balOf s.bank reqAcc "stake" == 0 | .error _ => false)}"
-- monitor soundness (Proofs/ServiceMonitor*.lean): on the lines `service export` / `reimport` / `prep_reimport` the clauses `drv-service monitor C12` evaluates report, on a model step, nothing but the recorded findings F-gen-6 / F-gen-14, each exactly on its class; the line invariant holds again on the new chain
#print axioms Irismod.Proofs.ServiceMonitor.genesis_export_sound
#print axioms Irismod.Proofs.ServiceMonitor.genesis_reimport_sound
#print axioms Irismod.Proofs.ServiceMonitor.genesis_prep_reimport_sound
#print axioms Irismod.Proofs.ServiceMonitor.genesis_prep_reimport_inv
#print axioms Irismod.Proofs.ServiceMonitor.genesis_reimport_inv
#print axioms Irismod.Proofs.ServiceMonitor.c12_export_quiet
#print axioms Irismod.Proofs.ServiceMonitor.c12_reimport_quiet
#print axioms Irismod.Proofs.ServiceMonitor.sinv_roundTrip
#print axioms Irismod.Proofs.ServiceMonitor.ownerIdx_apply
#print axioms Irismod.Proofs.ServiceMonitor.monitor_sound
#print axioms Irismod.Proofs.ServiceMonitor.line_inv
-- non-vacuity of the monitor theorems: with the request open (g1) the export line and the reimport line report exactly one failure each, of class F-gen-6; after the answer (g2) the export passes and the reimport reports exactly F-gen-14 (9stake stranded); the prepare line passes on both
#eval s!"nonvacuous monitor {open Irismod.Spec.ServiceMon Irismod.Proofs.ServiceMonitor in
  (exportLine "C12" g1 (genesisValid (exportGenesis rank0 g1))).map (·.cls) == ["F-gen-6"] &&
  ((reimportLine "C12" false ["stake"] {} g1 (reimportOk rank0 g1) true (reimportPost rank0 g1)).2.map (·.cls)) == ["F-gen-6"] &&
  (exportLine "C12" g2 (genesisValid (exportGenesis rank0 g2))).isEmpty &&
  ((reimportLine "C12" false ["stake"] {} g2 (reimportOk rank0 g2) true (reimportPost rank0 g2)).2.map (·.cls)) == ["F-gen-14"] &&
  (reimportLine "C12" true ["stake"] {} g1 (prepReimportOk rank0 g1) true (prepReimportPost rank0 g1)).2.isEmpty &&
  (reimportLine "C12" true ["stake"] {} g2 (prepReimportOk rank0 g2) true (prepReimportPost rank0 g2)).2.isEmpty}"
