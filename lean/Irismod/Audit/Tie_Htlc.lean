import Irismod.Props.Tie_Htlc
open Irismod.Props.Tie Irismod.Gen.PureHtlc Irismod.Sdk
#print axioms htlc_effects_pinned
#print axioms htlc_guards_pinned
#print axioms htlc_all_translated
#print axioms htlc_translated_pinned
#print axioms incomingFits_eq_translation
#print axioms currentFits_eq_translation
#print axioms counters_move_exactly
#print axioms decrement_and_outgoing_guards
#print axioms tick_eq_translation
#print axioms createHTLT_guards_eq_model
#print axioms supply_calls_pass_the_amount
#eval s!"nonvacuous {incIncomingVerdict "htltbnb" 40 30 0 30 100 50 false == some true && incIncomingVerdict "htltbnb" 40 30 0 31 100 50 false == some false && incIncomingVerdict "htltbnb" 40 30 10 11 100 50 true == some false && incCurrentVerdict "htltbnb" 40 10 60 100 70 true == some true}"
