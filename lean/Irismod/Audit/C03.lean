import Irismod.Props.C03
open Irismod Irismod.Sdk Irismod.Htlc Irismod.Spec.C03 Irismod.Spec.C04 Irismod.Props.C03
#print axioms inv_init
#print axioms inv_reachable
#print axioms inv_step_all
#print axioms queueInv_reachable
#print axioms queue_entry_unique
#print axioms automaton_step
#print axioms closed_absorbing_step
#print axioms closed_forever
#print axioms exists_forever
#print axioms born_open
#print axioms rejected_unchanged
#print axioms wrong_secret_rejected
#print axioms closed_claim_rejected
#print axioms unknown_claim_rejected
#print axioms second_claim_rejected
#print axioms duplicate_id_rejected
#print axioms right_secret_accepted_plain
#print axioms right_secret_accepted_outgoing
#print axioms claimLive_sound
#print axioms claim_exact
#print axioms create_exact
#print axioms refund_exact
#print axioms setParams_moves_nothing
#print axioms claim_plain_balances
#print axioms closings_closed
#print axioms paid_at_most_once
#print axioms closing_cause
#print axioms claim_before_expiry
#print axioms queueFuture_run
#print axioms no_open_past_expiry


-- non-vacuity: a history from a state satisfying `Inv` (inv_init) through create / claim (right, wrong, repeated) / expiry
-- reaches completed and refunded contracts, the recipient and the senders were paid exactly once, the queue is empty
#eval s!"nonvacuous {Demo.st Demo.inId == some .completed && Demo.st Demo.plainId == some .refunded && Demo.st Demo.outId == some .refunded && Bank.balOf Demo.final.bank "A0" "stake" == 100 && Bank.balOf Demo.final.bank "A2" "htltaaa" == 40 && Bank.balOf Demo.final.bank "M" "stake" == 0 && Demo.final.queue.isEmpty && queueOk Demo.final && queueFutureOk Demo.final && Demo.final.height == 71}"
