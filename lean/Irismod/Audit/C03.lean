import Irismod.Props.C03
import Irismod.Proofs.HtlcMonitor
open Irismod Irismod.Sdk Irismod.Htlc Irismod.Spec.C03 Irismod.Spec.C04 Irismod.Props.C03
#print axioms inv_init
#print axioms inv_reachable
#print axioms inv_step_all
#print axioms queueInv_reachable
#print axioms queue_entry_unique
#print axioms automaton_step
#print axioms closed_absorbing_step
#print axioms closed_forever
#print axioms exists_forever
#print axioms born_open
#print axioms rejected_unchanged
#print axioms wrong_secret_rejected
#print axioms closed_claim_rejected
#print axioms unknown_claim_rejected
#print axioms second_claim_rejected
#print axioms duplicate_id_rejected
#print axioms right_secret_accepted_plain
#print axioms right_secret_accepted_outgoing
#print axioms claimLive_sound
#print axioms claim_exact
#print axioms create_exact
#print axioms refund_exact
#print axioms setParams_moves_nothing
#print axioms claim_plain_balances
#print axioms closings_closed
#print axioms paid_at_most_once
#print axioms closing_cause
#print axioms claim_before_expiry
#print axioms queueFuture_run
#print axioms no_open_past_expiry


-- monitor soundness: the clauses drv-htlc evaluates hold on every model step (Proofs/HtlcMonitor.lean)
#print axioms Irismod.Proofs.HtlcMonitor.monitorC03_sound
#print axioms Irismod.Proofs.HtlcMonitor.resetC03_sound
#print axioms Irismod.Proofs.HtlcMonitor.ledger_apply
-- non-vacuity: a history from a state satisfying `Inv` (inv_init) through create / claim (right, wrong, repeated) / expiry
-- reaches completed and refunded contracts, the recipient and the senders were paid exactly once, the queue is empty
#eval s!"nonvacuous {Demo.st Demo.inId == some .completed && Demo.st Demo.plainId == some .refunded && Demo.st Demo.outId == some .refunded && Bank.balOf Demo.final.bank "A0" "stake" == 100 && Bank.balOf Demo.final.bank "A2" "htltaaa" == 40 && Bank.balOf Demo.final.bank "M" "stake" == 0 && Demo.final.queue.isEmpty && queueOk Demo.final && queueFutureOk Demo.final && Demo.final.height == 71}"

-- the monitor evaluated on the model's own run of the demo history: no clause fails (instance of monitorC03_sound)
#eval s!"nonvacuous {(Demo.ops.foldl (fun (acc : State × Bool) op => (apply acc.1 op, acc.2 && (Spec.C03.stepFails true acc.1 op (Irismod.Proofs.HtlcMonitor.acceptedB acc.1 op) (Irismod.Proofs.HtlcMonitor.panickedB acc.1 op) (apply acc.1 op)).isEmpty && (Spec.C03.stepFails13 true acc.1 op (Irismod.Proofs.HtlcMonitor.acceptedB acc.1 op) (Irismod.Proofs.HtlcMonitor.panickedB acc.1 op) (apply acc.1 op)).isEmpty)) (Demo.s0, true)).2}"
