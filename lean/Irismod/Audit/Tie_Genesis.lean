import Irismod.Props.Tie_Genesis
open Irismod.Props.Tie Irismod.Gen.PureGenesis
#print axioms genesis_effects_pinned
#print axioms genesis_guards_pinned
#print axioms genesis_all_translated
#print axioms genesis_translated_pinned
#print axioms htlc_supply_assertions_eq_model
#print axioms htlc_import_branches
#print axioms mt_sequences_eq_model
#print axioms stored_sequences
#eval s!"nonvacuous {HtlcInitGenesis_cond_7 ⟨"htltbnb", 60⟩ ⟨"htltbnb", 50⟩ 100 == some true && HtlcInitGenesis_cond_7 ⟨"htltbnb", 50⟩ ⟨"htltbnb", 50⟩ 100 == some false && HtlcInitGenesis_cond_8 ⟨"htltbnb", 70⟩ 100 == some false && MtInitGenesis_call_SetDenomSequence_1_arg1 2 == some 3 && MtInitGenesis_mtSequence_1 4 == some 5}"
