import Irismod.Props.C13_Htlc
import Irismod.Props.C03
open Irismod Irismod.Sdk Irismod.Htlc Irismod.Spec.C03 Irismod.Props.C13Htlc Irismod.Props.C03
#print axioms beginBlock_total
#print axioms beginBlock_never_panics
#print axioms advance_total
#print axioms beginBlock_exactly_once
#print axioms no_stale_entry
#print axioms queue_hygiene
-- non-vacuity: in the demo history two contracts fall due in the same block (height 61) and are both refunded
#eval s!"nonvacuous {Demo.st Demo.plainId == some .refunded && Demo.st Demo.outId == some .refunded && Demo.final.queue.isEmpty}"
