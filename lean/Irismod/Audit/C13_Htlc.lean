import Irismod.Props.C13_Htlc
import Irismod.Props.C03
import Irismod.Proofs.HtlcMonitor
open Irismod Irismod.Sdk Irismod.Htlc Irismod.Spec.C03 Irismod.Props.C13Htlc Irismod.Props.C03
#print axioms beginBlock_total
#print axioms beginBlock_never_panics
#print axioms advance_total
#print axioms beginBlock_exactly_once
#print axioms no_stale_entry
#print axioms queue_hygiene
-- monitor soundness: the clauses drv-htlc evaluates hold on every model step (Proofs/HtlcMonitor.lean)
#print axioms Irismod.Proofs.HtlcMonitor.monitorC13_sound
#print axioms Irismod.Proofs.HtlcMonitor.resetC03_sound
-- non-vacuity: in the demo history two contracts fall due in the same block (height 61) and are both refunded
#eval s!"nonvacuous {Demo.st Demo.plainId == some .refunded && Demo.st Demo.outId == some .refunded && Demo.final.queue.isEmpty}"
