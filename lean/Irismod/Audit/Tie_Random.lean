import Irismod.Props.Tie_Random
open Irismod.Props.Tie Irismod.Gen.PureRandom Irismod.Sdk
#print axioms random_effects_pinned
#print axioms random_guards_pinned
#print axioms random_all_translated
#print axioms random_translated_pinned
#print axioms seedSum_eq_model
#print axioms precision_eq_model
#eval s!"nonvacuous {seedSum 7 100 50 9 false == some (7 + 14 + 7) && seedSum 7 100 50 9 true == some (7 + 14 + 7 + 1) && seedSum 0 100 50 9 false == none && seedSum (-7) 100 50 9 false == some (-7 - 14 - 7)}"
