import Irismod.Props.C12_Record
open Irismod Irismod.Record Irismod.RecordGenesis Irismod.Proofs.RecordGenesis Irismod.Proofs.GenesisList
open Irismod.Spec.C12.Record Irismod.Props.C12.Record
#print axioms record_reachable_is_import
#print axioms record_roundtrip_succeeds
#print axioms record_roundtrip_records
#print axioms record_roundtrip_ids
#print axioms record_no_record_lost
#print axioms record_counter_preserved
#print axioms record_rounds_succeed
#print axioms record_rounds
#print axioms record_ids_kept_when_ascending
#print axioms record_single_keeps_id

/-- a concrete history: three transactions by one account creating one record each (digests d0, d1, d2), a rejected
transaction (no contents) and a query in between -/
def aOps : List Op :=
  [.tx "d0-tx".toUTF8 [wM "d0"], .query #[1, 2, 3], .tx "d1-tx".toUTF8 [wM "d1"],
   .tx "bad".toUTF8 [{ creator := "A0", creatorOk := true, contents := [] }], .tx "d2-tx".toUTF8 [wM "d2"], .nextBlock]
def a0 : State := run {} aOps
def digests (s : State) : List String := (exportGenesis s).records.map fun r => String.join (r.contents.map (·.digest))
def doc (s : State) : List Rec := (exportGenesis s).records
def isOkU : Except Err Unit → Bool | .ok _ => true | .error _ => false

-- non-vacuity: the history is accepted and non-trivial (3 records, counter 3, created in the order d0 d1 d2, stored and
-- exported in the order d1 d2 d0); the hypotheses of the theorems hold (the re-derived ids are pairwise distinct in each
-- of two rounds, the ids the history handed out are pairwise distinct); the export validates, the import succeeds and is
-- `roundTrip`; the records survive as a multiset, the counter is 3 again, the new ids are `newIds 0 document` and each
-- answers with its record; F-gen-3 is visible (no id handed out by the history is known after the import); a second
-- round behaves the same; and the one-record prefix of the history keeps its id
#eval s!"nonvacuous {decide (a0.recs.length = 3) && decide (a0.counter = 3) && decide (created aOps = a0.recs.map (·.2)) &&
  decide (digests a0 = ["d1", "d2", "d0"]) &&
  decide ((newIds 0 (doc a0)).Nodup) && decide ((newIds 0 (doc (rounds 1 a0))).Nodup) && decide ((newIds 0 (created aOps)).Nodup) &&
  isOkU (validateGenesis (exportGenesis a0)) &&
  (match importGenesis (exportGenesis a0) with
   | .ok s' =>
     decide (s'.recs = (roundTrip a0).recs) && decide (s'.counter = 3) && decide (s'.counter = a0.counter) &&
     (s'.recs.map (·.2)).isPerm (a0.recs.map (·.2)) &&
     decide (AMap.keys s'.recs = newIds 0 (doc a0)) &&
     decide ((newIds 0 (doc a0)).map (getRecord s') = (doc a0).map some) &&
     (AMap.keys a0.recs).all (fun id => (getRecord s' id).isNone && (getRecord a0 id).isSome) &&
     isOkU (validateGenesis (exportGenesis s')) &&
     (match importGenesis (exportGenesis s') with
      | .ok s'' => decide (s''.recs = (rounds 2 a0).recs) && (s''.recs.map (·.2)).isPerm (a0.recs.map (·.2)) &&
                   decide (s''.counter = 3) && (doc s'').isPerm (doc a0)
      | .error _ => false)
   | .error _ => false) &&
  decide ((roundTrip (run {} (aOps.take 2))).recs = (run {} (aOps.take 2)).recs) && decide ((run {} (aOps.take 2)).recs.length = 1)}"

-- The exported document is NOT a list-level fixpoint, neither from the first nor from the second export on (only the
-- multiset is stable, `record_rounds`): for this three-record store the documents of rounds 0, 1, 2, 3 are
-- d1 d2 d0 / d0 d2 d1 / d2 d1 d0 / d0 d1 d2 — every round re-sorts the records by fresh SHA-256 ids.
#eval s!"nonvacuous export-order-changes-every-round {decide (digests a0 = ["d1", "d2", "d0"]) &&
  decide (digests (rounds 1 a0) = ["d0", "d2", "d1"]) && decide (digests (rounds 2 a0) = ["d2", "d1", "d0"]) &&
  decide (digests (rounds 3 a0) = ["d0", "d1", "d2"]) &&
  decide (exportGenesis (rounds 2 a0) ≠ exportGenesis (rounds 1 a0)) && decide (exportGenesis (rounds 3 a0) ≠ exportGenesis (rounds 2 a0))}"
