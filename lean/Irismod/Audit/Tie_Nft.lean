import Irismod.Props.Tie_Nft
open Irismod.Props.Tie Irismod.Gen.PureNft
#print axioms nft_effects_pinned
#print axioms nft_guards_pinned
#print axioms nft_all_translated
#print axioms nft_translated_pinned
#print axioms Modified_eq
#print axioms Modify_eq
#print axioms UpdateNFT_decisions
#print axioms TransferOwnership_decisions
#print axioms authority_guards
#eval s!"nonvacuous {Modified "[do-not-modify]" == some false && Modified "x" == some true && Modify "old" "[do-not-modify]" == some "old" && Modify "old" "new" == some "new" && UpdateNFT_cond_2 "[do-not-modify]" "[do-not-modify]" "[do-not-modify]" "[do-not-modify]" == some true && UpdateNFT_cond_2 "[do-not-modify]" "[do-not-modify]" "n" "[do-not-modify]" == some false && MintNFT_guard_1 true "A0" "A1" == some true && MintNFT_guard_1 true "A0" "A0" == some false}"
