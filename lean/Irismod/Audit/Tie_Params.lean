import Irismod.Props.Tie_Params
open Irismod.Props.Tie Irismod.Gen.PureParams Irismod.Sdk Irismod.GoSem
#print axioms params_all_translated
#print axioms ValidateDenom_eq
#print axioms CoinswapParamsValidate_eq_model
#print axioms FarmParamsValidate_eq_model
#print axioms TokenValidateTaxRate_eq_model
#print axioms TokenValidateMintTokenFeeRatio_eq_model
#print axioms TokenValidateIssueTokenBaseFee_eq_model
#print axioms tokenValidate_components
#print axioms Coins_ValidateTail_eq
#print axioms Coins_Validate_eq
#print axioms ServiceParamsValidate_eq_model
-- the default sets are accepted, boundary sets rejected, by the translated functions
#eval s!"nonvacuous {CoinswapParamsValidate ⟨3000000000000000⟩ ⟨"stake", 5000⟩ ⟨400000000000000000⟩ ⟨2000000000000000⟩ == some true && CoinswapParamsValidate ⟨1000000000000000000⟩ ⟨"stake", 5000⟩ ⟨400000000000000000⟩ ⟨2000000000000000⟩ == some false && FarmParamsValidate ⟨"stake", 5000⟩ ⟨2000000000000000000⟩ == some false && FarmParamsValidate ⟨"stake", 0⟩ ⟨400000000000000000⟩ == some true && ServiceParamsValidate 100 1000 [⟨"stake", 5000⟩] ⟨1000000000000000⟩ ⟨50000000000000000⟩ 1 1 4000 "stake" false == some true && ServiceParamsValidate 100 1000 [⟨"stake", 5000⟩, ⟨"stake", 1⟩] ⟨1000000000000000⟩ ⟨50000000000000000⟩ 1 1 4000 "stake" false == some false && TokenValidateIssueTokenBaseFee ⟨"", 0⟩ == some false}"
