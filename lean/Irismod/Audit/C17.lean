import Irismod.Props.C17
import Irismod.Proofs.OracleMonitor
open Irismod Irismod.Oracle Irismod.Spec.C17 Irismod.Props.C17 Irismod.Proofs.OracleMonitor
#print axioms aggregates_correct
#print axioms max_all_negative_regression
#print axioms max_correct
#print axioms min_correct
#print axioms avg_exact
#print axioms float_domain_roundtrip
#print axioms done_appends
#print axioms done_short_noop
#print axioms done_value_is_spec
#print axioms edit_trims
#print axioms start_only_creator
#print axioms pause_only_creator
#print axioms edit_only_creator
#print axioms stranger_rejected
#print axioms rejected_unchanged
#print axioms inv_init
#print axioms inv_step
#print axioms inv_cbState
#print axioms mirror_and_bound_run
#print axioms mirror_reachable
#print axioms history_bounded_reachable
#print axioms history_is_newest_prefix
#print axioms freshRun_of_increasing
#print axioms history_is_newest_reachable
-- monitor soundness: every clause the driver evaluates holds on every model step (Proofs/OracleMonitor.lean)
#print axioms monitor_sound
#print axioms monitor_sound_run
#print axioms step_never_panics
#print axioms aggVerdict_sound
#print axioms aggregateSpecs_none
#print axioms withinTol_of_rounded
-- non-vacuity: the demo history (two feeds, batches on both, an all-negative `max` batch, an automatic
-- pause, a shrinking edit, a stranger's start) reaches a state with stored values, a paused and a running
-- feed; the hypotheses of `done_appends` hold for a further batch on it and its conclusion is visible
#eval s!"nonvacuous {decide ((viewOf demo "f1").map (·.data) = ["7.00000000"]) && decide ((viewOf demo "f2").map (·.data) = ["0.75000000"]) && decide ((log { now := 1700000000000000000 } "f1" demoOps).map (·.data) = ["7.00000000", "-3.00000000", "2.50000000"]) && mirrorB demo && boundedB demo && demo.paused.contains "f2" && demo.running.contains "f1" && decide (ctxStateOf demo "f2" = some .paused) && decide ((viewOf (cbDone demo "f2" 9 2 ["n-1.5", "n-2.5"]) "f2").map (·.data) = ["-2.00000000", "0.75000000"]) && decide ((valuesOf demo "f2").all (·.1 < 9)) && decide (batches "f1" demoOps = [1, 2, 3]) && decide (batches "f2" demoOps = [1, 2])}"
