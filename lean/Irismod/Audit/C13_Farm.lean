import Irismod.Props.C13_Farm
open Irismod Irismod.Sdk Irismod.Farm Irismod.Spec Irismod.Spec.C13Farm Irismod.Props.C13Farm Irismod.Proofs.Farm
#print axioms queue_ok_run
#print axioms end_block_total
#print axioms end_blocks_total
#print axioms end_block_handles_due
#print axioms handled_exactly_once
#print axioms gov_step_total
#print axioms gov_step_ok
#print axioms cp_pool_is_queued
#print axioms end_topup_history_handled
-- non-vacuity: in the F-farm-1 history run on to the pool's end height 110 the EndBlocker finds the pool due,
-- refunds it and empties the queue
#eval s!"nonvacuous {
  let s := (endBlocks 98 (run w1Genesis w1Ops)).1
  let s2 := (endBlocks 1 s).1
  decide (s.height = 110) && s.queue.contains (110, "farm-1") && !(endBlocks 99 (run w1Genesis w1Ops)).2 &&
  s2.queue.isEmpty && queueOkB s && queueOkB s2 &&
  (((getPool s2 "farm-1").getD default).rules.all fun r => r.remaining == 0 && r.nRefund == 1)}"

-- non-vacuity for the gov steps (history w3): the pass of proposal 1 and the failed deposit of proposal 2 are accepted
-- block steps, the pool they create is queued at its end height 60 and handled there by the farm EndBlocker
#eval s!"nonvacuous {
  let s3 := run w3Genesis (w3Ops.take 3)
  let s6 := run w3Genesis (w3Ops.take 6)
  let s7 := run w3Genesis (w3Ops.take 7)
  Spec.C05.isOkE (step s3 (.cpPass 1)) && Spec.C05.isOkE (step s3 (.cpFailDeposit 2)) && Spec.C05.isOkE (step s3 (.cpReject 7)) &&
  s6.queue.contains (60, "farm-1") && queueOkB s6 && s7.queue.isEmpty && decide (s7.height = 61) &&
  (((getPool s7 "farm-1").getD default).rules.all fun r => r.remaining == 0 && r.nRefund == 1)}"
