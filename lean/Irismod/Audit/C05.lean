import Irismod.Props.C05
import Irismod.Proofs.FarmMonitor
open Irismod Irismod.Sdk Irismod.Farm Irismod.Spec Irismod.Spec.C05 Irismod.Props.C05 Irismod.Proofs.Farm
#print axioms stakes_genesis
#print axioms stakes_step
#print axioms stakes_sum_run
#print axioms stakes_sum_reachable
#print axioms inv_init
#print axioms inv_step
#print axioms module_account_run
#print axioms principal_covered_run
#print axioms cp_inv_init
#print axioms cp_inv_step
#print axioms cp_inv_run
#print axioms escrow_account_run
#print axioms gov_account_run
#print axioms escrow_tables_run
#print axioms community_pool_backed_run
#print axioms community_pool_lockstep
#print axioms community_pool_lockstep_run
#print axioms withdraw_can_fail
#print axioms unstake_ok_partial
-- non-vacuity: the F-farm-1 history up to A1's harvest reaches a state with two
-- farmers of positive stake whose stakes add up to the pool total, and A1 (whom the collector can pay) can withdraw
#eval s!"nonvacuous {decide (stakedSum (run w1Genesis (w1Ops.take 5)) "farm-1" = 2) && decide (lockedOf (run w1Genesis (w1Ops.take 5)) "farm-1" = 2) && isOkE (step (run w1Genesis (w1Ops.take 6)) (.unstake "A1" "farm-1" "lpt-1" 1)) && (moduleAccountDiffs (run w1Genesis w1Ops)).isEmpty && budgetOkPool ((getPool (run w1Genesis w1Ops) "farm-1").getD default) && (moduleAccountDiffs (run w2Genesis w2Ops)).isEmpty}"

-- non-vacuity of (e): in the community-pool history w3, after both submissions the escrow collector holds 1200 btc + 50 eth
-- for two escrow infos and gov 10100000 stake; after the pass and the failed deposit both infos are gone, the pool
-- farm-1 is owned by the distribution module account with the escrowed budget; the community pool is 4000 btc while
-- the farm runs and 4000 + (1000 − 500 released) btc + 0 eth after its end; every monitor clause holds at every step
#eval s!"nonvacuous {
  let s2 := run w3Genesis (w3Ops.take 3)
  let s5 := run w3Genesis (w3Ops.take 5)
  let s7 := run w3Genesis (w3Ops.take 7)
  let s9 := run w3Genesis w3Ops
  decide (s2.bank.balOf escrowAcc "btc" = 1200) && decide (s2.bank.balOf escrowAcc "eth" = 50) && decide (s2.cp.escrow.length = 2) &&
  decide (s2.bank.balOf govAcc "stake" = 10100000) && (escrowAccountDiffs s2).isEmpty && govAccountB s2 && tablesB s2 &&
  decide (s5.cp.escrow.length = 0) && decide (s5.bank.balOf escrowAcc "btc" = 0) && decide (s5.bank.balOf govAcc "stake" = 0) &&
  (((getPool s5 "farm-1").map fun p => (p.creator, p.editable, p.start, p.endH, p.rules.map fun r => (r.denom, r.total))) ==
     some ("distr", false, 10, 60, [("btc", 1000), ("eth", 50)])) &&
  decide (cpoolOf s5 "btc" = 4000 * decUnit) && decide (s5.bank.balOf distrAcc "btc" = 4000) &&
  decide (cpoolOf s7 "btc" = 4500 * decUnit) && decide (s7.bank.balOf distrAcc "btc" = 4500) && decide (s7.bank.balOf distrAcc "eth" = 0) &&
  (moduleAccountDiffs s7).isEmpty && (backedDiffs s7).isEmpty && (lockDiffs w3Genesis s7).isEmpty && tablesB s7 &&
  sameObserved s7 s9 && sameCp s7 s9}"
-- soundness of the monitor's state clauses with respect to the model (partial: see Proofs/FarmMonitor.lean)
#print axioms Irismod.Proofs.FarmMonitor.monitor_state_clauses_sound_partial
#print axioms Irismod.Proofs.FarmMonitor.check_prefix
#print axioms Irismod.Proofs.FarmMonitor.rejected_unchanged
#print axioms Irismod.Proofs.FarmMonitor.tablesB_of
