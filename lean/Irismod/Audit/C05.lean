import Irismod.Props.C05
open Irismod Irismod.Sdk Irismod.Farm Irismod.Spec Irismod.Spec.C05 Irismod.Props.C05 Irismod.Proofs.Farm
#print axioms stakes_genesis
#print axioms stakes_step
#print axioms stakes_sum_run
#print axioms stakes_sum_reachable
#print axioms inv_init
#print axioms inv_step
#print axioms module_account_run
#print axioms principal_covered_run
#print axioms withdraw_can_fail
#print axioms unstake_ok_partial
-- non-vacuity: the F-farm-1 history up to A1's harvest reaches a state with two
-- farmers of positive stake whose stakes add up to the pool total, and A1 (whom the collector can pay) can withdraw
#eval s!"nonvacuous {decide (stakedSum (run w1Genesis (w1Ops.take 5)) "farm-1" = 2) && decide (lockedOf (run w1Genesis (w1Ops.take 5)) "farm-1" = 2) && isOkE (step (run w1Genesis (w1Ops.take 6)) (.unstake "A1" "farm-1" "lpt-1" 1)) && (moduleAccountDiffs (run w1Genesis w1Ops)).isEmpty && budgetOkPool ((getPool (run w1Genesis w1Ops) "farm-1").getD default) && (moduleAccountDiffs (run w2Genesis w2Ops)).isEmpty}"
