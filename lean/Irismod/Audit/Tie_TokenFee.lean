import Irismod.Props.Tie_TokenFee
open Irismod.Props.Tie Irismod.Gen.PureTokenFee Irismod.Sdk
#print axioms tokenfee_effects_pinned
#print axioms tokenfee_guards_pinned
#print axioms tokenfee_all_translated
#print axioms tokenfee_translated_pinned
#print axioms token_taxOf_eq_translation
#print axioms token_mint_and_issue_fee_steps
#print axioms MintToken_cap_eq_model
#print axioms EditToken_cap_eq_model
#eval s!"nonvacuous {GetTokenMintFee_mintFee_1 ⟨"stake", 23622⟩ ⟨100000000000000000⟩ == some 2362 && (feeHandler_communityTaxCoin_1 ⟨"stake", 23622⟩ ⟨400000000000000000⟩).map (·.amount) == some 9448}"
