import Irismod.Props.C12_Coinswap
import Irismod.Proofs.CoinswapMonitor
open Irismod Irismod.Sdk Irismod.Coinswap Irismod.CoinswapGenesis Irismod.Props.C12.Coinswap
#print axioms cs_wf_init
#print axioms cs_wf_step
#print axioms cs_wf_apply
#print axioms cs_wf_run
#print axioms cs_export_validates
#print axioms cs_import_succeeds
#print axioms cs_queries_preserved
#print axioms cs_export_fixpoint
#print axioms cs_wf_roundTrip
#print axioms cs_inv_roundTrip
#print axioms cs_next_pool_same
#print axioms Irismod.Proofs.CoinswapGenesis.lptSeq_lptDenom
#print axioms Irismod.Proofs.CoinswapMonitor.c12_export_sound
#print axioms Irismod.Proofs.CoinswapMonitor.c12_reimport_sound
#print axioms Irismod.Proofs.CoinswapMonitor.c12_index_sound

/-- a concrete history: three pools created out of key order (tokC, tokA, tokB), trades, a parameter change -/
def g0 : State :=
  { std := "stake", seq := 1, now := 1000000000,
    params := { fee := 3000000000000000, tax := 400000000000000000, ufee := 2000000000000000, pcfDenom := "stake", pcfAmt := 5000 },
    bank := { bal := [(("A0", "stake"), 100000000), (("A0", "tokA"), 100000000), (("A0", "tokB"), 100000000),
                      (("A0", "tokC"), 100000000)],
              supply := [("stake", 100000000), ("tokA", 100000000), ("tokB", 100000000), ("tokC", 100000000)] } }

def gOps : List Op :=
  [.add "A0" "tokC" 2000000 1000000 1 100, .add "A0" "tokA" 3000000 1000000 1 100,
   .swap "A0" "A0" "tokA" 7000 "tokC" 1 false 100, .setParams "GOV" 5000000000000000 400000000000000000 0 "stake" 77,
   .add "A0" "tokB" 1000000 1000000 1 100]

def g1 : State := run g0 gOps
def nextOp : Op := .add "A0" "junk" 5 5 1 100

-- non-vacuity: the history is accepted and non-trivial (3 pools, creation order ≠ key order, so the round trip
-- really reorders the registry list); the export validates, the import succeeds, the export is a fixpoint, the
-- queries agree, and a fourth pool would get lpt-4 with or without the round trip
#eval s!"nonvacuous {(g1.pools.map (·.1) == ["tokC", "tokA", "tokB"]) && ((exportGenesis g1).pools.map (·.cp) == ["tokA", "tokB", "tokC"]) && (g1.seq == 4) && (match validateGenesis (exportGenesis g1) with | .ok _ => true | .error _ => false) && (match importGenesis g1 (exportGenesis g1) with | .ok s' => (s'.pools != g1.pools) && (exportGenesis s').pools == (exportGenesis g1).pools && (exportGenesis s').seq == 4 && (findByLpt s'.pools "lpt-2" == some ("tokA", 2)) && (AMap.get? s'.pools "tokB" == some 3) && decide (s'.params = g1.params) | .error _ => false) && (g1.params.pcfAmt == 77)}"
