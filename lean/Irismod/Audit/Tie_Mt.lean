import Irismod.Props.Tie_Mt
open Irismod.Props.Tie Irismod.Gen.PureMt
#print axioms mt_effects_pinned
#print axioms mt_guards_pinned
#print axioms mt_all_translated
#print axioms mt_translated_pinned
#print axioms overflow_guard_eq_model
#print axioms wrapping_ops_eq_model
#eval s!"nonvacuous {AddBalance_guard_1 18446744073709551610 6 == some true && AddBalance_guard_1 18446744073709551610 5 == some false && SubBalance_balance_2 3 5 == some 18446744073709551614 && AddBalance_balance_2 18446744073709551615 2 == some 1}"
