import Irismod.Props.C02
import Irismod.Proofs.CoinswapMonitor
open Irismod Irismod.Sdk Irismod.Coinswap Irismod.Spec.C02 Irismod.Props.C02
#print axioms swap_single_exact
#print axioms swap_double_ledger
#print axioms double_hop_settles
#print axioms double_hop_nets
#print axioms witness_outcome
#print axioms add_liquidity_exact
#print axioms add_unilateral_exact
#print axioms remove_liquidity_exact
#print axioms remove_unilateral_exact
#print axioms supply_frame
#print axioms rejected_unchanged
#print axioms Irismod.Proofs.Coinswap.inTime_of_not_expired
#print axioms Irismod.Proofs.CoinswapMonitor.c02_monitor_sound

-- non-vacuity: on the witness state a single-hop swap to another recipient, a routed swap to oneself and
-- a routed swap to another recipient are all accepted and the executable ledger of the property holds for all
-- three; the ledger shape of the former defect F-swap-1 is rejected by the monitor as an unclassified failure
def single : Op := .swap "A0" "A1" "btc" 1000 "stake" 1 false 100
def routedSelf : Op := .swap "A0" "A0" "btc" 1000 "eth" 1 false 100
def oldDefect : State :=
  { witnessState with bank := { witnessState.bank with bal :=
      [(("A0", "btc"), 4000), (("A0", "stake"), 4004), (("A1", "stake"), 996), (("A1", "eth"), 992),
       (("P1", "btc"), 1001000), (("P1", "stake"), 999004), (("P2", "eth"), 999008), (("P2", "stake"), 1000996)] } }
#eval s!"nonvacuous {(step witnessState single).isOk && (stepFails witnessState single true (apply witnessState single)).isEmpty && (step witnessState routedSelf).isOk && (stepFails witnessState routedSelf true (apply witnessState routedSelf)).isEmpty && (step witnessState witnessOp).isOk && (stepFails witnessState witnessOp true (apply witnessState witnessOp)).isEmpty && (stepFails witnessState witnessOp true oldDefect == [("swap-ledger", "")])}"
