import Irismod.Proofs.ParamsMonitor
open Irismod Irismod.Sdk Irismod.Params Irismod.Props.C16 Irismod.Proofs.ParamsMonitor
#print axioms handlers_gated_and_validating
#print axioms update_refuses_non_authority
#print axioms update_accepted_iff
#print axioms non_authority_update_changes_nothing
#print axioms invalid_never_stored_by_update
#print axioms invalid_never_stored_by_genesis
#print axioms genesis_stored_is_valid
#print axioms defaults_valid
#print axioms applyOp_preserves_valid
#print axioms stored_params_always_valid
#print axioms coinswap_noabort_fails_unvalidated_denom
#print axioms coinswap_noabort_fails_extreme_amount
#print axioms coinswap_pool_creation_noabort_partial
#print axioms coinswap_pool_creation_only_overflow
#print axioms coinswap_noabort_when_denom_validated
#print axioms coinswap_noabort_current
#print axioms coinswap_prices_never_divide_by_zero
#print axioms coinswap_prices_noabort_bounded
#print axioms coinswap_unilateral_delta_positive
#print axioms farm_noabort_when_tax_rate_validated
#print axioms farm_noabort_fails_when_tax_rate_unvalidated
#print axioms farm_noabort_current
#print axioms farm_noabort_partial
#print axioms service_fragments_noabort
#print axioms service_timeout_window
#print axioms token_noabort_fails_unvalidated_denom
#print axioms token_noabort_fails_extreme_amount
#print axioms token_fee_paths_noabort_partial
#print axioms token_noabort_when_denom_validated
#print axioms token_noabort_current
#print axioms htlc_fragments_only_overflow
#print axioms htlc_fragments_noabort_partial
#print axioms htlc_noabort_fails_extreme_amount
#print axioms htlc_time_window_nonempty
#print axioms update_sound
#print axioms genesis_sound
#print axioms reset_sound
#print axioms battery_nil_of_no_class
#print axioms battery_sound
#print axioms track_model
#print axioms monitor_sound
#print axioms monitor_sound_strict
#print axioms monitor_sound_trace

/-- a history: an accepted update of every module by the authority, a refused one by a stranger,
    a refused invalid one; then the fragments evaluated under the stored sets -/
def nvCoinswap : CoinswapParams :=
  { fee := some ⟨10000000000000000⟩, taxRate := some ⟨1⟩, poolCreationFee := ⟨"eth", some 7⟩, unilateralLiquidityFee := some ⟨0⟩ }
def nvAsset : AssetParam :=
  { denom := "htltbnb", supplyLimit := ⟨some 1000000, true, 3600000000000, some 5000⟩, active := true, deputy := "A3",
    fixedFee := some 10, minSwapAmount := some 5, maxSwapAmount := some 1000, minBlockLock := 50, maxBlockLock := 220 }
def nvOps : List UpdateOp := [
  ⟨"authority", .coinswap nvCoinswap⟩,
  ⟨"A1", .coinswap coinswapDefault⟩,
  ⟨"authority", .coinswap { nvCoinswap with fee := some ⟨1000000000000000000⟩ }⟩,
  ⟨"authority", .htlc [nvAsset]⟩,
  ⟨"authority", .farm { farmDefault with poolCreationFee := ⟨"eth", some 0⟩ }⟩,
  ⟨"authority", .token { tokenDefault with tokenTaxRate := none }⟩]
def nvStore : Store := run {} nvOps
#eval s!"nonvacuous {decide (nvStore.coinswap = nvCoinswap) && decide (nvStore.htlc = [nvAsset]) &&
  decide (nvStore.token = tokenDefault) && decide (nvStore.farm.poolCreationFee = ⟨"eth", some 0⟩) &&
  decide (poolCreationFee nvStore.coinswap.poolCreationFee nvStore.coinswap.taxRate = .ok (0, 7)) &&
  decide (inputPrice 1000 1000000 1000000 nvStore.coinswap.fee = .ok 989) &&
  decide (htltIncoming nvAsset {} 1000 = .ok { incoming := 1000 }) &&
  decide (htltOutgoing nvAsset { current := 5000 } 1000 220 = .ok { current := 5000, outgoing := 1000 }) &&
  decide (issueFeePath tokenDefault batteryReg factor5 = .ok (5206, 7809)) &&
  decide (earnedFeeSplit 1000 serviceDefault.serviceFeeTax = .ok (50, 950)) &&
  batteryFarm ⟨⟨"stake", some 5000⟩, some ⟨2000000000000000000⟩, 2⟩ == ["create_pool"] &&
  Spec.C16.allHandlersOk}"
