import Irismod.Props.C12
open Irismod Irismod.Props.C12
#print axioms mt_wf_init
#print axioms mt_wf_step
#print axioms mt_wf_reachable
#print axioms mt_export_validates
#print axioms mt_import_preserves
#print axioms mt_roundtrip
#print axioms mt_queries_preserved
#print axioms mt_import_closed
#print axioms mt_roundtrip_reachable
#print axioms mt_roundtrip_twice
-- non-vacuity: a concrete reachable MT store (two classes, two tokens, a zero-amount balance entry, a
-- max-uint64 supply) round-trips in the executable model
#eval s!"nonvacuous {mtDemoCheck}"
