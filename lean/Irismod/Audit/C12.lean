import Irismod.Props.C12
open Irismod Irismod.Props.C12
-- MT: the full statement holds
#print axioms mt_wf_init
#print axioms mt_wf_step
#print axioms mt_wf_reachable
#print axioms mt_export_validates
#print axioms mt_import_preserves
#print axioms mt_roundtrip
#print axioms mt_queries_preserved
#print axioms mt_import_closed
#print axioms mt_roundtrip_reachable
#print axioms mt_roundtrip_twice
#print axioms mt_freshRun_of_B
-- record (F-gen-3)
#print axioms record_export_validates
#print axioms record_import_partial
#print axioms record_two_swap
#print axioms record_roundtrip_fails
-- HTLC (F-gen-1, fixed by 1f718dc: the statement holds; the finding is kept for the record)
#print axioms htlc_prefix_rule_failed
#print axioms htlc_gen1_regression
#print axioms htlc_validate_partial
#print axioms htlc_fixed_validates
#print axioms htlc_export_validates_mini
-- oracle (F-gen-2)
#print axioms oracle_import_keeps_last_written
#print axioms oracle_roundtrip_fails
#print axioms oracle_roundtrip_partial
-- non-vacuity: a concrete MT history with fresh ids (freshRunB) reaching a store (two classes, two tokens, a zero-amount balance entry, a
-- max-uint64 supply) round-trips in the executable model
#eval s!"nonvacuous {mtDemoCheck}"
-- the hypothesis of record_roundtrip_fails: four closed SHA-256 facts the kernel cannot evaluate
-- (store order of the two witness records is the reverse of their creation order; the first id is
-- neither of the two re-derived ids)
#eval s!"nonvacuous record-witness-facts {decide Irismod.Spec.C12.Record.WitnessFacts}"
