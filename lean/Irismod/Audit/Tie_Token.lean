import Irismod.Props.Tie_Token
open Irismod.Props.Tie Irismod.Gen.PureToken Irismod.Sdk
#print axioms token_effects_pinned
#print axioms token_guards_pinned
#print axioms token_all_translated
#print axioms pow10_eq
#print axioms LossLessSwap_eq_model
#eval s!"nonvacuous {LossLessSwap 1234567 ⟨1000000000000000000⟩ 6 2 == some (1230000, 123) && LossLessSwap 7 ⟨1500000000000000000⟩ 0 0 == some (7, 10) && LossLessSwap 0 ⟨1500000000000000000⟩ 0 0 == some (0, 0) && LossLessSwap (2^255) ⟨1000000000000000000000000⟩ 0 18 == none}"
