import Irismod.Props.C12_Nft
import Irismod.Proofs.NftMonitor
open Irismod Irismod.Props.C12.Nft Irismod.Proofs.NftMonitor
#print axioms nft_wf_init
#print axioms nft_wf_step
#print axioms nft_wf_reachable
#print axioms nft_tok_uri_bounded
#print axioms nft_export_validates
#print axioms nft_import_preserves
#print axioms nft_roundtrip
#print axioms nft_queries_preserved
#print axioms nft_import_closed
#print axioms nft_roundtrip_reachable
#print axioms nft_roundtrip_twice
-- monitor soundness of the genesis clauses (export-invalid, reimport-panic, reimport-changed-state, state clauses)
#print axioms genesis_sound
-- non-vacuity: a concrete reachable NFT store (two classes, one empty after a burn and handed over;
-- an edited token, a transferred token with a 256-byte URI) round-trips in the executable model:
-- export validates, import succeeds, re-export is identical, the monitor's sameObs holds
#eval s!"nonvacuous {nftDemoCheck}"
