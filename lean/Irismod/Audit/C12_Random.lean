import Irismod.Props.C12_Random
import Irismod.Proofs.RandomMonitor
open Irismod Irismod.Random Irismod.Props.C12Random
#print axioms genWF_of_queueInv
#print axioms rnd_every_request_exported
#print axioms rnd_export_count
#print axioms rnd_export_validates
#print axioms rnd_import_preserves
#print axioms rnd_import_closed
#print axioms rnd_import_invalid_panics
#print axioms rnd_prep_content
#print axioms rnd_prep_rebases
#print axioms rnd_prep_genWF
#print axioms rnd_restart_zero_height
#print axioms rnd_roundtrip_reachable
-- non-vacuity: a queue with three requests due at one height and one at another exports as two groups of 3 and 1, re-imports to the same four entries, and restarts at zero height with heights 1 and 4
#eval s!"nonvacuous {demoNonvacuous}"
-- monitor soundness: everything `drv-random monitor C12` evaluates is `Spec.C18Mon.stepFails`; on the model's own observation it reports nothing but the known finding F-rnd-1 where its exclusion hypothesis is violated (Proofs/RandomMonitor.lean)
#print axioms Irismod.Proofs.RandomMonitor.monitor_sound
#print axioms Irismod.Proofs.RandomMonitor.line_inv
#print axioms Irismod.Proofs.RandomMonitor.line_inv_reset
#print axioms Irismod.Proofs.RandomMonitor.model_step_inv
#print axioms Irismod.Proofs.RandomMonitor.post_tracks_model
