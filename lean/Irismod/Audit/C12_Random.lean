import Irismod.Props.C12_Random
open Irismod Irismod.Random Irismod.Props.C12Random
#print axioms genWF_of_queueInv
#print axioms rnd_every_request_exported
#print axioms rnd_export_count
#print axioms rnd_export_validates
#print axioms rnd_import_preserves
#print axioms rnd_import_closed
#print axioms rnd_import_invalid_panics
#print axioms rnd_prep_content
#print axioms rnd_prep_rebases
#print axioms rnd_prep_genWF
#print axioms rnd_restart_zero_height
#print axioms rnd_roundtrip_reachable
-- non-vacuity: a queue with three requests due at one height and one at another exports as two groups of 3 and 1, re-imports to the same four entries, and restarts at zero height with heights 1 and 4
#eval s!"nonvacuous {demoNonvacuous}"
