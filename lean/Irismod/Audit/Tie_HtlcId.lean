import Irismod.Props.Tie_HtlcId
open Irismod.Props.Tie Irismod.Gen.PureHtlcId Irismod.GoSem
#print axioms htlcid_effects_pinned
#print axioms htlcid_guards_pinned
#print axioms htlcid_all_translated
#print axioms htlcid_translated_pinned
#print axioms Uint64ToBigEndian_eq_model
#print axioms GetHashLock_eq_model
#print axioms GetID_eq_model
#eval s!"nonvacuous {(GetHashLock (Irismod.Htlc.hexBytes "aa") 0).map Irismod.Line.hexOfBytes == some (Irismod.Htlc.genLock "aa" 0) && (GetHashLock (Irismod.Htlc.hexBytes "aa") 5).map Irismod.Line.hexOfBytes != (GetHashLock (Irismod.Htlc.hexBytes "aa") 0).map Irismod.Line.hexOfBytes && (GetHashLock (Irismod.Htlc.hexBytes "aa") 0).map Irismod.Line.hexOfBytes == some "bceef655b5a034911f1c3718ce056531b45ef03b4c7b1f15629e867294011a7d"}"
