import Irismod.Props.C15
import Irismod.Proofs.MtMonitor
open Irismod Irismod.Mt Irismod.Props.C15
#print axioms inv_init
#print axioms inv_step
#print axioms sum_eq_supply_run
#print axioms sum_eq_supply_reachable
#print axioms transfer_exact
#print axioms burn_exact
#print axioms mint_only_owner
#print axioms edit_only_owner
#print axioms transferDenom_only_owner
#print axioms rejected_unchanged
#print axioms denom_id_scheme
#print axioms seqs_monotone
-- the executable monitor (Spec.C15.stepOk, evaluated on the implementation's trace) is sound w.r.t. the model
#print axioms Irismod.Proofs.MtMonitor.monitor_sound
-- non-vacuity: the demo history reaches a state with a positive balance that can be transferred and burnt
#eval s!"nonvacuous {(step demo (.transfer "A2" "A1" (genId "mt-denom-" 1) (genId "mt-" 1) 1)).isOk && (step demo (.burn "A1" (genId "mt-denom-" 1) (genId "mt-" 1) 6)).isOk && (balOf demo "A1" (genId "mt-denom-" 1) (genId "mt-" 1) == 6)}"
