import Irismod.Props.C11
open Irismod.Props.C11
#print axioms no_unreviewed_nondeterminism_site
#print axioms mt_run_deterministic
#print axioms mt_run_append
#eval s!"nonvacuous {Irismod.Gen.Nondet.sites.length > 40 && Irismod.Spec.C11.offending.isEmpty}"
#print axioms sorted_keys_order_independent
#print axioms distinct_key_writes_order_independent
#print axioms validation_verdict_order_independent
#print axioms mt_export_order_independent
