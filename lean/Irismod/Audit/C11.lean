import Irismod.Props.C11
open Irismod.Props.C11
#print axioms no_unreviewed_nondeterminism_site
#print axioms mt_run_deterministic
#print axioms mt_run_append
#eval s!"nonvacuous {Irismod.Gen.Nondet.sites.length > 40 && Irismod.Spec.C11.offending.isEmpty}"
