import Irismod.Props.Tie_Keys
open Irismod.GoSem Irismod.Gen.PureKeys Irismod.Props.TieKeys
#print axioms keys_effects_pinned
#print axioms keys_all_translated
#print axioms keys_translated_pinned
#print axioms keys_guards_pinned
#print axioms random_layout
#print axioms oracle_layout
#print axioms farm_layout
#print axioms oracle_value_layout
#print axioms oracle_value_in_subspace
#print axioms htlc_layout
#print axioms service_layout
#print axioms record_token_layout
#print axioms random_queue_in_subspace
#print axioms farm_active_in_subspace
#print axioms farm_rule_in_subspace
#print axioms farm_info_in_subspace
#print axioms htlc_expired_in_subspace
#print axioms service_expired_batch_in_subspace
#print axioms service_new_batch_in_subspace
#print axioms htlc_key_injective
#print axioms random_key_injective
#print axioms random_oracle_key_injective
#print axioms random_queue_key_injective
#print axioms htlc_expired_key_injective
#print axioms record_key_injective
#print axioms service_context_key_injective
#print axioms service_request_key_injective
#print axioms service_response_key_injective
#print axioms oracle_reqctx_key_injective
#print axioms fromBE_be
#print axioms be_injective
#print axioms subspace_separates
#print axioms height_separates
#print axioms random_queue_height_separated
#print axioms farm_active_height_separated
#print axioms htlc_expired_height_separated
#print axioms service_expired_batch_height_separated
#print axioms service_new_batch_height_separated
#print axioms random_queue_in_subspace_iff
#print axioms farm_active_in_subspace_iff
#print axioms htlc_expired_in_subspace_iff
#print axioms random_tables_disjoint
#print axioms htlc_tables_disjoint
#print axioms farm_tables_disjoint
#print axioms oracle_tables_disjoint
-- the translated constructors on concrete arguments: random queue key of height 5, id aa; farm reward-rule key
#eval s!"nonvacuous {(RandomKeyRequestQueue 5 (ByteArray.mk #[170])).map (·.data.toList) == some [2,0,0,0,0,0,0,0,5,170] && (FarmKeyRewardRule "p" "r").map (·.data.toList) == some [2,112,0,114] && (OracleGetFeedValuePrefixKey "f").map (·.data.toList) == some [3,102,0] && (OracleGetFeedValueKey "f" 258).map (·.data.toList) == some [3,102,0,0,0,0,0,0,0,1,2]}"
#eval s!"nonvacuous-be {fromBE (Uint64ToBigEndian 72623859790382856) == 72623859790382856 && (Uint64ToBigEndian 258).data.toList == [0,0,0,0,0,0,1,2]}"
