import Irismod.Props.Tie_ServiceSched
open Irismod.Props.Tie Irismod.Gen.PureServiceSched
#print axioms servicesched_effects_pinned
#print axioms servicesched_guards_pinned
#print axioms servicesched_all_translated
#print axioms servicesched_translated_pinned
#print axioms queue_heights_eq_model
#print axioms repeated_total_conditions_eq_model
#print axioms update_rules_eq_model
#eval s!"nonvacuous {EndBlocker_call_AddNewRequestBatch_1_arg2 110 5 10 == some 115 && EndBlocker_call_AddRequestBatchExpiration_1_arg2 100 5 == some 105 && EndBlocker_cond_4 true 3 2 == some true && EndBlocker_cond_4 true 3 3 == some false && EndBlocker_cond_4 true (-1) 9 == some true && StartRequestContext_guard_3 true 3 3 == some true && UpdateRequestContext_guard_12 4 5 == some true}"
