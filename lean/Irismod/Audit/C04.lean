import Irismod.Props.C04
import Irismod.Props.C03
open Irismod Irismod.Sdk Irismod.Htlc Irismod.Spec.C03 Irismod.Spec.C04 Irismod.Props.C04 Irismod.Props.C03
#print axioms counters_reachable
#print axioms escrowGe_reachable
#print axioms inv_donation
#print axioms escrowExact_run
#print axioms escrowEq_partial
#print axioms escrowEq_always_fails
#print axioms wS_inv
#print axioms wS_eq
#print axioms wS_claim_breaks
#print axioms limits_run
#print axioms limits_init
#print axioms supplyTrack_run
#print axioms window_exact
#print axioms tl_only_by_incoming_claim
#print axioms create_keeps_window
#print axioms refund_cannot_fail
#print axioms claim_incoming_never_fails
-- non-vacuity: the demo history (Audit/C03) satisfies the hypotheses (Inv by inv_init, no self-recipient, params unchanged)
-- and reaches a state with non-zero counters where every executable clause of the spec holds; the witness state of the
-- negative theorem really breaks the identity by exactly the stranded amount
#eval s!"nonvacuous {escrowEqB Demo.final && countersB Demo.final && limitsB Demo.final && (supOf Demo.final "htltaaa").current == 40 && (supOf Demo.final "htltaaa").tlCurrent == 0 && Bank.supplyOf Demo.final.bank "htltaaa" == 40 && !(escrowEqB (run wS [.claim "A1" z64 z64])) && escrowEqModSelfB (run wS [.claim "A1" z64 z64])}"
