import Irismod.Props.C04
import Irismod.Props.C03
import Irismod.Proofs.HtlcMonitor
open Irismod Irismod.Sdk Irismod.Htlc Irismod.Spec.C03 Irismod.Spec.C04 Irismod.Props.C04 Irismod.Props.C03
#print axioms counters_reachable
#print axioms escrowGe_reachable
#print axioms inv_donation
#print axioms escrowEq_apply
#print axioms escrowEq_run
#print axioms escrowEq_reachable
#print axioms escrow_recipient_rejected
#print axioms limits_run
#print axioms limits_init
#print axioms supplyTrack_run
#print axioms window_exact
#print axioms tl_only_by_incoming_claim
#print axioms create_keeps_window
#print axioms refund_cannot_fail
#print axioms claim_incoming_never_fails
-- monitor soundness: the clauses drv-htlc evaluates hold on every model step (Proofs/HtlcMonitor.lean)
#print axioms Irismod.Proofs.HtlcMonitor.monitorC04_sound
#print axioms Irismod.Proofs.HtlcMonitor.resetC04_sound
-- non-vacuity: the demo history (Props/C03 Demo) satisfies the hypotheses (Inv by inv_init, empty escrow, params unchanged)
-- and reaches a state with non-zero counters where every executable clause of the spec holds; a create naming the escrow
-- account as recipient is rejected by the model
#eval s!"nonvacuous {escrowEqB Demo.final && countersB Demo.final && limitsB Demo.final && (supOf Demo.final "htltaaa").current == 40 && (supOf Demo.final "htltaaa").tlCurrent == 0 && Bank.supplyOf Demo.final.bank "htltaaa" == 40 && (step Demo.s0 (.create "A0" "M" [("stake", 5)] (genLock (Demo.sec 1) 0) 0 50 false)).toOption.isNone}"

-- the monitor evaluated on the model's own run of the demo history: no clause fails (instance of monitorC04_sound)
#eval s!"nonvacuous {(Demo.ops.foldl (fun (acc : State × Bool) op => (apply acc.1 op, acc.2 && (Spec.C04.stepFails Demo.s0 acc.1 op (Irismod.Proofs.HtlcMonitor.acceptedB acc.1 op) (Irismod.Proofs.HtlcMonitor.panickedB acc.1 op) (apply acc.1 op)).isEmpty)) (Demo.s0, true)).2 && (Spec.C04.resetFails Demo.s0).isEmpty}"
