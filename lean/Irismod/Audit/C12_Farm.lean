import Irismod.Props.C12_Farm
import Irismod.Proofs.FarmWitness
open Irismod Irismod.Sdk Irismod.Farm Irismod.FarmGenesis Irismod.Props.C12.Farm Irismod.Proofs.Farm Irismod.Proofs.FarmGenesis
#print axioms farm_wf_init
#print axioms farm_wf_step
#print axioms farm_wf_run
#print axioms farm_block_start
#print axioms farm_export_validates
#print axioms farm_import_succeeds
#print axioms farm_queries_preserved
#print axioms farm_escrow_preserved
#print axioms farm_cp_inv_roundTrip
#print axioms farm_next_pool_same_id
#print axioms farm_expired_preserved
#print axioms farm_pending_preserved
#print axioms farm_export_fixpoint
#print axioms farm_inv_roundTrip
#print axioms farm_regression_gen11
#print axioms farm_regression_gen12
#print axioms Irismod.Proofs.FarmGenesis.poolSeq_poolIdOf

/-- a concrete history: three pools created by two accounts (one with two reward denoms), stakes by two farmers,
a top-up, blocks, a destroy, then a block end (the between-blocks state a real export sees) -/
def h0 : State :=
  { height := 10, bank := { bal := [(("A0", "btc"), 100000), (("A0", "eth"), 100000), (("A0", "stake"), 100000),
      (("A2", "btc"), 100000), (("A2", "stake"), 100000), (("A1", "lpt-1"), 1000), (("A3", "lpt-1"), 1000), (("A3", "lpt-2"), 1000)] } }
def hOps : List Op :=
  [.createPool "A0" "d1" "lpt-1" 10 [("btc", 3), ("eth", 2)] [("btc", 60), ("eth", 41)] true,
   .createPool "A2" "" "lpt-2" 12 [("btc", 7)] [("btc", 70)] true,
   .stake "A1" "farm-1" "lpt-1" 7, .endBlocks 2, .stake "A3" "farm-1" "lpt-1" 5, .stake "A3" "farm-2" "lpt-2" 9,
   .adjustPool "A0" "farm-1" (some [("btc", 10)]) none, .endBlocks 3, .harvest "A1" "farm-1",
   .createPool "A0" "x" "lpt-1" 20 [("btc", 1)] [("btc", 9)] true, .destroyPool "A2" "farm-2", .endBlocks 1]
def h1 : State := run h0 hOps
def showq (q : List (Int × PoolId)) : List String := Irismod.Line.sortStrings (q.map fun e => s!"{e.1}|{e.2}")

-- non-vacuity: the history is accepted and non-trivial (3 pools, one destroyed, 3 farmer records with non-zero debts,
-- 2 queue entries); the export validates, the import succeeds, queue / pools / farmers / sequence are rebuilt,
-- the export is a fixpoint, and the next pool would be farm-4 with or without the round trip
#eval s!"nonvacuous {decide (h1.pools.length = 3) && decide (h1.farmers.length = 3) && decide (h1.queue.length = 2) && decide (h1.seq = 3) &&
  (h1.farmers.any fun e => e.2.debt != []) && Spec.C12Farm.blockStartB h1 &&
  Spec.C05.isOkE (validateGenesis (exportGenesis h1)) &&
  (match importGenesis h1 (exportGenesis h1) with
   | .ok s' => Spec.C05.sameObserved h1 s' && decide (s'.seq = 3) && decide ((exportGenesis s').pools.map (·.1) = ["farm-1", "farm-2", "farm-3"]) &&
               Spec.C12Farm.samePending h1 s' && decide (poolIdOf (s'.seq + 1) = "farm-4") &&
               (showq s'.queue == showq h1.queue)
   | .error _ => false)}"

-- non-vacuity for the escrow infos: the community-pool history w3 cut after the two submissions and one block end has
-- two escrow infos (proposal 1 voting, proposal 2 in its deposit period); they are exported in ascending id order,
-- re-imported, and the export is a fixpoint
#eval s!"nonvacuous {
  let s := run w3Genesis (w3Ops.take 3 ++ [.endBlocks 1])
  decide ((exportGenesis s).escrow.map (·.1) = [1, 2]) &&
  (match importGenesis s (exportGenesis s) with
   | .ok s' => Spec.C05.sameObserved s s' && Spec.C05.sameCp s s' && decide ((exportGenesis s').escrow.map (·.1) = [1, 2]) &&
               ((exportGenesis s').escrow.map (·.2.applied) == (exportGenesis s).escrow.map (·.2.applied))
   | .error _ => false)}"
