import Irismod.Props.C20
open Irismod.Props.C20
#print axioms names_agree
#print axioms descriptors_agree
#print axioms single_family_files_are_module_configs
#print axioms msgs_registered_and_signed
#print axioms scalar_customtype_fields_within_known_partial
#print axioms grpc_service_tables_agree
#print axioms wire_roundtrip
#print axioms wire_reencode
#print axioms varint_roundtrip
open Irismod.Wire in
#eval s!"nonvacuous {decodeFields (encodeFields [⟨1, .varint 300⟩, ⟨2, .bytes [1,2,3]⟩, ⟨15, .fixed32 [1,2,3,4]⟩]) == some [⟨1, .varint 300⟩, ⟨2, .bytes [1,2,3]⟩, ⟨15, .fixed32 [1,2,3,4]⟩] && Irismod.Gen.Api.gogoNames.length > 300 && Irismod.Gen.Api.msgs.length > 50 && Irismod.Gen.Api.svcFacts.length > 20}"
