import Irismod.Proofs.TokenMonitor
open Irismod Irismod.Proofs.TokenMonitor
#print axioms c09_monitor_sound
#print axioms accepted_issue
#print axioms accepted_edit
#print axioms accepted_mint
#print axioms accepted_burn
#print axioms accepted_transferOwner
#print axioms accepted_legacyMint
#print axioms accepted_legacyBurn
#print axioms acceptedFails_of_norm
#print axioms C10.c10_accepted_core
#print axioms C10.c10_monitor_sound
#print axioms C10.swapFails_nil
#print axioms C10.swapFails_nil_all
#print axioms C10.logs_expected
#print axioms C12.export_sound
#print axioms C12.export_sound_outside
#print axioms C12.reimport_sound
#print axioms C12.sameState_of_obsEq
-- non-vacuity: the monitors' hypotheses (WF, OwnIdx, Bound, Sound, Reach) hold in the demo states of C09/C10/C12
-- and the monitors evaluate to "no failed clause" on concrete accepted and rejected model steps there
#eval s!"nonvacuous {(Spec.C09.stepFails Props.C09.witnessState (.issue "A0" "abc" "n1" "uabc" 1 2 2 false) true (Token.apply Props.C09.witnessState (.issue "A0" "abc" "n1" "uabc" 1 2 2 false))).isEmpty && (Spec.C09.stepFails Props.C09.witnessState (.edit "A1" "stake" "x" 0 "") false Props.C09.witnessState).isEmpty && accepted Props.C09.witnessState (.issue "A0" "abc" "n1" "uabc" 1 2 2 false) && !(accepted Props.C09.witnessState (.edit "A1" "stake" "x" 0 ""))}"
