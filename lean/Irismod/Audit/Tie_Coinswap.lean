import Irismod.Props.Tie_Coinswap
open Irismod.Props.Tie Irismod.Gen.PureCoinswap Irismod.Sdk
#print axioms coinswap_effects_pinned
#print axioms coinswap_guards_pinned
#print axioms coinswap_all_translated
#print axioms coinswap_translated_pinned
#print axioms GetInputPrice_eq_model
#print axioms GetOutputPrice_eq_model
#print axioms AddLiquidity_mint_eq_model
#print axioms AddLiquidity_mint_first
#print axioms AddLiquidity_deposit_eq_model
#print axioms AddLiquidity_guards
#print axioms RemoveLiquidity_amounts_eq_model
#print axioms Unilateral_fee_factor
#print axioms AddUnilateral_square_eq_model
#print axioms AddUnilateral_mint_eq_model
#print axioms RemoveUnilateral_out_eq_model
#print axioms Liquidity_guards
#print axioms swap_pricing_calls
#print axioms swap_guards
-- the translated functions compute: the six triples of the repository's own TestGetInputPrice/TestGetOutputPrice
-- (fee 0.003) and an overflow panic
#eval s!"nonvacuous {GetInputPrice 100 1000 1000 ⟨3000000000000000⟩ == some 90 && GetInputPrice 200 1000 1000 ⟨3000000000000000⟩ == some 166 && GetOutputPrice 100 1000 1000 ⟨3000000000000000⟩ == some 112 && GetOutputPrice 300 1000 1000 ⟨3000000000000000⟩ == some 430 && GetInputPrice (2^200) 1 (2^100) ⟨3000000000000000⟩ == none && AddLiquidity_depositAmt_1 3000 7 2000 == some 11}"
