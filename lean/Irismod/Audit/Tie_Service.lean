import Irismod.Props.Tie_Service
open Irismod.Props.Tie Irismod.Gen.PureService Irismod.Sdk
#print axioms service_effects_pinned
#print axioms service_guards_pinned
#print axioms service_all_translated
#print axioms service_translated_pinned
#print axioms mulTrunc_eq_library
#print axioms service_tax_and_slash
#eval s!"nonvacuous {AddEarnedFee_taxAmount_1 ⟨"stake", 199⟩ ⟨50000000000000000⟩ == some 9 && Slash_slashedAmt_1 5000 ⟨1000000000000000⟩ == some 5}"
