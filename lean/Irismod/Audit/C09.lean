import Irismod.Props.C09
open Irismod Irismod.Sdk Irismod.Token Irismod.Props.C09
#print axioms wf_genesis
#print axioms wf_step
#print axioms wf_run
#print axioms wf_reachable
#print axioms minUnit_identifies_one_token
#print axioms minUnit_index_injective
#print axioms keeps_step
#print axioms never_rebound_run
#print axioms issue_bound_identity_rejected
#print axioms edit_only_owner
#print axioms mint_only_owner_and_mintable
#print axioms transfer_only_owner
#print axioms edit_by_stranger_rejected
#print axioms transfer_by_stranger_rejected
#print axioms mint_by_stranger_or_unmintable_rejected
#print axioms rejected_unchanged
#print axioms owner_changes_only_by_transfer
#print axioms good_step
#print axioms cap_run
#print axioms good_genesis
#print axioms cap_always
#print axioms max_never_below_circulating
#print axioms former_witness_rejected
#print axioms burned_step
#print axioms burned_tally_run
#print axioms burn_exact
#print axioms fee_split
#print axioms fee_burn_exact
#print axioms issue_module_account_zero
#print axioms mint_module_account_zero
#print axioms issue_fee_split
#print axioms ownidx_step
#print axioms ownidx_genesis
#print axioms ownidx_run
-- non-vacuity: from the witness genesis an owner issues, mints within the cap, a holder burns a fraction,
-- ownership moves and the new owner (only) can edit; the invariant's hypotheses hold along the way
def demoOps : List Op :=
  [.issue "A0" "abc" "n1" "uabc" 1 2 5 true, .mint "A0" "A1" "uabc" 25, .burn "A1" "uabc" 5,
   .transferOwner "A0" "A2" "abc", .edit "A2" "abc" "n2" 5 "false"]
def demo : State := run witnessState demoOps
#eval s!"nonvacuous {supplyOf demo "uabc" == 40 && burnedOf demo "uabc" == 5 && Spec.C09.ownerOf demo "abc" == some "A2" && (step demo (.edit "A0" "abc" "x" 0 "")).toOption.isNone && (step demo (.edit "A2" "abc" "x" 4 "")).toOption.isSome && Spec.C09.wfB demo && Spec.C09.ownIdxB demo}"
