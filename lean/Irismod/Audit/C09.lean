import Irismod.Props.C09
import Irismod.Props.C09_Legacy
open Irismod Irismod.Sdk Irismod.Token Irismod.Props.C09
#print axioms wf_genesis
#print axioms wf_step
#print axioms wf_run
#print axioms wf_reachable
#print axioms minUnit_identifies_one_token
#print axioms minUnit_index_injective
#print axioms keeps_step
#print axioms never_rebound_run
#print axioms issue_bound_identity_rejected
#print axioms edit_only_owner
#print axioms mint_only_owner_and_mintable
#print axioms transfer_only_owner
#print axioms edit_by_stranger_rejected
#print axioms transfer_by_stranger_rejected
#print axioms mint_by_stranger_or_unmintable_rejected
#print axioms rejected_unchanged
#print axioms owner_changes_only_by_transfer
#print axioms good_step
#print axioms cap_run
#print axioms good_genesis
#print axioms cap_always
#print axioms max_never_below_circulating
#print axioms former_witness_rejected
#print axioms burned_step
#print axioms burned_tally_run
#print axioms burn_exact
#print axioms fee_split
#print axioms fee_burn_exact
#print axioms issue_module_account_zero
#print axioms mint_module_account_zero
#print axioms issue_fee_split
#print axioms ownidx_step
#print axioms ownidx_genesis
#print axioms ownidx_run
#print axioms legacy_issue_refines_v1
#print axioms legacy_edit_refines_v1
#print axioms legacy_transfer_owner_refines_v1
#print axioms legacy_mint_refines_v1
#print axioms legacy_burn_refines_v1
#print axioms legacy_edit_only_owner
#print axioms legacy_transfer_only_owner
#print axioms legacy_mint_only_owner_and_mintable
#print axioms legacy_edit_by_stranger_rejected
#print axioms legacy_transfer_by_stranger_rejected
#print axioms legacy_mint_by_stranger_or_unmintable_rejected
#print axioms legacy_max_never_below_circulating
#print axioms legacy_burn_exact
#print axioms legacy_issue_module_account_zero
#print axioms legacy_mint_module_account_zero
#print axioms legacyMinCoin_total
#print axioms legacy_mint_exact
#print axioms legacy_burn_exact_call
#print axioms legacy_unknown_symbol_rejected
#print axioms Irismod.Proofs.Token.step_norm
#print axioms Irismod.Proofs.Token.dec_mul_trunc
-- non-vacuity: from the witness genesis an owner issues, mints within the cap, a holder burns a fraction,
-- ownership moves and the new owner (only) can edit; the invariant's hypotheses hold along the way.
-- The same through the legacy (v1beta1) service, mixed with v1 messages in one history: a legacy issue, a v1
-- fractional burn, a legacy mint up to the cap (room 2.5 main units: 2 accepted, then 1 rejected), a legacy burn,
-- a legacy hand-over after which only the new owner's legacy edit is accepted; a token whose symbol is another
-- token's min unit is resolved by SYMBOL.
def demoOps : List Op :=
  [.issue "A0" "abc" "n1" "uabc" 1 2 5 true, .mint "A0" "A1" "uabc" 25, .burn "A1" "uabc" 5,
   .transferOwner "A0" "A2" "abc", .edit "A2" "abc" "n2" 5 "false"]
def demo : State := run witnessState demoOps
def legacyOps : List Op :=
  [.legacyIssue "A0" "abc" "n1" "uabc" 1 2 5 true, .issue "A0" "abcx" "n2" "abc" 2 7 0 true,
   .burn "A0" "uabc" 5, .legacyMint "A0" "A1" "abc" 3, .legacyMint "A0" "A1" "abc" 1,
   .legacyBurn "A1" "abc" 2, .legacyTransferOwner "A0" "A2" "abc", .legacyEdit "A0" "abc" "x" 4 "",
   .legacyEdit "A2" "abc" "x" 4 "false", .legacyMint "A0" "" "abcx" 1]
def ldemo : State := run witnessState legacyOps
#eval s!"nonvacuous {supplyOf demo "uabc" == 40 && burnedOf demo "uabc" == 5 && Spec.C09.ownerOf demo "abc" == some "A2" && (step demo (.edit "A0" "abc" "x" 0 "")).toOption.isNone && (step demo (.edit "A2" "abc" "x" 4 "")).toOption.isSome && Spec.C09.wfB demo && Spec.C09.ownIdxB demo && supplyOf ldemo "uabc" == 20 - 5 + 30 - 20 && burnedOf ldemo "uabc" == 25 && balOf ldemo "A1" "uabc" == 10 && Spec.C09.ownerOf ldemo "abc" == some "A2" && (AMap.get? ldemo.tokens "abc").map (·.maxSupply) == some 4 && supplyOf ldemo "abc" == 700 + 100 && (step ldemo (.legacyMint "A2" "" "abc" 1)).toOption.isNone && (step ldemo (.legacyBurn "A1" "abc" 1)).toOption.isSome && (step ldemo (.legacyBurn "A1" "abc" 0)).toOption.isNone && Spec.C09.wfB ldemo && Spec.C09.ownIdxB ldemo}"
