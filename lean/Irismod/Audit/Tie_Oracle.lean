import Irismod.Props.Tie_Oracle
open Irismod.Props.Tie Irismod.Gen.PureOracle
#print axioms oracle_effects_pinned
#print axioms oracle_guards_pinned
#print axioms oracle_all_translated
#print axioms oracle_translated_pinned
#print axioms SetFeedValue_trim_eq_model
#print axioms EditFeed_trim_eq_model
#print axioms model_trims
#eval s!"nonvacuous {(SetFeedValue_delta_1 5 3 >>= fun d => SetFeedValue_call_deleteOldestFeedValue_1_arg2 d) == some 3 && (SetFeedValue_delta_1 2 3 >>= fun d => SetFeedValue_call_deleteOldestFeedValue_1_arg2 d) == some 0 && (SetFeedValue_delta_1 0 100 >>= fun d => SetFeedValue_call_deleteOldestFeedValue_1_arg2 d) == some (-99) && EditFeed_call_deleteOldestFeedValue_1_arg2 7 3 == some 4}"
