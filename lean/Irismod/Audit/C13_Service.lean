import Irismod.Props.C13_Service
import Irismod.Props.C08
open Irismod Irismod.Service Irismod.Props.C13S
#print axioms wf_run
#print axioms wf_reachable
#print axioms queue_entries_match_markers
#print axioms one_entry_per_context
#print axioms not_in_both_queues
#print axioms entries_refer_to_contexts
#print axioms active_request_awaits_expiry
#print axioms end_block_total
#print axioms expired_entries_processed
#print axioms expire_removes_exactly_its_entry
#print axioms new_batch_handler_local
#print axioms new_batch_entries_processed
#print axioms new_batch_removes_exactly_its_entry
#print axioms no_stale_entries
#print axioms contexts_well_timed
#print axioms end_block_leaves_only_future_entries
-- non-vacuity: the C08 witness state (a context waiting in the new-batch queue) goes through a block: a request is issued, the entry moves to the expired-batch queue
#eval s!"nonvacuous {let s := endBlock Irismod.Props.C08.w5; s.newQ.isEmpty && s.expQ == [(22, "c")] && s.active.length == 1}"
