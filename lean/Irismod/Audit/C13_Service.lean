import Irismod.Props.C13_Service
import Irismod.Props.C08
import Irismod.Proofs.ServiceMonitor
open Irismod Irismod.Service Irismod.Props.C13S
#print axioms wf_run
#print axioms wf_reachable
#print axioms queue_entries_match_markers
#print axioms one_entry_per_context
#print axioms not_in_both_queues
#print axioms entries_refer_to_contexts
#print axioms active_request_awaits_expiry
#print axioms end_block_total
#print axioms expired_entries_processed
#print axioms expire_removes_exactly_its_entry
#print axioms new_batch_handler_local
#print axioms new_batch_entries_processed
#print axioms new_batch_removes_exactly_its_entry
#print axioms no_stale_entries
#print axioms contexts_well_timed
#print axioms end_block_leaves_only_future_entries
-- non-vacuity: the C08 witness state (a context waiting in the new-batch queue) goes through a block: a request is issued, the entry moves to the expired-batch queue
#eval s!"nonvacuous {let s := endBlock Irismod.Props.C08.w5; s.newQ.isEmpty && s.expQ == [(22, "c")] && s.active.length == 1}"
-- monitor soundness (Proofs/ServiceMonitor*.lean): every clause `drv-service monitor C13` evaluates holds on every model step
#print axioms Irismod.Proofs.ServiceMonitor.monitor_sound
#print axioms Irismod.Proofs.ServiceMonitor.line_inv
#print axioms Irismod.Proofs.ServiceMonitor.line_inv_reset
#print axioms Irismod.Proofs.ServiceMonitor.c13_check_sound
#print axioms Irismod.Proofs.ServiceMonitor.c13_state_sound
#print axioms Irismod.Proofs.ServiceMonitor.c13_next_sound
#print axioms Irismod.Proofs.ServiceMonitor.sinv_apply
#print axioms Irismod.Proofs.ServiceMonitor.awaits_apply
#print axioms Irismod.Proofs.ServiceMonitor.ctxsNodup_apply
#print axioms Irismod.Proofs.ServiceMonitor.markersNodup_apply
#eval s!"nonvacuous monitor {Irismod.Proofs.ServiceMonitor.demoMonitor}"
