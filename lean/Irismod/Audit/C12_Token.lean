import Irismod.Props.C12_Token
open Irismod Irismod.Props.C12.Token
#print axioms tok_genOK_step
#print axioms tok_genOK_run
#print axioms tok_reach
#print axioms tok_export_validates
#print axioms tok_roundtrip
#print axioms tok_queries_preserved
#print axioms tok_import_closed
#print axioms witness9_outcome
#print axioms witness10_outcome
#print axioms witness11_outcome
#print axioms not_FullRoundTrip_max_below_initial
#print axioms not_FullRoundTrip_fee_denom
#print axioms not_FullRoundTrip_ics20_identity
#print axioms tok_roundtrip_reachable_partial
#print axioms tok_import_fails_only_by_fee_denom
-- non-vacuity: a concrete reachable token state (three tokens, a burned tally, a handed-over owner, a bound
-- ERC20 contract, ERC20 balances outstanding, the base-fee denom moved to a user token's symbol) lies outside
-- the three classes and round-trips in the executable model: export validates, import succeeds, re-export is
-- identical, parameters and bank are untouched and the rebuilt indexes are consistent
#eval s!"nonvacuous {demoCheck}"
