import Irismod.Props.C07
open Irismod Irismod.Service Irismod.Props.C07
#print axioms deposit_escrow_step
#print axioms deposit_escrow_reachable
