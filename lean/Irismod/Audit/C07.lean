import Irismod.Props.C07
import Irismod.Proofs.ServiceMonitor
open Irismod Irismod.Service Irismod.Props.C07
#print axioms deposit_escrow_step
#print axioms deposit_escrow_reachable
#print axioms request_escrow_step
#print axioms request_escrow_reachable
#print axioms escrow_kept_by_new_batch_fails
#print axioms charge_eq_fees_partial
#print axioms w4_atomic_deduction
#print axioms respond_fee_split
#print axioms expiry_refund
#print axioms slash_moves_exact_fraction
#print axioms tally_kept_by_withdrawal
#print axioms tally_kept_by_answer
#print axioms w2_withdrawal
#print axioms tally_step
#print axioms tally_reachable
-- non-vacuity: a promotion-free copy of the witness state satisfies the invariants, the due batch is issued, paid (10stake = the fee recorded), answered and the fee split 1 / 9 at 10% tax
#eval s!"nonvacuous {let s0 : State := { w1 with binds := [(("s1", "A0"), { w1bind with pricing := { denom := "stake", amount := 10 } })], params := { tax := ⟨100000000000000000⟩ }, owners := [("A0", "A3")] }; let s1 := newBatch s0 "c"; let rid : ReqId := ⟨"c", 1, 20, 0⟩; s1.active == [rid] && Sdk.Bank.balOf s1.bank reqAcc "stake" == 10 && Sdk.Bank.balOf s1.bank "A5" "stake" == 990 && (match keeperRespond s1 "A0" rid true with | .ok s2 => Sdk.Bank.balOf s2.bank fcAcc "stake" == 1 && AMap.getD s2.earned ("A0", "stake") 0 == 9 && AMap.getD s2.oearned ("A3", "stake") 0 == 9 && Sdk.Bank.balOf s2.bank reqAcc "stake" == 9 | .error _ => false)}"
-- monitor soundness (Proofs/ServiceMonitor*.lean): every clause `drv-service monitor C07` evaluates on an operation line holds on every model step from a state satisfying the line invariant; the invariant (state + monitor memory) is preserved
#print axioms Irismod.Proofs.ServiceMonitor.monitor_sound
#print axioms Irismod.Proofs.ServiceMonitor.line_inv
#print axioms Irismod.Proofs.ServiceMonitor.line_inv_reset
#print axioms Irismod.Proofs.ServiceMonitor.c07_check_sound
#print axioms Irismod.Proofs.ServiceMonitor.c07_state_sound
#print axioms Irismod.Proofs.ServiceMonitor.c07_check_msg_sound
#print axioms Irismod.Proofs.ServiceMonitor.c07_next_sound
#print axioms Irismod.Proofs.ServiceMonitor.sinv_apply
#print axioms Irismod.Proofs.ServiceMonitor.sinv_genesis
#print axioms Irismod.Proofs.ServiceMonitor.step_never_panics
#print axioms Irismod.Proofs.ServiceMonitor.noFcConsumer_apply
#print axioms Irismod.Proofs.ServiceMonitor.ReqsND_apply
-- non-vacuity of the monitor theorems: the four monitors run on the model's own stream of a 28-line history (answers, expiry with slash and refund, withdrawal, pause / start / kill) without a failure
#eval s!"nonvacuous monitor {Irismod.Proofs.ServiceMonitor.demoMonitor}"
