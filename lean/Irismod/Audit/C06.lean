import Irismod.Props.C06
open Irismod Irismod.Sdk Irismod.Farm Irismod.Spec Irismod.Spec.C06 Irismod.Props.C06 Irismod.Proofs.Farm
#print axioms conserved_run
#print axioms refund_once_run
#print axioms refund_pays_remaining
#print axioms release_exact
#print axioms budget_step
#print axioms budget_run
#print axioms payout_step_bound
#print axioms fair_run
#print axioms fairQ_run
#print axioms harvest_independence
#print axioms release_truncation
-- non-vacuity: the F-farm-1 history releases rewards (rule.released = 2 of total 100, remaining 98), books three
-- interactions of A1 with a positive payout, and a destroy afterwards refunds the remaining 98 exactly once
#eval s!"nonvacuous {
  let s := run w1Genesis w1Ops
  let r := ((getPool s "farm-1").getD default).rules.headD default
  let l := AMap.getD s.ledger ("A1", "farm-1", "btc") {}
  let s2 := apply s (.destroyPool "A0" "farm-1")
  let r2 := ((getPool s2 "farm-1").getD default).rules.headD default
  decide (r.released = 2) && decide (r.remaining = 98) && decide (r.total = 100) && decide (l.n = 3) && decide (l.paid = 2) &&
  decide (r2.nRefund = 1) && decide (r2.refunded = 98) && decide (r2.remaining = 0) && decide (s2.bank.balOf "A0" "btc" = 998) &&
  decide ((apply s2 (.destroyPool "A0" "farm-1")).bank.balOf "A0" "btc" = 998)}"
