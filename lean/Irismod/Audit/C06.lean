import Irismod.Props.C06
open Irismod Irismod.Sdk Irismod.Farm Irismod.Spec Irismod.Spec.C06 Irismod.Props.C06 Irismod.Proofs.Farm
#print axioms conserved_run
#print axioms refund_once_run
#print axioms refund_pays_remaining
#print axioms refund_community_pool
#print axioms cp_tally_cases
#print axioms cp_pass_funds_pool
#print axioms cp_refunded
#print axioms cp_fail_deposit_refunded
#print axioms cp_settled_once
#print axioms refund_escrow_never_partial
#print axioms cp_handler_guards_never_fire
#print axioms release_exact
#print axioms budget_step
#print axioms budget_run
#print axioms payout_step_bound
#print axioms fair_run
#print axioms fairQ_run
#print axioms harvest_independence
#print axioms release_truncation
-- non-vacuity: the F-farm-1 history releases rewards (rule.released = 2 of total 100, remaining 98), books three
-- interactions of A1 with a positive payout, and a destroy afterwards refunds the remaining 98 exactly once
#eval s!"nonvacuous {
  let s := run w1Genesis w1Ops
  let r := ((getPool s "farm-1").getD default).rules.headD default
  let l := AMap.getD s.ledger ("A1", "farm-1", "btc") {}
  let s2 := apply s (.destroyPool "A0" "farm-1")
  let r2 := ((getPool s2 "farm-1").getD default).rules.headD default
  decide (r.released = 2) && decide (r.remaining = 98) && decide (r.total = 100) && decide (l.n = 3) && decide (l.paid = 2) &&
  decide (r2.nRefund = 1) && decide (r2.refunded = 98) && decide (r2.remaining = 0) && decide (s2.bank.balOf "A0" "btc" = 998) &&
  decide ((apply s2 (.destroyPool "A0" "farm-1")).bank.balOf "A0" "btc" = 998)}"

-- non-vacuity for community-pool farms (history w3): proposal 1 is in its voting period with its escrow info on
-- record, the pass creates farm-1 with budget 1000 btc + 50 eth and debits the escrow collector by exactly that;
-- proposal 2 is refunded (A0 gets the deposit back, the community pool its 200 btc); after the pool's end its rules
-- are refunded exactly once and the 500 btc left are in the community pool; a second pass / a reject change nothing;
-- the C06 monitor accepts every step
#eval s!"nonvacuous {
  let s3 := run w3Genesis (w3Ops.take 3)
  let s4 := run w3Genesis (w3Ops.take 4)
  let s5 := run w3Genesis (w3Ops.take 5)
  let s7 := run w3Genesis (w3Ops.take 7)
  let r := ((getPool s7 "farm-1").getD default).rules
  ((AMap.get? s3.cp.props 1).map (·.status) == some .voting) && (AMap.get? s3.cp.escrow 1).isSome &&
  ((AMap.get? s4.cp.props 1).map (·.status) == some .passed) && (AMap.get? s4.cp.escrow 1).isNone &&
  decide (s4.bank.balOf escrowAcc "btc" + 1000 = s3.bank.balOf escrowAcc "btc") && decide (s4.bank.balOf farmAcc "btc" = 1000) &&
  decide (s4.bank.balOf farmAcc "eth" = 50) && decide (s4.bank.balOf "A0" "stake" = s3.bank.balOf "A0" "stake" + 10000000) &&
  (AMap.get? s5.cp.props 2).isNone && decide (Spec.C05.cpoolOf s5 "btc" = Spec.C05.cpoolOf s4 "btc" + 200 * decUnit) &&
  decide (s5.bank.balOf "A0" "stake" = s4.bank.balOf "A0" "stake" + 100000) &&
  (r.all fun x => x.nRefund == 1 && x.remaining == 0) && decide (Spec.C05.cpoolOf s7 "btc" = 4500 * decUnit) &&
  (apply (apply s7 (.cpPass 1)) (.cpReject 1)).bank.bal == s7.bank.bal &&
  ((List.range 9).foldl (fun (acc : Mon × Bool) k =>
     let pre := run w3Genesis (w3Ops.take k)
     let op := w3Ops.getD k (.endBlocks 1)
     let post := apply pre op
     let res := match op with
       | .cpPass pid | .cpReject pid => if govDue pre pid false then "ok" else "rej"
       | .cpFailDeposit pid => if govDue pre pid true then "ok" else "rej"
       | _ => "ok"
     let r := check acc.1 pre op res post
     (r.1, acc.2 && r.2.isEmpty)) (Mon.init w3Genesis, true)).2}"
