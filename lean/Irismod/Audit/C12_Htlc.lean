import Irismod.Props.C12_Htlc
import Irismod.Props.C12_HtlcRestart
import Irismod.Proofs.HtlcGenesisMonitor
open Irismod Irismod.Sdk Irismod.Htlc Irismod.HtlcGen Irismod.Spec.C12Htlc Irismod.Props.C12.Htlc
-- reachable states are well formed
#print axioms htlc_wf_fresh
#print axioms htlc_wf_step
#print axioms htlc_wf_run
-- the export validates (F-gen-1 fixed)
#print axioms htlc_export_validates
#print axioms htlc_export_validates_reachable
#print axioms htlc_regression_gen1
#print axioms htlc_htlt_timestamp_rule
-- the import: exactly outside the class F-gen-5
#print axioms htlc_import_succeeds
#print axioms htlc_import_fails_in_class
#print axioms htlc_import_iff
#print axioms htlc_roundtrip_fails_gen5
#print axioms htlc_importable_without_params_update
-- what the restarted chain answers
#print axioms htlc_queries_preserved
#print axioms htlc_queries_spelled_out
#print axioms htlc_export_fixpoint
#print axioms htlc_inv_roundTrip
#print axioms htlc_inv_roundTrip_exact
#print axioms htlc_roundtrip_twice
#print axioms htlc_roundtrip_reachable
-- C03 / C04 / C13 after a restart from genesis (any history after the re-import)
#print axioms htlc_restart_inv
#print axioms htlc_restart_same_verdict
#print axioms htlc_restart_block_total
#print axioms htlc_restart_queue
#print axioms htlc_restart_escrow
#print axioms htlc_restart_counters
#print axioms htlc_restart_reachable
-- soundness of the monitor clauses `drv-htlc monitor C12` evaluates
#print axioms Irismod.Proofs.HtlcGen.checkExport_sound
#print axioms Irismod.Proofs.HtlcGen.checkReimport_sound
#print axioms Irismod.Proofs.HtlcGen.checkReimport_in_class

/-! non-vacuity: a concrete history in the executable model — a supported asset, a block (supply
record), a plain HTLC without a timestamp, an incoming transfer that is claimed (current supply 60),
an outgoing transfer left open (current + outgoing > limit = 100), a plain contract that expires
(closed: dropped by the export) — is outside the class F-gen-5; its export validates, re-imports, is
a fixpoint, keeps the open contracts / queue / supplies / bank and satisfies the monitor's
invariants; and the F-gen-5 witness is refused. -/
def nvAsset : Asset :=
  { denom := "htltaaa", limit := 100, timeLimited := true, period := 3600000000000, tbLimit := 100, active := true,
    deputy := "A4", fixedFee := 0, minSwap := 1, maxSwap := 100, minLock := 50, maxLock := 34560 }
def nvLock (ts : Nat) : String := genLock "00000000000000000000000000000000000000000000000000000000000000cc" ts
def nvStart : State :=
  { params := [nvAsset], prevTime := some 1700000000000000000, height := 10, time := 1700000000000000000,
    bank := { bal := [(("A0", "stake"), 100)], supply := [("stake", 100)] } }
def nvOps : List Op :=
  [.beginBlock 11 1700000005000000000,
   .create "A0" "A1" [("stake", 7)] (nvLock 0) 0 50 false,
   .create "A0" "A2" [("stake", 3)] (nvLock 5) 5 50 false,
   .create "A4" "A0" [("htltaaa", 60)] (nvLock 1700000000) 1700000000 60 true,
   .claim "A3" (genId (nvLock 1700000000) "A4" "A0" [("htltaaa", 60)]) "00000000000000000000000000000000000000000000000000000000000000cc",
   .create "A0" "A4" [("htltaaa", 45)] (nvLock 1700000001) 1700000001 70 true,
   .claim "A1" (genId (nvLock 5) "A0" "A2" [("stake", 3)]) "00000000000000000000000000000000000000000000000000000000000000cc"]
def nv : State := run nvStart nvOps
def nvCheck : Bool :=
  nv.htlcs.length == 4 && (openView nv).htlcs.length == 2 && importableB nv &&
  (Irismod.Spec.C04.supOf nv "htltaaa").current == 60 && (Irismod.Spec.C04.supOf nv "htltaaa").outgoing == 45 &&
  validateGenesis (exportGenesis 0 nv) &&
  (match importGenesis nv (exportGenesis 0 nv) with
   | .ok s' =>
     checkReimport nv "ok" "1" s' == [] &&
     decide ((exportGenesis 0 s').htlcs = (exportGenesis 0 nv).htlcs) && s'.queue.length == 2 &&
     (Irismod.Spec.C04.supOf s' "htltaaa").current == 60
   | .error _ => false) &&
  !importableB (run g5Start g5Ops) && modelImportFails (run g5Start g5Ops)
#eval s!"nonvacuous {nvCheck}"
