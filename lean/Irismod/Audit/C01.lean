import Irismod.Props.C01
import Irismod.Proofs.CoinswapMonitor
open Irismod Irismod.Sdk Irismod.Coinswap Irismod.Spec.C01 Irismod.Props.C01
#print axioms isqrt_spec
#print axioms input_price_rule
#print axioms exact_in_maximal
#print axioms output_price_rule
#print axioms exact_out_within_one
#print axioms swap_single_priced
#print axioms swap_double_priced
#print axioms step_good
#print axioms share_value_mono
#print axioms inv_apply
#print axioms inv_init
#print axioms share_value_mono_run
#print axioms share_value_every_step
#print axioms Irismod.Proofs.Coinswap.ck_eq_chkInt
#print axioms Irismod.Proofs.CoinswapMonitor.c01_monitor_sound
#print axioms Irismod.Proofs.CoinswapMonitor.price_monitor_sound

/-- a concrete non-trivial history: create two pools, trade (single, routed, exact-out), add,
one-sided add, donate, one-sided remove, remove -/
def demoInit : State :=
  { std := "stake", seq := 1, now := 1000000000,
    params := { fee := 3000000000000000, tax := 400000000000000000, ufee := 2000000000000000, pcfDenom := "stake", pcfAmt := 5000 },
    bank := { bal := [(("A0", "stake"), 100000000), (("A0", "btc"), 100000000), (("A0", "eth"), 100000000),
                      (("A1", "stake"), 100000000), (("A1", "btc"), 100000000)],
              supply := [("stake", 200000000), ("btc", 200000000), ("eth", 100000000)] } }

def demoOps : List Op :=
  [.add "A0" "btc" 2000000 1000000 1000000 100, .add "A0" "eth" 3000000 1000000 1 100,
   .swap "A1" "A1" "stake" 5000 "btc" 1 false 100, .swap "A1" "A1" "btc" 7000 "eth" 1 false 100,
   .swap "A1" "A0" "btc" 9000 "stake" 4000 true 100, .add "A1" "btc" 5000000 500000 1 100,
   .add1 "A1" "btc" "btc" 12345 1 100, .donate "A1" "P1" "stake" 777, .rem1 "A1" "btc" "stake" 1 1000 100,
   .remove "A0" "lpt-1" 400000 1 1 100]

def demoTrace : List State := demoOps.foldl (fun acc op => acc ++ [apply (acc.getLast?.getD demoInit) op]) [demoInit]

-- non-vacuity: every message of the demo is accepted, both pools keep shares outstanding, the share value
-- of pool 1 strictly rises over the history and never falls at any step
#eval s!"nonvacuous {(demoOps.foldl (fun (acc : State × Bool) op => (apply acc.1 op, acc.2 && (step acc.1 op).isOk)) (demoInit, true)).2 && (decide (0 < shares (run demoInit demoOps) 1)) && (decide (0 < shares (run demoInit demoOps) 2)) && (demoTrace.zip (demoTrace.drop 1)).all (fun p => shareLEb (view p.1 "btc" 1) (view p.2 "btc" 1) && poolInvB (view p.2 "btc" 1)) && !(shareLEb (view (run demoInit demoOps) "btc" 1) (view (apply (apply demoInit (demoOps.getD 0 (.block 0))) (demoOps.getD 1 (.block 0))) "btc" 1))}"
