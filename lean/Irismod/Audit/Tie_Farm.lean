import Irismod.Props.Tie_Farm
open Irismod.Props.Tie Irismod.Gen.PureFarm Irismod.Sdk
#print axioms farm_effects_pinned
#print axioms farm_guards_pinned
#print axioms farm_all_translated
#print axioms farm_translated_pinned
#print axioms updatePool_blockInterval_eq
#print axioms updatePool_guards
#print axioms collectRule_eq_translation
#print axioms shareOf_eq_translation
#print axioms CaclRewards_pending_and_locked
#print axioms CaclRewards_debt_eq
#print axioms AdjustPool_heights_eq_model
#print axioms AdjustPool_interval_step_eq_model
#print axioms AdjustPool_topup_eq_model
-- one release of 7 per block over 3 blocks with 2 locked: rps grows by 10.5, 21 leave the budget; the share of 3 locked
#eval s!"nonvacuous {releaseIteration 7 100 ⟨0⟩ 3 2 == some (⟨10500000000000000000⟩, 79) && releaseIteration 7 20 ⟨0⟩ 3 2 == none && CaclRewards_pendingRewardTotal_1 ⟨10500000000000000000⟩ 3 == some 31}"
-- AdjustPool: 90 remaining at 4 per block last 22 blocks; a zero rate panics; end height 100 → 50+22
#eval s!"nonvacuous-adjust {AdjustPool_inteval_1 90 4 == some 22 && AdjustPool_inteval_1 90 0 == none && AdjustPool_expiredHeight_1 50 22 == some 72 && AdjustPool_remainingHeight_1 100 50 == some 50}"
