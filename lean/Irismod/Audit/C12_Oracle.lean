import Irismod.Props.C12_Oracle
import Irismod.Sdk.Line
open Irismod Irismod.Oracle Irismod.OracleGen Irismod.Props.C12.Oracle Irismod.Proofs.OracleGen
#print axioms oracle_ginv_init
#print axioms oracle_ginv_step
#print axioms oracle_ginv_run
#print axioms oracle_ginv_reachable
#print axioms oracle_export_validates
#print axioms oracle_import_succeeds
#print axioms oracle_feeds_preserved
#print axioms oracle_index_rebuilt
#print axioms oracle_index_preserved
#print axioms oracle_completed_lands_paused
#print axioms oracle_values_collapse
#print axioms oracle_values_key
#print axioms oracle_short_history_preserved
#print axioms oracle_roundtrip_partial
#print axioms oracle_inv_roundTrip
#print axioms oracle_export_fixpoint
#print axioms oracle_roundtrip_fails_full
#print axioms Irismod.Proofs.OracleGen.get?_storeOrder
#print axioms Irismod.Proofs.OracleGen.asc_storeOrder
#print axioms Irismod.Proofs.OracleGen.importVals_nil

/-- a concrete history in the executable model: two feeds with prefix-related names (created out of store
order), both started, `f1` completes three batches (it keeps 3 values), `f1x` one, `f1x` is paused again -/
def hOps : List Op :=
  [ .create { name := "f1x", creator := "A1", agg := "avg", path := "data.price", hist := 1, desc := "d1", service := "price",
              providers := ["P2"], thr := 1, timeout := 2, freq := 2, cap := .coin 100 "stake", input := "ok" },
    .create { name := "f1", creator := "A0", agg := "max", path := "last", hist := 3, desc := "", service := "price",
              providers := ["P0", "P1"], thr := 1, timeout := 1, freq := 1, cap := .coin 100 "stake", input := "ok" },
    .start "f1" "A0", .start "f1x" "A1",
    .block 5 [],
    .respond true [.done "f1" 1 1 ["n1.5", "n-1"]],
    .block 5 [.done "f1x" 1 1 ["n12"]],
    .respond true [.done "f1" 2 1 ["n2"]],
    .block 5 [],
    .respond true [.done "f1" 3 1 ["n-3"]],
    .pause "f1x" "A1" ]
def h1 : State := run { now := 1700000000000000000 } hOps
def ok? : R → Option State
  | .ok s => some s
  | .error _ => none
def idx (l : List Name) : List String := Irismod.Line.sortStrings l.eraseDups
def creatorOk : Addr → Bool := Spec.C12Oracle.symbolicAddr
def bOf : Name → Nat := fun n => if n = "f1" then 4 else 1

-- non-vacuity: the history is accepted and non-trivial (two feeds, 3 and 1 stored values, one running and one
-- paused context); the export lists the feeds in store order with the values newest first and validates; the
-- import succeeds; feeds, contexts and index are what they were; `f1` shows only its OLDEST value (stored under
-- the current batch counter 4), `f1x` keeps its single value; a batch completing after the import is appended;
-- the second round trip changes nothing (same export, same stored entries)
#eval s!"nonvacuous {decide ((viewOf h1 "f1").map (·.data) = ["-3.00000000", "2.00000000", "1.50000000"]) &&
  decide ((viewOf h1 "f1x").map (·.data) = ["12.00000000"]) &&
  decide (idx h1.running = ["f1"]) && decide (idx h1.paused = ["f1x"]) &&
  decide ((exportGenesis h1).map (·.name) = ["f1", "f1x"]) &&
  decide ((exportGenesis h1).map (·.values.length) = [3, 1]) &&
  decide ((exportGenesis h1).map (·.state) = [.running, .paused]) &&
  validateGenesis creatorOk (exportGenesis h1) &&
  (match ok? (reimport creatorOk bOf h1) with
   | some s1 =>
     decide (s1.feeds = [("f1", (AMap.get? h1.feeds "f1").getD default), ("f1x", (AMap.get? h1.feeds "f1x").getD default)]) &&
     decide (s1.ctxs = h1.ctxs) && decide (idx s1.running = ["f1"]) && decide (idx s1.paused = ["f1x"]) &&
     decide ((valuesOf s1 "f1").map (fun e => (e.1, e.2.data)) = [(4, "1.50000000")]) &&
     decide (viewOf s1 "f1x" = viewOf h1 "f1x") &&
     Spec.C17.mirrorB s1 && Spec.C17.boundedB s1 &&
     decide ((viewOf (apply s1 (.respond true [.done "f1" 5 1 ["n7"]])) "f1").map (·.data) = ["7.00000000", "1.50000000"]) &&
     decide ((viewOf (apply s1 (.respond true [.done "f1" 4 1 ["n7"]])) "f1").map (·.data) = ["7.00000000"]) &&
     (match ok? (reimport creatorOk bOf s1) with
      | some s2 => decide (exportGenesis s2 = exportGenesis s1) && decide (s2.feeds = s1.feeds) &&
                   decide (valuesOf s2 "f1" = valuesOf s1 "f1") && decide (viewOf s2 "f1x" = viewOf s1 "f1x")
      | none => false)
   | none => false)}"
