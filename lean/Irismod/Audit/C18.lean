import Irismod.Props.C13_Random
import Irismod.Proofs.RandomMonitor
open Irismod Irismod.Random Irismod.Props.C18
#print axioms request_enqueued
#print axioms request_due_height
#print axioms overflowing_interval_rejected
#print axioms queueInv_step
#print axioms queueInv_reachable
#print axioms queueInv_init
#print axioms no_stale_entries
#print axioms beginBlock_drains_due
#print axioms beginBlock_fulfils_due
#print axioms pending_until_due
#print axioms absent_after_due
#print axioms height_monotone
#print axioms value_in_unit_interval
#print axioms prng_defined_iff
#print axioms result_changes_only_by_same_id
#print axioms same_id_same_request
#print axioms result_never_overwritten_by_distinct_request
#print axioms beginBlockTotal_false
#print axioms beginBlockTotal_partial
#print axioms beginBlock_error_only_zero_time
#print axioms cbResponse_drops_request
#print axioms cbResponse_failure_no_random
#print axioms cbResponse_total
#print axioms Irismod.Props.C13Random.beginBlock_total
#print axioms Irismod.Props.C13Random.beginBlock_aborts_only_at_zero_time
#print axioms Irismod.Props.C13Random.each_due_request_processed
#print axioms Irismod.Props.C13Random.entry_survives_other_steps
#print axioms Irismod.Props.C13Random.queue_hygiene_reachable
-- non-vacuity: three requests from two consumers (one consumer in two different blocks), all due at height 6, fulfilled by block 7 with values in [0,1); and the zero-time witness really panics
#eval s!"nonvacuous {demoNonvacuous}"
-- monitor soundness: everything `drv-random monitor C18` evaluates is `Spec.C18Mon.stepFails`; on the model's own observation it reports nothing but the known finding F-rnd-1 where its exclusion hypothesis is violated (Proofs/RandomMonitor.lean)
#print axioms Irismod.Proofs.RandomMonitor.monitor_sound
#print axioms Irismod.Proofs.RandomMonitor.line_inv
#print axioms Irismod.Proofs.RandomMonitor.line_inv_reset
#print axioms Irismod.Proofs.RandomMonitor.model_step_inv
#print axioms Irismod.Proofs.RandomMonitor.post_tracks_model
#print axioms Irismod.Proofs.RandomMonitor.lineInv_of_queueInv
#print axioms Irismod.Proofs.RandomMonitor.lineInv_of_B
#print axioms Irismod.Proofs.RandomMonitor.isDigits20_valueString
-- non-vacuity of the monitor theorems: a history with every line kind (requests, genesis import, export / reimport, begin blocks, service end block, seed response, environment break, PRNG, zero-height restart) on which every carried state satisfies the invariant and the monitors of C18 / C13 / C12 are silent on the model's observations, ending in a zero-time begin block that yields exactly the F-rnd-1 failure
#eval s!"nonvacuous {Irismod.Proofs.RandomMonitor.demoMonitor}"
