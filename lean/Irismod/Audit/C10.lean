import Irismod.Props.C10
open Irismod Irismod.Sdk Irismod.Token Irismod.Props.C10
#print axioms minted_le_burned_value
#print axioms full_value
#print axioms burned_le_offered
#print axioms minted_nonneg
#print axioms exact_at_ratio_one
#print axioms former_rounding_witness
#print axioms former_ratio_above_one_witness
#print axioms former_negative_burn_witness
#print axioms former_truncated_burn_witness
#print axioms sound_step
#print axioms sound_run
#print axioms swap_to_erc20_exact
#print axioms swap_from_erc20_exact
#print axioms hook_swap_exact
#print axioms failed_conversion_unchanged
#print axioms faulty_mint_rejected
#print axioms faulty_burn_rejected
#print axioms swap_fee_exact
#print axioms hook_conserves
#print axioms conversion_step
#print axioms evm_tx_target_irrelevant
#print axioms log_of_unbound_emitter_ignored
#print axioms log_of_bound_emitter_exact
#print axioms evm_tx_conserves
#print axioms conversions_conserve
#print axioms boundinv_step
#print axioms boundinv_genesis
#print axioms boundinv_run
-- non-vacuity: a token is issued, bound to a contract, converted to ERC20 and back (message and hook),
-- a misbehaving contract makes the conversion fail, and a registered fee-token swap at ratio 1 is exact
def demoEnv : Env := { blocked := ["FC"], registry := [("uabc", ("wei", ⟨1000000000000000000⟩))] }
def demo0 : State :=
  genesis { bal := [(("A0", "stake"), 1000000)], supply := [("stake", 1000000)] } { beacon := true } demoEnv
def demoOps : List Op :=
  [.issue "A0" "abc" "n1" "uabc" 6 5 0 true, .issue "A0" "eth" "n2" "wei" 18 0 0 true,
   .deploy "GOV" "erc" "abc" "uabc" 6, .swapToErc20 "A0" "E1" "uabc" 3000001, .swapToErc20 "A0" "A1" "uabc" 7,
   .swapFromErc20 "A1" "A2" "uabc" 5, .hookSwap "E1" 1 "A3" 1, .swapFee "A0" "" "uabc" 1000000,
   .evmTx (.u 0) [{ emitter := .u 1, src := "E1", rcv := "A3", amount := 77 }, { emitter := .k 1, src := "E1", rcv := "A3", amount := 2 }]]
def demo : State := run demo0 demoOps
#eval s!"nonvacuous {supplyOf demo "uabc" == 5000000 - 3000001 - 7 + 5 + 1 - 1000000 + 2 && Spec.C10.evmTotal demo 1 == 3000001 + 7 - 5 - 1 - 2 && balOf demo "A2" "uabc" == 5 && balOf demo "A3" "uabc" == 3 && balOf demo "A0" "wei" == 1000000000000000000 && (step { demo with fault := "mint_noop" } (.swapToErc20 "A0" "E1" "uabc" 1)).toOption.isNone && (step demo (.swapToErc20 "A0" "E1" "uabc" 1)).toOption.isSome && lossLess 1234567 ⟨1000000000000000000⟩ 6 2 == some (1230000, 123)}"
