import Irismod.Props.C10
open Irismod Irismod.Sdk Irismod.Token Irismod.Props.C10
#print axioms minted_le_burned_value
#print axioms full_value
#print axioms burned_le_offered
#print axioms minted_nonneg
#print axioms exact_at_ratio_one
#print axioms former_rounding_witness
#print axioms former_ratio_above_one_witness
#print axioms former_negative_burn_witness
#print axioms former_truncated_burn_witness
#print axioms sound_step
#print axioms sound_run
#print axioms swap_to_erc20_exact
#print axioms swap_from_erc20_exact
#print axioms hook_swap_exact
#print axioms failed_conversion_unchanged
#print axioms faulty_mint_rejected
#print axioms faulty_burn_rejected
#print axioms swap_fee_exact
#print axioms hook_conserves
#print axioms conversion_step
#print axioms evm_tx_target_irrelevant
#print axioms log_of_unbound_emitter_ignored
#print axioms log_of_bound_emitter_exact
#print axioms evm_tx_conserves
#print axioms conversions_conserve
#print axioms boundinv_step
#print axioms boundinv_genesis
#print axioms boundinv_run
#print axioms upgrade_only_authority
#print axioms upgrade_by_stranger_rejected
#print axioms upgrade_changes_no_ledger
#print axioms upgrade_without_code_rejected
#print axioms impl_changes_only_by_upgrade
#print axioms legacy_leaves_erc20_untouched
-- non-vacuity: a token is issued, bound to a contract, converted to ERC20 and back (message and hook),
-- a misbehaving contract makes the conversion fail, and a registered fee-token swap at ratio 1 is exact
def demoEnv : Env := { blocked := ["FC"], registry := [("uabc", ("wei", ⟨1000000000000000000⟩))] }
def demo0 : State :=
  genesis { bal := [(("A0", "stake"), 1000000)], supply := [("stake", 1000000)] } { beacon := true } demoEnv
def demoOps : List Op :=
  [.issue "A0" "abc" "n1" "uabc" 6 5 0 true, .issue "A0" "eth" "n2" "wei" 18 0 0 true,
   .deploy "GOV" "erc" "abc" "uabc" 6, .swapToErc20 "A0" "E1" "uabc" 3000001, .swapToErc20 "A0" "A1" "uabc" 7,
   .swapFromErc20 "A1" "A2" "uabc" 5, .hookSwap "E1" 1 "A3" 1, .swapFee "A0" "" "uabc" 1000000,
   .evmTx (.u 0) [{ emitter := .u 1, src := "E1", rcv := "A3", amount := 77 }, { emitter := .k 1, src := "E1", rcv := "A3", amount := 2 }],
   .upgradeErc20 "A0" "I1", .upgradeErc20 "GOV" "E1", .upgradeErc20 "GOV" "K2", .upgradeErc20 "GOV" "I2", .upgradeErc20 "GOV" "K1",
   .legacyBurn "A2" "abc" 0, .legacyMint "A0" "A2" "abc" 1]
def demo : State := run demo0 demoOps
-- (the upgrades: a stranger, an address without code and a contract that does not exist are rejected; I2 and then
-- the existing contract K1 are accepted and change nothing but the implementation; the legacy mint of 1 main unit
-- credits 10^6 min units and leaves the ERC20 ledger alone)
#eval s!"nonvacuous {demo.impl == "K1" && (run demo0 (demoOps.take 12)).impl == "I0" && (run demo0 (demoOps.take 13)).impl == "I2" && balOf demo "A2" "uabc" == 5 + 1000000 && supplyOf demo "uabc" == 5000000 - 3000001 - 7 + 5 + 1 - 1000000 + 2 + 1000000 && Spec.C10.evmTotal demo 1 == 3000001 + 7 - 5 - 1 - 2 && balOf demo "A3" "uabc" == 3 && balOf demo "A0" "wei" == 1000000000000000000 && (step { demo with fault := "mint_noop" } (.swapToErc20 "A0" "E1" "uabc" 1)).toOption.isNone && (step demo (.swapToErc20 "A0" "E1" "uabc" 1)).toOption.isSome && lossLess 1234567 ⟨1000000000000000000⟩ 6 2 == some (1230000, 123)}"
