import Irismod.Props.C13_Random
import Irismod.Proofs.RandomMonitor
open Irismod
#print axioms Irismod.Props.C13Random.beginBlock_total
#print axioms Irismod.Props.C13Random.beginBlock_aborts_only_at_zero_time
#print axioms Irismod.Props.C13Random.each_due_request_processed
#print axioms Irismod.Props.C13Random.entry_survives_other_steps
#print axioms Irismod.Props.C13Random.queue_hygiene_reachable
-- monitor soundness: everything `drv-random monitor C13` evaluates is `Spec.C18Mon.stepFails`; on the model's own observation it reports nothing but the known finding F-rnd-1 where its exclusion hypothesis is violated (Proofs/RandomMonitor.lean)
#print axioms Irismod.Proofs.RandomMonitor.monitor_sound
#print axioms Irismod.Proofs.RandomMonitor.line_inv
#print axioms Irismod.Proofs.RandomMonitor.line_inv_reset
#print axioms Irismod.Proofs.RandomMonitor.model_step_inv
#print axioms Irismod.Proofs.RandomMonitor.post_tracks_model
#eval s!"nonvacuous {Irismod.Proofs.RandomMonitor.demoMonitor}"
