import Irismod.Props.C13_Random
open Irismod
#print axioms Irismod.Props.C13Random.beginBlock_total
#print axioms Irismod.Props.C13Random.beginBlock_aborts_only_at_zero_time
#print axioms Irismod.Props.C13Random.each_due_request_processed
#print axioms Irismod.Props.C13Random.entry_survives_other_steps
#print axioms Irismod.Props.C13Random.queue_hygiene_reachable
