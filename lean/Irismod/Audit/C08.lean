import Irismod.Props.C08
import Irismod.Proofs.ServiceMonitor
open Irismod Irismod.Service Irismod.Props.C08
#print axioms respond_only_addressee_while_active
#print axioms respond_inactive_rejected
#print axioms respond_stranger_rejected
#print axioms rejected_unchanged
#print axioms control_only_by_consumer
#print axioms update_only_by_consumer
#print axioms module_control_only_by_consumer
#print axioms paused_issues_nothing
#print axioms batch_expiry_height
#print axioms next_batch_height
#print axioms schedule_law
#print axioms one_shot_removed
#print axioms total_reached_removed
#print axioms paused_left_alone
#print axioms callback_once_per_completion
#print axioms due_entry_processed
#print axioms new_phase_leaves_no_due_entry
#print axioms below_total_run
#print axioms no_batch_beyond_total
#print axioms start_respects_total
#print axioms no_reactivation
#print axioms active_issued_in_past
#print axioms answered_is_final
#print axioms expires_at_expiration_height
#print axioms not_expired_before_its_height
#print axioms no_stale_entry_step
-- non-vacuity: in the witness state the due batch is issued (a request becomes active), answering it is accepted exactly once
#eval s!"nonvacuous {let s := newBatch w5 "c"; let rid : ReqId := ⟨"c", 2, 20, 0⟩; s.active == [rid] && (match stepRespond s "A0" (some rid) 200 .good true with | .ok s' => s'.active.isEmpty && (match stepRespond s' "A0" (some rid) 200 .good true with | .ok _ => false | .error _ => true) | .error _ => false)}"
-- monitor soundness (Proofs/ServiceMonitor*.lean): every clause `drv-service monitor C08` evaluates holds on every model step; outcome memory (M08a) and schedule memory (M08b) invariants are preserved
#print axioms Irismod.Proofs.ServiceMonitor.monitor_sound
#print axioms Irismod.Proofs.ServiceMonitor.line_inv
#print axioms Irismod.Proofs.ServiceMonitor.line_inv_reset
#print axioms Irismod.Proofs.ServiceMonitor.c08_check_sound
#print axioms Irismod.Proofs.ServiceMonitor.c08_outcome_sound
#print axioms Irismod.Proofs.ServiceMonitor.c08_authority_sound
#print axioms Irismod.Proofs.ServiceMonitor.c08_counters_sound
#print axioms Irismod.Proofs.ServiceMonitor.c08_schedule_next_sound
#print axioms Irismod.Proofs.ServiceMonitor.c08_schedule_inv
#print axioms Irismod.Proofs.ServiceMonitor.c08_callbacks_sound
#print axioms Irismod.Proofs.ServiceMonitor.isort_eq_of_perm
#print axioms Irismod.Proofs.ServiceMonitor.sinv_apply
#eval s!"nonvacuous monitor {Irismod.Proofs.ServiceMonitor.demoMonitor}"
