/- REGENERATED on every run by extract/x_pure from /repo's working tree. Do not edit. -/
import Irismod.Sdk.GoSem
namespace Irismod.Gen.PureFarm
open Irismod.Sdk Irismod.GoSem

/-- rejects when true: `height < pool.LastHeightDistrRewards` -/
def updatePool_guard_1 (height : Int) (pool_LastHeightDistrRewards : Int) : Option (Bool) := do
  some (decide (height < pool_LastHeightDistrRewards))

/-- rejects when true: `len(rules) == 0` -/
def updatePool_guard_2 (read_len_rules : Int) : Option (Bool) := do
  some (read_len_rules == (0 : Int))

/-- branch condition: `height > pool.LastHeightDistrRewards && pool.TotalLptLocked.Amount.GT(math.ZeroInt())` -/
def updatePool_cond_3 (height : Int) (pool_LastHeightDistrRewards : Int) (pool_TotalLptLocked : Coin) : Option (Bool) := do
  some ((decide (height > pool_LastHeightDistrRewards)) && (Int_GT pool_TotalLptLocked.amount ZeroInt))

def updatePool_blockInterval_1 (height : Int) (pool_LastHeightDistrRewards : Int) : Option (Int) := do
  some (I64_Sub height pool_LastHeightDistrRewards)

def updatePool_rewardCollected_1 (rules_i_RewardPerBlock : Int) (blockInterval : Int) : Option (Int) := do
  let t1 ← Int_Mul rules_i_RewardPerBlock blockInterval
  some t1

/-- rejects when true: `rules[i].RemainingReward.LT(rewardCollected)` -/
def updatePool_guard_4 (rules_i_RemainingReward : Int) (rewardCollected : Int) : Option (Bool) := do
  some (Int_LT rules_i_RemainingReward rewardCollected)

def updatePool_newRewardPerShare_1 (rewardCollected : Int) (pool_TotalLptLocked : Coin) : Option (Dec) := do
  let t1 ← Dec_QuoInt (LegacyNewDecFromInt rewardCollected) pool_TotalLptLocked.amount
  some t1

def updatePool_rules_i_RewardPerShare_1 (rules_i_RewardPerShare : Dec) (newRewardPerShare : Dec) : Option (Dec) := do
  let t1 ← Dec_Add rules_i_RewardPerShare newRewardPerShare
  some t1

def updatePool_rules_i_RemainingReward_1 (rules_i_RemainingReward : Int) (rewardCollected : Int) : Option (Int) := do
  let t1 ← Int_Sub rules_i_RemainingReward rewardCollected
  some t1

/-- branch condition: `rewardTotal.IsAllPositive()` -/
def updatePool_cond_5 (read_rewardTotal_IsAllPositive : Bool) : Option (Bool) := do
  some read_rewardTotal_IsAllPositive

/-- branch condition: `isDestroy` -/
def updatePool_cond_6 (isDestroy : Bool) : Option (Bool) := do
  some isDestroy

/-- branch condition: `pool.StartHeight > pool.EndHeight` -/
def updatePool_cond_7 (pool_StartHeight : Int) (pool_EndHeight : Int) : Option (Bool) := do
  some (decide (pool_StartHeight > pool_EndHeight))

/-- rejects when true: `!pool.Editable` -/
def AdjustPool_guard_1 (pool_Editable : Bool) : Option (Bool) := do
  some (!pool_Editable)

/-- rejects when true: `creator.String() != pool.Creator` -/
def AdjustPool_guard_2 (read_creator_String : String) (pool_Creator : String) : Option (Bool) := do
  some (read_creator_String != pool_Creator)

/-- rejects when true: `k.Expired(ctx, pool)` -/
def AdjustPool_guard_3 (read_k_Expired_ctx_pool : Bool) : Option (Bool) := do
  some read_k_Expired_ctx_pool

def AdjustPool_startHeight_1 (pool_StartHeight : Int) : Option (Int) := do
  some pool_StartHeight

/-- branch condition: `pool.Started(ctx)` -/
def AdjustPool_cond_4 (read_pool_Started_ctx : Bool) : Option (Bool) := do
  some read_pool_Started_ctx

def AdjustPool_startHeight_2 (read_ctx_BlockHeight : Int) : Option (Int) := do
  some read_ctx_BlockHeight

/-- argument 2 of `k.updatePool` -/
def AdjustPool_call_updatePool_1_arg2 : Option (Int) := do
  some ZeroInt

/-- argument 3 of `k.updatePool` -/
def AdjustPool_call_updatePool_1_arg3 : Option (Bool) := do
  some false

def AdjustPool_rules_i_TotalReward_1 (rules_i_TotalReward : Int) (read_reward_AmountOf_rules_i_Reward : Int) : Option (Int) := do
  let t1 ← Int_Add rules_i_TotalReward read_reward_AmountOf_rules_i_Reward
  some t1

def AdjustPool_rules_i_RemainingReward_1 (rules_i_RemainingReward : Int) (read_reward_AmountOf_rules_i_Reward : Int) : Option (Int) := do
  let t1 ← Int_Add rules_i_RemainingReward read_reward_AmountOf_rules_i_Reward
  some t1

/-- branch condition: `pool.Started(ctx)` -/
def AdjustPool_cond_5 (read_pool_Started_ctx : Bool) : Option (Bool) := do
  some read_pool_Started_ctx

def AdjustPool_remainingHeight_1 (pool_EndHeight : Int) (startHeight : Int) : Option (Int) := do
  some (I64_Sub pool_EndHeight startHeight)

/-- argument 0 of `rules.UpdateWith` -/
def AdjustPool_call_UpdateWith_1_arg0 (rewardPerBlock : List Coin) : Option (List Coin) := do
  some rewardPerBlock

/-- argument 1 of `k.SetRewardRules` -/
def AdjustPool_call_SetRewardRules_1_arg1 (pool_Id : String) : Option (String) := do
  some pool_Id

def AdjustPool_availableHeight_1 : Option (Int) := do
  some (-1 : Int)

def AdjustPool_inteval_1 (read_availableReward_AmountOf_r_Reward : Int) (r_RewardPerBlock : Int) : Option (Int) := do
  let t1 ← Int_Quo read_availableReward_AmountOf_r_Reward r_RewardPerBlock
  let t2 ← Int_Int64 t1
  some t2

/-- branch condition: `availableHeight < 0 || availableHeight > inteval` -/
def AdjustPool_cond_6 (availableHeight : Int) (inteval : Int) : Option (Bool) := do
  some ((decide (availableHeight < (0 : Int))) || (decide (availableHeight > inteval)))

def AdjustPool_availableHeight_2 (inteval : Int) : Option (Int) := do
  some inteval

def AdjustPool_expiredHeight_1 (startHeight : Int) (availableHeight : Int) : Option (Int) := do
  some (I64_Add startHeight availableHeight)

/-- branch condition: `expiredHeight == pool.EndHeight` -/
def AdjustPool_cond_7 (expiredHeight : Int) (pool_EndHeight : Int) : Option (Bool) := do
  some (expiredHeight == pool_EndHeight)

/-- argument 1 of `k.DequeueActivePool` -/
def AdjustPool_call_DequeueActivePool_1_arg1 (pool_Id : String) : Option (String) := do
  some pool_Id

/-- argument 2 of `k.DequeueActivePool` -/
def AdjustPool_call_DequeueActivePool_1_arg2 (pool_EndHeight : Int) : Option (Int) := do
  some pool_EndHeight

def AdjustPool_pool_EndHeight_1 (expiredHeight : Int) : Option (Int) := do
  some expiredHeight

/-- argument 1 of `k.EnqueueActivePool` -/
def AdjustPool_call_EnqueueActivePool_1_arg1 (pool_Id : String) : Option (String) := do
  some pool_Id

/-- argument 2 of `k.EnqueueActivePool` -/
def AdjustPool_call_EnqueueActivePool_1_arg2 (pool_EndHeight : Int) : Option (Int) := do
  some pool_EndHeight

/-- branch condition: `farmInfo.Locked.GT(sdkmath.ZeroInt())` -/
def CaclRewards_cond_1 (farmInfo_Locked : Int) : Option (Bool) := do
  some (Int_GT farmInfo_Locked ZeroInt)

def CaclRewards_pendingRewardTotal_1 (r_RewardPerShare : Dec) (farmInfo_Locked : Int) : Option (Int) := do
  let t1 ← Dec_MulInt r_RewardPerShare farmInfo_Locked
  let t2 ← Dec_TruncateInt t1
  some t2

def CaclRewards_pendingReward_1 (pendingRewardTotal : Int) (read_farmInfo_RewardDebt_AmountOf_r_Reward : Int) : Option (Int) := do
  let t1 ← Int_Sub pendingRewardTotal read_farmInfo_RewardDebt_AmountOf_r_Reward
  some t1

def CaclRewards_locked_1 (farmInfo_Locked : Int) (deltaAmt : Int) : Option (Int) := do
  let t1 ← Int_Add farmInfo_Locked deltaAmt
  some t1

def CaclRewards_debt_1 (r_Reward : String) (r_RewardPerShare : Dec) (locked : Int) : Option (Coin) := do
  let t1 ← Dec_MulInt r_RewardPerShare locked
  let t2 ← Dec_TruncateInt t1
  let t3 ← NewCoin r_Reward t2
  some t3

/-- targets the translator refused, with the reason (must be empty) -/
def untranslated : List String := []

/-- names of the translated definitions -/
def translated : List String := ["updatePool_guard_1(height,pool_LastHeightDistrRewards)", "updatePool_guard_2(read_len_rules)", "updatePool_cond_3(height,pool_LastHeightDistrRewards,pool_TotalLptLocked)", "updatePool_blockInterval_1(height,pool_LastHeightDistrRewards)", "updatePool_rewardCollected_1(rules_i_RewardPerBlock,blockInterval)", "updatePool_guard_4(rules_i_RemainingReward,rewardCollected)", "updatePool_newRewardPerShare_1(rewardCollected,pool_TotalLptLocked)", "updatePool_rules_i_RewardPerShare_1(rules_i_RewardPerShare,newRewardPerShare)", "updatePool_rules_i_RemainingReward_1(rules_i_RemainingReward,rewardCollected)", "updatePool_cond_5(read_rewardTotal_IsAllPositive)", "updatePool_cond_6(isDestroy)", "updatePool_cond_7(pool_StartHeight,pool_EndHeight)", "AdjustPool_guard_1(pool_Editable)", "AdjustPool_guard_2(read_creator_String,pool_Creator)", "AdjustPool_guard_3(read_k_Expired_ctx_pool)", "AdjustPool_startHeight_1(pool_StartHeight)", "AdjustPool_cond_4(read_pool_Started_ctx)", "AdjustPool_startHeight_2(read_ctx_BlockHeight)", "AdjustPool_call_updatePool_1_arg2()", "AdjustPool_call_updatePool_1_arg3()", "AdjustPool_rules_i_TotalReward_1(rules_i_TotalReward,read_reward_AmountOf_rules_i_Reward)", "AdjustPool_rules_i_RemainingReward_1(rules_i_RemainingReward,read_reward_AmountOf_rules_i_Reward)", "AdjustPool_cond_5(read_pool_Started_ctx)", "AdjustPool_remainingHeight_1(pool_EndHeight,startHeight)", "AdjustPool_call_UpdateWith_1_arg0(rewardPerBlock)", "AdjustPool_call_SetRewardRules_1_arg1(pool_Id)", "AdjustPool_availableHeight_1()", "AdjustPool_inteval_1(read_availableReward_AmountOf_r_Reward,r_RewardPerBlock)", "AdjustPool_cond_6(availableHeight,inteval)", "AdjustPool_availableHeight_2(inteval)", "AdjustPool_expiredHeight_1(startHeight,availableHeight)", "AdjustPool_cond_7(expiredHeight,pool_EndHeight)", "AdjustPool_call_DequeueActivePool_1_arg1(pool_Id)", "AdjustPool_call_DequeueActivePool_1_arg2(pool_EndHeight)", "AdjustPool_pool_EndHeight_1(expiredHeight)", "AdjustPool_call_EnqueueActivePool_1_arg1(pool_Id)", "AdjustPool_call_EnqueueActivePool_1_arg2(pool_EndHeight)", "CaclRewards_cond_1(farmInfo_Locked)", "CaclRewards_pendingRewardTotal_1(r_RewardPerShare,farmInfo_Locked)", "CaclRewards_pendingReward_1(pendingRewardTotal,read_farmInfo_RewardDebt_AmountOf_r_Reward)", "CaclRewards_locked_1(farmInfo_Locked,deltaAmt)", "CaclRewards_debt_1(r_Reward,r_RewardPerShare,locked)"]

/-- every rejecting guard of the translated functions, in source order -/
def guards : List String := ["updatePool: height < pool.LastHeightDistrRewards", "updatePool: len(rules) == 0", "updatePool: rules[i].RemainingReward.LT(rewardCollected)", "updatePool: err := k.bk.SendCoinsFromModuleToModule(ctx, types.ModuleName, types.RewardCollector, rewardTotal); err != nil", "AdjustPool: !exist", "AdjustPool: !pool.Editable", "AdjustPool: creator.String() != pool.Creator", "AdjustPool: k.Expired(ctx, pool)", "AdjustPool: rewardPerBlock != nil && !rewardPerBlock.DenomsSubsetOf(rules.RewardsPerBlock())", "AdjustPool: reward != nil && !rules.Contains(reward)", "AdjustPool: pool, _, err = k.updatePool(ctx, pool, math.ZeroInt(), false); err != nil", "AdjustPool: err := k.bk.SendCoinsFromAccountToModule(ctx, creator, types.ModuleName, reward); err != nil", "Keeper.Stake: !exist", "Keeper.Stake: pool.StartHeight > ctx.BlockHeight()", "Keeper.Stake: k.Expired(ctx, pool)", "Keeper.Stake: lpToken.Denom != pool.TotalLptLocked.Denom", "Keeper.Stake: err := k.bk.SendCoinsFromAccountToModule(ctx, sender, types.ModuleName, sdk.NewCoins(lpToken)); err != nil", "Keeper.Stake: pool, _, err = k.updatePool(ctx, pool, lpToken.Amount, false); err != nil", "Keeper.Stake: err = k.bk.SendCoinsFromModuleToAccount(ctx, types.RewardCollector, sender, rewards); err != nil", "Keeper.Unstake: !exist", "Keeper.Unstake: lpToken.Denom != pool.TotalLptLocked.Denom", "Keeper.Unstake: !exist", "Keeper.Unstake: farmInfo.Locked.LT(lpToken.Amount)", "Keeper.Unstake: pool.TotalLptLocked.Amount.LT(lpToken.Amount)", "Keeper.Unstake: pool, _, err = k.updatePool(ctx, pool, lpToken.Amount.Neg(), false); err != nil", "Keeper.Unstake: err = k.bk.SendCoinsFromModuleToAccount(ctx, types.ModuleName, sender, sdk.NewCoins(lpToken)); err != nil", "Keeper.Unstake: err = k.bk.SendCoinsFromModuleToAccount(ctx, types.RewardCollector, sender, rewards); err != nil", "Keeper.Harvest: !exist", "Keeper.Harvest: k.Expired(ctx, pool)", "Keeper.Harvest: !exist", "Keeper.Harvest: pool, _, err := k.updatePool(ctx, pool, amtAdded, false); err != nil", "Keeper.Harvest: err = k.bk.SendCoinsFromModuleToAccount(ctx, types.RewardCollector, sender, rewards); err != nil", "Keeper.Refund: pool, _, err := k.updatePool(ctx, pool, math.ZeroInt(), true); err != nil", "Keeper.Refund: creator, err := sdk.AccAddressFromBech32(pool.Creator); err != nil", "Keeper.Refund: !refundTotal.IsAllPositive()", "Keeper.Refund: distrModuleAddr.Equals(creator)", "Keeper.Refund: err := k.bk.SendCoinsFromModuleToAccount(ctx, types.ModuleName, creator, refundTotal); err != nil", "Keeper.CreatePool: err := k.DeductPoolCreationFee(ctx, creator); err != nil", "Keeper.CreatePool: err := k.bk.SendCoinsFromAccountToModule(ctx, creator, types.ModuleName, totalReward); err != nil", "Keeper.DestroyPool: !exist", "Keeper.DestroyPool: creator.String() != pool.Creator", "Keeper.DestroyPool: !pool.Editable", "Keeper.DestroyPool: k.Expired(ctx, pool)", "Keeper.createPool: endHeight, err := pool.ExpiredHeight(); err != nil", "msgServer.CreatePool: creator, err := sdk.AccAddressFromBech32(msg.Creator); err != nil", "msgServer.CreatePool: ctx.BlockHeight() > msg.StartHeight", "msgServer.CreatePool: maxRewardCategories := m.k.MaxRewardCategories(ctx); uint32( len(msg.TotalReward), ) > maxRewardCategories", "msgServer.CreatePool: err := m.k.ck.ValidatePool(ctx, msg.LptDenom); err != nil", "msgServer.CreatePool: pool, err := m.k.CreatePool( ctx, msg.Description, msg.LptDenom, msg.StartHeight, msg.RewardPerBlock.Sort(), msg.TotalReward.Sort(), msg.Editable, creator, ); err != nil", "msgServer.CreatePoolWithCommunityPool: proposer, err := sdk.AccAddressFromBech32(msg.Proposer); err != nil", "msgServer.CreatePoolWithCommunityPool: uint32(len(totalReward)) > maxRewardCategories", "msgServer.CreatePoolWithCommunityPool: err := m.k.ck.ValidatePool(ctx, msg.Content.LptDenom); err != nil", "msgServer.CreatePoolWithCommunityPool: err := m.k.bk.SendCoinsFromAccountToModule(ctx, proposer, types.EscrowCollector, msg.Content.FundSelfBond); err != nil", "msgServer.CreatePoolWithCommunityPool: err := m.k.escrowFromFeePool(ctx, msg.Content.FundApplied); err != nil", "msgServer.CreatePoolWithCommunityPool: data, err := codectypes.NewAnyWithValue(&msg.Content); err != nil", "msgServer.CreatePoolWithCommunityPool: proposal, err := m.k.gk.SubmitProposal( ctx, msgs, \"\", msg.Content.Title, msg.Content.Description, proposer, false, ); err != nil", "msgServer.CreatePoolWithCommunityPool: _, err = m.k.gk.AddDeposit(ctx, proposal.Id, proposer, msg.InitialDeposit); err != nil", "msgServer.DestroyPool: creator, err := sdk.AccAddressFromBech32(msg.Creator); err != nil", "msgServer.DestroyPool: refundCoin, err := m.k.DestroyPool(ctx, msg.PoolId, creator); err != nil", "msgServer.AdjustPool: creator, err := sdk.AccAddressFromBech32(msg.Creator); err != nil", "msgServer.AdjustPool: err = m.k.AdjustPool( ctx, msg.PoolId, msg.AdditionalReward, msg.RewardPerBlock, creator, ); err != nil", "msgServer.Stake: sender, err := sdk.AccAddressFromBech32(msg.Sender); err != nil", "msgServer.Stake: reward, err := m.k.Stake(ctx, msg.PoolId, msg.Amount, sender); err != nil", "msgServer.Unstake: sender, err := sdk.AccAddressFromBech32(msg.Sender); err != nil", "msgServer.Unstake: reward, err := m.k.Unstake(ctx, msg.PoolId, msg.Amount, sender); err != nil", "msgServer.Harvest: sender, err := sdk.AccAddressFromBech32(msg.Sender); err != nil", "msgServer.Harvest: reward, err := m.k.Harvest(ctx, msg.PoolId, sender); err != nil"]

/-- every statement of the translated functions executed for its effect, with its nesting depth, in source order -/
def effects : List String := ["updatePool: d2 rules[i].RewardPerShare = rules[i].RewardPerShare.Add(newRewardPerShare)", "updatePool: d2 rules[i].RemainingReward = rules[i].RemainingReward.Sub(rewardCollected)", "updatePool: d2 k.SetRewardRule(ctx, pool.Id, rules[i])", "updatePool: d0 pool.TotalLptLocked = sdk.NewCoin( pool.TotalLptLocked.Denom, pool.TotalLptLocked.Amount.Add(amount), )", "updatePool: d0 pool.LastHeightDistrRewards = ctx.BlockHeight()", "updatePool: d1 pool.EndHeight = ctx.BlockHeight()", "updatePool: d2 pool.StartHeight = pool.EndHeight", "updatePool: d0 pool.Rules = rules", "updatePool: d0 k.SetPool(ctx, pool)", "AdjustPool: d0 pool.Rules = k.GetRewardRules(ctx, pool.Id)", "AdjustPool: d2 rules[i].TotalReward = rules[i].TotalReward.Add(reward.AmountOf(rules[i].Reward))", "AdjustPool: d2 rules[i].RemainingReward = rules[i].RemainingReward.Add(reward.AmountOf(rules[i].Reward))", "AdjustPool: d0 pool.Rules = rules.UpdateWith(rewardPerBlock)", "AdjustPool: d0 k.SetRewardRules(ctx, pool.Id, pool.Rules)", "AdjustPool: d0 k.DequeueActivePool(ctx, pool.Id, pool.EndHeight)", "AdjustPool: d0 pool.EndHeight = expiredHeight", "AdjustPool: d0 k.SetPool(ctx, pool)", "AdjustPool: d0 k.EnqueueActivePool(ctx, pool.Id, pool.EndHeight)", "EndBlocker: d0 k.IteratorExpiredPool(ctx, ctx.BlockHeight(), func(pool types.FarmPool) { logger.Info( \"The farm pool has expired, refund to creator\", \"poolId\", pool.Id, \"endHeight\", pool.EndHeight, \"lastHeightDistrRewards\", pool.LastHeightDistrRewards, \"totalLptLocked\", pool.TotalLptLocked, \"creator\", pool.Creator, ) if _, err := k.Refund(ctx, pool); err != nil { logger.Error(\"The farm pool refund failed\", \"poolId\", pool.Id, \"creator\", pool.Creator, \"errMsg\", err.Error(), ) } })", "EndBlocker: d1 logger.Info( \"The farm pool has expired, refund to creator\", \"poolId\", pool.Id, \"endHeight\", pool.EndHeight, \"lastHeightDistrRewards\", pool.LastHeightDistrRewards, \"totalLptLocked\", pool.TotalLptLocked, \"creator\", pool.Creator, )", "EndBlocker: d2 logger.Error(\"The farm pool refund failed\", \"poolId\", pool.Id, \"creator\", pool.Creator, \"errMsg\", err.Error(), )", "Keeper.Stake: d0 farmInfo.RewardDebt = rewardDebt", "Keeper.Stake: d0 farmInfo.Locked = farmInfo.Locked.Add(lpToken.Amount)", "Keeper.Stake: d0 k.SetFarmInfo(ctx, farmInfo)", "Keeper.Unstake: d1 pool.Rules = k.GetRewardRules(ctx, pool.Id)", "Keeper.Unstake: d1 pool.TotalLptLocked = pool.TotalLptLocked.Sub(lpToken)", "Keeper.Unstake: d1 k.SetPool(ctx, pool)", "Keeper.Unstake: d0 farmInfo.RewardDebt = rewardDebt", "Keeper.Unstake: d0 farmInfo.Locked = farmInfo.Locked.Sub(lpToken.Amount)", "Keeper.Unstake: d1 k.DeleteFarmInfo(ctx, poolId, sender.String())", "Keeper.Unstake: d0 k.SetFarmInfo(ctx, farmInfo)", "Keeper.Harvest: d0 farmInfo.RewardDebt = rewardDebt", "Keeper.Harvest: d0 k.SetFarmInfo(ctx, farmInfo)", "Keeper.Refund: d0 k.DequeueActivePool(ctx, pool.Id, pool.EndHeight)", "Keeper.Refund: d1 r.RemainingReward = math.ZeroInt()", "Keeper.Refund: d1 k.SetRewardRule(ctx, pool.Id, r)", "Keeper.createPool: d1 k.SetRewardRule(ctx, pool.Id, rewardRule)", "Keeper.createPool: d1 pool.Rules = append(pool.Rules, rewardRule)", "Keeper.createPool: d0 pool.EndHeight = endHeight", "Keeper.createPool: d0 k.SetPool(ctx, pool)", "Keeper.createPool: d0 k.EnqueueActivePool(ctx, pool.Id, pool.EndHeight)", "msgServer.CreatePoolWithCommunityPool: d0 m.k.SetEscrowInfo(ctx, types.EscrowInfo{ Proposer: msg.Proposer, FundApplied: msg.Content.FundApplied, FundSelfBond: msg.Content.FundSelfBond, ProposalId: proposal.Id, })"]

end Irismod.Gen.PureFarm
