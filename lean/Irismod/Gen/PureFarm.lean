/- REGENERATED on every run by extract/x_pure from /repo's working tree. Do not edit. -/
import Irismod.Sdk.GoSem
namespace Irismod.Gen.PureFarm
open Irismod.Sdk Irismod.GoSem

def updatePool_blockInterval_1 (height : Int) (pool_LastHeightDistrRewards : Int) : Option (Int) := do
  some (I64_Sub height pool_LastHeightDistrRewards)

def updatePool_rewardCollected_1 (rules_i_RewardPerBlock : Int) (blockInterval : Int) : Option (Int) := do
  let t1 ← Int_Mul rules_i_RewardPerBlock blockInterval
  some t1

def updatePool_newRewardPerShare_1 (rewardCollected : Int) (pool_TotalLptLocked : Coin) : Option (Dec) := do
  let t1 ← Dec_QuoInt (LegacyNewDecFromInt rewardCollected) pool_TotalLptLocked.amount
  some t1

def updatePool_rules_i_RewardPerShare_1 (rules_i_RewardPerShare : Dec) (newRewardPerShare : Dec) : Option (Dec) := do
  let t1 ← Dec_Add rules_i_RewardPerShare newRewardPerShare
  some t1

def updatePool_rules_i_RemainingReward_1 (rules_i_RemainingReward : Int) (rewardCollected : Int) : Option (Int) := do
  let t1 ← Int_Sub rules_i_RemainingReward rewardCollected
  some t1

/-- rejects when true: `height < pool.LastHeightDistrRewards` -/
def updatePool_guard_1 (height : Int) (pool_LastHeightDistrRewards : Int) : Option (Bool) := do
  some (decide (height < pool_LastHeightDistrRewards))

/-- rejects when true: `len(rules) == 0` -/
def updatePool_guard_2 (read_len_rules : Int) : Option (Bool) := do
  some (read_len_rules == (0 : Int))

/-- branch condition: `height > pool.LastHeightDistrRewards && pool.TotalLptLocked.Amount.GT(math.ZeroInt())` -/
def updatePool_cond_3 (height : Int) (pool_LastHeightDistrRewards : Int) (pool_TotalLptLocked : Coin) : Option (Bool) := do
  some ((decide (height > pool_LastHeightDistrRewards)) && (Int_GT pool_TotalLptLocked.amount ZeroInt))

/-- rejects when true: `rules[i].RemainingReward.LT(rewardCollected)` -/
def updatePool_guard_4 (rules_i_RemainingReward : Int) (rewardCollected : Int) : Option (Bool) := do
  some (Int_LT rules_i_RemainingReward rewardCollected)

/-- branch condition: `rewardTotal.IsAllPositive()` -/
def updatePool_cond_5 (read_rewardTotal_IsAllPositive : Bool) : Option (Bool) := do
  some read_rewardTotal_IsAllPositive

/-- branch condition: `isDestroy` -/
def updatePool_cond_6 (isDestroy : Bool) : Option (Bool) := do
  some isDestroy

/-- branch condition: `pool.StartHeight > pool.EndHeight` -/
def updatePool_cond_7 (pool_StartHeight : Int) (pool_EndHeight : Int) : Option (Bool) := do
  some (decide (pool_StartHeight > pool_EndHeight))

def CaclRewards_pendingRewardTotal_1 (r_RewardPerShare : Dec) (farmInfo_Locked : Int) : Option (Int) := do
  let t1 ← Dec_MulInt r_RewardPerShare farmInfo_Locked
  let t2 ← Dec_TruncateInt t1
  some t2

def CaclRewards_pendingReward_1 (pendingRewardTotal : Int) (read_farmInfo_RewardDebt_AmountOf_r_Reward : Int) : Option (Int) := do
  let t1 ← Int_Sub pendingRewardTotal read_farmInfo_RewardDebt_AmountOf_r_Reward
  some t1

def CaclRewards_locked_1 (farmInfo_Locked : Int) (deltaAmt : Int) : Option (Int) := do
  let t1 ← Int_Add farmInfo_Locked deltaAmt
  some t1

def CaclRewards_debt_1 (r_Reward : String) (r_RewardPerShare : Dec) (locked : Int) : Option (Coin) := do
  let t1 ← Dec_MulInt r_RewardPerShare locked
  let t2 ← Dec_TruncateInt t1
  let t3 ← NewCoin r_Reward t2
  some t3

/-- branch condition: `farmInfo.Locked.GT(sdkmath.ZeroInt())` -/
def CaclRewards_cond_1 (farmInfo_Locked : Int) : Option (Bool) := do
  some (Int_GT farmInfo_Locked ZeroInt)

/-- targets the translator refused, with the reason (must be empty) -/
def untranslated : List String := []

/-- names of the translated definitions -/
def translated : List String := ["updatePool_blockInterval_1(height,pool_LastHeightDistrRewards)", "updatePool_rewardCollected_1(rules_i_RewardPerBlock,blockInterval)", "updatePool_newRewardPerShare_1(rewardCollected,pool_TotalLptLocked)", "updatePool_rules_i_RewardPerShare_1(rules_i_RewardPerShare,newRewardPerShare)", "updatePool_rules_i_RemainingReward_1(rules_i_RemainingReward,rewardCollected)", "updatePool_guard_1(height,pool_LastHeightDistrRewards)", "updatePool_guard_2(read_len_rules)", "updatePool_cond_3(height,pool_LastHeightDistrRewards,pool_TotalLptLocked)", "updatePool_guard_4(rules_i_RemainingReward,rewardCollected)", "updatePool_cond_5(read_rewardTotal_IsAllPositive)", "updatePool_cond_6(isDestroy)", "updatePool_cond_7(pool_StartHeight,pool_EndHeight)", "CaclRewards_pendingRewardTotal_1(r_RewardPerShare,farmInfo_Locked)", "CaclRewards_pendingReward_1(pendingRewardTotal,read_farmInfo_RewardDebt_AmountOf_r_Reward)", "CaclRewards_locked_1(farmInfo_Locked,deltaAmt)", "CaclRewards_debt_1(r_Reward,r_RewardPerShare,locked)", "CaclRewards_cond_1(farmInfo_Locked)"]

end Irismod.Gen.PureFarm
