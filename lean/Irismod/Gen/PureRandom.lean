/- REGENERATED on every run by extract/x_pure from /repo's working tree. Do not edit. -/
import Irismod.Sdk.GoSem
namespace Irismod.Gen.PureRandom
open Irismod.Sdk Irismod.GoSem

def GetRand_seedBT_1 (p_BlockTimestamp : Int) : Option (Int) := do
  some (Big_NewInt p_BlockTimestamp)

def GetRand_seedBH_1 (read_new_big_Int_SetBytes_SHA256_p_BlockHash : Int) (seedBT : Int) : Option (Int) := do
  let t1 ← Big_Div read_new_big_Int_SetBytes_SHA256_p_BlockHash seedBT
  some t1

def GetRand_seedTI_1 (read_new_big_Int_SetBytes_SHA256_p_TxInitiator : Int) (seedBT : Int) : Option (Int) := do
  let t1 ← Big_Div read_new_big_Int_SetBytes_SHA256_p_TxInitiator seedBT
  some t1

def GetRand_seedSum_1 (seedBT : Int) (seedBH : Int) : Option (Int) := do
  some (Big_Add seedBT seedBH)

def GetRand_seedSum_2 (seedSum : Int) (seedTI : Int) : Option (Int) := do
  some (Big_Add seedSum seedTI)

/-- branch condition: `p.Oracle` -/
def GetRand_cond_1 (p_Oracle : Bool) : Option (Bool) := do
  some p_Oracle

def GetRand_seedOS_1 (read_new_big_Int_SetBytes_SHA256_p_OracleSeed : Int) (seedBT : Int) : Option (Int) := do
  let t1 ← Big_Div read_new_big_Int_SetBytes_SHA256_p_OracleSeed seedBT
  some t1

def GetRand_seedSum_3 (seedSum : Int) (seedOS : Int) : Option (Int) := do
  some (Big_Add seedSum seedOS)

def GetRand_precision_1 : Option (Int) := do
  some (Big_Exp (Big_NewInt (10 : Int)) (Big_NewInt (20 : Int)))

/-- targets the translator refused, with the reason (must be empty) -/
def untranslated : List String := []

/-- names of the translated definitions -/
def translated : List String := ["GetRand_seedBT_1(p_BlockTimestamp)", "GetRand_seedBH_1(read_new_big_Int_SetBytes_SHA256_p_BlockHash,seedBT)", "GetRand_seedTI_1(read_new_big_Int_SetBytes_SHA256_p_TxInitiator,seedBT)", "GetRand_seedSum_1(seedBT,seedBH)", "GetRand_seedSum_2(seedSum,seedTI)", "GetRand_cond_1(p_Oracle)", "GetRand_seedOS_1(read_new_big_Int_SetBytes_SHA256_p_OracleSeed,seedBT)", "GetRand_seedSum_3(seedSum,seedOS)", "GetRand_precision_1()"]

/-- every rejecting guard of the translated functions, in source order -/
def guards : List String := ["Keeper.RequestRandom: blockInterval > uint64(math.MaxInt64-currentHeight)", "Keeper.RequestRandom: requestContextID, err := k.RequestService(ctx, consumer, serviceFeeCap); err != nil", "Keeper.RequestService: provider, err := sdk.AccAddressFromBech32(bindings[prng.Intn(len(bindings))].Provider); err != nil", "msgServer.RequestRandom: request, err := m.Keeper.RequestRandom( ctx, consumer, msg.BlockInterval, msg.Oracle, msg.ServiceFeeCap, ); err != nil"]

/-- every statement of the translated functions executed for its effect, with its nesting depth, in source order -/
def effects : List String := ["BeginBlocker: d0 rqIterator.Next()", "BeginBlocker: d1 k.GetCdc().MustUnmarshal(rqIterator.Value(), &request)", "BeginBlocker: d3 k.SetOracleRandRequest(ctx, serviceContextID, request)", "BeginBlocker: d2 k.DequeueRandomRequest(ctx, lastBlockHeight, reqID)", "BeginBlocker: d2 k.SetRandom(ctx, reqID, types.NewRandom(request.TxHash, lastBlockHeight, random.FloatString(types.RandPrec)))", "BeginBlocker: d2 k.DequeueRandomRequest(ctx, lastBlockHeight, reqID)", "Keeper.SetRandom: d0 store.Set(types.KeyRandom(reqID), bz)", "Keeper.EnqueueRandomRequest: d0 store.Set(types.KeyRandomRequestQueue(height, reqID), bz)", "Keeper.DequeueRandomRequest: d0 store.Delete(types.KeyRandomRequestQueue(height, reqID))", "Keeper.SetOracleRandRequest: d0 store.Set(types.KeyOracleRandomRequest(requestContextID), bz)", "Keeper.DeleteOracleRandRequest: d0 store.Delete(types.KeyOracleRandomRequest(requestContextID))", "Keeper.RequestRandom: d0 k.EnqueueRandomRequest(ctx, destHeight, reqID, request)", "Keeper.RequestService: d0 iterator.Next()", "Keeper.RequestService: d1 k.cdc.MustUnmarshal(iterator.Value(), &binding)", "Keeper.HandlerResponse: d1 k.DeleteOracleRandRequest(ctx, requestContextID)", "Keeper.HandlerResponse: d1 k.DeleteOracleRandRequest(ctx, requestContextID)", "Keeper.HandlerResponse: d1 k.DeleteOracleRandRequest(ctx, requestContextID)", "Keeper.HandlerResponse: d1 k.DeleteOracleRandRequest(ctx, requestContextID)", "Keeper.HandlerResponse: d0 k.SetRandom( ctx, reqID, types.NewRandom(request.TxHash, lastBlockHeight, random.FloatString(types.RandPrec)), )", "Keeper.HandlerResponse: d0 k.DeleteOracleRandRequest(ctx, requestContextID)", "Keeper.HandlerStateChanged: d0 k.DeleteOracleRandRequest(ctx, requestContextID)"]

end Irismod.Gen.PureRandom
