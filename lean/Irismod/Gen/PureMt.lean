/- REGENERATED on every run by extract/x_pure from /repo's working tree. Do not edit. -/
import Irismod.Sdk.GoSem
namespace Irismod.Gen.PureMt
open Irismod.Sdk Irismod.GoSem

def AddBalance_balance_1 (read_k_GetBalance_ctx_denomID_mtID_addr : Nat) : Option (Nat) := do
  some read_k_GetBalance_ctx_denomID_mtID_addr

/-- rejects when true: `math.MaxUint64 - balance < amount` -/
def AddBalance_guard_1 (balance : Nat) (amount : Nat) : Option (Bool) := do
  some (decide ((U64_Sub (18446744073709551615 : Nat) balance) < amount))

def AddBalance_balance_2 (balance : Nat) (amount : Nat) : Option (Nat) := do
  some (U64_Add balance amount)

def SubBalance_balance_1 (read_k_GetBalance_ctx_denomID_mtID_addr : Nat) : Option (Nat) := do
  some read_k_GetBalance_ctx_denomID_mtID_addr

def SubBalance_balance_2 (balance : Nat) (amount : Nat) : Option (Nat) := do
  some (U64_Sub balance amount)

def IncreaseMTSupply_supply_1 (read_k_GetMTSupply_ctx_denomID_mtID : Nat) : Option (Nat) := do
  some read_k_GetMTSupply_ctx_denomID_mtID

/-- rejects when true: `math.MaxUint64 - supply < amount` -/
def IncreaseMTSupply_guard_1 (supply : Nat) (amount : Nat) : Option (Bool) := do
  some (decide ((U64_Sub (18446744073709551615 : Nat) supply) < amount))

def IncreaseMTSupply_supply_2 (supply : Nat) (amount : Nat) : Option (Nat) := do
  some (U64_Add supply amount)

def decreaseMTSupply_supply_1 (read_k_GetMTSupply_ctx_denomID_mtID : Nat) : Option (Nat) := do
  some read_k_GetMTSupply_ctx_denomID_mtID

def decreaseMTSupply_supply_2 (supply : Nat) (amount : Nat) : Option (Nat) := do
  some (U64_Sub supply amount)

/-- targets the translator refused, with the reason (must be empty) -/
def untranslated : List String := []

/-- names of the translated definitions -/
def translated : List String := ["AddBalance_balance_1(read_k_GetBalance_ctx_denomID_mtID_addr)", "AddBalance_guard_1(balance,amount)", "AddBalance_balance_2(balance,amount)", "SubBalance_balance_1(read_k_GetBalance_ctx_denomID_mtID_addr)", "SubBalance_balance_2(balance,amount)", "IncreaseMTSupply_supply_1(read_k_GetMTSupply_ctx_denomID_mtID)", "IncreaseMTSupply_guard_1(supply,amount)", "IncreaseMTSupply_supply_2(supply,amount)", "decreaseMTSupply_supply_1(read_k_GetMTSupply_ctx_denomID_mtID)", "decreaseMTSupply_supply_2(supply,amount)"]

/-- every rejecting guard of the translated functions, in source order -/
def guards : List String := ["AddBalance: math.MaxUint64-balance < amount", "IncreaseMTSupply: math.MaxUint64-supply < amount", "Keeper.IssueMT: err := k.IncreaseMTSupply(ctx, denomID, mt.GetID(), amount); err != nil", "Keeper.IssueMT: err := k.AddBalance(ctx, denomID, mt.GetID(), amount, recipient); err != nil", "Keeper.MintMT: err := k.IncreaseMTSupply(ctx, denomID, mtID, amount); err != nil", "Keeper.EditMT: mt, err := k.GetMT(ctx, denomID, mtID); err != nil", "Keeper.TransferOwner: srcOwnerAmount < amount", "Keeper.BurnMT: srcOwnerAmount < amount", "Keeper.TransferDenomOwner: err := k.Authorize(ctx, denomID, srcOwner); err != nil", "Keeper.TransferDenomOwner: err := k.UpdateDenom(ctx, denom); err != nil", "Keeper.Authorize: !found", "Keeper.Authorize: owner.String() != denom.Owner", "msgServer.IssueDenom: sender, err := sdk.AccAddressFromBech32(msg.Sender); err != nil", "msgServer.MintMT: sender, err := sdk.AccAddressFromBech32(msg.Sender); err != nil", "msgServer.MintMT: recipient, err = sdk.AccAddressFromBech32(msg.Recipient); err != nil", "msgServer.MintMT: err := m.Keeper.Authorize(ctx, msg.DenomId, sender); err != nil", "msgServer.MintMT: !m.Keeper.HasMT(ctx, msg.DenomId, mtID)", "msgServer.MintMT: err := m.Keeper.MintMT(ctx, msg.DenomId, mtID, msg.Amount, recipient); err != nil", "msgServer.MintMT: mt, err := m.Keeper.IssueMT(ctx, msg.DenomId, m.Keeper.genMTID(ctx), msg.Amount, msg.Data, recipient); err != nil", "msgServer.MintMT: mt, err := m.Keeper.GetMT(ctx, msg.DenomId, mtID); err != nil", "msgServer.EditMT: sender, err := sdk.AccAddressFromBech32(msg.Sender); err != nil", "msgServer.EditMT: err := m.Keeper.Authorize(ctx, msg.DenomId, sender); err != nil", "msgServer.EditMT: err := m.Keeper.EditMT(ctx, msg.DenomId, msg.Id, msg.Data, sender); err != nil", "msgServer.TransferMT: sender, err := sdk.AccAddressFromBech32(msg.Sender); err != nil", "msgServer.TransferMT: recipient, err := sdk.AccAddressFromBech32(msg.Recipient); err != nil", "msgServer.TransferMT: err := m.Keeper.TransferOwner(ctx, msg.DenomId, msg.Id, msg.Amount, sender, recipient); err != nil", "msgServer.BurnMT: sender, err := sdk.AccAddressFromBech32(msg.Sender); err != nil", "msgServer.BurnMT: err := m.Keeper.BurnMT(ctx, msg.DenomId, msg.Id, msg.Amount, sender); err != nil", "msgServer.TransferDenom: sender, err := sdk.AccAddressFromBech32(msg.Sender); err != nil", "msgServer.TransferDenom: recipient, err := sdk.AccAddressFromBech32(msg.Recipient); err != nil", "msgServer.TransferDenom: err := m.Keeper.TransferDenomOwner(ctx, msg.Id, sender, recipient); err != nil"]

/-- every statement of the translated functions executed for its effect, with its nesting depth, in source order -/
def effects : List String := ["AddBalance: d0 store.Set(types.KeyBalance(addr, denomID, mtID), bz)", "SubBalance: d0 store.Set(types.KeyBalance(addr, denomID, mtID), bz)", "IncreaseMTSupply: d0 store.Set(types.KeySupply(denomID, mtID), bz)", "decreaseMTSupply: d0 store.Set(types.KeySupply(denomID, mtID), bz)", "Keeper.Transfer: d0 k.SubBalance(ctx, denomID, mtID, amount, from)", "Keeper.IssueDenom: d0 k.SetDenom(ctx, denom)", "Keeper.IssueMT: d0 k.SetMT(ctx, denomID, mt)", "Keeper.IssueMT: d0 k.IncreaseDenomSupply(ctx, denomID)", "Keeper.EditMT: d1 k.SetMT(ctx, denomID, newMT)", "Keeper.BurnMT: d0 k.SubBalance(ctx, denomID, mtID, amount, owner)", "Keeper.BurnMT: d0 k.decreaseMTSupply(ctx, denomID, mtID, amount)", "Keeper.TransferDenomOwner: d0 denom.Owner = dstOwner.String()"]

end Irismod.Gen.PureMt
