/- REGENERATED on every run by extract/x_pure from /repo's working tree. Do not edit. -/
import Irismod.Sdk.GoSem
namespace Irismod.Gen.PureMt
open Irismod.Sdk Irismod.GoSem

def AddBalance_balance_1 (read_k_GetBalance_ctx_denomID_mtID_addr : Nat) : Option (Nat) := do
  some read_k_GetBalance_ctx_denomID_mtID_addr

/-- rejects when true: `math.MaxUint64 - balance < amount` -/
def AddBalance_guard_1 (balance : Nat) (amount : Nat) : Option (Bool) := do
  some (decide ((U64_Sub (18446744073709551615 : Nat) balance) < amount))

def AddBalance_balance_2 (balance : Nat) (amount : Nat) : Option (Nat) := do
  some (U64_Add balance amount)

def SubBalance_balance_1 (read_k_GetBalance_ctx_denomID_mtID_addr : Nat) : Option (Nat) := do
  some read_k_GetBalance_ctx_denomID_mtID_addr

def SubBalance_balance_2 (balance : Nat) (amount : Nat) : Option (Nat) := do
  some (U64_Sub balance amount)

def IncreaseMTSupply_supply_1 (read_k_GetMTSupply_ctx_denomID_mtID : Nat) : Option (Nat) := do
  some read_k_GetMTSupply_ctx_denomID_mtID

/-- rejects when true: `math.MaxUint64 - supply < amount` -/
def IncreaseMTSupply_guard_1 (supply : Nat) (amount : Nat) : Option (Bool) := do
  some (decide ((U64_Sub (18446744073709551615 : Nat) supply) < amount))

def IncreaseMTSupply_supply_2 (supply : Nat) (amount : Nat) : Option (Nat) := do
  some (U64_Add supply amount)

def decreaseMTSupply_supply_1 (read_k_GetMTSupply_ctx_denomID_mtID : Nat) : Option (Nat) := do
  some read_k_GetMTSupply_ctx_denomID_mtID

def decreaseMTSupply_supply_2 (supply : Nat) (amount : Nat) : Option (Nat) := do
  some (U64_Sub supply amount)

/-- targets the translator refused, with the reason (must be empty) -/
def untranslated : List String := []

/-- names of the translated definitions -/
def translated : List String := ["AddBalance_balance_1(read_k_GetBalance_ctx_denomID_mtID_addr)", "AddBalance_guard_1(balance,amount)", "AddBalance_balance_2(balance,amount)", "SubBalance_balance_1(read_k_GetBalance_ctx_denomID_mtID_addr)", "SubBalance_balance_2(balance,amount)", "IncreaseMTSupply_supply_1(read_k_GetMTSupply_ctx_denomID_mtID)", "IncreaseMTSupply_guard_1(supply,amount)", "IncreaseMTSupply_supply_2(supply,amount)", "decreaseMTSupply_supply_1(read_k_GetMTSupply_ctx_denomID_mtID)", "decreaseMTSupply_supply_2(supply,amount)"]

end Irismod.Gen.PureMt
