/- REGENERATED on every run by extract/x_handlers from /repo's working tree. Do not edit. -/
namespace Irismod.Gen.Handlers

structure Handler where
  module : String
  updateChecksAuthorityFirst : Bool
  setParamsValidatesFirst : Bool
  validateBasicValidates : Bool
  validateGenesisValidates : Bool
  initGenesisUsesSetParams : Bool
  deriving DecidableEq, Repr

def handlers : List Handler := [
  ⟨"coinswap", true, true, true, true, true⟩,
  ⟨"farm", true, true, true, false, true⟩,
  ⟨"htlc", true, true, true, true, true⟩,
  ⟨"service", true, true, true, true, true⟩,
  ⟨"token", true, true, true, true, true⟩]

/-- farm `Params.Validate` calls `validateTaxRate` -/
def farmValidatesTaxRate : Bool := true

/-- farm `validateTaxRate` rejects an unset decimal before comparing it -/
def farmTaxRateNilGuard : Bool := true

/-- coinswap `Params.Validate` validates the pool-creation-fee denomination -/
def coinswapValidatesFeeDenom : Bool := true

/-- token `validateIssueTokenBaseFee` validates the base-fee denomination -/
def tokenValidatesFeeDenom : Bool := true

end Irismod.Gen.Handlers
