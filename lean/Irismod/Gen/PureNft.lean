/- REGENERATED on every run by extract/x_pure from /repo's working tree. Do not edit. -/
import Irismod.Sdk.GoSem
namespace Irismod.Gen.PureNft
open Irismod.Sdk Irismod.GoSem

def Modified (target : String) : Option (Bool) := do
  some (target != "[do-not-modify]")

def Modify (origin : String) (target : String) : Option (String) := do
  if (target == "[do-not-modify]") then do
      some origin
  else do
      some target

/-- rejects when true: `denom.UpdateRestricted` -/
def UpdateNFT_guard_1 (denom_UpdateRestricted : Bool) : Option (Bool) := do
  some denom_UpdateRestricted

/-- branch condition: `!types.Modified(tokenURI) && !types.Modified(tokenURIHash) && !types.Modified(tokenNm) && !types.Modified(tokenData)` -/
def UpdateNFT_cond_2 (tokenURI : String) (tokenURIHash : String) (tokenNm : String) (tokenData : String) : Option (Bool) := do
  let t1 ← Modified tokenURI
  let t3 ← (if (!t1) then (do let t2 ← Modified tokenURIHash; some (!t2)) else some false)
  let t5 ← (if t3 then (do let t4 ← Modified tokenNm; some (!t4)) else some false)
  let t7 ← (if t5 then (do let t6 ← Modified tokenData; some (!t6)) else some false)
  some t7

def UpdateNFT_token_Uri_1 (token_Uri : String) (tokenURI : String) : Option (String) := do
  let t1 ← Modify token_Uri tokenURI
  some t1

def UpdateNFT_token_UriHash_1 (token_UriHash : String) (tokenURIHash : String) : Option (String) := do
  let t1 ← Modify token_UriHash tokenURIHash
  some t1

/-- branch condition: `types.Modified(tokenNm) || types.Modified(tokenData)` -/
def UpdateNFT_cond_3 (tokenNm : String) (tokenData : String) : Option (Bool) := do
  let t1 ← Modified tokenNm
  let t3 ← (if t1 then some true else (do let t2 ← Modified tokenData; some t2))
  some t3

def UpdateNFT_nftMetadata_Name_1 (nftMetadata_Name : String) (tokenNm : String) : Option (String) := do
  let t1 ← Modify nftMetadata_Name tokenNm
  some t1

def UpdateNFT_nftMetadata_Data_1 (nftMetadata_Data : String) (tokenData : String) : Option (String) := do
  let t1 ← Modify nftMetadata_Data tokenData
  some t1

def TransferOwnership_tokenChanged_1 (tokenURI : String) (tokenURIHash : String) : Option (Bool) := do
  let t1 ← Modified tokenURI
  let t3 ← (if t1 then some true else (do let t2 ← Modified tokenURIHash; some t2))
  some t3

def TransferOwnership_tokenMetadataChanged_1 (tokenNm : String) (tokenData : String) : Option (Bool) := do
  let t1 ← Modified tokenNm
  let t3 ← (if t1 then some true else (do let t2 ← Modified tokenData; some t2))
  some t3

/-- rejects when true: `denom.UpdateRestricted && (tokenChanged || tokenMetadataChanged)` -/
def TransferOwnership_guard_1 (denom_UpdateRestricted : Bool) (tokenChanged : Bool) (tokenMetadataChanged : Bool) : Option (Bool) := do
  some (denom_UpdateRestricted && (tokenChanged || tokenMetadataChanged))

/-- rejects when true: `!tokenChanged && !tokenMetadataChanged` -/
def TransferOwnership_guard_2 (tokenChanged : Bool) (tokenMetadataChanged : Bool) : Option (Bool) := do
  some ((!tokenChanged) && (!tokenMetadataChanged))

def TransferOwnership_token_Uri_1 (token_Uri : String) (tokenURI : String) : Option (String) := do
  let t1 ← Modify token_Uri tokenURI
  some t1

def TransferOwnership_token_UriHash_1 (token_UriHash : String) (tokenURIHash : String) : Option (String) := do
  let t1 ← Modify token_UriHash tokenURIHash
  some t1

/-- branch condition: `tokenMetadataChanged` -/
def TransferOwnership_cond_3 (tokenMetadataChanged : Bool) : Option (Bool) := do
  some tokenMetadataChanged

def TransferOwnership_nftMetadata_Name_1 (nftMetadata_Name : String) (tokenNm : String) : Option (String) := do
  let t1 ← Modify nftMetadata_Name tokenNm
  some t1

def TransferOwnership_nftMetadata_Data_1 (nftMetadata_Data : String) (tokenData : String) : Option (String) := do
  let t1 ← Modify nftMetadata_Data tokenData
  some t1

/-- rejects when true: `denom.MintRestricted && denom.Creator != sender.String()` -/
def MintNFT_guard_1 (denom_MintRestricted : Bool) (denom_Creator : String) (read_sender_String : String) : Option (Bool) := do
  some (denom_MintRestricted && (denom_Creator != read_sender_String))

/-- rejects when true: `srcOwner.String() != denom.Creator` -/
def TransferDenomOwner_guard_1 (read_srcOwner_String : String) (denom_Creator : String) : Option (Bool) := do
  some (read_srcOwner_String != denom_Creator)

/-- rejects when true: `!owner.Equals(k.nk.GetOwner(ctx, denomID, tokenID))` -/
def Authorize_guard_1 (read_owner_Equals_k_nk_GetOwner_ctx_denomID_tokenID : Bool) : Option (Bool) := do
  some (!read_owner_Equals_k_nk_GetOwner_ctx_denomID_tokenID)

/-- targets the translator refused, with the reason (must be empty) -/
def untranslated : List String := []

/-- names of the translated definitions -/
def translated : List String := ["Modified(target)", "Modify(origin,target)", "UpdateNFT_guard_1(denom_UpdateRestricted)", "UpdateNFT_cond_2(tokenURI,tokenURIHash,tokenNm,tokenData)", "UpdateNFT_token_Uri_1(token_Uri,tokenURI)", "UpdateNFT_token_UriHash_1(token_UriHash,tokenURIHash)", "UpdateNFT_cond_3(tokenNm,tokenData)", "UpdateNFT_nftMetadata_Name_1(nftMetadata_Name,tokenNm)", "UpdateNFT_nftMetadata_Data_1(nftMetadata_Data,tokenData)", "TransferOwnership_tokenChanged_1(tokenURI,tokenURIHash)", "TransferOwnership_tokenMetadataChanged_1(tokenNm,tokenData)", "TransferOwnership_guard_1(denom_UpdateRestricted,tokenChanged,tokenMetadataChanged)", "TransferOwnership_guard_2(tokenChanged,tokenMetadataChanged)", "TransferOwnership_token_Uri_1(token_Uri,tokenURI)", "TransferOwnership_token_UriHash_1(token_UriHash,tokenURIHash)", "TransferOwnership_cond_3(tokenMetadataChanged)", "TransferOwnership_nftMetadata_Name_1(nftMetadata_Name,tokenNm)", "TransferOwnership_nftMetadata_Data_1(nftMetadata_Data,tokenData)", "MintNFT_guard_1(denom_MintRestricted,denom_Creator,read_sender_String)", "TransferDenomOwner_guard_1(read_srcOwner_String,denom_Creator)", "Authorize_guard_1(read_owner_Equals_k_nk_GetOwner_ctx_denomID_tokenID)"]

/-- every rejecting guard of the translated functions, in source order -/
def guards : List String := ["UpdateNFT: denom, err := k.GetDenomInfo(ctx, denomID); err != nil", "UpdateNFT: denom.UpdateRestricted", "UpdateNFT: err := k.Authorize(ctx, denomID, tokenID, owner); err != nil", "UpdateNFT: !exist", "UpdateNFT: nftMetadata, err := types.UnmarshalNFTMetadata(k.cdc, token.Data.GetValue()); err != nil", "UpdateNFT: data, err := codectypes.NewAnyWithValue(&nftMetadata); err != nil", "TransferOwnership: !exist", "TransferOwnership: err := k.Authorize(ctx, denomID, tokenID, srcOwner); err != nil", "TransferOwnership: denom, err := k.GetDenomInfo(ctx, denomID); err != nil", "TransferOwnership: denom.UpdateRestricted && (tokenChanged || tokenMetadataChanged)", "TransferOwnership: !tokenChanged && !tokenMetadataChanged", "TransferOwnership: nftMetadata, err := types.UnmarshalNFTMetadata(k.cdc, token.Data.GetValue()); err != nil", "TransferOwnership: data, err := codectypes.NewAnyWithValue(&nftMetadata); err != nil", "TransferOwnership: err := k.nk.Update(ctx, token); err != nil", "MintNFT: recipient, err := sdk.AccAddressFromBech32(msg.Recipient); err != nil", "MintNFT: sender, err := sdk.AccAddressFromBech32(msg.Sender); err != nil", "MintNFT: denom, err := k.GetDenomInfo(ctx, msg.DenomId); err != nil", "MintNFT: denom.MintRestricted && denom.Creator != sender.String()", "MintNFT: err := k.SaveNFT(ctx, msg.DenomId, msg.Id, msg.Name, msg.URI, msg.UriHash, msg.Data, recipient, ); err != nil", "TransferDenomOwner: denom, err := k.GetDenomInfo(ctx, denomID); err != nil", "TransferDenomOwner: srcOwner.String() != denom.Creator", "TransferDenomOwner: data, err := codectypes.NewAnyWithValue(denomMetadata); err != nil", "Authorize: !owner.Equals(k.nk.GetOwner(ctx, denomID, tokenID))", "Keeper.IssueDenom: sender, err := sdk.AccAddressFromBech32(msg.Sender); err != nil", "Keeper.IssueDenom: err := k.SaveDenom(ctx, msg.Id, msg.Name, msg.Schema, msg.Symbol, sender, msg.MintRestricted, msg.UpdateRestricted, msg.Description, msg.Uri, msg.UriHash, msg.Data, ); err != nil", "Keeper.EditNFT: sender, err := sdk.AccAddressFromBech32(msg.Sender); err != nil", "Keeper.EditNFT: err := k.UpdateNFT(ctx, msg.DenomId, msg.Id, msg.Name, msg.URI, msg.UriHash, msg.Data, sender, ); err != nil", "Keeper.TransferNFT: sender, err := sdk.AccAddressFromBech32(msg.Sender); err != nil", "Keeper.TransferNFT: recipient, err := sdk.AccAddressFromBech32(msg.Recipient); err != nil", "Keeper.TransferNFT: err := k.TransferOwnership(ctx, msg.DenomId, msg.Id, msg.Name, msg.URI, msg.UriHash, msg.Data, sender, recipient, ); err != nil", "Keeper.BurnNFT: sender, err := sdk.AccAddressFromBech32(msg.Sender); err != nil", "Keeper.BurnNFT: err := k.RemoveNFT(ctx, msg.DenomId, msg.Id, sender); err != nil", "Keeper.TransferDenom: sender, err := sdk.AccAddressFromBech32(msg.Sender); err != nil", "Keeper.TransferDenom: recipient, err := sdk.AccAddressFromBech32(msg.Recipient); err != nil", "Keeper.TransferDenom: err := k.TransferDenomOwner(ctx, msg.Id, sender, recipient); err != nil", "Keeper.RemoveNFT: err := k.Authorize(ctx, denomID, tokenID, owner); err != nil", "Keeper.SaveNFT: data, err := codectypes.NewAnyWithValue(nftMetadata); err != nil"]

/-- every statement of the translated functions executed for its effect, with its nesting depth, in source order -/
def effects : List String := ["UpdateNFT: d0 token.Uri = types.Modify(token.Uri, tokenURI)", "UpdateNFT: d0 token.UriHash = types.Modify(token.UriHash, tokenURIHash)", "UpdateNFT: d1 nftMetadata.Name = types.Modify(nftMetadata.Name, tokenNm)", "UpdateNFT: d1 nftMetadata.Data = types.Modify(nftMetadata.Data, tokenData)", "UpdateNFT: d1 token.Data = data", "TransferOwnership: d0 token.Uri = types.Modify(token.Uri, tokenURI)", "TransferOwnership: d0 token.UriHash = types.Modify(token.UriHash, tokenURIHash)", "TransferOwnership: d1 nftMetadata.Name = types.Modify(nftMetadata.Name, tokenNm)", "TransferOwnership: d1 nftMetadata.Data = types.Modify(nftMetadata.Data, tokenData)", "TransferOwnership: d1 token.Data = data"]

end Irismod.Gen.PureNft
