/- REGENERATED on every run by extract/x_pure from /repo's working tree. Do not edit. -/
import Irismod.Sdk.GoSem
namespace Irismod.Gen.PureToken
open Irismod.Sdk Irismod.GoSem

def pow10 (n : Nat) : Option (Int) := do
  some (Big_Exp (Big_NewInt (10 : Int)) (Big_NewInt (n : Int)))

def LossLessSwap (input : Int) (ratio : Dec) (inputScale : Nat) (outputScale : Nat) : Option (Int × Int) := do
  if ((!(Int_IsPositive input)) || (!(Dec_IsPositive ratio))) then do
      some (ZeroInt, ZeroInt)
  else do
      let t1 ← pow10 outputScale
      let num : Int := (Big_Mul (Dec_BigInt ratio) t1)
      let t2 ← pow10 (18 : Nat)
      let t3 ← pow10 inputScale
      let den : Int := (Big_Mul t2 t3)
      let output : Int := (Big_Mul (Int_BigInt input) num)
      let output ← Big_Quo output den
      let taken : Int := (Big_Mul output den)
      let taken : Int := Big_Add taken (Big_Sub num (Big_NewInt (1 : Int)))
      let taken ← Big_Quo taken num
      let t4 ← NewIntFromBigInt taken
      let t5 ← NewIntFromBigInt output
      some (t4, t5)

/-- targets the translator refused, with the reason (must be empty) -/
def untranslated : List String := []

/-- names of the translated definitions -/
def translated : List String := ["pow10(n)", "LossLessSwap(input,ratio,inputScale,outputScale)"]

/-- every rejecting guard of the translated functions, in source order -/
def guards : List String := []

end Irismod.Gen.PureToken
