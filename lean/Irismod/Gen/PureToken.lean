/- REGENERATED on every run by extract/x_pure from /repo's working tree. Do not edit. -/
import Irismod.Sdk.GoSem
namespace Irismod.Gen.PureToken
open Irismod.Sdk Irismod.GoSem

def pow10 (n : Nat) : Option (Int) := do
  some (Big_Exp (Big_NewInt (10 : Int)) (Big_NewInt (n : Int)))

def LossLessSwap (input : Int) (ratio : Dec) (inputScale : Nat) (outputScale : Nat) : Option (Int × Int) := do
  if ((!(Int_IsPositive input)) || (!(Dec_IsPositive ratio))) then do
      some (ZeroInt, ZeroInt)
  else do
      let t1 ← pow10 outputScale
      let num : Int := (Big_Mul (Dec_BigInt ratio) t1)
      let t2 ← pow10 (18 : Nat)
      let t3 ← pow10 inputScale
      let den : Int := (Big_Mul t2 t3)
      let output : Int := (Big_Mul (Int_BigInt input) num)
      let output ← Big_Quo output den
      let taken : Int := (Big_Mul output den)
      let taken : Int := Big_Add taken (Big_Sub num (Big_NewInt (1 : Int)))
      let taken ← Big_Quo taken num
      let t4 ← NewIntFromBigInt taken
      let t5 ← NewIntFromBigInt output
      some (t4, t5)

/-- targets the translator refused, with the reason (must be empty) -/
def untranslated : List String := []

/-- names of the translated definitions -/
def translated : List String := ["pow10(n)", "LossLessSwap(input,ratio,inputScale,outputScale)"]

/-- every rejecting guard of the translated functions, in source order -/
def guards : List String := ["erc20Hook.PostTxProcessing: eventArgs, err := erc20.Unpack(event.Name, log.Data); err != nil", "erc20Hook.PostTxProcessing: len(eventArgs) != 3", "erc20Hook.PostTxProcessing: !ok || len(to) == 0", "erc20Hook.PostTxProcessing: receiver, err := sdk.AccAddressFromBech32(to); err != nil", "erc20Hook.PostTxProcessing: !ok || amount.Cmp(big.NewInt(0)) == 0", "erc20Hook.PostTxProcessing: err := hook.k.bankKeeper.MintCoins(ctx, types.ModuleName, mintedCoins); err != nil", "erc20Hook.PostTxProcessing: err := hook.k.bankKeeper.SendCoinsFromModuleToAccount(ctx, types.ModuleName, receiver, mintedCoins); err != nil", "Keeper.SwapFromERC20: token, err := k.getTokenByMinUnit(ctx, wantedAmount.Denom); err != nil", "Keeper.SwapFromERC20: len(token.Contract) == 0", "Keeper.SwapFromERC20: err := k.BurnERC20(ctx, contract, sender, wantedAmount.Amount.BigInt()); err != nil", "Keeper.SwapFromERC20: err := k.bankKeeper.MintCoins(ctx, types.ModuleName, mintedCoins); err != nil", "Keeper.SwapFromERC20: err := k.bankKeeper.SendCoinsFromModuleToAccount(ctx, types.ModuleName, receiver, mintedCoins); err != nil", "Keeper.SwapToERC20: !k.evmKeeper.SupportedKey(receiverAcc.GetPubKey())", "Keeper.SwapToERC20: token, err := k.getTokenByMinUnit(ctx, amount.Denom); err != nil", "Keeper.SwapToERC20: len(token.Contract) == 0", "Keeper.SwapToERC20: err := k.bankKeeper.SendCoinsFromAccountToModule(ctx, sender, types.ModuleName, amt); err != nil", "Keeper.SwapToERC20: err := k.bankKeeper.BurnCoins(ctx, types.ModuleName, amt); err != nil", "Keeper.SwapToERC20: err := k.MintERC20(ctx, contract, receiver, amount.Amount.BigInt()); err != nil", "msgServer.SwapFromERC20: sender, err := sdk.AccAddressFromBech32(msg.Sender); err != nil", "msgServer.SwapFromERC20: receiver, err := sdk.AccAddressFromBech32(msg.Receiver); err != nil", "msgServer.SwapFromERC20: err := m.k.SwapFromERC20(ctx, common.BytesToAddress(sender.Bytes()), receiver, msg.WantedAmount); err != nil", "msgServer.SwapToERC20: sender, err := sdk.AccAddressFromBech32(msg.Sender); err != nil", "msgServer.SwapToERC20: err := m.k.SwapToERC20(ctx, sender, receiver, msg.Amount); err != nil"]

/-- every statement of the translated functions executed for its effect, with its nesting depth, in source order -/
def effects : List String := ["LossLessSwap: d0 output.Quo(output, den)", "LossLessSwap: d0 taken.Add(taken, new(big.Int).Sub(num, big.NewInt(1)))", "LossLessSwap: d0 taken.Quo(taken, num)"]

end Irismod.Gen.PureToken
