/- REGENERATED on every run by extract/x_pure from /repo's working tree. Do not edit. -/
import Irismod.Sdk.GoSem
namespace Irismod.Gen.PureService
open Irismod.Sdk Irismod.GoSem

def AddEarnedFee_taxAmount_1 (coin : Coin) (taxRate : Dec) : Option (Int) := do
  let t1 ← Dec_Mul (LegacyNewDecFromInt coin.amount) taxRate
  let t2 ← Dec_TruncateInt t1
  some t2

def Slash_slashedAmt_1 (depositAmt : Int) (slashFraction : Dec) : Option (Int) := do
  let t1 ← Dec_Mul (LegacyNewDecFromInt depositAmt) slashFraction
  let t2 ← Dec_TruncateInt t1
  some t2

/-- targets the translator refused, with the reason (must be empty) -/
def untranslated : List String := []

/-- names of the translated definitions -/
def translated : List String := ["AddEarnedFee_taxAmount_1(coin,taxRate)", "Slash_slashedAmt_1(depositAmt,slashFraction)"]

end Irismod.Gen.PureService
