/- REGENERATED on every run by extract/x_pure from /repo's working tree. Do not edit. -/
import Irismod.Sdk.GoSem
namespace Irismod.Gen.PureService
open Irismod.Sdk Irismod.GoSem

def AddEarnedFee_taxAmount_1 (coin : Coin) (taxRate : Dec) : Option (Int) := do
  let t1 ← Dec_Mul (LegacyNewDecFromInt coin.amount) taxRate
  let t2 ← Dec_TruncateInt t1
  some t2

def Slash_slashedAmt_1 (depositAmt : Int) (slashFraction : Dec) : Option (Int) := do
  let t1 ← Dec_Mul (LegacyNewDecFromInt depositAmt) slashFraction
  let t2 ← Dec_TruncateInt t1
  some t2

/-- targets the translator refused, with the reason (must be empty) -/
def untranslated : List String := []

/-- names of the translated definitions -/
def translated : List String := ["AddEarnedFee_taxAmount_1(coin,taxRate)", "Slash_slashedAmt_1(depositAmt,slashFraction)"]

/-- every rejecting guard of the translated functions, in source order -/
def guards : List String := ["AddEarnedFee: err := k.bankKeeper.SendCoinsFromModuleToModule(ctx, types.RequestAccName, k.feeCollectorName, taxCoins); err != nil", "AddEarnedFee: hasNeg", "Slash: hasNeg", "Slash: err := k.bankKeeper.SendCoinsFromModuleToModule(ctx, types.DepositAccName, k.feeCollectorName, slashedCoins); err != nil", "Keeper.WithdrawEarnedFees: !owner.Equals(providerOwner)", "Keeper.WithdrawEarnedFees: !found", "Keeper.WithdrawEarnedFees: !found", "Keeper.AddServiceBinding: _, found := k.GetServiceDefinition(ctx, serviceName); !found", "Keeper.AddServiceBinding: _, found := k.GetServiceBinding(ctx, serviceName, provider); found", "Keeper.AddServiceBinding: found && !owner.Equals(currentOwner)", "Keeper.AddServiceBinding: err := k.validateDeposit(ctx, deposit); err != nil", "Keeper.AddServiceBinding: qos > uint64(maxReqTimeout)", "Keeper.AddServiceBinding: err := types.ValidateOptions(options); err != nil", "Keeper.AddServiceBinding: parsedPricing, err := k.ParsePricing(ctx, pricing); err != nil", "Keeper.AddServiceBinding: minDeposit, err := k.GetMinDeposit(ctx, parsedPricing); err != nil", "Keeper.AddServiceBinding: !deposit.IsAllGTE(minDeposit)", "Keeper.AddServiceBinding: err := k.bankKeeper.SendCoinsFromAccountToModule(ctx, owner, types.DepositAccName, deposit); err != nil", "Keeper.UpdateServiceBinding: !found", "Keeper.UpdateServiceBinding: bindingOwner, err := sdk.AccAddressFromBech32(binding.Owner); err != nil", "Keeper.UpdateServiceBinding: !owner.Equals(bindingOwner)", "Keeper.UpdateServiceBinding: qos > uint64(maxReqTimeout)", "Keeper.UpdateServiceBinding: err := k.validateDeposit(ctx, deposit); err != nil", "Keeper.UpdateServiceBinding: parsedPricing, err = k.ParsePricing(ctx, pricing); err != nil", "Keeper.UpdateServiceBinding: err := types.ValidateOptions(options); err != nil", "Keeper.UpdateServiceBinding: minDeposit, err := k.GetMinDeposit(ctx, parsedPricing); err != nil", "Keeper.UpdateServiceBinding: !binding.Deposit.IsAllGTE(minDeposit)", "Keeper.UpdateServiceBinding: err := k.bankKeeper.SendCoinsFromAccountToModule(ctx, owner, types.DepositAccName, deposit); err != nil", "Keeper.DisableServiceBinding: !found", "Keeper.DisableServiceBinding: bindingOwner, err := sdk.AccAddressFromBech32(binding.Owner); err != nil", "Keeper.DisableServiceBinding: !owner.Equals(bindingOwner)", "Keeper.DisableServiceBinding: !binding.Available", "Keeper.EnableServiceBinding: !found", "Keeper.EnableServiceBinding: bindingOwner, err := sdk.AccAddressFromBech32(binding.Owner); err != nil", "Keeper.EnableServiceBinding: !owner.Equals(bindingOwner)", "Keeper.EnableServiceBinding: binding.Available", "Keeper.EnableServiceBinding: err := k.validateDeposit(ctx, deposit); err != nil", "Keeper.EnableServiceBinding: minDeposit, err := k.GetMinDeposit(ctx, k.GetPricing(ctx, serviceName, provider)); err != nil", "Keeper.EnableServiceBinding: !binding.Deposit.IsAllGTE(minDeposit)", "Keeper.EnableServiceBinding: err := k.bankKeeper.SendCoinsFromAccountToModule( ctx, owner, types.DepositAccName, deposit, ); err != nil", "Keeper.RefundDeposit: !found", "Keeper.RefundDeposit: bindingOwner, err := sdk.AccAddressFromBech32(binding.Owner); err != nil", "Keeper.RefundDeposit: !owner.Equals(bindingOwner)", "Keeper.RefundDeposit: binding.Available", "Keeper.RefundDeposit: binding.Deposit.IsZero()", "Keeper.RefundDeposit: currentTime.Before(refundableTime)", "Keeper.RefundDeposit: err := k.bankKeeper.SendCoinsFromModuleToAccount( ctx, types.DepositAccName, bindingOwner, binding.Deposit, ); err != nil", "Keeper.validateDeposit: len(deposit) != 1 || deposit[0].Denom != baseDenom"]

end Irismod.Gen.PureService
