/- REGENERATED on every run by extract/x_pure from /repo's working tree. Do not edit. -/
import Irismod.Sdk.GoSem
namespace Irismod.Gen.PureOracle
open Irismod.Sdk Irismod.GoSem

def SetFeedValue_delta_1 (counter : Int) (latestHistory : Nat) : Option (Int) := do
  some (I64_Sub counter (I64_wrap (latestHistory : Int)))

/-- argument 1 of `k.deleteOldestFeedValue` -/
def SetFeedValue_call_deleteOldestFeedValue_1_arg1 (feedName : String) : Option (String) := do
  some feedName

/-- argument 2 of `k.deleteOldestFeedValue` -/
def SetFeedValue_call_deleteOldestFeedValue_1_arg2 (delta : Int) : Option (Int) := do
  some (I64_Add delta (1 : Int))

/-- rejects when true: `msg.Creator != feed.Creator` -/
def EditFeed_guard_1 (msg_Creator : String) (feed_Creator : String) : Option (Bool) := do
  some (msg_Creator != feed_Creator)

/-- branch condition: `msg.LatestHistory > 0` -/
def EditFeed_cond_2 (msg_LatestHistory : Nat) : Option (Bool) := do
  some (decide (msg_LatestHistory > (0 : Nat)))

/-- branch condition: `expectCnt < cnt` -/
def EditFeed_cond_3 (expectCnt : Int) (cnt : Int) : Option (Bool) := do
  some (decide (expectCnt < cnt))

def EditFeed_expectCnt_1 (msg_LatestHistory : Nat) : Option (Int) := do
  some (I64_wrap (msg_LatestHistory : Int))

/-- argument 1 of `k.deleteOldestFeedValue` -/
def EditFeed_call_deleteOldestFeedValue_1_arg1 (feed_FeedName : String) : Option (String) := do
  some feed_FeedName

/-- argument 2 of `k.deleteOldestFeedValue` -/
def EditFeed_call_deleteOldestFeedValue_1_arg2 (cnt : Int) (expectCnt : Int) : Option (Int) := do
  some (I64_Sub cnt expectCnt)

def EditFeed_feed_LatestHistory_1 (msg_LatestHistory : Nat) : Option (Nat) := do
  some msg_LatestHistory

/-- branch condition: `types.Modified(msg.Description)` -/
def EditFeed_cond_4 (read_types_Modified_msg_Description : Bool) : Option (Bool) := do
  some read_types_Modified_msg_Description

/-- targets the translator refused, with the reason (must be empty) -/
def untranslated : List String := []

/-- names of the translated definitions -/
def translated : List String := ["SetFeedValue_delta_1(counter,latestHistory)", "SetFeedValue_call_deleteOldestFeedValue_1_arg1(feedName)", "SetFeedValue_call_deleteOldestFeedValue_1_arg2(delta)", "EditFeed_guard_1(msg_Creator,feed_Creator)", "EditFeed_cond_2(msg_LatestHistory)", "EditFeed_cond_3(expectCnt,cnt)", "EditFeed_expectCnt_1(msg_LatestHistory)", "EditFeed_call_deleteOldestFeedValue_1_arg1(feed_FeedName)", "EditFeed_call_deleteOldestFeedValue_1_arg2(cnt,expectCnt)", "EditFeed_feed_LatestHistory_1(msg_LatestHistory)", "EditFeed_cond_4(read_types_Modified_msg_Description)"]

/-- every rejecting guard of the translated functions, in source order -/
def guards : List String := ["EditFeed: !found", "EditFeed: msg.Creator != feed.Creator", "EditFeed: err := k.sk.UpdateRequestContext( ctx, requestContextID, providers, msg.ResponseThreshold, msg.ServiceFeeCap, msg.Timeout, msg.RepeatedFrequency, -1, creator, ); err != nil", "Keeper.CreateFeed: _, found := k.GetFeed(ctx, msg.FeedName); found", "Keeper.CreateFeed: requestContextID, err := k.sk.CreateRequestContext( ctx, msg.ServiceName, providers, creator, msg.Input, msg.ServiceFeeCap, msg.Timeout, true, msg.RepeatedFrequency, -1, serviceexported.PAUSED, msg.ResponseThreshold, types.ModuleName, ); err != nil", "Keeper.StartFeed: !found", "Keeper.StartFeed: msg.Creator != feed.Creator", "Keeper.StartFeed: !existed", "Keeper.StartFeed: reqCtx.State == serviceexported.RUNNING", "Keeper.StartFeed: err := k.sk.StartRequestContext(ctx, requestContextID, creator); err != nil", "Keeper.PauseFeed: !found", "Keeper.PauseFeed: msg.Creator != feed.Creator", "Keeper.PauseFeed: !existed", "Keeper.PauseFeed: reqCtx.State != serviceexported.RUNNING", "Keeper.PauseFeed: err := k.sk.PauseRequestContext(ctx, requestContextID, creator); err != nil", "msgServer.CreateFeed: err := m.Keeper.CreateFeed(ctx, msg); err != nil", "msgServer.EditFeed: err := m.Keeper.EditFeed(ctx, msg); err != nil", "msgServer.StartFeed: err := m.Keeper.StartFeed(ctx, msg); err != nil", "msgServer.PauseFeed: err := m.Keeper.PauseFeed(ctx, msg); err != nil"]

/-- every statement of the translated functions executed for its effect, with its nesting depth, in source order -/
def effects : List String := ["SetFeedValue: d0 k.deleteOldestFeedValue(ctx, feedName, delta+1)", "SetFeedValue: d0 store.Set(types.GetFeedValueKey(feedName, batchCounter), bz)", "EditFeed: d2 k.deleteOldestFeedValue(ctx, feed.FeedName, cnt-expectCnt)", "EditFeed: d1 feed.LatestHistory = msg.LatestHistory", "EditFeed: d1 feed.Description = msg.Description", "EditFeed: d0 k.SetFeed(ctx, feed)", "Keeper.dequeueAndEnqueue: d0 store.Delete(types.GetFeedStateKey(feedName, dequeueState))", "Keeper.dequeueAndEnqueue: d0 store.Set(types.GetFeedStateKey(feedName, enqueueState), bz)", "Keeper.SetFeed: d0 store.Set(types.GetFeedKey(feed.FeedName), bz)", "Keeper.SetFeed: d0 store.Set(types.GetReqCtxIDKey(requestContextID), bz)", "Keeper.deleteOldestFeedValue: d0 iterator.Next()", "Keeper.deleteOldestFeedValue: d1 store.Delete(iterator.Key())", "Keeper.Enqueue: d0 store.Set(types.GetFeedStateKey(feedName, state), bz)", "Keeper.Dequeue: d0 store.Delete(types.GetFeedStateKey(feedName, state))", "Keeper.CreateFeed: d0 k.SetFeed(ctx, types.Feed{ FeedName: msg.FeedName, AggregateFunc: msg.AggregateFunc, ValueJsonPath: msg.ValueJsonPath, LatestHistory: msg.LatestHistory, RequestContextID: requestContextID.String(), Description: msg.Description, Creator: msg.Creator, })", "Keeper.CreateFeed: d0 k.Enqueue(ctx, msg.FeedName, serviceexported.PAUSED)", "Keeper.StartFeed: d0 k.dequeueAndEnqueue(ctx, msg.FeedName, serviceexported.PAUSED, serviceexported.RUNNING)", "Keeper.PauseFeed: d0 k.dequeueAndEnqueue(ctx, msg.FeedName, serviceexported.RUNNING, serviceexported.PAUSED)", "Keeper.HandlerResponse: d0 k.SetFeedValue(ctx, feed.FeedName, reqCtx.BatchCounter, feed.LatestHistory, value)", "Keeper.HandlerStateChanged: d0 k.dequeueAndEnqueue(ctx, feed.FeedName, oldState, reqCtx.State)"]

end Irismod.Gen.PureOracle
