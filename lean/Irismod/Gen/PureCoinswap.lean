/- REGENERATED on every run by extract/x_pure from /repo's working tree. Do not edit. -/
import Irismod.Sdk.GoSem
namespace Irismod.Gen.PureCoinswap
open Irismod.Sdk Irismod.GoSem

def GetInputPrice (inputAmt : Int) (inputReserve : Int) (outputReserve : Int) (fee : Dec) : Option (Int) := do
  let t1 ← Dec_Sub LegacyOneDec fee
  let deltaFee : Dec := t1
  let t2 ← NewIntFromBigInt (Dec_BigInt deltaFee)
  let t3 ← Int_Mul inputAmt t2
  let inputAmtWithFee : Int := t3
  let t4 ← Int_Mul inputAmtWithFee outputReserve
  let numerator : Int := t4
  let t5 ← NewIntWithDecimal (1 : Int) (18 : Int)
  let t6 ← Int_Mul inputReserve t5
  let t7 ← Int_Add t6 inputAmtWithFee
  let denominator : Int := t7
  let t8 ← Int_Quo numerator denominator
  some t8

def GetOutputPrice (outputAmt : Int) (inputReserve : Int) (outputReserve : Int) (fee : Dec) : Option (Int) := do
  let t1 ← Dec_Sub LegacyOneDec fee
  let deltaFee : Dec := t1
  let t2 ← Int_Mul inputReserve outputAmt
  let t3 ← NewIntWithDecimal (1 : Int) (18 : Int)
  let t4 ← Int_Mul t2 t3
  let numerator : Int := t4
  let t5 ← Int_Sub outputReserve outputAmt
  let t6 ← NewIntFromBigInt (Dec_BigInt deltaFee)
  let t7 ← Int_Mul t5 t6
  let denominator : Int := t7
  let t8 ← Int_Quo numerator denominator
  let t9 ← Int_Add t8 OneInt
  some t9

/-- rejects when true: `!inputReserve.IsPositive()` -/
def calcExactIn_guard_1 (inputReserve : Int) : Option (Bool) := do
  some (!(Int_IsPositive inputReserve))

/-- rejects when true: `!outputReserve.IsPositive()` -/
def calcExactIn_guard_2 (outputReserve : Int) : Option (Bool) := do
  some (!(Int_IsPositive outputReserve))

def calcExactIn_boughtTokenAmt_1 (exactSoldCoin : Coin) (inputReserve : Int) (outputReserve : Int) (param_Fee : Dec) : Option (Int) := do
  let t1 ← GetInputPrice exactSoldCoin.amount inputReserve outputReserve param_Fee
  some t1

/-- rejects when true: `!inputReserve.IsPositive()` -/
def calcExactOut_guard_1 (inputReserve : Int) : Option (Bool) := do
  some (!(Int_IsPositive inputReserve))

/-- rejects when true: `!outputReserve.IsPositive()` -/
def calcExactOut_guard_2 (outputReserve : Int) : Option (Bool) := do
  some (!(Int_IsPositive outputReserve))

/-- rejects when true: `exactBoughtCoin.Amount.GTE(outputReserve)` -/
def calcExactOut_guard_3 (exactBoughtCoin : Coin) (outputReserve : Int) : Option (Bool) := do
  some (Int_GTE exactBoughtCoin.amount outputReserve)

def calcExactOut_soldTokenAmt_1 (exactBoughtCoin : Coin) (inputReserve : Int) (outputReserve : Int) (param_Fee : Dec) : Option (Int) := do
  let t1 ← GetOutputPrice exactBoughtCoin.amount inputReserve outputReserve param_Fee
  some t1

/-- rejects when true: `boughtTokenAmt.LT(output.Coin.Amount)` -/
def TradeExactIn_guard_1 (boughtTokenAmt : Int) (output_Coin : Coin) : Option (Bool) := do
  some (Int_LT boughtTokenAmt output_Coin.amount)

/-- rejects when true: `soldTokenAmt.GT(input.Coin.Amount)` -/
def TradeExactOut_guard_1 (soldTokenAmt : Int) (input_Coin : Coin) : Option (Bool) := do
  some (Int_GT soldTokenAmt input_Coin.amount)

/-- rejects when true: `boughtAmt.LT(output.Coin.Amount)` -/
def DoubleExactIn_guard_1 (boughtAmt : Int) (output_Coin : Coin) : Option (Bool) := do
  some (Int_LT boughtAmt output_Coin.amount)

/-- rejects when true: `soldTokenAmt.GT(input.Coin.Amount)` -/
def DoubleExactOut_guard_1 (soldTokenAmt : Int) (input_Coin : Coin) : Option (Bool) := do
  some (Int_GT soldTokenAmt input_Coin.amount)

/-- rejects when true: `standardDenom == msg.MaxToken.Denom` -/
def AddLiquidity_guard_1 (standardDenom : String) (msg_MaxToken : Coin) : Option (Bool) := do
  some (standardDenom == msg_MaxToken.denom)

def AddLiquidity_mintLiquidityAmt_1 (msg_ExactStandardAmt : Int) : Option (Int) := do
  some msg_ExactStandardAmt

/-- rejects when true: `mintLiquidityAmt.LT(msg.MinLiquidity)` -/
def AddLiquidity_guard_2 (mintLiquidityAmt : Int) (msg_MinLiquidity : Int) : Option (Bool) := do
  some (Int_LT mintLiquidityAmt msg_MinLiquidity)

def AddLiquidity_mintLiquidityAmt_2 (msg_ExactStandardAmt : Int) : Option (Int) := do
  some msg_ExactStandardAmt

/-- rejects when true: `mintLiquidityAmt.LT(msg.MinLiquidity)` -/
def AddLiquidity_guard_3 (mintLiquidityAmt : Int) (msg_MinLiquidity : Int) : Option (Bool) := do
  some (Int_LT mintLiquidityAmt msg_MinLiquidity)

/-- rejects when true: `standardReserveAmt.IsZero() || tokenReserveAmt.IsZero() || liquidity.IsZero()` -/
def AddLiquidity_guard_4 (standardReserveAmt : Int) (tokenReserveAmt : Int) (liquidity : Int) : Option (Bool) := do
  some (((Int_IsZero standardReserveAmt) || (Int_IsZero tokenReserveAmt)) || (Int_IsZero liquidity))

def AddLiquidity_mintLiquidityAmt_3 (liquidity : Int) (msg_ExactStandardAmt : Int) (standardReserveAmt : Int) : Option (Int) := do
  let t1 ← Int_Mul liquidity msg_ExactStandardAmt
  let t2 ← Int_Quo t1 standardReserveAmt
  some t2

/-- rejects when true: `mintLiquidityAmt.LT(msg.MinLiquidity)` -/
def AddLiquidity_guard_5 (mintLiquidityAmt : Int) (msg_MinLiquidity : Int) : Option (Bool) := do
  some (Int_LT mintLiquidityAmt msg_MinLiquidity)

def AddLiquidity_depositAmt_1 (tokenReserveAmt : Int) (msg_ExactStandardAmt : Int) (standardReserveAmt : Int) : Option (Int) := do
  let t1 ← Int_Mul tokenReserveAmt msg_ExactStandardAmt
  let t2 ← Int_Quo t1 standardReserveAmt
  let t3 ← Int_Add t2 (1 : Int)
  some t3

/-- rejects when true: `depositAmt.GT(msg.MaxToken.Amount)` -/
def AddLiquidity_guard_6 (depositAmt : Int) (msg_MaxToken : Coin) : Option (Bool) := do
  some (Int_GT depositAmt msg_MaxToken.amount)

/-- rejects when true: `standardReserveAmt.LT(msg.MinStandardAmt)` -/
def RemoveLiquidity_guard_1 (standardReserveAmt : Int) (msg_MinStandardAmt : Int) : Option (Bool) := do
  some (Int_LT standardReserveAmt msg_MinStandardAmt)

/-- rejects when true: `tokenReserveAmt.LT(msg.MinToken)` -/
def RemoveLiquidity_guard_2 (tokenReserveAmt : Int) (msg_MinToken : Int) : Option (Bool) := do
  some (Int_LT tokenReserveAmt msg_MinToken)

/-- rejects when true: `liquidityReserve.LT(msg.WithdrawLiquidity.Amount)` -/
def RemoveLiquidity_guard_3 (liquidityReserve : Int) (msg_WithdrawLiquidity : Coin) : Option (Bool) := do
  some (Int_LT liquidityReserve msg_WithdrawLiquidity.amount)

def RemoveLiquidity_irisWithdrawnAmt_1 (msg_WithdrawLiquidity : Coin) (standardReserveAmt : Int) (liquidityReserve : Int) : Option (Int) := do
  let t1 ← Int_Mul msg_WithdrawLiquidity.amount standardReserveAmt
  let t2 ← Int_Quo t1 liquidityReserve
  some t2

def RemoveLiquidity_tokenWithdrawnAmt_1 (msg_WithdrawLiquidity : Coin) (tokenReserveAmt : Int) (liquidityReserve : Int) : Option (Int) := do
  let t1 ← Int_Mul msg_WithdrawLiquidity.amount tokenReserveAmt
  let t2 ← Int_Quo t1 liquidityReserve
  some t2

/-- rejects when true: `irisWithdrawCoin.Amount.LT(msg.MinStandardAmt)` -/
def RemoveLiquidity_guard_4 (irisWithdrawCoin : Coin) (msg_MinStandardAmt : Int) : Option (Bool) := do
  some (Int_LT irisWithdrawCoin.amount msg_MinStandardAmt)

/-- rejects when true: `tokenWithdrawCoin.Amount.LT(msg.MinToken)` -/
def RemoveLiquidity_guard_5 (tokenWithdrawCoin : Coin) (msg_MinToken : Int) : Option (Bool) := do
  some (Int_LT tokenWithdrawCoin.amount msg_MinToken)

/-- rejects when true: `msg.ExactToken.Denom != msg.CounterpartyDenom && msg.ExactToken.Denom != k.GetStandardDenom(ctx)` -/
def AddUnilateral_guard_1 (msg_ExactToken : Coin) (msg_CounterpartyDenom : String) (read_k_GetStandardDenom_ctx : String) : Option (Bool) := do
  some ((msg_ExactToken.denom != msg_CounterpartyDenom) && (msg_ExactToken.denom != read_k_GetStandardDenom_ctx))

def AddUnilateral_numerator_1 (deltaFeeUnilateral : Dec) : Option (Int) := do
  let t1 ← NewIntFromBigInt (Dec_BigInt deltaFeeUnilateral)
  some t1

def AddUnilateral_denominator_1 : Option (Int) := do
  let t1 ← NewIntWithDecimal (1 : Int) (18 : Int)
  some t1

def AddUnilateral_square_1 (denominator : Int) (tokenBalanceAmt : Int) (numerator : Int) (exactTokenAmt : Int) (lptBalanceAmt : Int) : Option (Int) := do
  let t1 ← Int_Mul denominator tokenBalanceAmt
  let t2 ← Int_Mul numerator exactTokenAmt
  let t3 ← Int_Add t1 t2
  let t4 ← Int_Mul t3 lptBalanceAmt
  let t5 ← Int_Mul t4 lptBalanceAmt
  let t6 ← Int_Mul denominator tokenBalanceAmt
  let t7 ← Int_Quo t5 t6
  some t7

def AddUnilateral_mintLptAmt_1 (squareBigInt : Int) (lptBalanceAmt : Int) : Option (Int) := do
  let t1 ← NewIntFromBigInt squareBigInt
  let t2 ← Int_Sub t1 lptBalanceAmt
  some t2

/-- rejects when true: `mintLptAmt.LT(msg.MinLiquidity)` -/
def AddUnilateral_guard_2 (mintLptAmt : Int) (msg_MinLiquidity : Int) : Option (Bool) := do
  some (Int_LT mintLptAmt msg_MinLiquidity)

/-- rejects when true: `msg.MinToken.Denom != msg.CounterpartyDenom && msg.MinToken.Denom != k.GetStandardDenom(ctx)` -/
def RemoveUnilateral_guard_1 (msg_MinToken : Coin) (msg_CounterpartyDenom : String) (read_k_GetStandardDenom_ctx : String) : Option (Bool) := do
  some ((msg_MinToken.denom != msg_CounterpartyDenom) && (msg_MinToken.denom != read_k_GetStandardDenom_ctx))

/-- rejects when true: `lptBalanceAmt.LT(msg.ExactLiquidity)` -/
def RemoveUnilateral_guard_2 (lptBalanceAmt : Int) (msg_ExactLiquidity : Int) : Option (Bool) := do
  some (Int_LT lptBalanceAmt msg_ExactLiquidity)

/-- rejects when true: `lptBalanceAmt.Equal(msg.ExactLiquidity)` -/
def RemoveUnilateral_guard_3 (lptBalanceAmt : Int) (msg_ExactLiquidity : Int) : Option (Bool) := do
  some (Int_Equal lptBalanceAmt msg_ExactLiquidity)

/-- rejects when true: `targetBalanceAmt.LT(msg.MinToken.Amount)` -/
def RemoveUnilateral_guard_4 (targetBalanceAmt : Int) (msg_MinToken : Coin) : Option (Bool) := do
  some (Int_LT targetBalanceAmt msg_MinToken.amount)

def RemoveUnilateral_feeNumerator_1 (deltaFeeUnilateral : Dec) : Option (Int) := do
  let t1 ← NewIntFromBigInt (Dec_BigInt deltaFeeUnilateral)
  some t1

def RemoveUnilateral_feeDenominator_1 : Option (Int) := do
  let t1 ← NewIntWithDecimal (1 : Int) (18 : Int)
  some t1

def RemoveUnilateral_targetTokenNumerator_1 (lptBalanceAmt : Int) (msg_ExactLiquidity : Int) (targetBalanceAmt : Int) (feeNumerator : Int) : Option (Int) := do
  let t1 ← Int_Add lptBalanceAmt lptBalanceAmt
  let t2 ← Int_Sub t1 msg_ExactLiquidity
  let t3 ← Int_Mul t2 msg_ExactLiquidity
  let t4 ← Int_Mul t3 targetBalanceAmt
  let t5 ← Int_Mul t4 feeNumerator
  some t5

def RemoveUnilateral_targetTokenDenominator_1 (lptBalanceAmt : Int) (feeDenominator : Int) : Option (Int) := do
  let t1 ← Int_Mul lptBalanceAmt lptBalanceAmt
  let t2 ← Int_Mul t1 feeDenominator
  some t2

def RemoveUnilateral_targetTokenAmtAfterFee_1 (targetTokenNumerator : Int) (targetTokenDenominator : Int) : Option (Int) := do
  let t1 ← Int_Quo targetTokenNumerator targetTokenDenominator
  some t1

/-- rejects when true: `targetTokenAmtAfterFee.LT(msg.MinToken.Amount)` -/
def RemoveUnilateral_guard_5 (targetTokenAmtAfterFee : Int) (msg_MinToken : Coin) : Option (Bool) := do
  some (Int_LT targetTokenAmtAfterFee msg_MinToken.amount)

/-- targets the translator refused, with the reason (must be empty) -/
def untranslated : List String := []

/-- names of the translated definitions -/
def translated : List String := ["GetInputPrice(inputAmt,inputReserve,outputReserve,fee)", "GetOutputPrice(outputAmt,inputReserve,outputReserve,fee)", "calcExactIn_guard_1(inputReserve)", "calcExactIn_guard_2(outputReserve)", "calcExactIn_boughtTokenAmt_1(exactSoldCoin,inputReserve,outputReserve,param_Fee)", "calcExactOut_guard_1(inputReserve)", "calcExactOut_guard_2(outputReserve)", "calcExactOut_guard_3(exactBoughtCoin,outputReserve)", "calcExactOut_soldTokenAmt_1(exactBoughtCoin,inputReserve,outputReserve,param_Fee)", "TradeExactIn_guard_1(boughtTokenAmt,output_Coin)", "TradeExactOut_guard_1(soldTokenAmt,input_Coin)", "DoubleExactIn_guard_1(boughtAmt,output_Coin)", "DoubleExactOut_guard_1(soldTokenAmt,input_Coin)", "AddLiquidity_guard_1(standardDenom,msg_MaxToken)", "AddLiquidity_mintLiquidityAmt_1(msg_ExactStandardAmt)", "AddLiquidity_guard_2(mintLiquidityAmt,msg_MinLiquidity)", "AddLiquidity_mintLiquidityAmt_2(msg_ExactStandardAmt)", "AddLiquidity_guard_3(mintLiquidityAmt,msg_MinLiquidity)", "AddLiquidity_guard_4(standardReserveAmt,tokenReserveAmt,liquidity)", "AddLiquidity_mintLiquidityAmt_3(liquidity,msg_ExactStandardAmt,standardReserveAmt)", "AddLiquidity_guard_5(mintLiquidityAmt,msg_MinLiquidity)", "AddLiquidity_depositAmt_1(tokenReserveAmt,msg_ExactStandardAmt,standardReserveAmt)", "AddLiquidity_guard_6(depositAmt,msg_MaxToken)", "RemoveLiquidity_guard_1(standardReserveAmt,msg_MinStandardAmt)", "RemoveLiquidity_guard_2(tokenReserveAmt,msg_MinToken)", "RemoveLiquidity_guard_3(liquidityReserve,msg_WithdrawLiquidity)", "RemoveLiquidity_irisWithdrawnAmt_1(msg_WithdrawLiquidity,standardReserveAmt,liquidityReserve)", "RemoveLiquidity_tokenWithdrawnAmt_1(msg_WithdrawLiquidity,tokenReserveAmt,liquidityReserve)", "RemoveLiquidity_guard_4(irisWithdrawCoin,msg_MinStandardAmt)", "RemoveLiquidity_guard_5(tokenWithdrawCoin,msg_MinToken)", "AddUnilateral_guard_1(msg_ExactToken,msg_CounterpartyDenom,read_k_GetStandardDenom_ctx)", "AddUnilateral_numerator_1(deltaFeeUnilateral)", "AddUnilateral_denominator_1()", "AddUnilateral_square_1(denominator,tokenBalanceAmt,numerator,exactTokenAmt,lptBalanceAmt)", "AddUnilateral_mintLptAmt_1(squareBigInt,lptBalanceAmt)", "AddUnilateral_guard_2(mintLptAmt,msg_MinLiquidity)", "RemoveUnilateral_guard_1(msg_MinToken,msg_CounterpartyDenom,read_k_GetStandardDenom_ctx)", "RemoveUnilateral_guard_2(lptBalanceAmt,msg_ExactLiquidity)", "RemoveUnilateral_guard_3(lptBalanceAmt,msg_ExactLiquidity)", "RemoveUnilateral_guard_4(targetBalanceAmt,msg_MinToken)", "RemoveUnilateral_feeNumerator_1(deltaFeeUnilateral)", "RemoveUnilateral_feeDenominator_1()", "RemoveUnilateral_targetTokenNumerator_1(lptBalanceAmt,msg_ExactLiquidity,targetBalanceAmt,feeNumerator)", "RemoveUnilateral_targetTokenDenominator_1(lptBalanceAmt,feeDenominator)", "RemoveUnilateral_targetTokenAmtAfterFee_1(targetTokenNumerator,targetTokenDenominator)", "RemoveUnilateral_guard_5(targetTokenAmtAfterFee,msg_MinToken)"]

/-- every rejecting guard of the translated functions, in source order -/
def guards : List String := ["calcExactIn: lptDenom, err := k.GetLptDenomFromDenoms(ctx, exactSoldCoin.Denom, boughtTokenDenom); err != nil", "calcExactIn: reservePool, err := k.GetPoolBalances(ctx, reservePoolAddress); err != nil", "calcExactIn: !inputReserve.IsPositive()", "calcExactIn: !outputReserve.IsPositive()", "calcExactOut: lptDenom, err := k.GetLptDenomFromDenoms(ctx, exactBoughtCoin.Denom, soldTokenDenom); err != nil", "calcExactOut: reservePool, err := k.GetPoolBalances(ctx, poolAddr); err != nil", "calcExactOut: !inputReserve.IsPositive()", "calcExactOut: !outputReserve.IsPositive()", "calcExactOut: exactBoughtCoin.Amount.GTE(outputReserve)", "TradeExactIn: boughtTokenAmt, err := k.calculateWithExactInput(ctx, input.Coin, output.Coin.Denom); err != nil", "TradeExactIn: boughtTokenAmt.LT(output.Coin.Amount)", "TradeExactIn: inputAddress, err := sdk.AccAddressFromBech32(input.Address); err != nil", "TradeExactIn: outputAddress, err := sdk.AccAddressFromBech32(output.Address); err != nil", "TradeExactIn: err := k.swapCoins(ctx, inputAddress, outputAddress, input.Coin, boughtToken); err != nil", "TradeExactOut: soldTokenAmt, err := k.calculateWithExactOutput(ctx, output.Coin, input.Coin.Denom); err != nil", "TradeExactOut: soldTokenAmt.GT(input.Coin.Amount)", "TradeExactOut: inputAddress, err := sdk.AccAddressFromBech32(input.Address); err != nil", "TradeExactOut: outputAddress, err := sdk.AccAddressFromBech32(output.Address); err != nil", "TradeExactOut: err := k.swapCoins(ctx, inputAddress, outputAddress, soldToken, output.Coin); err != nil", "DoubleExactIn: standardAmount, err := k.calculateWithExactInput(ctx, input.Coin, standardDenom); err != nil", "DoubleExactIn: inputAddress, err := sdk.AccAddressFromBech32(input.Address); err != nil", "DoubleExactIn: outputAddress, err := sdk.AccAddressFromBech32(output.Address); err != nil", "DoubleExactIn: err := k.swapCoins(ctx, inputAddress, inputAddress, input.Coin, standardCoin); err != nil", "DoubleExactIn: boughtAmt, err := k.calculateWithExactInput(ctx, standardCoin, output.Coin.Denom); err != nil", "DoubleExactIn: boughtAmt.LT(output.Coin.Amount)", "DoubleExactIn: err := k.swapCoins(ctx, inputAddress, outputAddress, standardCoin, boughtToken); err != nil", "DoubleExactOut: soldStandardAmount, err := k.calculateWithExactOutput(ctx, output.Coin, standardDenom); err != nil", "DoubleExactOut: soldTokenAmt, err := k.calculateWithExactOutput(ctx, soldStandardCoin, input.Coin.Denom); err != nil", "DoubleExactOut: soldTokenAmt.GT(input.Coin.Amount)", "DoubleExactOut: inputAddress, err := sdk.AccAddressFromBech32(input.Address); err != nil", "DoubleExactOut: outputAddress, err := sdk.AccAddressFromBech32(output.Address); err != nil", "DoubleExactOut: err := k.swapCoins(ctx, inputAddress, inputAddress, soldTokenCoin, soldStandardCoin); err != nil", "DoubleExactOut: err := k.swapCoins(ctx, inputAddress, outputAddress, soldStandardCoin, output.Coin); err != nil", "AddLiquidity: standardDenom == msg.MaxToken.Denom", "AddLiquidity: sender, err := sdk.AccAddressFromBech32(msg.Sender); err != nil", "AddLiquidity: err := k.DeductPoolCreationFee(ctx, sender); err != nil", "AddLiquidity: mintLiquidityAmt.LT(msg.MinLiquidity)", "AddLiquidity: balances, err := k.GetPoolBalances(ctx, pool.EscrowAddress); err != nil", "AddLiquidity: mintLiquidityAmt.LT(msg.MinLiquidity)", "AddLiquidity: standardReserveAmt.IsZero() || tokenReserveAmt.IsZero() || liquidity.IsZero()", "AddLiquidity: mintLiquidityAmt.LT(msg.MinLiquidity)", "AddLiquidity: depositAmt.GT(msg.MaxToken.Amount)", "RemoveLiquidity: sender, err := sdk.AccAddressFromBech32(msg.Sender); err != nil", "RemoveLiquidity: !exists", "RemoveLiquidity: balances, err := k.GetPoolBalances(ctx, pool.EscrowAddress); err != nil", "RemoveLiquidity: standardReserveAmt.LT(msg.MinStandardAmt)", "RemoveLiquidity: tokenReserveAmt.LT(msg.MinToken)", "RemoveLiquidity: liquidityReserve.LT(msg.WithdrawLiquidity.Amount)", "RemoveLiquidity: irisWithdrawCoin.Amount.LT(msg.MinStandardAmt)", "RemoveLiquidity: tokenWithdrawCoin.Amount.LT(msg.MinToken)", "RemoveLiquidity: poolAddr, err := sdk.AccAddressFromBech32(pool.EscrowAddress); err != nil", "AddUnilateral: sender, err := sdk.AccAddressFromBech32(msg.Sender); err != nil", "AddUnilateral: !exist", "AddUnilateral: poolAddr, err := sdk.AccAddressFromBech32(pool.EscrowAddress); err != nil", "AddUnilateral: balances, err := k.GetPoolBalances(ctx, pool.EscrowAddress); err != nil", "AddUnilateral: msg.ExactToken.Denom != msg.CounterpartyDenom && msg.ExactToken.Denom != k.GetStandardDenom(ctx)", "AddUnilateral: balances == nil || balances.IsZero()", "AddUnilateral: mintLptAmt.LT(msg.MinLiquidity)", "RemoveUnilateral: sender, err := sdk.AccAddressFromBech32(msg.Sender); err != nil", "RemoveUnilateral: !exist", "RemoveUnilateral: poolAddr, err := sdk.AccAddressFromBech32(pool.EscrowAddress); err != nil", "RemoveUnilateral: balances, err := k.GetPoolBalances(ctx, pool.EscrowAddress); err != nil", "RemoveUnilateral: msg.MinToken.Denom != msg.CounterpartyDenom && msg.MinToken.Denom != k.GetStandardDenom(ctx)", "RemoveUnilateral: lptBalanceAmt.LT(msg.ExactLiquidity)", "RemoveUnilateral: lptBalanceAmt.Equal(msg.ExactLiquidity)", "RemoveUnilateral: targetBalanceAmt.LT(msg.MinToken.Amount)", "RemoveUnilateral: targetTokenAmtAfterFee.LT(msg.MinToken.Amount)", "Keeper.Swap: err != nil", "Keeper.swapCoins: lptDenom, err := k.GetLptDenomFromDenoms(ctx, coinSold.Denom, coinBought.Denom); err != nil", "Keeper.swapCoins: err := k.bk.SendCoins(ctx, sender, poolAddr, sdk.NewCoins(coinSold)); err != nil", "Keeper.ValidatePool: err := types.ValidateLptDenom(lptDenom); err != nil", "Keeper.ValidatePool: !has", "Keeper.ValidatePool: _, err := k.GetPoolBalances(ctx, pool.EscrowAddress); err != nil", "msgServer.AddLiquidity: ctx.BlockHeader().Time.After(time.Unix(msg.Deadline, 0))", "msgServer.AddLiquidity: mintToken, err := m.k.AddLiquidity(ctx, msg); err != nil", "msgServer.AddUnilateralLiquidity: ctx.BlockHeader().Time.After(time.Unix(msg.Deadline, 0))", "msgServer.AddUnilateralLiquidity: mintToken, err := m.k.AddUnilateralLiquidity(ctx, msg); err != nil", "msgServer.RemoveLiquidity: ctx.BlockHeader().Time.After(time.Unix(msg.Deadline, 0))", "msgServer.RemoveLiquidity: withdrawCoins, err := m.k.RemoveLiquidity(ctx, msg); err != nil", "msgServer.RemoveUnilateralLiquidity: ctx.BlockHeader().Time.After(time.Unix(msg.Deadline, 0))", "msgServer.RemoveUnilateralLiquidity: withdrawCoins, err := m.k.RemoveUnilateralLiquidity(ctx, msg); err != nil", "msgServer.SwapCoin: ctx.BlockHeader().Time.After(time.Unix(msg.Deadline, 0))", "msgServer.SwapCoin: m.k.blockedAddrs[msg.Output.Address]", "msgServer.SwapCoin: err := m.k.Swap(ctx, msg); err != nil"]

/-- every statement of the translated functions executed for its effect, with its nesting depth, in source order -/
def effects : List String := ["AddUnilateral: d0 squareBigInt.Sqrt(square.BigInt())", "Keeper.CreatePool: d0 k.setSequence(ctx, sequence+1)", "Keeper.CreatePool: d0 k.setPool(ctx, pool)"]

end Irismod.Gen.PureCoinswap
