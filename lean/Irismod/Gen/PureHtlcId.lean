/- REGENERATED on every run by extract/x_pure from /repo's working tree. Do not edit. -/
import Irismod.Sdk.GoSem
namespace Irismod.Gen.PureHtlcId
open Irismod.Sdk Irismod.GoSem

def GetHashLock (secret : ByteArray) (timestamp : Nat) : Option (ByteArray) := do
  if (decide (timestamp > (0 : Nat))) then do
      some (tmhash_Sum (Bytes_append secret (Uint64ToBigEndian timestamp)))
  else do
      some (tmhash_Sum secret)

def GetID (sender : ByteArray) (to : ByteArray) (amount : List Coin) (hashLock : ByteArray) (read_amount_Sort__String : String) : Option (ByteArray) := do
  some (tmhash_Sum (Bytes_append (Bytes_append (Bytes_append hashLock sender) to) (Bytes_ofString read_amount_Sort__String)))

/-- targets the translator refused, with the reason (must be empty) -/
def untranslated : List String := []

/-- names of the translated definitions -/
def translated : List String := ["GetHashLock(secret,timestamp)", "GetID(sender,to,amount,hashLock,read_amount_Sort__String)"]

/-- every rejecting guard of the translated functions, in source order -/
def guards : List String := []

/-- every statement of the translated functions executed for its effect, with its nesting depth, in source order -/
def effects : List String := []

end Irismod.Gen.PureHtlcId
