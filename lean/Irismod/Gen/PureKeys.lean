/- REGENERATED on every run by extract/x_pure from /repo's working tree. Do not edit. -/
import Irismod.Sdk.GoSem
namespace Irismod.Gen.PureKeys
open Irismod.Sdk Irismod.GoSem

def OracleGetFeedKey (feedName : String) : Option (ByteArray) := do
  some (Bytes_append (Bytes_append (ByteArray.mk #[1]) (ByteArray.mk #[0])) (Bytes_ofString feedName))

def OracleGetReqCtxIDKey (requestContextID : ByteArray) : Option (ByteArray) := do
  some (Bytes_append (Bytes_append (ByteArray.mk #[2]) (ByteArray.mk #[0])) requestContextID)

def OracleGetFeedValuePrefixKey (feedName : String) : Option (ByteArray) := do
  some (Bytes_append (Bytes_append (ByteArray.mk #[3]) (Bytes_ofString feedName)) (ByteArray.mk #[0]))

def OracleGetFeedValueKey (feedName : String) (batchCounter : Nat) : Option (ByteArray) := do
  let key : ByteArray := (Uint64ToBigEndian batchCounter)
  let t1 ← OracleGetFeedValuePrefixKey feedName
  some (Bytes_append t1 key)

def RandomKeyRandom (reqID : ByteArray) : Option (ByteArray) := do
  some (Bytes_append (ByteArray.mk #[1]) reqID)

def RandomKeyRequestQueue (height : Int) (reqID : ByteArray) : Option (ByteArray) := do
  some (Bytes_append (Bytes_append (ByteArray.mk #[2]) (Uint64ToBigEndian (U64_ofI64 height))) reqID)

def RandomKeyRequestQueueSubspace (height : Int) : Option (ByteArray) := do
  some (Bytes_append (ByteArray.mk #[2]) (Uint64ToBigEndian (U64_ofI64 height)))

def RandomKeyOracleRequest (requestContextID : ByteArray) : Option (ByteArray) := do
  some (Bytes_append (ByteArray.mk #[3]) requestContextID)

def FarmKeyFarmPool (poolId : String) : Option (ByteArray) := do
  some (Bytes_append (ByteArray.mk #[6]) (Bytes_ofString poolId))

def FarmKeyRewardRule (poolId : String) (reward : String) : Option (ByteArray) := do
  let key : ByteArray := (Bytes_append (ByteArray.mk #[2]) (Bytes_ofString poolId))
  some (Bytes_append (Bytes_append key (ByteArray.mk #[0])) (Bytes_ofString reward))

def FarmPrefixRewardRule (poolId : String) : Option (ByteArray) := do
  let key : ByteArray := (Bytes_append (ByteArray.mk #[2]) (Bytes_ofString poolId))
  some (Bytes_append key (ByteArray.mk #[0]))

def FarmKeyFarmInfo (address : String) (poolId : String) : Option (ByteArray) := do
  some (Bytes_append (Bytes_append (ByteArray.mk #[3]) (Bytes_ofString address)) (Bytes_ofString poolId))

def FarmPrefixFarmInfo (address : String) : Option (ByteArray) := do
  some (Bytes_append (ByteArray.mk #[3]) (Bytes_ofString address))

def FarmKeyActiveFarmPool (height : Int) (poolId : String) : Option (ByteArray) := do
  some (Bytes_append (Bytes_append (ByteArray.mk #[4]) (Uint64ToBigEndian (U64_ofI64 height))) (Bytes_ofString poolId))

def FarmPrefixActiveFarmPool (height : Int) : Option (ByteArray) := do
  some (Bytes_append (ByteArray.mk #[4]) (Uint64ToBigEndian (U64_ofI64 height)))

def FarmKeyEscrowInfo (proposalId : Nat) : Option (ByteArray) := do
  some (Bytes_append (ByteArray.mk #[7]) (Uint64ToBigEndian proposalId))

def HtlcGetHTLCKey (id : ByteArray) : Option (ByteArray) := do
  some (Bytes_append (ByteArray.mk #[1]) id)

def HtlcGetHTLCExpiredQueueKey (expirationHeight : Nat) (id : ByteArray) : Option (ByteArray) := do
  some (Bytes_append (Bytes_append (ByteArray.mk #[2]) (Uint64ToBigEndian expirationHeight)) id)

def HtlcGetHTLCExpiredQueueSubspace (expirationHeight : Nat) : Option (ByteArray) := do
  some (Bytes_append (ByteArray.mk #[2]) (Uint64ToBigEndian expirationHeight))

def HtlcGetAssetSupplyKey (denom : String) : Option (ByteArray) := do
  some (Bytes_append (ByteArray.mk #[3]) (Bytes_ofString denom))

def MtKeyDenom (id : String) (Delimiter : ByteArray) : Option (ByteArray) := do
  let key : ByteArray := (Bytes_append (ByteArray.mk #[1]) Delimiter)
  some (Bytes_append key (Bytes_ofString id))

def ServiceGetServiceDefinitionKey (serviceName : String) : Option (ByteArray) := do
  some (Bytes_append (ByteArray.mk #[1]) (Bytes_ofString serviceName))

def ServiceGetServiceBindingKey (serviceName : String) (provider : ByteArray) (read_getStringsKey__string : ByteArray) : Option (ByteArray) := do
  some (Bytes_append (ByteArray.mk #[2]) read_getStringsKey__string)

def ServiceGetRequestContextKey (requestContextID : ByteArray) : Option (ByteArray) := do
  some (Bytes_append (ByteArray.mk #[8]) requestContextID)

def ServiceGetExpiredRequestBatchKey (requestContextID : ByteArray) (batchExpirationHeight : Int) : Option (ByteArray) := do
  let reqBatchExpiration : ByteArray := (Bytes_append (Uint64ToBigEndian (U64_ofI64 batchExpirationHeight)) requestContextID)
  some (Bytes_append (ByteArray.mk #[9]) reqBatchExpiration)

def ServiceGetNewRequestBatchKey (requestContextID : ByteArray) (requestBatchHeight : Int) : Option (ByteArray) := do
  let newBatchRequest : ByteArray := (Bytes_append (Uint64ToBigEndian (U64_ofI64 requestBatchHeight)) requestContextID)
  some (Bytes_append (ByteArray.mk #[16]) newBatchRequest)

def ServiceGetExpiredRequestBatchSubspace (batchExpirationHeight : Int) : Option (ByteArray) := do
  some (Bytes_append (ByteArray.mk #[9]) (Uint64ToBigEndian (U64_ofI64 batchExpirationHeight)))

def ServiceGetNewRequestBatchSubspace (requestBatchHeight : Int) : Option (ByteArray) := do
  some (Bytes_append (ByteArray.mk #[16]) (Uint64ToBigEndian (U64_ofI64 requestBatchHeight)))

def ServiceGetExpiredRequestBatchHeightKey (requestContextID : ByteArray) : Option (ByteArray) := do
  some (Bytes_append (ByteArray.mk #[17]) requestContextID)

def ServiceGetNewRequestBatchHeightKey (requestContextID : ByteArray) : Option (ByteArray) := do
  some (Bytes_append (ByteArray.mk #[18]) requestContextID)

def ServiceGetRequestKey (requestID : ByteArray) : Option (ByteArray) := do
  some (Bytes_append (ByteArray.mk #[19]) requestID)

def ServiceGetActiveRequestKeyByID (requestID : ByteArray) : Option (ByteArray) := do
  some (Bytes_append (ByteArray.mk #[21]) requestID)

def ServiceGetResponseKey (requestID : ByteArray) : Option (ByteArray) := do
  some (Bytes_append (ByteArray.mk #[22]) requestID)

def ServiceGetEarnedFeesKey (provider : ByteArray) (denom : String) (read_provider_Bytes : ByteArray) : Option (ByteArray) := do
  some (Bytes_append (Bytes_append (ByteArray.mk #[24]) read_provider_Bytes) (Bytes_ofString denom))

def ServiceGetEarnedFeesSubspace (provider : ByteArray) (read_provider_Bytes : ByteArray) : Option (ByteArray) := do
  some (Bytes_append (ByteArray.mk #[24]) read_provider_Bytes)

def ServiceGetOwnerEarnedFeesKey (owner : ByteArray) (denom : String) (read_owner_Bytes : ByteArray) : Option (ByteArray) := do
  some (Bytes_append (Bytes_append (ByteArray.mk #[25]) read_owner_Bytes) (Bytes_ofString denom))

def ServiceGetOwnerEarnedFeesSubspace (owner : ByteArray) (read_owner_Bytes : ByteArray) : Option (ByteArray) := do
  some (Bytes_append (ByteArray.mk #[25]) read_owner_Bytes)

def RecordGetRecordKey (recordID : ByteArray) : Option (ByteArray) := do
  some (Bytes_append (ByteArray.mk #[1]) recordID)

def TokenKeySymbol (symbol : String) : Option (ByteArray) := do
  some (Bytes_append (ByteArray.mk #[1]) (Bytes_ofString symbol))

def TokenKeyMinUint (minUnit : String) : Option (ByteArray) := do
  some (Bytes_append (ByteArray.mk #[2]) (Bytes_ofString minUnit))

def TokenKeyContract (contract : String) (read_common_HexToAddress_contract_Bytes : ByteArray) : Option (ByteArray) := do
  let bz : ByteArray := read_common_HexToAddress_contract_Bytes
  some (Bytes_append (ByteArray.mk #[6]) bz)

def TokenKeyTokens (owner : ByteArray) (symbol : String) (read_owner_Bytes : ByteArray) : Option (ByteArray) := do
  some (Bytes_append (Bytes_append (ByteArray.mk #[3]) read_owner_Bytes) (Bytes_ofString symbol))

def TokenKeyBurnTokenAmt (minUint : String) : Option (ByteArray) := do
  some (Bytes_append (ByteArray.mk #[4]) (Bytes_ofString minUint))

def CoinswapGetPoolKey (pooId : String) (read_fmt_Sprintf_ss_KeyPool_pooId : String) : Option (ByteArray) := do
  some (Bytes_ofString read_fmt_Sprintf_ss_KeyPool_pooId)

def CoinswapGetLptDenomKey (lptDenom : String) (read_fmt_Sprintf_ss_KeyPoolLptDenom_lptDenom : String) : Option (ByteArray) := do
  some (Bytes_ofString read_fmt_Sprintf_ss_KeyPoolLptDenom_lptDenom)

/-- targets the translator refused, with the reason (must be empty) -/
def untranslated : List String := []

/-- names of the translated definitions -/
def translated : List String := ["OracleGetFeedKey(feedName)", "OracleGetReqCtxIDKey(requestContextID)", "OracleGetFeedValuePrefixKey(feedName)", "OracleGetFeedValueKey(feedName,batchCounter)", "RandomKeyRandom(reqID)", "RandomKeyRequestQueue(height,reqID)", "RandomKeyRequestQueueSubspace(height)", "RandomKeyOracleRequest(requestContextID)", "FarmKeyFarmPool(poolId)", "FarmKeyRewardRule(poolId,reward)", "FarmPrefixRewardRule(poolId)", "FarmKeyFarmInfo(address,poolId)", "FarmPrefixFarmInfo(address)", "FarmKeyActiveFarmPool(height,poolId)", "FarmPrefixActiveFarmPool(height)", "FarmKeyEscrowInfo(proposalId)", "HtlcGetHTLCKey(id)", "HtlcGetHTLCExpiredQueueKey(expirationHeight,id)", "HtlcGetHTLCExpiredQueueSubspace(expirationHeight)", "HtlcGetAssetSupplyKey(denom)", "MtKeyDenom(id,Delimiter)", "ServiceGetServiceDefinitionKey(serviceName)", "ServiceGetServiceBindingKey(serviceName,provider,read_getStringsKey__string)", "ServiceGetRequestContextKey(requestContextID)", "ServiceGetExpiredRequestBatchKey(requestContextID,batchExpirationHeight)", "ServiceGetNewRequestBatchKey(requestContextID,requestBatchHeight)", "ServiceGetExpiredRequestBatchSubspace(batchExpirationHeight)", "ServiceGetNewRequestBatchSubspace(requestBatchHeight)", "ServiceGetExpiredRequestBatchHeightKey(requestContextID)", "ServiceGetNewRequestBatchHeightKey(requestContextID)", "ServiceGetRequestKey(requestID)", "ServiceGetActiveRequestKeyByID(requestID)", "ServiceGetResponseKey(requestID)", "ServiceGetEarnedFeesKey(provider,denom,read_provider_Bytes)", "ServiceGetEarnedFeesSubspace(provider,read_provider_Bytes)", "ServiceGetOwnerEarnedFeesKey(owner,denom,read_owner_Bytes)", "ServiceGetOwnerEarnedFeesSubspace(owner,read_owner_Bytes)", "RecordGetRecordKey(recordID)", "TokenKeySymbol(symbol)", "TokenKeyMinUint(minUnit)", "TokenKeyContract(contract,read_common_HexToAddress_contract_Bytes)", "TokenKeyTokens(owner,symbol,read_owner_Bytes)", "TokenKeyBurnTokenAmt(minUint)", "CoinswapGetPoolKey(pooId,read_fmt_Sprintf_ss_KeyPool_pooId)", "CoinswapGetLptDenomKey(lptDenom,read_fmt_Sprintf_ss_KeyPoolLptDenom_lptDenom)"]

/-- every rejecting guard of the translated functions, in source order -/
def guards : List String := []

/-- every statement of the translated functions executed for its effect, with its nesting depth, in source order -/
def effects : List String := ["OracleGetFeedValueKey: d0 binary.BigEndian.PutUint64(key, batchCounter)"]

end Irismod.Gen.PureKeys
