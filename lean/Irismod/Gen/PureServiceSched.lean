/- REGENERATED on every run by extract/x_pure from /repo's working tree. Do not edit. -/
import Irismod.Sdk.GoSem
namespace Irismod.Gen.PureServiceSched
open Irismod.Sdk Irismod.GoSem

/-- branch condition: `requestContext.BatchState != types.BATCHCOMPLETED` -/
def EndBlocker_cond_1 (requestContext_BatchState : Int) : Option (Bool) := do
  some (requestContext_BatchState != (1 : Int))

/-- argument 2 of `k.DeleteRequestBatchExpiration` -/
def EndBlocker_call_DeleteRequestBatchExpiration_1_arg2 (read_ctx_BlockHeight : Int) : Option (Int) := do
  some read_ctx_BlockHeight

/-- branch condition: `requestContext.State == types.COMPLETED` -/
def EndBlocker_cond_2 (requestContext_State : Int) : Option (Bool) := do
  some (requestContext_State == (2 : Int))

/-- branch condition: `requestContext.State == types.RUNNING` -/
def EndBlocker_cond_3 (requestContext_State : Int) : Option (Bool) := do
  some (requestContext_State == (0 : Int))

/-- branch condition: `requestContext.Repeated && (requestContext.RepeatedTotal < 0 || int64(requestContext.BatchCounter) < requestContext.RepeatedTotal)` -/
def EndBlocker_cond_4 (requestContext_Repeated : Bool) (requestContext_RepeatedTotal : Int) (requestContext_BatchCounter : Nat) : Option (Bool) := do
  some (requestContext_Repeated && ((decide (requestContext_RepeatedTotal < (0 : Int))) || (decide ((I64_wrap (requestContext_BatchCounter : Int)) < requestContext_RepeatedTotal))))

/-- argument 2 of `k.AddNewRequestBatch` -/
def EndBlocker_call_AddNewRequestBatch_1_arg2 (read_ctx_BlockHeight : Int) (requestContext_Timeout : Int) (requestContext_RepeatedFrequency : Nat) : Option (Int) := do
  some (I64_Add (I64_Sub read_ctx_BlockHeight requestContext_Timeout) (I64_wrap (requestContext_RepeatedFrequency : Int)))

/-- branch condition: `requestContext.State == types.RUNNING` -/
def EndBlocker_cond_5 (requestContext_State : Int) : Option (Bool) := do
  some (requestContext_State == (0 : Int))

/-- argument 2 of `k.DeleteNewRequestBatch` -/
def EndBlocker_call_DeleteNewRequestBatch_1_arg2 (read_ctx_BlockHeight : Int) : Option (Int) := do
  some read_ctx_BlockHeight

/-- branch condition: `len(providers) > 0 && len(providers) >= int(requestContext.ResponseThreshold)` -/
def EndBlocker_cond_6 (read_len_providers : Int) (requestContext_ResponseThreshold : Nat) : Option (Bool) := do
  some ((decide (read_len_providers > (0 : Int))) && (decide (read_len_providers ≥ (requestContext_ResponseThreshold : Int))))

/-- branch condition: `requestContext.State == types.RUNNING` -/
def EndBlocker_cond_7 (requestContext_State : Int) : Option (Bool) := do
  some (requestContext_State == (0 : Int))

/-- argument 2 of `k.AddRequestBatchExpiration` -/
def EndBlocker_call_AddRequestBatchExpiration_1_arg2 (read_ctx_BlockHeight : Int) (requestContext_Timeout : Int) : Option (Int) := do
  some (I64_Add read_ctx_BlockHeight requestContext_Timeout)

/-- argument 2 of `k.DeleteNewRequestBatch` -/
def EndBlocker_call_DeleteNewRequestBatch_2_arg2 (read_ctx_BlockHeight : Int) : Option (Int) := do
  some read_ctx_BlockHeight

/-- branch condition: `len(str) != 2` -/
def EndBlocker_cond_8 (read_len_str : Int) : Option (Bool) := do
  some (read_len_str != (2 : Int))

/-- branch condition: `len(requestContext.ModuleName) > 0` -/
def UpdateRequestContext_cond_1 (read_len_requestContext_ModuleName : Int) : Option (Bool) := do
  some (decide (read_len_requestContext_ModuleName > (0 : Int)))

/-- branch condition: `requestContext.State == types.COMPLETED` -/
def UpdateRequestContext_cond_2 (requestContext_State : Int) : Option (Bool) := do
  some (requestContext_State == (2 : Int))

/-- branch condition: `len(requestContext.ModuleName) > 0` -/
def UpdateRequestContext_cond_3 (read_len_requestContext_ModuleName : Int) : Option (Bool) := do
  some (decide (read_len_requestContext_ModuleName > (0 : Int)))

/-- branch condition: `respThreshold == 0` -/
def UpdateRequestContext_cond_4 (respThreshold : Nat) : Option (Bool) := do
  some (respThreshold == (0 : Nat))

/-- branch condition: `len(pds) == 0` -/
def UpdateRequestContext_cond_5 (read_len_pds : Int) : Option (Bool) := do
  some (read_len_pds == (0 : Int))

/-- rejects when true: `respThreshold > uint32(len(pds))` -/
def UpdateRequestContext_guard_6 (respThreshold : Nat) (read_len_pds : Int) : Option (Bool) := do
  some (decide (respThreshold > (U32_ofI64 read_len_pds)))

/-- branch condition: `respThreshold > 0` -/
def UpdateRequestContext_cond_7 (respThreshold : Nat) : Option (Bool) := do
  some (decide (respThreshold > (0 : Nat)))

/-- branch condition: `!serviceFeeCap.Empty()` -/
def UpdateRequestContext_cond_8 (read_serviceFeeCap_Empty : Bool) : Option (Bool) := do
  some (!read_serviceFeeCap_Empty)

/-- rejects when true: `timeout > maxRequestTimeout` -/
def UpdateRequestContext_guard_9 (timeout : Int) (maxRequestTimeout : Int) : Option (Bool) := do
  some (decide (timeout > maxRequestTimeout))

/-- branch condition: `timeout == 0` -/
def UpdateRequestContext_cond_10 (timeout : Int) : Option (Bool) := do
  some (timeout == (0 : Int))

def UpdateRequestContext_timeout_1 (requestContext_Timeout : Int) : Option (Int) := do
  some requestContext_Timeout

/-- branch condition: `repeatedFreq == 0` -/
def UpdateRequestContext_cond_11 (repeatedFreq : Nat) : Option (Bool) := do
  some (repeatedFreq == (0 : Nat))

def UpdateRequestContext_repeatedFreq_1 (requestContext_RepeatedFrequency : Nat) : Option (Nat) := do
  some requestContext_RepeatedFrequency

/-- rejects when true: `repeatedFreq < uint64(timeout)` -/
def UpdateRequestContext_guard_12 (repeatedFreq : Nat) (timeout : Int) : Option (Bool) := do
  some (decide (repeatedFreq < (U64_ofI64 timeout)))

/-- rejects when true: `repeatedTotal >= 1 && repeatedTotal < int64(requestContext.BatchCounter)` -/
def UpdateRequestContext_guard_13 (repeatedTotal : Int) (requestContext_BatchCounter : Nat) : Option (Bool) := do
  some ((decide (repeatedTotal ≥ (1 : Int))) && (decide (repeatedTotal < (I64_wrap (requestContext_BatchCounter : Int)))))

/-- branch condition: `len(pds) > 0` -/
def UpdateRequestContext_cond_14 (read_len_pds : Int) : Option (Bool) := do
  some (decide (read_len_pds > (0 : Int)))

/-- branch condition: `timeout > 0` -/
def UpdateRequestContext_cond_15 (timeout : Int) : Option (Bool) := do
  some (decide (timeout > (0 : Int)))

def UpdateRequestContext_requestContext_Timeout_1 (timeout : Int) : Option (Int) := do
  some timeout

/-- branch condition: `repeatedFreq > 0` -/
def UpdateRequestContext_cond_16 (repeatedFreq : Nat) : Option (Bool) := do
  some (decide (repeatedFreq > (0 : Nat)))

def UpdateRequestContext_requestContext_RepeatedFrequency_1 (repeatedFreq : Nat) : Option (Nat) := do
  some repeatedFreq

/-- branch condition: `repeatedTotal != 0` -/
def UpdateRequestContext_cond_17 (repeatedTotal : Int) : Option (Bool) := do
  some (repeatedTotal != (0 : Int))

def UpdateRequestContext_requestContext_RepeatedTotal_1 (repeatedTotal : Int) : Option (Int) := do
  some repeatedTotal

/-- branch condition: `len(requestContext.ModuleName) > 0` -/
def StartRequestContext_cond_1 (read_len_requestContext_ModuleName : Int) : Option (Bool) := do
  some (decide (read_len_requestContext_ModuleName > (0 : Int)))

/-- branch condition: `requestContext.State != types.PAUSED` -/
def StartRequestContext_cond_2 (requestContext_State : Int) : Option (Bool) := do
  some (requestContext_State != (1 : Int))

/-- rejects when true: `requestContext.Repeated && requestContext.RepeatedTotal >= 0 && int64(requestContext.BatchCounter) >= requestContext.RepeatedTotal` -/
def StartRequestContext_guard_3 (requestContext_Repeated : Bool) (requestContext_RepeatedTotal : Int) (requestContext_BatchCounter : Nat) : Option (Bool) := do
  some ((requestContext_Repeated && (decide (requestContext_RepeatedTotal ≥ (0 : Int)))) && (decide ((I64_wrap (requestContext_BatchCounter : Int)) ≥ requestContext_RepeatedTotal)))

/-- branch condition: `!k.HasRequestBatchExpiration(ctx, requestContextID) && !k.HasNewRequestBatch(ctx, requestContextID)` -/
def StartRequestContext_cond_4 (read_k_HasRequestBatchExpiration_ctx_requestContextID : Bool) (read_k_HasNewRequestBatch_ctx_requestContextID : Bool) : Option (Bool) := do
  some ((!read_k_HasRequestBatchExpiration_ctx_requestContextID) && (!read_k_HasNewRequestBatch_ctx_requestContextID))

/-- argument 2 of `k.AddNewRequestBatch` -/
def StartRequestContext_call_AddNewRequestBatch_1_arg2 (read_ctx_BlockHeight : Int) : Option (Int) := do
  some read_ctx_BlockHeight

/-- targets the translator refused, with the reason (must be empty) -/
def untranslated : List String := []

/-- names of the translated definitions -/
def translated : List String := ["EndBlocker_cond_1(requestContext_BatchState)", "EndBlocker_call_DeleteRequestBatchExpiration_1_arg2(read_ctx_BlockHeight)", "EndBlocker_cond_2(requestContext_State)", "EndBlocker_cond_3(requestContext_State)", "EndBlocker_cond_4(requestContext_Repeated,requestContext_RepeatedTotal,requestContext_BatchCounter)", "EndBlocker_call_AddNewRequestBatch_1_arg2(read_ctx_BlockHeight,requestContext_Timeout,requestContext_RepeatedFrequency)", "EndBlocker_cond_5(requestContext_State)", "EndBlocker_call_DeleteNewRequestBatch_1_arg2(read_ctx_BlockHeight)", "EndBlocker_cond_6(read_len_providers,requestContext_ResponseThreshold)", "EndBlocker_cond_7(requestContext_State)", "EndBlocker_call_AddRequestBatchExpiration_1_arg2(read_ctx_BlockHeight,requestContext_Timeout)", "EndBlocker_call_DeleteNewRequestBatch_2_arg2(read_ctx_BlockHeight)", "EndBlocker_cond_8(read_len_str)", "UpdateRequestContext_cond_1(read_len_requestContext_ModuleName)", "UpdateRequestContext_cond_2(requestContext_State)", "UpdateRequestContext_cond_3(read_len_requestContext_ModuleName)", "UpdateRequestContext_cond_4(respThreshold)", "UpdateRequestContext_cond_5(read_len_pds)", "UpdateRequestContext_guard_6(respThreshold,read_len_pds)", "UpdateRequestContext_cond_7(respThreshold)", "UpdateRequestContext_cond_8(read_serviceFeeCap_Empty)", "UpdateRequestContext_guard_9(timeout,maxRequestTimeout)", "UpdateRequestContext_cond_10(timeout)", "UpdateRequestContext_timeout_1(requestContext_Timeout)", "UpdateRequestContext_cond_11(repeatedFreq)", "UpdateRequestContext_repeatedFreq_1(requestContext_RepeatedFrequency)", "UpdateRequestContext_guard_12(repeatedFreq,timeout)", "UpdateRequestContext_guard_13(repeatedTotal,requestContext_BatchCounter)", "UpdateRequestContext_cond_14(read_len_pds)", "UpdateRequestContext_cond_15(timeout)", "UpdateRequestContext_requestContext_Timeout_1(timeout)", "UpdateRequestContext_cond_16(repeatedFreq)", "UpdateRequestContext_requestContext_RepeatedFrequency_1(repeatedFreq)", "UpdateRequestContext_cond_17(repeatedTotal)", "UpdateRequestContext_requestContext_RepeatedTotal_1(repeatedTotal)", "StartRequestContext_cond_1(read_len_requestContext_ModuleName)", "StartRequestContext_cond_2(requestContext_State)", "StartRequestContext_guard_3(requestContext_Repeated,requestContext_RepeatedTotal,requestContext_BatchCounter)", "StartRequestContext_cond_4(read_k_HasRequestBatchExpiration_ctx_requestContextID,read_k_HasNewRequestBatch_ctx_requestContextID)", "StartRequestContext_call_AddNewRequestBatch_1_arg2(read_ctx_BlockHeight)"]

/-- every rejecting guard of the translated functions, in source order -/
def guards : List String := ["UpdateRequestContext: !found", "UpdateRequestContext: err := k.CheckAuthority(ctx, consumer, requestContextID, false); err != nil", "UpdateRequestContext: err := types.ValidateRequestContextUpdating(providers, serviceFeeCap, timeout, repeatedFreq, repeatedTotal); err != nil", "UpdateRequestContext: respThreshold > uint32(len(pds))", "UpdateRequestContext: err := k.validateServiceFeeCap(ctx, serviceFeeCap); err != nil", "UpdateRequestContext: timeout > maxRequestTimeout", "UpdateRequestContext: repeatedFreq < uint64(timeout)", "UpdateRequestContext: repeatedTotal >= 1 && repeatedTotal < int64(requestContext.BatchCounter)", "StartRequestContext: !found", "StartRequestContext: err := k.CheckAuthority(ctx, consumer, requestContextID, false); err != nil", "StartRequestContext: requestContext.Repeated && requestContext.RepeatedTotal >= 0 && int64(requestContext.BatchCounter) >= requestContext.RepeatedTotal", "Keeper.CreateRequestContext: _, err := k.GetResponseCallback(moduleName); err != nil", "Keeper.CreateRequestContext: _, err := k.GetStateCallback(moduleName); err != nil", "Keeper.CreateRequestContext: err := types.ValidateRequest( serviceName, serviceFeeCap, providers, input, timeout, repeated, repeatedFrequency, repeatedTotal, ); err != nil", "Keeper.CreateRequestContext: responseThreshold < 1 || int(responseThreshold) > len(providers)", "Keeper.CreateRequestContext: !found", "Keeper.CreateRequestContext: err := types.ValidateRequestInput(input); err != nil", "Keeper.CreateRequestContext: err := k.validateServiceFeeCap(ctx, serviceFeeCap); err != nil", "Keeper.CreateRequestContext: timeout > maxRequestTimeout", "Keeper.PauseRequestContext: !found", "Keeper.PauseRequestContext: err := k.CheckAuthority(ctx, consumer, requestContextID, false); err != nil", "Keeper.KillRequestContext: !found", "Keeper.KillRequestContext: err := k.CheckAuthority(ctx, consumer, requestContextID, false); err != nil", "Keeper.AddResponse: !found", "Keeper.AddResponse: !provider.Equals(requestProvider)", "Keeper.AddResponse: !k.IsRequestActive(ctx, requestID)", "Keeper.AddResponse: err := types.ValidateResponseOutput(output); err != nil", "Keeper.AddResponse: err := k.AddEarnedFee(ctx, provider, request.ServiceFee); err != nil", "Keeper.CheckAuthority: !found", "Keeper.CheckAuthority: consumer.String() != requestContext.Consumer", "Keeper.CheckAuthority: checkModule && len(requestContext.ModuleName) > 0", "Keeper.validateServiceFeeCap: len(serviceFeeCap) != 1 || serviceFeeCap[0].Denom != baseDenom"]

/-- every statement of the translated functions executed for its effect, with its nesting depth, in source order -/
def effects : List String := ["EndBlocker: d1 k.DeleteActiveRequest( ctx, request.ServiceName, provider, request.ExpirationHeight, requestID, )", "EndBlocker: d2 k.IterateActiveRequests( ctx, requestContextID, requestContext.BatchCounter, expiredRequestHandler, )", "EndBlocker: d1 k.DeleteRequestBatchExpiration(ctx, requestContextID, ctx.BlockHeight())", "EndBlocker: d1 k.SetRequestContext(ctx, requestContextID, requestContext)", "EndBlocker: d2 k.CompleteServiceContext(ctx, requestContext, requestContextID)", "EndBlocker: d3 k.AddNewRequestBatch( ctx, requestContextID, ctx.BlockHeight()-requestContext.Timeout+int64( requestContext.RepeatedFrequency, ), )", "EndBlocker: d3 k.CompleteServiceContext(ctx, requestContext, requestContextID)", "EndBlocker: d1 k.CleanBatch(ctx, requestContext, requestContextID)", "EndBlocker: d3 k.OnRequestContextPaused(ctx, requestContext, requestContextID, \"no exchange rate\")", "EndBlocker: d3 k.DeleteNewRequestBatch(ctx, requestContextID, ctx.BlockHeight())", "EndBlocker: d4 k.OnRequestContextPaused( ctx, requestContext, requestContextID, \"insufficient balances\", )", "EndBlocker: d4 writeCache()", "EndBlocker: d4 k.AddRequestBatchExpiration( ctx, requestContextID, ctx.BlockHeight()+requestContext.Timeout, )", "EndBlocker: d3 k.SkipCurrentRequestBatch(ctx, requestContextID, *requestContext)", "EndBlocker: d1 k.DeleteNewRequestBatch(ctx, requestContextID, ctx.BlockHeight())", "EndBlocker: d0 k.IterateExpiredRequestBatch(ctx, ctx.BlockHeight(), expiredRequestBatchHandler)", "EndBlocker: d0 k.IterateNewRequestBatch(ctx, ctx.BlockHeight(), newRequestBatchHandler)", "UpdateRequestContext: d2 requestContext.ResponseThreshold = respThreshold", "UpdateRequestContext: d1 requestContext.ServiceFeeCap = serviceFeeCap", "UpdateRequestContext: d1 requestContext.Providers = pds", "UpdateRequestContext: d1 requestContext.Timeout = timeout", "UpdateRequestContext: d1 requestContext.RepeatedFrequency = repeatedFreq", "UpdateRequestContext: d1 requestContext.RepeatedTotal = repeatedTotal", "UpdateRequestContext: d0 k.SetRequestContext(ctx, requestContextID, requestContext)", "StartRequestContext: d0 requestContext.State = types.RUNNING", "StartRequestContext: d0 k.SetRequestContext(ctx, requestContextID, requestContext)", "StartRequestContext: d1 k.AddNewRequestBatch(ctx, requestContextID, ctx.BlockHeight())", "Keeper.InitiateRequests: d0 requestContext.BatchCounter++", "Keeper.InitiateRequests: d1 k.SetCompactRequest(ctx, requestID, request)", "Keeper.InitiateRequests: d1 k.AddActiveRequest( ctx, requestContext.ServiceName, provider, ctx.BlockHeight()+requestContext.Timeout, requestID, )", "Keeper.InitiateRequests: d0 requestContext.BatchState = types.BATCHRUNNING", "Keeper.InitiateRequests: d0 requestContext.BatchResponseCount = 0", "Keeper.InitiateRequests: d0 requestContext.BatchRequestCount = uint32(len(providers))", "Keeper.InitiateRequests: d0 requestContext.BatchResponseThreshold = requestContext.ResponseThreshold", "Keeper.InitiateRequests: d0 k.SetRequestContext(ctx, requestContextID, requestContext)", "Keeper.SkipCurrentRequestBatch: d0 requestContext.BatchCounter++", "Keeper.SkipCurrentRequestBatch: d0 requestContext.BatchState = types.BATCHRUNNING", "Keeper.SkipCurrentRequestBatch: d0 requestContext.BatchRequestCount = 0", "Keeper.SkipCurrentRequestBatch: d0 requestContext.BatchResponseCount = 0", "Keeper.SkipCurrentRequestBatch: d0 requestContext.BatchResponseThreshold = requestContext.ResponseThreshold", "Keeper.SkipCurrentRequestBatch: d0 k.SetRequestContext(ctx, requestContextID, requestContext)", "Keeper.SkipCurrentRequestBatch: d0 k.AddRequestBatchExpiration(ctx, requestContextID, ctx.BlockHeight()+requestContext.Timeout)", "Keeper.CreateRequestContext: d0 k.SetRequestContext(ctx, requestContextID, requestContext)", "Keeper.CreateRequestContext: d1 k.AddNewRequestBatch(ctx, requestContextID, ctx.BlockHeight())", "Keeper.PauseRequestContext: d0 requestContext.State = types.PAUSED", "Keeper.PauseRequestContext: d0 k.SetRequestContext(ctx, requestContextID, requestContext)", "Keeper.KillRequestContext: d0 requestContext.State = types.COMPLETED", "Keeper.KillRequestContext: d0 k.SetRequestContext(ctx, requestContextID, requestContext)", "Keeper.AddResponse: d0 k.SetResponse(ctx, requestID, response)", "Keeper.AddResponse: d0 k.DeleteActiveRequest(ctx, request.ServiceName, provider, request.ExpirationHeight, requestID)", "Keeper.AddResponse: d0 k.IncreaseRequestVolume(ctx, consumer, request.ServiceName, provider)", "Keeper.AddResponse: d0 requestContext.BatchResponseCount++", "Keeper.AddResponse: d0 k.SetRequestContext(ctx, requestContextID, requestContext)", "Keeper.CompleteBatch: d0 requestContext.BatchState = types.BATCHCOMPLETED", "Keeper.CompleteBatch: d1 k.Callback(ctx, requestContextID)", "Keeper.CompleteServiceContext: d0 k.DeleteRequestContext(ctx, requestContextID)", "Keeper.OnRequestContextPaused: d0 requestContext.BatchState = types.BATCHCOMPLETED", "Keeper.OnRequestContextPaused: d0 requestContext.State = types.PAUSED", "Keeper.OnRequestContextPaused: d0 k.SetRequestContext(ctx, requestContextID, *requestContext)", "Keeper.OnRequestContextPaused: d1 stateCallback(ctx, requestContextID, cause)"]

end Irismod.Gen.PureServiceSched
