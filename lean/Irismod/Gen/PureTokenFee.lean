/- REGENERATED on every run by extract/x_pure from /repo's working tree. Do not edit. -/
import Irismod.Sdk.GoSem
namespace Irismod.Gen.PureTokenFee
open Irismod.Sdk Irismod.GoSem

def MintToken_precision_1 (token_Scale : Nat) : Option (Int) := do
  let t1 ← NewIntWithDecimal (1 : Int) (token_Scale : Int)
  some t1

def MintToken_mintableAmt_1 (token_MaxSupply : Nat) (precision : Int) (supply : Int) : Option (Int) := do
  let t1 ← Int_Mul (NewIntFromUint64 (token_MaxSupply : Int)) precision
  let t2 ← Int_Sub t1 supply
  some t2

/-- rejects when true: `owner.String() != token.Owner` -/
def MintToken_guard_1 (read_owner_String : String) (token_Owner : String) : Option (Bool) := do
  some (read_owner_String != token_Owner)

/-- rejects when true: `!token.Mintable` -/
def MintToken_guard_2 (token_Mintable : Bool) : Option (Bool) := do
  some (!token_Mintable)

/-- rejects when true: `coinMinted.Amount.GT(mintableAmt)` -/
def MintToken_guard_3 (coinMinted : Coin) (mintableAmt : Int) : Option (Bool) := do
  some (Int_GT coinMinted.amount mintableAmt)

/-- branch condition: `recipient.Empty()` -/
def MintToken_cond_4 (read_recipient_Empty : Bool) : Option (Bool) := do
  some read_recipient_Empty

def GetTokenMintFee_mintFee_1 (fee : Coin) (params_MintTokenFeeRatio : Dec) : Option (Int) := do
  let t1 ← Dec_Mul (LegacyNewDecFromInt fee.amount) params_MintTokenFeeRatio
  let t2 ← Dec_TruncateInt t1
  some t2

def feeHandler_communityTaxCoin_1 (fee : Coin) (tokenTaxRate : Dec) : Option (Coin) := do
  let t1 ← Dec_Mul (LegacyNewDecFromInt fee.amount) tokenTaxRate
  let t2 ← Dec_TruncateInt t1
  let t3 ← NewCoin fee.denom t2
  some t3

def calcFeeByBase_actualFee_1 (baseFee : Int) (feeFactor : Dec) : Option (Dec) := do
  let t1 ← Dec_Quo (LegacyNewDecFromInt baseFee) feeFactor
  some t1

/-- targets the translator refused, with the reason (must be empty) -/
def untranslated : List String := []

/-- names of the translated definitions -/
def translated : List String := ["MintToken_precision_1(token_Scale)", "MintToken_mintableAmt_1(token_MaxSupply,precision,supply)", "MintToken_guard_1(read_owner_String,token_Owner)", "MintToken_guard_2(token_Mintable)", "MintToken_guard_3(coinMinted,mintableAmt)", "MintToken_cond_4(read_recipient_Empty)", "GetTokenMintFee_mintFee_1(fee,params_MintTokenFeeRatio)", "feeHandler_communityTaxCoin_1(fee,tokenTaxRate)", "calcFeeByBase_actualFee_1(baseFee,feeFactor)"]

end Irismod.Gen.PureTokenFee
