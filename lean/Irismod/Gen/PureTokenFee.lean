/- REGENERATED on every run by extract/x_pure from /repo's working tree. Do not edit. -/
import Irismod.Sdk.GoSem
namespace Irismod.Gen.PureTokenFee
open Irismod.Sdk Irismod.GoSem

/-- rejects when true: `owner.String() != token.Owner` -/
def MintToken_guard_1 (read_owner_String : String) (token_Owner : String) : Option (Bool) := do
  some (read_owner_String != token_Owner)

/-- rejects when true: `!token.Mintable` -/
def MintToken_guard_2 (token_Mintable : Bool) : Option (Bool) := do
  some (!token_Mintable)

def MintToken_precision_1 (token_Scale : Nat) : Option (Int) := do
  let t1 ← NewIntWithDecimal (1 : Int) (token_Scale : Int)
  some t1

def MintToken_mintableAmt_1 (token_MaxSupply : Nat) (precision : Int) (supply : Int) : Option (Int) := do
  let t1 ← Int_Mul (NewIntFromUint64 (token_MaxSupply : Int)) precision
  let t2 ← Int_Sub t1 supply
  some t2

/-- rejects when true: `coinMinted.Amount.GT(mintableAmt)` -/
def MintToken_guard_3 (coinMinted : Coin) (mintableAmt : Int) : Option (Bool) := do
  some (Int_GT coinMinted.amount mintableAmt)

/-- branch condition: `recipient.Empty()` -/
def MintToken_cond_4 (read_recipient_Empty : Bool) : Option (Bool) := do
  some read_recipient_Empty

/-- rejects when true: `owner.String() != token.Owner` -/
def EditToken_guard_1 (read_owner_String : String) (token_Owner : String) : Option (Bool) := do
  some (read_owner_String != token_Owner)

/-- branch condition: `maxSupply > 0` -/
def EditToken_cond_2 (maxSupply : Nat) : Option (Bool) := do
  some (decide (maxSupply > (0 : Nat)))

def EditToken_issuedAmt_1 (read_k_getTokenSupply_ctx_token_MinUnit : Int) : Option (Int) := do
  some read_k_getTokenSupply_ctx_token_MinUnit

def EditToken_precision_1 (token_Scale : Nat) : Option (Int) := do
  let t1 ← NewIntWithDecimal (1 : Int) (token_Scale : Int)
  some t1

/-- rejects when true: `sdkmath.NewIntFromUint64(maxSupply).Mul(precision).LT(issuedAmt)` -/
def EditToken_guard_3 (maxSupply : Nat) (precision : Int) (issuedAmt : Int) : Option (Bool) := do
  let t1 ← Int_Mul (NewIntFromUint64 (maxSupply : Int)) precision
  some (Int_LT t1 issuedAmt)

def EditToken_token_MaxSupply_1 (maxSupply : Nat) : Option (Nat) := do
  some maxSupply

/-- branch condition: `name != v1.DoNotModify` -/
def EditToken_cond_4 (name : String) : Option (Bool) := do
  some (name != "[do-not-modify]")

def EditToken_token_Name_1 (name : String) : Option (String) := do
  some name

/-- branch condition: `exist` -/
def EditToken_cond_5 (exist : Bool) : Option (Bool) := do
  some exist

/-- branch condition: `mintable != types.Nil` -/
def EditToken_cond_6 (mintable : String) : Option (Bool) := do
  some (mintable != "")

def EditToken_token_Mintable_1 (read_mintable_ToBool : Bool) : Option (Bool) := do
  some read_mintable_ToBool

def GetTokenMintFee_mintFee_1 (fee : Coin) (params_MintTokenFeeRatio : Dec) : Option (Int) := do
  let t1 ← Dec_Mul (LegacyNewDecFromInt fee.amount) params_MintTokenFeeRatio
  let t2 ← Dec_TruncateInt t1
  some t2

def feeHandler_communityTaxCoin_1 (fee : Coin) (tokenTaxRate : Dec) : Option (Coin) := do
  let t1 ← Dec_Mul (LegacyNewDecFromInt fee.amount) tokenTaxRate
  let t2 ← Dec_TruncateInt t1
  let t3 ← NewCoin fee.denom t2
  some t3

def calcFeeByBase_actualFee_1 (baseFee : Int) (feeFactor : Dec) : Option (Dec) := do
  let t1 ← Dec_Quo (LegacyNewDecFromInt baseFee) feeFactor
  some t1

/-- targets the translator refused, with the reason (must be empty) -/
def untranslated : List String := []

/-- names of the translated definitions -/
def translated : List String := ["MintToken_guard_1(read_owner_String,token_Owner)", "MintToken_guard_2(token_Mintable)", "MintToken_precision_1(token_Scale)", "MintToken_mintableAmt_1(token_MaxSupply,precision,supply)", "MintToken_guard_3(coinMinted,mintableAmt)", "MintToken_cond_4(read_recipient_Empty)", "EditToken_guard_1(read_owner_String,token_Owner)", "EditToken_cond_2(maxSupply)", "EditToken_issuedAmt_1(read_k_getTokenSupply_ctx_token_MinUnit)", "EditToken_precision_1(token_Scale)", "EditToken_guard_3(maxSupply,precision,issuedAmt)", "EditToken_token_MaxSupply_1(maxSupply)", "EditToken_cond_4(name)", "EditToken_token_Name_1(name)", "EditToken_cond_5(exist)", "EditToken_cond_6(mintable)", "EditToken_token_Mintable_1(read_mintable_ToBool)", "GetTokenMintFee_mintFee_1(fee,params_MintTokenFeeRatio)", "feeHandler_communityTaxCoin_1(fee,tokenTaxRate)", "calcFeeByBase_actualFee_1(baseFee,feeFactor)"]

/-- every rejecting guard of the translated functions, in source order -/
def guards : List String := ["MintToken: token, err := k.getTokenByMinUnit(ctx, coinMinted.Denom); err != nil", "MintToken: owner.String() != token.Owner", "MintToken: !token.Mintable", "MintToken: coinMinted.Amount.GT(mintableAmt)", "MintToken: err := k.bankKeeper.MintCoins(ctx, types.ModuleName, mintCoins); err != nil", "EditToken: token, err := k.getTokenBySymbol(ctx, symbol); err != nil", "EditToken: owner.String() != token.Owner", "EditToken: sdkmath.NewIntFromUint64(maxSupply).Mul(precision).LT(issuedAmt)", "GetTokenMintFee: token, err := k.GetToken(ctx, fee.Denom); err != nil", "feeHandler: err := k.bankKeeper.SendCoinsFromAccountToModule( ctx, feeAcc, types.ModuleName, sdk.NewCoins(fee), ); err != nil", "feeHandler: err := k.bankKeeper.SendCoinsFromModuleToModule(ctx, types.ModuleName, k.feeCollectorName, sdk.NewCoins(communityTaxCoin)); err != nil", "Keeper.IssueToken: err := k.AddToken(ctx, token, true); err != nil", "Keeper.IssueToken: err := k.bankKeeper.MintCoins(ctx, types.ModuleName, mintCoins); err != nil", "Keeper.BurnToken: _, err := k.getTokenByMinUnit(ctx, coinBurnt.Denom); err != nil", "Keeper.BurnToken: err := k.bankKeeper.SendCoinsFromAccountToModule(ctx, owner, types.ModuleName, burnCoins); err != nil", "Keeper.TransferTokenOwner: token, err := k.getTokenBySymbol(ctx, symbol); err != nil", "Keeper.TransferTokenOwner: srcOwner.String() != token.Owner", "Keeper.SwapFeeToken: burnedCoin, mintedCoin, err := k.calcFeeTokenMinted(ctx, feePaid); err != nil", "Keeper.SwapFeeToken: err := k.bankKeeper.SendCoinsFromAccountToModule(ctx, sender, types.ModuleName, burnedCoins); err != nil", "Keeper.SwapFeeToken: err := k.bankKeeper.BurnCoins(ctx, types.ModuleName, burnedCoins); err != nil", "Keeper.SwapFeeToken: err := k.bankKeeper.MintCoins(ctx, types.ModuleName, mintedCoins); err != nil", "msgServer.IssueToken: owner, err := sdk.AccAddressFromBech32(msg.Owner); err != nil", "msgServer.IssueToken: m.k.blockedAddrs[msg.Owner]", "msgServer.IssueToken: err := m.k.DeductIssueTokenFee(ctx, owner, msg.Symbol); err != nil", "msgServer.IssueToken: err := m.k.IssueToken( ctx, msg.Symbol, msg.Name, msg.MinUnit, msg.Scale, msg.InitialSupply, msg.MaxSupply, msg.Mintable, owner, ); err != nil", "msgServer.EditToken: owner, err := sdk.AccAddressFromBech32(msg.Owner); err != nil", "msgServer.EditToken: err := m.k.EditToken( ctx, msg.Symbol, msg.Name, msg.MaxSupply, msg.Mintable, owner, ); err != nil", "msgServer.MintToken: owner, err := sdk.AccAddressFromBech32(msg.Owner); err != nil", "msgServer.MintToken: recipient, err = sdk.AccAddressFromBech32(msg.Receiver); err != nil", "msgServer.MintToken: m.k.blockedAddrs[recipient.String()]", "msgServer.MintToken: symbol, err := m.k.getSymbolByMinUnit(ctx, msg.Coin.Denom); err != nil", "msgServer.MintToken: err := m.k.DeductMintTokenFee(ctx, owner, symbol); err != nil", "msgServer.MintToken: err := m.k.MintToken(ctx, msg.Coin, recipient, owner); err != nil", "msgServer.BurnToken: owner, err := sdk.AccAddressFromBech32(msg.Sender); err != nil", "msgServer.BurnToken: err := m.k.BurnToken(ctx, msg.Coin, owner); err != nil", "msgServer.TransferTokenOwner: srcOwner, err := sdk.AccAddressFromBech32(msg.SrcOwner); err != nil", "msgServer.TransferTokenOwner: dstOwner, err := sdk.AccAddressFromBech32(msg.DstOwner); err != nil", "msgServer.TransferTokenOwner: m.k.blockedAddrs[msg.DstOwner]", "msgServer.TransferTokenOwner: err := m.k.TransferTokenOwner(ctx, msg.Symbol, srcOwner, dstOwner); err != nil", "msgServer.SwapFeeToken: sender, err := sdk.AccAddressFromBech32(msg.Sender); err != nil", "msgServer.SwapFeeToken: recipient, err = sdk.AccAddressFromBech32(msg.Receiver); err != nil", "msgServer.SwapFeeToken: m.k.blockedAddrs[msg.Receiver]", "msgServer.SwapFeeToken: feePaid, feeGot, err := m.k.SwapFeeToken(ctx, msg.FeePaid, sender, recipient); err != nil"]

/-- every statement of the translated functions executed for its effect, with its nesting depth, in source order -/
def effects : List String := ["EditToken: d1 token.MaxSupply = maxSupply", "EditToken: d1 token.Name = name", "EditToken: d2 metadata.Description = name", "EditToken: d2 k.bankKeeper.SetDenomMetaData(ctx, metadata)", "EditToken: d1 token.Mintable = mintable.ToBool()", "EditToken: d0 k.setToken(ctx, token)", "Keeper.BurnToken: d0 k.AddBurnCoin(ctx, coinBurnt)"]

end Irismod.Gen.PureTokenFee
