/- REGENERATED on every run by extract/x_pure from /repo's working tree. Do not edit. -/
import Irismod.Sdk.GoSem
namespace Irismod.Gen.PureTokenFee
open Irismod.Sdk Irismod.GoSem

def GetTokenMintFee_mintFee_1 (fee : Coin) (params_MintTokenFeeRatio : Dec) : Option (Int) := do
  let t1 ← Dec_Mul (LegacyNewDecFromInt fee.amount) params_MintTokenFeeRatio
  let t2 ← Dec_TruncateInt t1
  some t2

def feeHandler_communityTaxCoin_1 (fee : Coin) (tokenTaxRate : Dec) : Option (Coin) := do
  let t1 ← Dec_Mul (LegacyNewDecFromInt fee.amount) tokenTaxRate
  let t2 ← Dec_TruncateInt t1
  let t3 ← NewCoin fee.denom t2
  some t3

def calcFeeByBase_actualFee_1 (baseFee : Int) (feeFactor : Dec) : Option (Dec) := do
  let t1 ← Dec_Quo (LegacyNewDecFromInt baseFee) feeFactor
  some t1

/-- targets the translator refused, with the reason (must be empty) -/
def untranslated : List String := []

/-- names of the translated definitions -/
def translated : List String := ["GetTokenMintFee_mintFee_1", "feeHandler_communityTaxCoin_1", "calcFeeByBase_actualFee_1"]

end Irismod.Gen.PureTokenFee
