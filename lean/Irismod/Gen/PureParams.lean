/- REGENERATED on every run by extract/x_pure from /repo's working tree. Do not edit. -/
import Irismod.Sdk.GoSem
namespace Irismod.Gen.PureParams
open Irismod.Sdk Irismod.GoSem

def CoinswapParamsValidate (p_Fee : Dec) (p_PoolCreationFee : Coin) (p_TaxRate : Dec) (p_UnilateralLiquidityFee : Dec) : Option (Bool) := do
  if ((!(Dec_GT p_Fee LegacyZeroDec)) || (!(Dec_LT p_Fee LegacyOneDec))) then do
      some false
  else do
      if (!(Coin_IsPositive p_PoolCreationFee)) then do
          some false
      else do
          let err : Bool := (ValidateDenom p_PoolCreationFee.denom)
          if (!(err == true)) then do
              some false
          else do
              if ((!(Dec_GT p_TaxRate LegacyZeroDec)) || (!(Dec_LT p_TaxRate LegacyOneDec))) then do
                  some false
              else do
                  if ((!(Dec_GTE p_UnilateralLiquidityFee LegacyZeroDec)) || (!(Dec_LT p_UnilateralLiquidityFee LegacyOneDec))) then do
                      some false
                  else do
                      some true

def FarmValidatePoolCreationFee (i : Coin) : Option (Bool) := do
  let v : Coin := i
  let ok : Bool := true
  if (!ok) then do
      some false
  else do
      if (!(Coin_IsValid v)) then do
          some false
      else do
          some true

def FarmValidateTaxRate (i : Dec) : Option (Bool) := do
  let v : Dec := i
  let ok : Bool := true
  if (!ok) then do
      some false
  else do
      if (((Dec_IsNil v) || (!(Dec_GT v LegacyZeroDec))) || (!(Dec_LT v LegacyOneDec))) then do
          some false
      else do
          some true

def FarmParamsValidate (p_PoolCreationFee : Coin) (p_TaxRate : Dec) : Option (Bool) := do
  let t1 ← FarmValidatePoolCreationFee p_PoolCreationFee
  let err : Bool := t1
  if (!(err == true)) then do
      some err
  else do
      let t2 ← FarmValidateTaxRate p_TaxRate
      some t2

def TokenValidateTaxRate (i : Dec) : Option (Bool) := do
  let v : Dec := i
  let ok : Bool := true
  if (!ok) then do
      some false
  else do
      if ((Dec_GT v (LegacyNewDec (1 : Int))) || (Dec_LT v LegacyZeroDec)) then do
          some false
      else do
          some true

def TokenValidateMintTokenFeeRatio (i : Dec) : Option (Bool) := do
  let v : Dec := i
  let ok : Bool := true
  if (!ok) then do
      some false
  else do
      if ((Dec_GT v (LegacyNewDec (1 : Int))) || (Dec_LT v LegacyZeroDec)) then do
          some false
      else do
          some true

def TokenValidateIssueTokenBaseFee (i : Coin) : Option (Bool) := do
  let v : Coin := i
  let ok : Bool := true
  if (!ok) then do
      some false
  else do
      if (Coin_IsNegative v) then do
          some false
      else do
          let err : Bool := (ValidateDenom v.denom)
          if (!(err == true)) then do
              some false
          else do
              some true

def ServiceValidateMaxRequestTimeout (i : Int) : Option (Bool) := do
  let v : Int := i
  let ok : Bool := true
  if (!ok) then do
      some false
  else do
      if (decide (v ≤ (0 : Int))) then do
          some false
      else do
          some true

def ServiceValidateMinDepositMultiple (i : Int) : Option (Bool) := do
  let v : Int := i
  let ok : Bool := true
  if (!ok) then do
      some false
  else do
      if (decide (v ≤ (0 : Int))) then do
          some false
      else do
          some true

def ServiceValidateMinDeposit (i : List Coin) : Option (Bool) := do
  let v : List Coin := i
  let ok : Bool := true
  if (!ok) then do
      some false
  else do
      if (!(Coins_IsValid v)) then do
          some false
      else do
          some true

def ServiceValidateSlashFraction (i : Dec) : Option (Bool) := do
  let v : Dec := i
  let ok : Bool := true
  if (!ok) then do
      some false
  else do
      if ((Dec_LT v LegacyZeroDec) || (Dec_GT v LegacyOneDec)) then do
          some false
      else do
          some true

def ServiceValidateServiceFeeTax (i : Dec) : Option (Bool) := do
  let v : Dec := i
  let ok : Bool := true
  if (!ok) then do
      some false
  else do
      if ((Dec_LT v LegacyZeroDec) || (Dec_GTE v LegacyOneDec)) then do
          some false
      else do
          some true

def ServiceValidateComplaintRetrospect (i : Int) : Option (Bool) := do
  let v : Int := i
  let ok : Bool := true
  if (!ok) then do
      some false
  else do
      if (decide (v ≤ (0 : Int))) then do
          some false
      else do
          some true

def ServiceValidateArbitrationTimeLimit (i : Int) : Option (Bool) := do
  let v : Int := i
  let ok : Bool := true
  if (!ok) then do
      some false
  else do
      if (decide (v ≤ (0 : Int))) then do
          some false
      else do
          some true

def ServiceValidateTxSizeLimit (i : Nat) : Option (Bool) := do
  let v : Nat := i
  let ok : Bool := true
  if (!ok) then do
      some false
  else do
      if (v == (0 : Nat)) then do
          some false
      else do
          some true

def ServiceValidateRestrictedServiceFeeDenom (i : Bool) : Option (Bool) := do
  let ok : Bool := true
  if (!ok) then do
      some false
  else do
      some true

def ServiceParamsValidate (p_MaxRequestTimeout : Int) (p_MinDepositMultiple : Int) (p_MinDeposit : List Coin) (p_SlashFraction : Dec) (p_ServiceFeeTax : Dec) (p_ComplaintRetrospect : Int) (p_ArbitrationTimeLimit : Int) (p_TxSizeLimit : Nat) (p_BaseDenom : String) (p_RestrictedServiceFeeDenom : Bool) : Option (Bool) := do
  let t1 ← ServiceValidateMaxRequestTimeout p_MaxRequestTimeout
  let err : Bool := t1
  if (!(err == true)) then do
      some err
  else do
      let t2 ← ServiceValidateMinDepositMultiple p_MinDepositMultiple
      let err : Bool := t2
      if (!(err == true)) then do
          some err
      else do
          let t3 ← ServiceValidateMinDeposit p_MinDeposit
          let err : Bool := t3
          if (!(err == true)) then do
              some err
          else do
              let t4 ← ServiceValidateSlashFraction p_SlashFraction
              let err : Bool := t4
              if (!(err == true)) then do
                  some err
              else do
                  let t5 ← ServiceValidateServiceFeeTax p_ServiceFeeTax
                  let err : Bool := t5
                  if (!(err == true)) then do
                      some err
                  else do
                      let t6 ← ServiceValidateComplaintRetrospect p_ComplaintRetrospect
                      let err : Bool := t6
                      if (!(err == true)) then do
                          some err
                      else do
                          let t7 ← ServiceValidateArbitrationTimeLimit p_ArbitrationTimeLimit
                          let err : Bool := t7
                          if (!(err == true)) then do
                              some err
                          else do
                              let t8 ← ServiceValidateTxSizeLimit p_TxSizeLimit
                              let err : Bool := t8
                              if (!(err == true)) then do
                                  some err
                              else do
                                  let err : Bool := (ValidateDenom p_BaseDenom)
                                  if (!(err == true)) then do
                                      some err
                                  else do
                                      let t9 ← ServiceValidateRestrictedServiceFeeDenom p_RestrictedServiceFeeDenom
                                      some t9

/-- targets the translator refused, with the reason (must be empty) -/
def untranslated : List String := []

/-- names of the translated definitions -/
def translated : List String := ["CoinswapParamsValidate(p_Fee,p_PoolCreationFee,p_TaxRate,p_UnilateralLiquidityFee)", "FarmValidatePoolCreationFee(i)", "FarmValidateTaxRate(i)", "FarmParamsValidate(p_PoolCreationFee,p_TaxRate)", "TokenValidateTaxRate(i)", "TokenValidateMintTokenFeeRatio(i)", "TokenValidateIssueTokenBaseFee(i)", "ServiceValidateMaxRequestTimeout(i)", "ServiceValidateMinDepositMultiple(i)", "ServiceValidateMinDeposit(i)", "ServiceValidateSlashFraction(i)", "ServiceValidateServiceFeeTax(i)", "ServiceValidateComplaintRetrospect(i)", "ServiceValidateArbitrationTimeLimit(i)", "ServiceValidateTxSizeLimit(i)", "ServiceValidateRestrictedServiceFeeDenom(i)", "ServiceParamsValidate(p_MaxRequestTimeout,p_MinDepositMultiple,p_MinDeposit,p_SlashFraction,p_ServiceFeeTax,p_ComplaintRetrospect,p_ArbitrationTimeLimit,p_TxSizeLimit,p_BaseDenom,p_RestrictedServiceFeeDenom)"]

/-- every rejecting guard of the translated functions, in source order -/
def guards : List String := ["CoinswapParamsValidate: !p.Fee.GT(math.LegacyZeroDec()) || !p.Fee.LT(math.LegacyOneDec())", "CoinswapParamsValidate: !p.PoolCreationFee.IsPositive()", "CoinswapParamsValidate: err := sdk.ValidateDenom(p.PoolCreationFee.Denom); err != nil", "CoinswapParamsValidate: !p.TaxRate.GT(math.LegacyZeroDec()) || !p.TaxRate.LT(math.LegacyOneDec())", "CoinswapParamsValidate: !p.UnilateralLiquidityFee.GTE(math.LegacyZeroDec()) || !p.UnilateralLiquidityFee.LT(math.LegacyOneDec())", "FarmValidatePoolCreationFee: !ok", "FarmValidatePoolCreationFee: !v.IsValid()", "FarmValidateTaxRate: !ok", "FarmValidateTaxRate: v.IsNil() || !v.GT(math.LegacyZeroDec()) || !v.LT(math.LegacyOneDec())", "FarmParamsValidate: err := validatePoolCreationFee(p.PoolCreationFee); err != nil", "TokenValidateTaxRate: !ok", "TokenValidateTaxRate: v.GT(math.LegacyNewDec(1)) || v.LT(math.LegacyZeroDec())", "TokenValidateMintTokenFeeRatio: !ok", "TokenValidateMintTokenFeeRatio: v.GT(math.LegacyNewDec(1)) || v.LT(math.LegacyZeroDec())", "TokenValidateIssueTokenBaseFee: !ok", "TokenValidateIssueTokenBaseFee: v.IsNegative()", "TokenValidateIssueTokenBaseFee: err := sdk.ValidateDenom(v.Denom); err != nil", "ServiceValidateMaxRequestTimeout: !ok", "ServiceValidateMaxRequestTimeout: v <= 0", "ServiceValidateMinDepositMultiple: !ok", "ServiceValidateMinDepositMultiple: v <= 0", "ServiceValidateMinDeposit: !ok", "ServiceValidateMinDeposit: !v.IsValid()", "ServiceValidateSlashFraction: !ok", "ServiceValidateSlashFraction: v.LT(math.LegacyZeroDec()) || v.GT(math.LegacyOneDec())", "ServiceValidateServiceFeeTax: !ok", "ServiceValidateServiceFeeTax: v.LT(math.LegacyZeroDec()) || v.GTE(math.LegacyOneDec())", "ServiceValidateComplaintRetrospect: !ok", "ServiceValidateComplaintRetrospect: v <= 0", "ServiceValidateArbitrationTimeLimit: !ok", "ServiceValidateArbitrationTimeLimit: v <= 0", "ServiceValidateTxSizeLimit: !ok", "ServiceValidateTxSizeLimit: v == 0", "ServiceValidateRestrictedServiceFeeDenom: !ok", "ServiceParamsValidate: err := validateMaxRequestTimeout(p.MaxRequestTimeout); err != nil", "ServiceParamsValidate: err := validateMinDepositMultiple(p.MinDepositMultiple); err != nil", "ServiceParamsValidate: err := validateMinDeposit(p.MinDeposit); err != nil", "ServiceParamsValidate: err := validateSlashFraction(p.SlashFraction); err != nil", "ServiceParamsValidate: err := validateServiceFeeTax(p.ServiceFeeTax); err != nil", "ServiceParamsValidate: err := validateComplaintRetrospect(p.ComplaintRetrospect); err != nil", "ServiceParamsValidate: err := validateArbitrationTimeLimit(p.ArbitrationTimeLimit); err != nil", "ServiceParamsValidate: err := validateTxSizeLimit(p.TxSizeLimit); err != nil", "ServiceParamsValidate: err := sdk.ValidateDenom(p.BaseDenom); err != nil"]

/-- every statement of the translated functions executed for its effect, with its nesting depth, in source order -/
def effects : List String := []

end Irismod.Gen.PureParams
