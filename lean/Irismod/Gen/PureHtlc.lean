/- REGENERATED on every run by extract/x_pure from /repo's working tree. Do not edit. -/
import Irismod.Sdk.GoSem
namespace Irismod.Gen.PureHtlc
open Irismod.Sdk Irismod.GoSem

def IncCurrent_supplyLimit_1 (coin : Coin) (limit_Limit : Int) : Option (Coin) := do
  let t1 ← NewCoin coin.denom limit_Limit
  some t1

/-- rejects when true: `supplyLimit.IsLT(supply.CurrentSupply.Add(coin))` -/
def IncCurrent_guard_1 (supplyLimit : Coin) (supply_CurrentSupply : Coin) (coin : Coin) : Option (Bool) := do
  let t1 ← Coin_Add supply_CurrentSupply coin
  let t2 ← Coin_IsLT supplyLimit t1
  some t2

/-- branch condition: `limit.TimeLimited` -/
def IncCurrent_cond_2 (limit_TimeLimited : Bool) : Option (Bool) := do
  some limit_TimeLimited

def IncCurrent_timeBasedSupplyLimit_1 (coin : Coin) (limit_TimeBasedLimit : Int) : Option (Coin) := do
  let t1 ← NewCoin coin.denom limit_TimeBasedLimit
  some t1

/-- rejects when true: `timeBasedSupplyLimit.IsLT(supply.TimeLimitedCurrentSupply.Add(coin))` -/
def IncCurrent_guard_3 (timeBasedSupplyLimit : Coin) (supply_TimeLimitedCurrentSupply : Coin) (coin : Coin) : Option (Bool) := do
  let t1 ← Coin_Add supply_TimeLimitedCurrentSupply coin
  let t2 ← Coin_IsLT timeBasedSupplyLimit t1
  some t2

def IncCurrent_supply_TimeLimitedCurrentSupply_1 (supply_TimeLimitedCurrentSupply : Coin) (coin : Coin) : Option (Coin) := do
  let t1 ← Coin_Add supply_TimeLimitedCurrentSupply coin
  some t1

def IncCurrent_supply_CurrentSupply_1 (supply_CurrentSupply : Coin) (coin : Coin) : Option (Coin) := do
  let t1 ← Coin_Add supply_CurrentSupply coin
  some t1

/-- rejects when true: `supply.CurrentSupply.Amount.Sub(coin.Amount).IsNegative()` -/
def DecCurrent_guard_1 (supply_CurrentSupply : Coin) (coin : Coin) : Option (Bool) := do
  let t1 ← Int_Sub supply_CurrentSupply.amount coin.amount
  some (Int_IsNegative t1)

def DecCurrent_supply_CurrentSupply_1 (supply_CurrentSupply : Coin) (coin : Coin) : Option (Coin) := do
  let t1 ← Coin_Sub supply_CurrentSupply coin
  some t1

def IncIncoming_totalSupply_1 (supply_CurrentSupply : Coin) (supply_IncomingSupply : Coin) : Option (Coin) := do
  let t1 ← Coin_Add supply_CurrentSupply supply_IncomingSupply
  some t1

def IncIncoming_supplyLimit_1 (coin : Coin) (limit_Limit : Int) : Option (Coin) := do
  let t1 ← NewCoin coin.denom limit_Limit
  some t1

/-- rejects when true: `supplyLimit.IsLT(totalSupply.Add(coin))` -/
def IncIncoming_guard_1 (supplyLimit : Coin) (totalSupply : Coin) (coin : Coin) : Option (Bool) := do
  let t1 ← Coin_Add totalSupply coin
  let t2 ← Coin_IsLT supplyLimit t1
  some t2

/-- branch condition: `limit.TimeLimited` -/
def IncIncoming_cond_2 (limit_TimeLimited : Bool) : Option (Bool) := do
  some limit_TimeLimited

def IncIncoming_timeLimitedTotalSupply_1 (supply_TimeLimitedCurrentSupply : Coin) (supply_IncomingSupply : Coin) : Option (Coin) := do
  let t1 ← Coin_Add supply_TimeLimitedCurrentSupply supply_IncomingSupply
  some t1

def IncIncoming_timeBasedSupplyLimit_1 (coin : Coin) (limit_TimeBasedLimit : Int) : Option (Coin) := do
  let t1 ← NewCoin coin.denom limit_TimeBasedLimit
  some t1

/-- rejects when true: `timeBasedSupplyLimit.IsLT(timeLimitedTotalSupply.Add(coin))` -/
def IncIncoming_guard_3 (timeBasedSupplyLimit : Coin) (timeLimitedTotalSupply : Coin) (coin : Coin) : Option (Bool) := do
  let t1 ← Coin_Add timeLimitedTotalSupply coin
  let t2 ← Coin_IsLT timeBasedSupplyLimit t1
  some t2

def IncIncoming_supply_IncomingSupply_1 (supply_IncomingSupply : Coin) (coin : Coin) : Option (Coin) := do
  let t1 ← Coin_Add supply_IncomingSupply coin
  some t1

/-- rejects when true: `supply.IncomingSupply.Amount.Sub(coin.Amount).IsNegative()` -/
def DecIncoming_guard_1 (supply_IncomingSupply : Coin) (coin : Coin) : Option (Bool) := do
  let t1 ← Int_Sub supply_IncomingSupply.amount coin.amount
  some (Int_IsNegative t1)

def DecIncoming_supply_IncomingSupply_1 (supply_IncomingSupply : Coin) (coin : Coin) : Option (Coin) := do
  let t1 ← Coin_Sub supply_IncomingSupply coin
  some t1

/-- rejects when true: `supply.CurrentSupply.IsLT(supply.OutgoingSupply.Add(coin))` -/
def IncOutgoing_guard_1 (supply_CurrentSupply : Coin) (supply_OutgoingSupply : Coin) (coin : Coin) : Option (Bool) := do
  let t1 ← Coin_Add supply_OutgoingSupply coin
  let t2 ← Coin_IsLT supply_CurrentSupply t1
  some t2

def IncOutgoing_supply_OutgoingSupply_1 (supply_OutgoingSupply : Coin) (coin : Coin) : Option (Coin) := do
  let t1 ← Coin_Add supply_OutgoingSupply coin
  some t1

/-- rejects when true: `supply.OutgoingSupply.Amount.Sub(coin.Amount).IsNegative()` -/
def DecOutgoing_guard_1 (supply_OutgoingSupply : Coin) (coin : Coin) : Option (Bool) := do
  let t1 ← Int_Sub supply_OutgoingSupply.amount coin.amount
  some (Int_IsNegative t1)

def DecOutgoing_supply_OutgoingSupply_1 (supply_OutgoingSupply : Coin) (coin : Coin) : Option (Coin) := do
  let t1 ← Coin_Sub supply_OutgoingSupply coin
  some t1

/-- rejects when true: `len(amount) != 1` -/
def createHTLT_guard_1 (read_len_amount : Int) : Option (Bool) := do
  some (read_len_amount != (1 : Int))

/-- rejects when true: `amount[0].Amount.LT(asset.MinSwapAmount) || amount[0].Amount.GT(asset.MaxSwapAmount)` -/
def createHTLT_guard_2 (amount_0 : Coin) (asset_MinSwapAmount : Int) (asset_MaxSwapAmount : Int) : Option (Bool) := do
  some ((Int_LT amount_0.amount asset_MinSwapAmount) || (Int_GT amount_0.amount asset_MaxSwapAmount))

/-- rejects when true: `timestamp < uint64(pastTimestampLimit) || timestamp >= uint64(futureTimestampLimit)` -/
def createHTLT_guard_3 (timestamp : Nat) (pastTimestampLimit : Int) (futureTimestampLimit : Int) : Option (Bool) := do
  some ((decide (timestamp < (U64_ofI64 pastTimestampLimit))) || (decide (timestamp ≥ (U64_ofI64 futureTimestampLimit))))

/-- branch condition: `sender.Equals(deputyAddress)` -/
def createHTLT_cond_4 (read_sender_Equals_deputyAddress : Bool) : Option (Bool) := do
  some read_sender_Equals_deputyAddress

/-- rejects when true: `to.Equals(deputyAddress)` -/
def createHTLT_guard_5 (read_to_Equals_deputyAddress : Bool) : Option (Bool) := do
  some read_to_Equals_deputyAddress

/-- rejects when true: `!to.Equals(deputyAddress)` -/
def createHTLT_guard_6 (read_to_Equals_deputyAddress : Bool) : Option (Bool) := do
  some (!read_to_Equals_deputyAddress)

/-- argument 1 of `k.IncrementIncomingAssetSupply` -/
def createHTLT_call_IncrementIncomingAssetSupply_1_arg1 (amount_0 : Coin) : Option (Coin) := do
  some amount_0

/-- rejects when true: `timeLock < asset.MinBlockLock || timeLock > asset.MaxBlockLock` -/
def createHTLT_guard_7 (timeLock : Nat) (asset_MinBlockLock : Nat) (asset_MaxBlockLock : Nat) : Option (Bool) := do
  some ((decide (timeLock < asset_MinBlockLock)) || (decide (timeLock > asset_MaxBlockLock)))

/-- rejects when true: `amount[0].Amount.LT(asset.FixedFee.Add(asset.MinSwapAmount))` -/
def createHTLT_guard_8 (amount_0 : Coin) (asset_FixedFee : Int) (asset_MinSwapAmount : Int) : Option (Bool) := do
  let t1 ← Int_Add asset_FixedFee asset_MinSwapAmount
  some (Int_LT amount_0.amount t1)

/-- argument 1 of `k.IncrementOutgoingAssetSupply` -/
def createHTLT_call_IncrementOutgoingAssetSupply_1_arg1 (amount_0 : Coin) : Option (Coin) := do
  some amount_0

/-- argument 1 of `k.DecrementIncomingAssetSupply` -/
def claimHTLT_call_DecrementIncomingAssetSupply_1_arg1 (htlc_Amount_0 : Coin) : Option (Coin) := do
  some htlc_Amount_0

/-- argument 1 of `k.IncrementCurrentAssetSupply` -/
def claimHTLT_call_IncrementCurrentAssetSupply_1_arg1 (htlc_Amount_0 : Coin) : Option (Coin) := do
  some htlc_Amount_0

/-- argument 1 of `k.DecrementOutgoingAssetSupply` -/
def claimHTLT_call_DecrementOutgoingAssetSupply_1_arg1 (htlc_Amount_0 : Coin) : Option (Coin) := do
  some htlc_Amount_0

/-- argument 1 of `k.DecrementCurrentAssetSupply` -/
def claimHTLT_call_DecrementCurrentAssetSupply_1_arg1 (htlc_Amount_0 : Coin) : Option (Coin) := do
  some htlc_Amount_0

/-- argument 1 of `k.DecrementIncomingAssetSupply` -/
def refundHTLT_call_DecrementIncomingAssetSupply_1_arg1 (amount_0 : Coin) : Option (Coin) := do
  some amount_0

/-- argument 1 of `k.DecrementOutgoingAssetSupply` -/
def refundHTLT_call_DecrementOutgoingAssetSupply_1_arg1 (amount_0 : Coin) : Option (Coin) := do
  some amount_0

def UpdateWindow_newTimeElapsed_1 (supply_TimeElapsed : Int) (timeElapsed : Int) : Option (Int) := do
  some (I64_Add supply_TimeElapsed timeElapsed)

/-- branch condition: `asset.SupplyLimit.TimeLimited && newTimeElapsed < asset.SupplyLimit.TimePeriod` -/
def UpdateWindow_cond_1 (asset_SupplyLimit_TimeLimited : Bool) (newTimeElapsed : Int) (asset_SupplyLimit_TimePeriod : Int) : Option (Bool) := do
  some (asset_SupplyLimit_TimeLimited && (decide (newTimeElapsed < asset_SupplyLimit_TimePeriod)))

def UpdateWindow_supply_TimeElapsed_1 (newTimeElapsed : Int) : Option (Int) := do
  some newTimeElapsed

def UpdateWindow_supply_TimeElapsed_2 : Option (Int) := do
  some (0 : Int)

/-- targets the translator refused, with the reason (must be empty) -/
def untranslated : List String := []

/-- names of the translated definitions -/
def translated : List String := ["IncCurrent_supplyLimit_1(coin,limit_Limit)", "IncCurrent_guard_1(supplyLimit,supply_CurrentSupply,coin)", "IncCurrent_cond_2(limit_TimeLimited)", "IncCurrent_timeBasedSupplyLimit_1(coin,limit_TimeBasedLimit)", "IncCurrent_guard_3(timeBasedSupplyLimit,supply_TimeLimitedCurrentSupply,coin)", "IncCurrent_supply_TimeLimitedCurrentSupply_1(supply_TimeLimitedCurrentSupply,coin)", "IncCurrent_supply_CurrentSupply_1(supply_CurrentSupply,coin)", "DecCurrent_guard_1(supply_CurrentSupply,coin)", "DecCurrent_supply_CurrentSupply_1(supply_CurrentSupply,coin)", "IncIncoming_totalSupply_1(supply_CurrentSupply,supply_IncomingSupply)", "IncIncoming_supplyLimit_1(coin,limit_Limit)", "IncIncoming_guard_1(supplyLimit,totalSupply,coin)", "IncIncoming_cond_2(limit_TimeLimited)", "IncIncoming_timeLimitedTotalSupply_1(supply_TimeLimitedCurrentSupply,supply_IncomingSupply)", "IncIncoming_timeBasedSupplyLimit_1(coin,limit_TimeBasedLimit)", "IncIncoming_guard_3(timeBasedSupplyLimit,timeLimitedTotalSupply,coin)", "IncIncoming_supply_IncomingSupply_1(supply_IncomingSupply,coin)", "DecIncoming_guard_1(supply_IncomingSupply,coin)", "DecIncoming_supply_IncomingSupply_1(supply_IncomingSupply,coin)", "IncOutgoing_guard_1(supply_CurrentSupply,supply_OutgoingSupply,coin)", "IncOutgoing_supply_OutgoingSupply_1(supply_OutgoingSupply,coin)", "DecOutgoing_guard_1(supply_OutgoingSupply,coin)", "DecOutgoing_supply_OutgoingSupply_1(supply_OutgoingSupply,coin)", "createHTLT_guard_1(read_len_amount)", "createHTLT_guard_2(amount_0,asset_MinSwapAmount,asset_MaxSwapAmount)", "createHTLT_guard_3(timestamp,pastTimestampLimit,futureTimestampLimit)", "createHTLT_cond_4(read_sender_Equals_deputyAddress)", "createHTLT_guard_5(read_to_Equals_deputyAddress)", "createHTLT_guard_6(read_to_Equals_deputyAddress)", "createHTLT_call_IncrementIncomingAssetSupply_1_arg1(amount_0)", "createHTLT_guard_7(timeLock,asset_MinBlockLock,asset_MaxBlockLock)", "createHTLT_guard_8(amount_0,asset_FixedFee,asset_MinSwapAmount)", "createHTLT_call_IncrementOutgoingAssetSupply_1_arg1(amount_0)", "claimHTLT_call_DecrementIncomingAssetSupply_1_arg1(htlc_Amount_0)", "claimHTLT_call_IncrementCurrentAssetSupply_1_arg1(htlc_Amount_0)", "claimHTLT_call_DecrementOutgoingAssetSupply_1_arg1(htlc_Amount_0)", "claimHTLT_call_DecrementCurrentAssetSupply_1_arg1(htlc_Amount_0)", "refundHTLT_call_DecrementIncomingAssetSupply_1_arg1(amount_0)", "refundHTLT_call_DecrementOutgoingAssetSupply_1_arg1(amount_0)", "UpdateWindow_newTimeElapsed_1(supply_TimeElapsed,timeElapsed)", "UpdateWindow_cond_1(asset_SupplyLimit_TimeLimited,newTimeElapsed,asset_SupplyLimit_TimePeriod)", "UpdateWindow_supply_TimeElapsed_1(newTimeElapsed)", "UpdateWindow_supply_TimeElapsed_2()"]

/-- every rejecting guard of the translated functions, in source order -/
def guards : List String := ["IncCurrent: !found", "IncCurrent: limit, err := k.GetSupplyLimit(ctx, coin.Denom); err != nil", "IncCurrent: supplyLimit.IsLT(supply.CurrentSupply.Add(coin))", "IncCurrent: timeBasedSupplyLimit.IsLT(supply.TimeLimitedCurrentSupply.Add(coin))", "DecCurrent: !found", "DecCurrent: supply.CurrentSupply.Amount.Sub(coin.Amount).IsNegative()", "IncIncoming: !found", "IncIncoming: limit, err := k.GetSupplyLimit(ctx, coin.Denom); err != nil", "IncIncoming: supplyLimit.IsLT(totalSupply.Add(coin))", "IncIncoming: timeBasedSupplyLimit.IsLT(timeLimitedTotalSupply.Add(coin))", "DecIncoming: !found", "DecIncoming: supply.IncomingSupply.Amount.Sub(coin.Amount).IsNegative()", "IncOutgoing: !found", "IncOutgoing: supply.CurrentSupply.IsLT(supply.OutgoingSupply.Add(coin))", "DecOutgoing: !found", "DecOutgoing: supply.OutgoingSupply.Amount.Sub(coin.Amount).IsNegative()", "createHTLT: len(amount) != 1", "createHTLT: asset, err := k.GetAsset(ctx, amount[0].Denom); err != nil", "createHTLT: err = k.ValidateLiveAsset(ctx, amount[0]); err != nil", "createHTLT: amount[0].Amount.LT(asset.MinSwapAmount) || amount[0].Amount.GT(asset.MaxSwapAmount)", "createHTLT: timestamp < uint64(pastTimestampLimit) || timestamp >= uint64(futureTimestampLimit)", "createHTLT: to.Equals(deputyAddress)", "createHTLT: !to.Equals(deputyAddress)", "createHTLT: err := k.IncrementIncomingAssetSupply(ctx, amount[0]); err != nil", "createHTLT: timeLock < asset.MinBlockLock || timeLock > asset.MaxBlockLock", "createHTLT: amount[0].Amount.LT(asset.FixedFee.Add(asset.MinSwapAmount))", "createHTLT: err := k.IncrementOutgoingAssetSupply(ctx, amount[0]); err != nil", "createHTLT: err := k.bankKeeper.SendCoinsFromAccountToModule(ctx, sender, types.ModuleName, amount); err != nil", "claimHTLT: err := k.DecrementIncomingAssetSupply(ctx, htlc.Amount[0]); err != nil", "claimHTLT: err := k.IncrementCurrentAssetSupply(ctx, htlc.Amount[0]); err != nil", "claimHTLT: err := k.bankKeeper.MintCoins(ctx, types.ModuleName, htlc.Amount); err != nil", "claimHTLT: err := k.bankKeeper.SendCoinsFromModuleToAccount(ctx, types.ModuleName, toAddr, htlc.Amount); err != nil", "claimHTLT: err := k.DecrementOutgoingAssetSupply(ctx, htlc.Amount[0]); err != nil", "claimHTLT: err := k.DecrementCurrentAssetSupply(ctx, htlc.Amount[0]); err != nil", "claimHTLT: err := k.bankKeeper.BurnCoins(ctx, types.ModuleName, htlc.Amount); err != nil", "refundHTLT: err := k.DecrementIncomingAssetSupply(ctx, amount[0]); err != nil", "refundHTLT: err := k.DecrementOutgoingAssetSupply(ctx, amount[0]); err != nil", "refundHTLT: err := k.bankKeeper.SendCoinsFromModuleToAccount(ctx, types.ModuleName, sender, amount); err != nil", "Keeper.CreateHTLC: k.HasHTLC(ctx, id)", "Keeper.CreateHTLC: direction, err = k.createHTLT( ctx, sender, to, receiverOnOtherChain, senderOnOtherChain, amount, hashLock, timestamp, timeLock, ); err != nil", "Keeper.CreateHTLC: err = k.createHTLC(ctx, sender, amount); err != nil", "Keeper.ClaimHTLC: !found", "Keeper.ClaimHTLC: htlc.State != types.Open", "Keeper.ClaimHTLC: !bytes.Equal(types.GetHashLock(secret, htlc.Timestamp), hashLock)", "Keeper.ClaimHTLC: to, err := sdk.AccAddressFromBech32(htlc.To); err != nil", "Keeper.ClaimHTLC: err := k.claimHTLT(ctx, htlc); err != nil", "Keeper.ClaimHTLC: err := k.claimHTLC(ctx, htlc.Amount, to); err != nil", "Keeper.RefundHTLC: sender, err := sdk.AccAddressFromBech32(h.Sender); err != nil", "Keeper.RefundHTLC: err := k.refundHTLT(ctx, h.Direction, sender, h.Amount); err != nil", "Keeper.RefundHTLC: err := k.refundHTLC(ctx, sender, h.Amount); err != nil", "Keeper.ValidateLiveAsset: asset, err := k.GetAsset(ctx, coin.Denom); err != nil", "Keeper.ValidateLiveAsset: !asset.Active", "msgServer.CreateHTLC: sender, err := sdk.AccAddressFromBech32(msg.Sender); err != nil", "msgServer.CreateHTLC: to, err := sdk.AccAddressFromBech32(msg.To); err != nil", "msgServer.CreateHTLC: hashLock, err := hex.DecodeString(msg.HashLock); err != nil", "msgServer.CreateHTLC: m.k.blockedAddrs[to.String()]", "msgServer.CreateHTLC: to.Equals(m.k.accountKeeper.GetModuleAddress(types.ModuleName))", "msgServer.CreateHTLC: id, err := m.k.CreateHTLC( ctx, sender, to, msg.ReceiverOnOtherChain, msg.SenderOnOtherChain, msg.Amount, hashLock, msg.Timestamp, msg.TimeLock, msg.Transfer, ); err != nil", "msgServer.ClaimHTLC: id, err := hex.DecodeString(msg.Id); err != nil", "msgServer.ClaimHTLC: secret, err := hex.DecodeString(msg.Secret); err != nil", "msgServer.ClaimHTLC: hashLock, transfer, direction, err := m.k.ClaimHTLC(ctx, id, secret); err != nil"]

/-- every statement of the translated functions executed for its effect, with its nesting depth, in source order -/
def effects : List String := ["IncCurrent: d1 supply.TimeLimitedCurrentSupply = supply.TimeLimitedCurrentSupply.Add(coin)", "IncCurrent: d0 supply.CurrentSupply = supply.CurrentSupply.Add(coin)", "IncCurrent: d0 k.SetAssetSupply(ctx, supply, coin.Denom)", "DecCurrent: d0 supply.CurrentSupply = supply.CurrentSupply.Sub(coin)", "DecCurrent: d0 k.SetAssetSupply(ctx, supply, coin.Denom)", "IncIncoming: d0 supply.IncomingSupply = supply.IncomingSupply.Add(coin)", "IncIncoming: d0 k.SetAssetSupply(ctx, supply, coin.Denom)", "DecIncoming: d0 supply.IncomingSupply = supply.IncomingSupply.Sub(coin)", "DecIncoming: d0 k.SetAssetSupply(ctx, supply, coin.Denom)", "IncOutgoing: d0 supply.OutgoingSupply = supply.OutgoingSupply.Add(coin)", "IncOutgoing: d0 k.SetAssetSupply(ctx, supply, coin.Denom)", "DecOutgoing: d0 supply.OutgoingSupply = supply.OutgoingSupply.Sub(coin)", "DecOutgoing: d0 k.SetAssetSupply(ctx, supply, coin.Denom)", "createHTLT: d2 k.accountKeeper.SetAccount(ctx, acc)", "UpdateWindow: d1 k.SetPreviousBlockTime(ctx, previousBlockTime)", "UpdateWindow: d2 supply.TimeElapsed = newTimeElapsed", "UpdateWindow: d2 supply.TimeElapsed = time.Duration(0)", "UpdateWindow: d2 supply.TimeLimitedCurrentSupply = sdk.NewCoin(asset.Denom, math.ZeroInt())", "UpdateWindow: d1 k.SetAssetSupply(ctx, supply, asset.Denom)", "UpdateWindow: d0 k.SetPreviousBlockTime(ctx, ctx.BlockTime())", "BeginBlocker: d0 k.IterateHTLCExpiredQueueByHeight( ctx, currentBlockHeight, func(id tmbytes.HexBytes, h types.HTLC) (stop bool) { _ = k.RefundHTLC(ctx, h, id) k.DeleteHTLCFromExpiredQueue(ctx, currentBlockHeight, id) ctx.EventManager().EmitEvents(sdk.Events{ sdk.NewEvent( types.EventTypeRefundHTLC, sdk.NewAttribute(types.AttributeKeyID, id.String()), ), }) ctx.Logger().Info(fmt.Sprintf(\"HTLC [%s] is refunded\", id.String())) return false }, )", "BeginBlocker: d1 k.DeleteHTLCFromExpiredQueue(ctx, currentBlockHeight, id)", "BeginBlocker: d0 k.UpdateTimeBasedSupplyLimits(ctx)", "Keeper.CreateHTLC: d0 k.SetHTLC(ctx, htlc, id)", "Keeper.CreateHTLC: d0 k.AddHTLCToExpiredQueue(ctx, htlc.ExpirationHeight, id)", "Keeper.ClaimHTLC: d0 htlc.Secret = secret.String()", "Keeper.ClaimHTLC: d0 htlc.State = types.Completed", "Keeper.ClaimHTLC: d0 htlc.ClosedBlock = uint64(ctx.BlockHeight())", "Keeper.ClaimHTLC: d0 k.SetHTLC(ctx, htlc, id)", "Keeper.ClaimHTLC: d0 k.DeleteHTLCFromExpiredQueue(ctx, htlc.ExpirationHeight, id)", "Keeper.RefundHTLC: d0 h.State = types.Refunded", "Keeper.RefundHTLC: d0 h.ClosedBlock = uint64(ctx.BlockHeight())", "Keeper.RefundHTLC: d0 k.SetHTLC(ctx, h, id)"]

end Irismod.Gen.PureHtlc
