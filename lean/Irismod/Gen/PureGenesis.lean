/- REGENERATED on every run by extract/x_pure from /repo's working tree. Do not edit. -/
import Irismod.Sdk.GoSem
namespace Irismod.Gen.PureGenesis
open Irismod.Sdk Irismod.GoSem

/-- branch condition: `htlc.State != types.Open` -/
def HtlcInitGenesis_cond_1 (htlc_State : Int) : Option (Bool) := do
  some (htlc_State != (0 : Int))

/-- branch condition: `!htlc.Transfer` -/
def HtlcInitGenesis_cond_2 (htlc_Transfer : Bool) : Option (Bool) := do
  some (!htlc_Transfer)

/-- branch condition: `!supply.IncomingSupply.Amount.Equal(incomingSupply)` -/
def HtlcInitGenesis_cond_3 (supply_IncomingSupply : Coin) (incomingSupply : Int) : Option (Bool) := do
  some (!(Int_Equal supply_IncomingSupply.amount incomingSupply))

/-- branch condition: `!supply.OutgoingSupply.Amount.Equal(outgoingSupply)` -/
def HtlcInitGenesis_cond_4 (supply_OutgoingSupply : Coin) (outgoingSupply : Int) : Option (Bool) := do
  some (!(Int_Equal supply_OutgoingSupply.amount outgoingSupply))

/-- branch condition: `supply.CurrentSupply.Amount.GT(limit.Limit)` -/
def HtlcInitGenesis_cond_5 (supply_CurrentSupply : Coin) (limit_Limit : Int) : Option (Bool) := do
  some (Int_GT supply_CurrentSupply.amount limit_Limit)

/-- branch condition: `supply.IncomingSupply.Amount.GT(limit.Limit)` -/
def HtlcInitGenesis_cond_6 (supply_IncomingSupply : Coin) (limit_Limit : Int) : Option (Bool) := do
  some (Int_GT supply_IncomingSupply.amount limit_Limit)

/-- branch condition: `supply.IncomingSupply.Amount.Add(supply.CurrentSupply.Amount).GT(limit.Limit)` -/
def HtlcInitGenesis_cond_7 (supply_IncomingSupply : Coin) (supply_CurrentSupply : Coin) (limit_Limit : Int) : Option (Bool) := do
  let t1 ← Int_Add supply_IncomingSupply.amount supply_CurrentSupply.amount
  some (Int_GT t1 limit_Limit)

/-- branch condition: `supply.OutgoingSupply.Amount.GT(limit.Limit)` -/
def HtlcInitGenesis_cond_8 (supply_OutgoingSupply : Coin) (limit_Limit : Int) : Option (Bool) := do
  some (Int_GT supply_OutgoingSupply.amount limit_Limit)

/-- argument 1 of `k.SetDenomSequence` -/
def MtInitGenesis_call_SetDenomSequence_1_arg1 (read_len_data_Collections : Int) : Option (Nat) := do
  some (U64_ofI64 (I64_Add read_len_data_Collections (1 : Int)))

def MtInitGenesis_mtSequence_1 (mtSequence : Nat) : Option (Nat) := do
  some (U64_Add mtSequence (1 : Nat))

/-- argument 1 of `k.SetMTSequence` -/
def MtInitGenesis_call_SetMTSequence_1_arg1 (mtSequence : Nat) : Option (Nat) := do
  some mtSequence

/-- argument 1 of `k.setSequence` -/
def CoinswapInitGenesis_call_setSequence_1_arg1 (genState_Sequence : Nat) : Option (Nat) := do
  some genState_Sequence

/-- branch condition: `ctx.BlockHeight() <= pool.EndHeight` -/
def FarmInitGenesis_cond_1 (read_ctx_BlockHeight : Int) (pool_EndHeight : Int) : Option (Bool) := do
  some (decide (read_ctx_BlockHeight ≤ pool_EndHeight))

/-- argument 1 of `k.SetSequence` -/
def FarmInitGenesis_call_SetSequence_1_arg1 (data_Sequence : Nat) : Option (Nat) := do
  some data_Sequence

/-- targets the translator refused, with the reason (must be empty) -/
def untranslated : List String := []

/-- names of the translated definitions -/
def translated : List String := ["HtlcInitGenesis_cond_1(htlc_State)", "HtlcInitGenesis_cond_2(htlc_Transfer)", "HtlcInitGenesis_cond_3(supply_IncomingSupply,incomingSupply)", "HtlcInitGenesis_cond_4(supply_OutgoingSupply,outgoingSupply)", "HtlcInitGenesis_cond_5(supply_CurrentSupply,limit_Limit)", "HtlcInitGenesis_cond_6(supply_IncomingSupply,limit_Limit)", "HtlcInitGenesis_cond_7(supply_IncomingSupply,supply_CurrentSupply,limit_Limit)", "HtlcInitGenesis_cond_8(supply_OutgoingSupply,limit_Limit)", "MtInitGenesis_call_SetDenomSequence_1_arg1(read_len_data_Collections)", "MtInitGenesis_mtSequence_1(mtSequence)", "MtInitGenesis_call_SetMTSequence_1_arg1(mtSequence)", "CoinswapInitGenesis_call_setSequence_1_arg1(genState_Sequence)", "FarmInitGenesis_cond_1(read_ctx_BlockHeight,pool_EndHeight)", "FarmInitGenesis_call_SetSequence_1_arg1(data_Sequence)"]

/-- every rejecting guard of the translated functions, in source order -/
def guards : List String := ["HtlcInitGenesis: err := types.ValidateGenesis(data); err != nil", "HtlcInitGenesis: err := k.SetParams(ctx, data.Params); err != nil", "HtlcInitGenesis: id, err := hex.DecodeString(htlc.Id); err != nil", "HtlcInitGenesis: htlc.State != types.Open", "HtlcInitGenesis: err := k.ValidateLiveAsset(ctx, htlc.Amount[0]); err != nil", "HtlcInitGenesis: !supply.IncomingSupply.Amount.Equal(incomingSupply)", "HtlcInitGenesis: !supply.OutgoingSupply.Amount.Equal(outgoingSupply)", "HtlcInitGenesis: limit, err := k.GetSupplyLimit(ctx, supply.CurrentSupply.Denom); err != nil", "HtlcInitGenesis: supply.CurrentSupply.Amount.GT(limit.Limit)", "HtlcInitGenesis: supply.IncomingSupply.Amount.GT(limit.Limit)", "HtlcInitGenesis: supply.IncomingSupply.Amount.Add(supply.CurrentSupply.Amount).GT(limit.Limit)", "HtlcInitGenesis: supply.OutgoingSupply.Amount.GT(limit.Limit)", "MtInitGenesis: err := types.ValidateGenesis(data); err != nil", "MtInitGenesis: addr, err := sdk.AccAddressFromBech32(o.Address); err != nil", "MtInitGenesis: err := k.IncreaseMTSupply(ctx, d.DenomId, b.MtId, b.Amount); err != nil", "MtInitGenesis: err := k.AddBalance(ctx, d.DenomId, b.MtId, b.Amount, addr); err != nil", "CoinswapInitGenesis: err := types.ValidateGenesis(genState); err != nil", "CoinswapInitGenesis: err := k.SetParams(ctx, genState.Params); err != nil", "FarmInitGenesis: err := types.ValidateGenesis(data); err != nil", "FarmInitGenesis: !exist", "FarmInitGenesis: err := k.SetParams(ctx, data.Params); err != nil"]

/-- every statement of the translated functions executed for its effect, with its nesting depth, in source order -/
def effects : List String := ["HtlcInitGenesis: d0 k.SetPreviousBlockTime(ctx, data.PreviousBlockTime)", "HtlcInitGenesis: d1 k.SetAssetSupply(ctx, supply, supply.CurrentSupply.Denom)", "HtlcInitGenesis: d2 k.SetHTLC(ctx, htlc, id)", "HtlcInitGenesis: d2 k.AddHTLCToExpiredQueue(ctx, htlc.ExpirationHeight, id)", "HtlcInitGenesis: d1 k.SetHTLC(ctx, htlc, id)", "HtlcInitGenesis: d1 k.AddHTLCToExpiredQueue(ctx, htlc.ExpirationHeight, id)", "MtInitGenesis: d0 k.SetDenomSequence(ctx, uint64(len(data.Collections)+1))", "MtInitGenesis: d1 k.SetDenom(ctx, *c.Denom)", "MtInitGenesis: d2 k.IncreaseDenomSupply(ctx, c.Denom.Id)", "MtInitGenesis: d2 k.SetMT(ctx, c.Denom.Id, m)", "MtInitGenesis: d0 k.SetMTSequence(ctx, mtSequence)", "CoinswapInitGenesis: d0 k.SetStandardDenom(ctx, genState.StandardDenom)", "CoinswapInitGenesis: d0 k.setSequence(ctx, genState.Sequence)", "CoinswapInitGenesis: d1 k.setPool(ctx, &poolCopy)", "FarmInitGenesis: d2 k.SetRewardRule(ctx, pool.Id, r)", "FarmInitGenesis: d1 k.SetPool(ctx, pool)", "FarmInitGenesis: d2 k.EnqueueActivePool(ctx, pool.Id, pool.EndHeight)", "FarmInitGenesis: d1 k.SetFarmInfo(ctx, farmInfo)", "FarmInitGenesis: d1 k.SetEscrowInfo(ctx, info)", "FarmInitGenesis: d0 k.SetSequence(ctx, data.Sequence)"]

end Irismod.Gen.PureGenesis
