/-
Model of the slice of x/bank the irismod modules use: per-(account, denom) balances and
per-denom supply over ℕ, with `send` / `mint` / `burn` failing (`none`) exactly when the
keeper returns "insufficient funds".  Spendable = balance (no vesting accounts in the
harness universe).  Modelled, not verified: the harness compares every balance it prints.
-/
import Irismod.Sdk.Map

namespace Irismod.Sdk

abbrev Addr := String
abbrev Denom := String

structure Bank where
  bal    : AMap (Addr × Denom) Nat := []
  supply : AMap Denom Nat := []
  deriving Repr, Inhabited

/-- a coin list as messages carry it: (denom, amount) pairs -/
abbrev CoinList := List (Denom × Nat)

namespace Bank

def balOf (b : Bank) (a : Addr) (d : Denom) : Nat := AMap.getD b.bal (a, d) 0
def supplyOf (b : Bank) (d : Denom) : Nat := AMap.getD b.supply d 0

/-- Σ over accounts of the balance in `d` -/
def total (b : Bank) (d : Denom) : Nat := AMap.sumIf (fun k => k.2 = d) id b.bal

def setBal (b : Bank) (a : Addr) (d : Denom) (v : Nat) : Bank := { b with bal := AMap.set b.bal (a, d) v }

/-- `SendCoins` of one coin -/
def send (b : Bank) (src dst : Addr) (d : Denom) (n : Nat) : Option Bank :=
  if balOf b src d < n then none
  else
    let b1 := setBal b src d (balOf b src d - n)
    some (setBal b1 dst d (balOf b1 dst d + n))

/-- `MintCoins` + credit (the module account hop is collapsed) -/
def mint (b : Bank) (dst : Addr) (d : Denom) (n : Nat) : Bank :=
  { setBal b dst d (balOf b dst d + n) with supply := AMap.set b.supply d (supplyOf b d + n) }

/-- `BurnCoins` from an account's balance -/
def burn (b : Bank) (src : Addr) (d : Denom) (n : Nat) : Option Bank :=
  if balOf b src d < n then none
  else some { setBal b src d (balOf b src d - n) with supply := AMap.set b.supply d (supplyOf b d - n) }

/-- multi-coin send: all or nothing -/
def sendCoins (b : Bank) (src dst : Addr) : CoinList → Option Bank
  | [] => some b
  | (d, n) :: rest => (send b src dst d n).bind (fun b' => sendCoins b' src dst rest)

theorem balOf_setBal_self (b : Bank) (a d v) : balOf (setBal b a d v) a d = v := by
  simp [balOf, setBal, AMap.getD, AMap.get?_set_self]

theorem balOf_setBal_other (b : Bank) (a d v a' d') (h : (a, d) ≠ (a', d')) :
    balOf (setBal b a d v) a' d' = balOf b a' d' := by
  simp [balOf, setBal, AMap.getD, AMap.get?_set_other _ _ _ _ h]

theorem total_setBal_same (b : Bank) (a d v) :
    total (setBal b a d v) d + balOf b a d = total b d + v := by
  have h := AMap.sumIf_set (fun k : Addr × Denom => k.2 = d) (id : Nat → Nat) b.bal (a, d) v
  simp only [decide_true, if_true, id] at h
  have hb : ((AMap.get? b.bal (a, d)).map (id : Nat → Nat)).getD 0 = balOf b a d := by
    unfold balOf AMap.getD
    cases AMap.get? b.bal (a, d) <;> simp
  rw [hb] at h
  exact h

theorem total_setBal_other (b : Bank) (a d v d') (h : d ≠ d') :
    total (setBal b a d v) d' = total b d' := by
  unfold total setBal
  apply AMap.sumIf_set_of_not
  simp [h]

/-- a send conserves the total of the denom it moves … -/
theorem send_total (b b' : Bank) (src dst d n) (h : send b src dst d n = some b') (d' : Denom) :
    total b' d' = total b d' := by
  unfold send at h
  split at h
  · cases h
  · rename_i hge
    cases h
    by_cases hd : d = d'
    · subst hd
      have e1 := total_setBal_same b src d (balOf b src d - n)
      have e2 := total_setBal_same (setBal b src d (balOf b src d - n)) dst d
        (balOf (setBal b src d (balOf b src d - n)) dst d + n)
      omega
    · rw [total_setBal_other _ _ _ _ _ hd, total_setBal_other _ _ _ _ _ hd]

/-- … and never touches the supply table -/
theorem send_supply (b b' : Bank) (src dst d n) (h : send b src dst d n = some b') :
    b'.supply = b.supply := by
  unfold send at h
  split at h
  · cases h
  · cases h; rfl

/-- exact deltas of a send between two different accounts -/
theorem send_deltas (b b' : Bank) (src dst d n) (hne : src ≠ dst) (h : send b src dst d n = some b') :
    balOf b' src d + n = balOf b src d ∧ balOf b' dst d = balOf b dst d + n ∧
    ∀ a' d', (a', d') ≠ (src, d) → (a', d') ≠ (dst, d) → balOf b' a' d' = balOf b a' d' := by
  unfold send at h
  split at h
  · cases h
  · rename_i hge
    cases h
    have hk : (src, d) ≠ (dst, d) := by intro e; cases e; exact hne rfl
    refine ⟨?_, ?_, ?_⟩
    · rw [balOf_setBal_other _ _ _ _ _ _ hk.symm, balOf_setBal_self]; omega
    · rw [balOf_setBal_self, balOf_setBal_other _ _ _ _ _ _ hk]
    · intro a' d' h1 h2
      rw [balOf_setBal_other _ _ _ _ _ _ (Ne.symm h2), balOf_setBal_other _ _ _ _ _ _ (Ne.symm h1)]

/-- a send to oneself changes nothing observable -/
theorem send_self (b b' : Bank) (a d n) (h : send b a a d n = some b') :
    ∀ a' d', balOf b' a' d' = balOf b a' d' := by
  unfold send at h
  split at h
  · cases h
  · rename_i hge
    cases h
    intro a' d'
    by_cases hk : (a, d) = (a', d')
    · cases hk
      rw [balOf_setBal_self, balOf_setBal_self]; omega
    · rw [balOf_setBal_other _ _ _ _ _ _ hk, balOf_setBal_other _ _ _ _ _ _ hk]

end Bank
end Irismod.Sdk
