/-
`cosmossdk.io/math` v1.3.0 as the irismod modules use it, over unbounded `Int` with the
library's range checks made explicit.

* `sdkmath.Int`  : 256-bit range; `Add/Sub/Mul` (and constructors) panic iff `|x| ≥ 2^256`;
  `Quo` is truncated division (`Int.tdiv`), panics on zero divisor.
* `LegacyDec`    : value `raw / 10^18`; `Mul`/`Quo` round half-to-even
  (`chopPrecisionAndRound`), `MulTruncate/QuoTruncate/QuoInt/TruncateInt` truncate toward
  zero, `MulInt` exact; results with more than 315 bits panic ("Int overflow").
Panics are values (`none`) here.  Conformance with the Go library is differential-tested by
`harness/cmd/h_sdk`.
-/
namespace Irismod.Sdk

/-- 10^18 -/
def precision : Int := 1000000000000000000
/-- 5·10^17 -/
def fivePrecision : Int := 500000000000000000

def pow2_256 : Nat := 115792089237316195423570985008687907853269984665640564039457584007913129639936
def pow2_315 : Nat := 66749594872528440074844428317798503581334516323645399060845050244444366430645017188217565216768

/-- `sdkmath.Int` range check -/
def inInt256 (x : Int) : Bool := x.natAbs < pow2_256
/-- `LegacyDec` range check on the raw (×10^18) integer -/
def inDec (x : Int) : Bool := x.natAbs < pow2_315

/-- checked `sdkmath.Int` result -/
def chkInt (x : Int) : Option Int := if inInt256 x then some x else none
/-- checked `LegacyDec` raw result -/
def chkDec (x : Int) : Option Int := if inDec x then some x else none

/-- `chopPrecisionAndRound` on a non-negative integer (banker's rounding) -/
def chopRoundNat (d : Nat) : Nat :=
  let q := d / 1000000000000000000
  let r := d % 1000000000000000000
  if r = 0 then q
  else if r < 500000000000000000 then q
  else if r > 500000000000000000 then q + 1
  else if q % 2 = 0 then q else q + 1

/-- `chopPrecisionAndRound` -/
def chopRound (d : Int) : Int :=
  if d < 0 then - (chopRoundNat d.natAbs : Int) else (chopRoundNat d.natAbs : Int)

/-- `chopPrecisionAndTruncate` -/
def chopTrunc (d : Int) : Int := d.tdiv precision

/-- `chopPrecisionAndRoundUp` -/
def chopRoundUp (d : Int) : Int :=
  if d < 0 then d.tdiv precision
  else if d.tmod precision = 0 then d.tdiv precision else d.tdiv precision + 1

/-- a `LegacyDec`: the raw integer `value × 10^18` -/
structure Dec where
  raw : Int
  deriving DecidableEq, Repr, Inhabited

namespace Dec
def zero : Dec := ⟨0⟩
def one : Dec := ⟨precision⟩
/-- `LegacyNewDecFromInt` -/
def ofInt (i : Int) : Dec := ⟨i * precision⟩
/-- `LegacyNewDecWithPrec(i, prec)` for `prec ≤ 18` -/
def withPrec (i : Int) (prec : Nat) : Dec := ⟨i * (10 ^ (18 - prec) : Nat)⟩

def add (a b : Dec) : Option Dec := (chkDec (a.raw + b.raw)).map Dec.mk
def sub (a b : Dec) : Option Dec := (chkDec (a.raw - b.raw)).map Dec.mk
/-- `Mul`: round half-even -/
def mul (a b : Dec) : Option Dec := (chkDec (chopRound (a.raw * b.raw))).map Dec.mk
def mulTruncate (a b : Dec) : Option Dec := (chkDec (chopTrunc (a.raw * b.raw))).map Dec.mk
def mulRoundUp (a b : Dec) : Option Dec := (chkDec (chopRoundUp (a.raw * b.raw))).map Dec.mk
/-- `MulInt`: exact -/
def mulInt (a : Dec) (i : Int) : Option Dec := (chkDec (a.raw * i)).map Dec.mk
/-- `Quo`: `(a·10^36) tdiv b`, then round half-even; division by zero panics -/
def quo (a b : Dec) : Option Dec :=
  if b.raw = 0 then none else (chkDec (chopRound ((a.raw * precision * precision).tdiv b.raw))).map Dec.mk
def quoTruncate (a b : Dec) : Option Dec :=
  if b.raw = 0 then none else (chkDec (chopTrunc ((a.raw * precision * precision).tdiv b.raw))).map Dec.mk
def quoRoundUp (a b : Dec) : Option Dec :=
  if b.raw = 0 then none else (chkDec (chopRoundUp ((a.raw * precision * precision).tdiv b.raw))).map Dec.mk
/-- `QuoInt`: truncated, no range check in the library; zero divisor panics -/
def quoInt (a : Dec) (i : Int) : Option Dec := if i = 0 then none else some ⟨a.raw.tdiv i⟩
/-- `TruncateInt` (the `sdkmath.Int` constructor panics beyond 256 bits) -/
def truncateInt (a : Dec) : Option Int := chkInt (chopTrunc a.raw)
/-- `RoundInt` -/
def roundInt (a : Dec) : Option Int := chkInt (chopRound a.raw)
/-- `TruncateDec` -/
def truncateDec (a : Dec) : Dec := ⟨chopTrunc a.raw * precision⟩

def lt (a b : Dec) : Bool := a.raw < b.raw
def le (a b : Dec) : Bool := a.raw ≤ b.raw
def isZero (a : Dec) : Bool := a.raw = 0
def isNegative (a : Dec) : Bool := a.raw < 0
def isPositive (a : Dec) : Bool := a.raw > 0

/-- canonical decimal string with 18 fractional digits, as `LegacyDec.String()` prints -/
def toStr (a : Dec) : String :=
  let n := a.raw.natAbs
  let ip := n / 1000000000000000000
  let fp := n % 1000000000000000000
  let fs := toString fp
  let pad := String.ofList (List.replicate (18 - fs.length) '0')
  (if a.raw < 0 then "-" else "") ++ toString ip ++ "." ++ pad ++ fs

end Dec

/-! `sdkmath.Int` helpers (checked) -/
namespace I256
def add (a b : Int) : Option Int := chkInt (a + b)
def sub (a b : Int) : Option Int := chkInt (a - b)
def mul (a b : Int) : Option Int := chkInt (a * b)
/-- `Int.Quo`: truncated; panics on zero -/
def quo (a b : Int) : Option Int := if b = 0 then none else some (a.tdiv b)
end I256

end Irismod.Sdk
