/-
Association-list maps used as the model of KV-store tables. `set` replaces the first
binding in place or appends; `get?` reads the first binding. The summation lemmas need no
no-duplicate invariant, which keeps "Σ over holders" invariants one-liners.
Core Lean only (the lemmas here are proved with core tactics so that model files may use them).
-/
namespace Irismod

abbrev AMap (K V : Type) := List (K × V)

namespace AMap
variable {K V : Type} [DecidableEq K]

def get? : AMap K V → K → Option V
  | [], _ => none
  | (k', v') :: t, k => if k' = k then some v' else get? t k

def getD (m : AMap K V) (k : K) (d : V) : V := (get? m k).getD d

def contains (m : AMap K V) (k : K) : Bool := (get? m k).isSome

def set : AMap K V → K → V → AMap K V
  | [], k, v => [(k, v)]
  | (k', v') :: t, k, v => if k' = k then (k, v) :: t else (k', v') :: set t k v

def erase : AMap K V → K → AMap K V
  | [], _ => []
  | (k', v') :: t, k => if k' = k then erase t k else (k', v') :: erase t k

/-- Σ of `f v` over the bindings whose key satisfies `p`. -/
def sumIf (p : K → Bool) (f : V → Nat) : AMap K V → Nat
  | [] => 0
  | (k, v) :: t => (if p k then f v else 0) + sumIf p f t

def sumBy (f : V → Nat) (m : AMap K V) : Nat := sumIf (fun _ => true) f m

def keys (m : AMap K V) : List K := m.map (·.1)

@[simp] theorem get?_nil (k : K) : get? ([] : AMap K V) k = none := rfl

theorem get?_set_self (m : AMap K V) (k : K) (v : V) : get? (set m k v) k = some v := by
  induction m with
  | nil => simp [set, get?]
  | cons h t ih =>
    obtain ⟨k', v'⟩ := h
    by_cases hk : k' = k
    · simp [set, get?, hk]
    · simp [set, get?, hk, ih]

theorem get?_set_other (m : AMap K V) (k k2 : K) (v : V) (h : k ≠ k2) :
    get? (set m k v) k2 = get? m k2 := by
  induction m with
  | nil => simp [set, get?, h]
  | cons hd t ih =>
    obtain ⟨k', v'⟩ := hd
    by_cases hk : k' = k
    · subst hk; simp [set, get?, h]
    · by_cases hk2 : k' = k2
      · subst hk2; simp [set, get?, hk]
      · simp [set, get?, hk, hk2, ih]

/-- the summation law of `set`: new sum + old contribution = old sum + new contribution -/
theorem sumIf_set (p : K → Bool) (f : V → Nat) (m : AMap K V) (k : K) (v : V) :
    sumIf p f (set m k v) + (if p k then ((get? m k).map f).getD 0 else 0)
      = sumIf p f m + (if p k then f v else 0) := by
  induction m with
  | nil => simp [set, sumIf, get?]
  | cons hd t ih =>
    obtain ⟨k', v'⟩ := hd
    by_cases hk : k' = k
    · subst hk
      simp only [set, sumIf, get?, if_true, Option.map, Option.getD]
      split <;> omega
    · simp only [set, sumIf, get?, hk, if_false]
      omega

theorem sumIf_set_of_not (p : K → Bool) (f : V → Nat) (m : AMap K V) (k : K) (v : V)
    (h : p k = false) : sumIf p f (set m k v) = sumIf p f m := by
  have := sumIf_set p f m k v
  simpa [h] using this

end AMap
end Irismod
