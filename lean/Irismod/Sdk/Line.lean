/-
Line protocol helpers shared by every driver: `module op k=v k=v ...` in, one canonical
observation line out. Core Lean only.
-/
namespace Irismod.Line

def hexDigit (n : Nat) : Char :=
  if n < 10 then Char.ofNat (48 + n) else Char.ofNat (87 + n)

def hexOfBytes (b : ByteArray) : String := Id.run do
  let mut s := ""
  for x in b do
    s := s.push (hexDigit (x.toNat / 16))
    s := s.push (hexDigit (x.toNat % 16))
  return s

def hexVal (c : Char) : Option Nat :=
  if '0' ≤ c ∧ c ≤ '9' then some (c.toNat - 48)
  else if 'a' ≤ c ∧ c ≤ 'f' then some (c.toNat - 87)
  else if 'A' ≤ c ∧ c ≤ 'F' then some (c.toNat - 55)
  else none

def bytesOfHex (s : String) : Option ByteArray :=
  let rec go : List Char → ByteArray → Option ByteArray
    | [], acc => some acc
    | [_], _ => none
    | a :: b :: rest, acc =>
      match hexVal a, hexVal b with
      | some x, some y => go rest (acc.push (UInt8.ofNat (16 * x + y)))
      | _, _ => none
  go s.toList ByteArray.empty

/-- split an op line into tokens -/
def tokens (line : String) : List String :=
  (line.splitOn " ").filter (· ≠ "")

/-- `k=v` lookup among tokens -/
def arg? (toks : List String) (key : String) : Option String :=
  toks.findSome? fun t =>
    let pre := key ++ "="
    if t.startsWith pre then some (t.drop pre.length).toString else none

def arg (toks : List String) (key : String) : String := (arg? toks key).getD ""

def natArg? (toks : List String) (key : String) : Option Nat := (arg? toks key).bind String.toNat?

def intArg? (toks : List String) (key : String) : Option Int := (arg? toks key).bind String.toInt?

/-- `[a,b,c]`-free list: comma separated, empty string = empty list -/
def listOf (s : String) : List String := if s = "" then [] else s.splitOn ","

def joinWith (sep : String) (xs : List String) : String := sep.intercalate xs

/-- insertion sort on strings for canonical output -/
def sortStrings (xs : List String) : List String :=
  (xs.toArray.qsort (· < ·)).toList

end Irismod.Line
