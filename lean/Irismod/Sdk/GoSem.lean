/-
The Go library surface the regenerated translations (`Irismod/Gen/Pure.lean`, written by
`extract/x_pure` from /repo's working tree on every run) are expressed in: one Lean function
per Go method or constructor, named after it, over the substrate of `Sdk/Dec18.lean`.
A call that can panic in Go returns `Option` (`none` = panic); every other call is total.

  sdkmath.Int        ↦ `Int` inside the 256-bit range (the checks are in the operations)
  sdkmath.LegacyDec  ↦ `Dec` (raw integer ×10^18), assumed non-nil
  *big.Int           ↦ `Int` (unbounded)
  sdk.Coin           ↦ `Coin`
  error              ↦ `Bool` (`true` = nil)

Conformance of the substrate with the Go libraries is differential-tested by `harness/cmd/h_sdk`.
Core Lean only.
-/
import Irismod.Sdk.Dec18
import Irismod.Sdk.Sha256
namespace Irismod.GoSem
open Irismod.Sdk

/-! ### sdkmath.Int -/
def ZeroInt : Int := 0
def OneInt : Int := 1
/-- `NewInt(int64)`: always in range -/
def NewInt (n : Int) : Int := n
def NewIntFromUint64 (n : Int) : Int := n
/-- `NewIntFromBigInt`: panics beyond 256 bits -/
def NewIntFromBigInt (b : Int) : Option Int := chkInt b
/-- `NewIntWithDecimal(n, dec)` = `n·10^dec`, panics beyond 256 bits -/
def NewIntWithDecimal (n dec : Int) : Option Int := chkInt (n * (10 ^ dec.toNat : Nat))
def Int_Add (a b : Int) : Option Int := I256.add a b
def Int_Sub (a b : Int) : Option Int := I256.sub a b
def Int_Mul (a b : Int) : Option Int := I256.mul a b
def Int_Quo (a b : Int) : Option Int := I256.quo a b
def Int_Mod (a b : Int) : Option Int := if b = 0 then none else some (a.emod b)
def Int_IsPositive (a : Int) : Bool := decide (0 < a)
def Int_IsNegative (a : Int) : Bool := decide (a < 0)
def Int_IsZero (a : Int) : Bool := decide (a = 0)
def Int_GT (a b : Int) : Bool := decide (b < a)
def Int_GTE (a b : Int) : Bool := decide (b ≤ a)
def Int_LT (a b : Int) : Bool := decide (a < b)
def Int_LTE (a b : Int) : Bool := decide (a ≤ b)
def Int_Equal (a b : Int) : Bool := decide (a = b)
def Int_BigInt (a : Int) : Int := a
def Int_Neg (a : Int) : Int := -a
def Int_ToLegacyDec (a : Int) : Dec := Dec.ofInt a
/-- `Int.Int64()`: panics outside the int64 range -/
def Int_Int64 (a : Int) : Option Int :=
  if -9223372036854775808 ≤ a ∧ a < 9223372036854775808 then some a else none

/-! ### int64 (Go's machine arithmetic wraps) -/
def I64_wrap (x : Int) : Int := (x + 9223372036854775808).emod 18446744073709551616 - 9223372036854775808
/-- `uint64(x)` of an int64 -/
def U64_ofI64 (x : Int) : Nat := (x.emod 18446744073709551616).toNat
/-- uint64 addition / subtraction wrap modulo 2^64 (operands are uint64 values) -/
def U64_Add (a b : Nat) : Nat := (a + b) % 18446744073709551616
def U64_Sub (a b : Nat) : Nat := (a + 18446744073709551616 - b % 18446744073709551616) % 18446744073709551616
/-- `uint32(x)`: the low 32 bits -/
def U32_ofI64 (x : Int) : Nat := (x.emod 4294967296).toNat
def I64_Add (a b : Int) : Int := I64_wrap (a + b)
def I64_Sub (a b : Int) : Int := I64_wrap (a - b)

/-! ### sdkmath.LegacyDec -/
def LegacyZeroDec : Dec := Dec.zero
def LegacyOneDec : Dec := Dec.one
def LegacyNewDec (n : Int) : Dec := Dec.ofInt n
def LegacyNewDecFromInt (n : Int) : Dec := Dec.ofInt n
/-- `LegacyNewDecWithPrec(i, prec)`: panics for `prec > 18` -/
def LegacyNewDecWithPrec (i prec : Int) : Option Dec :=
  if 0 ≤ prec ∧ prec ≤ 18 then some (Dec.withPrec i prec.toNat) else none
def Dec_Add (a b : Dec) : Option Dec := Dec.add a b
def Dec_Sub (a b : Dec) : Option Dec := Dec.sub a b
def Dec_Mul (a b : Dec) : Option Dec := Dec.mul a b
def Dec_Quo (a b : Dec) : Option Dec := Dec.quo a b
def Dec_MulTruncate (a b : Dec) : Option Dec := Dec.mulTruncate a b
def Dec_QuoTruncate (a b : Dec) : Option Dec := Dec.quoTruncate a b
def Dec_MulInt (a : Dec) (i : Int) : Option Dec := Dec.mulInt a i
def Dec_QuoInt (a : Dec) (i : Int) : Option Dec := Dec.quoInt a i
def Dec_TruncateInt (a : Dec) : Option Int := Dec.truncateInt a
def Dec_RoundInt (a : Dec) : Option Int := Dec.roundInt a
def Dec_BigInt (a : Dec) : Int := a.raw
/-- the substrate's decimals are never nil (absent decimals are C16's `Option` fields) -/
def Dec_IsNil (_ : Dec) : Bool := false
def Dec_IsZero (a : Dec) : Bool := decide (a.raw = 0)
def Dec_IsNegative (a : Dec) : Bool := decide (a.raw < 0)
def Dec_IsPositive (a : Dec) : Bool := decide (0 < a.raw)
def Dec_GT (a b : Dec) : Bool := decide (b.raw < a.raw)
def Dec_GTE (a b : Dec) : Bool := decide (b.raw ≤ a.raw)
def Dec_LT (a b : Dec) : Bool := decide (a.raw < b.raw)
def Dec_LTE (a b : Dec) : Bool := decide (a.raw ≤ b.raw)
def Dec_Equal (a b : Dec) : Bool := decide (a.raw = b.raw)

/-! ### math/big.Int (values; the translator re-binds a mutated receiver) -/
def Big_NewInt (n : Int) : Int := n
def Big_Mul (a b : Int) : Int := a * b
def Big_Add (a b : Int) : Int := a + b
def Big_Sub (a b : Int) : Int := a - b
def Big_Set (a : Int) : Int := a
def Big_Neg (a : Int) : Int := -a
/-- `Quo`: truncated division; division by zero panics -/
def Big_Quo (a b : Int) : Option Int := if b = 0 then none else some (a.tdiv b)
/-- `Rem`: truncated remainder; division by zero panics -/
def Big_Rem (a b : Int) : Option Int := if b = 0 then none else some (a.tmod b)
/-- `Div` / `Mod`: Euclidean division (the remainder is never negative); division by zero panics -/
def Big_Div (a b : Int) : Option Int := if b = 0 then none else some (a.ediv b)
def Big_Mod (a b : Int) : Option Int := if b = 0 then none else some (a.emod b)
/-- `Exp(x, y, nil)` = `x^y`, and 1 for `y ≤ 0` -/
def Big_Exp (a b : Int) : Int := if b ≤ 0 then 1 else a ^ b.toNat
def Big_Sign (a : Int) : Int := if a < 0 then -1 else if a = 0 then 0 else 1
def Big_Cmp (a b : Int) : Int := if a < b then -1 else if a = b then 0 else 1

/-! ### byte slices ([]byte, HexBytes, AccAddress) as values -/
/-- the value of `append(a, b...)` -/
def Bytes_append (a b : ByteArray) : ByteArray := a ++ b
/-- `[]byte(s)` -/
def Bytes_ofString (s : String) : ByteArray := s.toUTF8
/-- `sdk.Uint64ToBigEndian` -/
def Uint64ToBigEndian (n : Nat) : ByteArray :=
  (List.range 8).foldl (fun acc i => acc.push (UInt8.ofNat ((n >>> (8 * (7 - i))) % 256))) ByteArray.empty
/-- `tmhash.Sum` = SHA-256 -/
def tmhash_Sum (b : ByteArray) : ByteArray := Irismod.Sha256.sum b

/-! ### sdk.Coin -/
structure Coin where
  denom  : String
  amount : Int
  deriving DecidableEq, Repr, Inhabited

def denomTailOk (c : Char) : Bool :=
  c.isAlphanum || c == '/' || c == ':' || c == '.' || c == '_' || c == '-'

/-- `sdk.ValidateDenom` (`[a-zA-Z][a-zA-Z0-9/:._-]{2,127}`) as a verdict: `true` = nil error -/
def ValidateDenom (s : String) : Bool :=
  match s.toList with
  | [] => false
  | h :: t => h.isAlpha && t.all denomTailOk && decide (2 ≤ t.length) && decide (t.length ≤ 127)

def Coin_IsPositive (c : Coin) : Bool := decide (0 < c.amount)
def Coin_IsZero (c : Coin) : Bool := decide (c.amount = 0)
def Coin_IsNegative (c : Coin) : Bool := decide (c.amount < 0)
def Coin_IsValid (c : Coin) : Bool := ValidateDenom c.denom && decide (0 ≤ c.amount)
/-- `Coin.Add`: panics on differing denoms (and beyond 256 bits) -/
def Coin_Add (a b : Coin) : Option Coin :=
  if a.denom = b.denom then (I256.add a.amount b.amount).map fun x => ⟨a.denom, x⟩ else none
/-- `Coin.Sub`: panics on differing denoms and on a negative result -/
def Coin_Sub (a b : Coin) : Option Coin :=
  if a.denom = b.denom then
    match I256.sub a.amount b.amount with
    | some x => if x < 0 then none else some ⟨a.denom, x⟩
    | none => none
  else none
/-- `Coin.IsLT` / `IsGTE` / `IsLTE`: panic on differing denoms -/
def Coin_IsLT (a b : Coin) : Option Bool := if a.denom = b.denom then some (decide (a.amount < b.amount)) else none
def Coin_IsGTE (a b : Coin) : Option Bool := if a.denom = b.denom then some (decide (b.amount ≤ a.amount)) else none
def Coin_IsLTE (a b : Coin) : Option Bool := if a.denom = b.denom then some (decide (a.amount ≤ b.amount)) else none

/-- `sdk.NewCoin`: panics on an invalid denom or a negative amount -/
def NewCoin (d : String) (a : Int) : Option Coin :=
  if ValidateDenom d && decide (0 ≤ a) then some ⟨d, a⟩ else none

/-- the loop of `sdk.Coins.Validate` over the elements after the first (`low` = previous denom) -/
def Coins_ValidateTail : String → List Coin → Bool
  | _, [] => true
  | low, c :: rest =>
    ValidateDenom c.denom && decide (low < c.denom) && Coin_IsPositive c && Coins_ValidateTail c.denom rest

/-- `sdk.Coins.Validate` as a verdict (`true` = nil): valid denoms, strictly ascending, strictly positive -/
def Coins_Validate : List Coin → Bool
  | [] => true
  | c :: rest => ValidateDenom c.denom && Coin_IsPositive c && Coins_ValidateTail c.denom rest

def Coins_IsValid (cs : List Coin) : Bool := Coins_Validate cs

end Irismod.GoSem
