/-
C13 (farm slice) — the farm EndBlocker never aborts, handles each ending pool exactly once,
and the active-pool queue mirrors the pools that have not ended.
-/
import Irismod.Spec.C06

namespace Irismod.Spec.C13Farm
open Irismod Irismod.Sdk Irismod.Farm

/-! ### statements -/

/-- queue hygiene: every entry names an existing pool at its end height, not in the past;
a pool has at most one entry; a pool whose end height lies ahead has its entry -/
def QueueOK (s : State) : Prop :=
  (∀ h id, (h, id) ∈ s.queue → ∃ p, getPool s id = some p ∧ p.endH = h ∧ s.height ≤ h) ∧
  (∀ id p, getPool s id = some p → s.height < p.endH → (p.endH, id) ∈ s.queue) ∧
  s.queue.Nodup

/-- executable form -/
def queueOkB (s : State) : Bool :=
  (s.queue.all fun e => match getPool s e.2 with
    | some p => p.endH == e.1 && decide (s.height ≤ e.1)
    | none => false) &&
  (s.pools.all fun e => !(decide (s.height < e.2.endH)) || s.queue.contains (e.2.endH, e.1)) &&
  (s.queue.map (·.2)).eraseDups.length == s.queue.length

/-! ### monitor -/

structure Mon where
  deriving Inhabited

def Mon.init (_ : State) : Mon := {}

def check (m : Mon) (pre : State) (op : Op) (res : String) (post : State) : Mon × List String := Id.run do
  let mut fails : List String := []
  if !(queueOkB post) then fails := fails ++ ["clause=queue-hygiene"]
  match op with
  | .endBlocks _ =>
    if res != "ok" then fails := fails ++ ["clause=endblock-abort"]
    for (id, p) in pre.pools do
      match getPool post id with
      | none => fails := fails ++ [s!"clause=pool-vanished pool={id}"]
      | some q =>
        if C06.dueIn pre post id then
          -- handled: dequeued, ended at its due height, budget returned
          if !(!(post.queue.any fun e => e.2 = id) && q.endH == p.endH && q.last == p.endH &&
               q.rules.all (fun r => r.remaining == 0)) then
            fails := fails ++ [s!"clause=due-not-handled pool={id}"]
        else if !(C05.sameMap [(id, p)] [(id, q)]) then
          -- exactly once: a pool that is not due is not touched by the EndBlocker
          fails := fails ++ [s!"clause=endblock-touched pool={id}"]
    if !(C05.sameMap pre.farmers post.farmers) then fails := fails ++ ["clause=endblock-farmers"]
  | .cpPass pid | .cpReject pid | .cpFailDeposit pid =>
    -- gov's EndBlocker with the farm hooks never aborts; a due proposal is settled (its escrow info
    -- is gone), one that is not due is left alone; farmers and the other pools are never touched
    if res == "panic" then fails := fails ++ ["clause=gov-endblock-abort"]
    if res == "ok" && (AMap.get? post.cp.escrow pid).isSome then fails := fails ++ [s!"clause=escrow-not-settled id={pid}"]
    if res != "ok" && !(C05.sameObserved pre post && C05.sameCp pre post) then fails := fails ++ [s!"clause=not-due-touched id={pid}"]
    if !(C05.sameMap pre.farmers post.farmers) then fails := fails ++ ["clause=gov-endblock-farmers"]
    for (id, p) in pre.pools do
      match getPool post id with
      | none => fails := fails ++ [s!"clause=pool-vanished pool={id}"]
      | some q => if !(C05.sameMap [(id, p)] [(id, q)]) then fails := fails ++ [s!"clause=gov-endblock-touched pool={id}"]
  | _ => pure ()
  return (m, fails)

end Irismod.Spec.C13Farm
