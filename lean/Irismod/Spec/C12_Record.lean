/-
C12 (record slice) — the exported record store re-imports and preserves what users rely on.

Monitor clauses evaluated on the `record export` / `record reimport` lines (and on the reads that
follow a re-import) of the IMPLEMENTATION's observation stream. The monitor keeps the store the
implementation has shown so far (`Store`: id in lower-case hex → record, learned from the `new=`
field of accepted transactions, from `recs=` of `query_all` and of `reimport` lines) and judges
every genesis line against it.

What a user relies on: a record id handed out by `MsgCreateRecord` answers `QueryRecord` forever.
`ExportGenesis` emits the records in store (id byte) order WITHOUT ids and without the counter,
`InitGenesis` replays them through `AddRecord` with counters 0, 1, 2, … — ids change whenever the
store order is not the creation order (finding F-gen-3). Everything else must survive:
the number of records, the counter, the records themselves (tx hash, creator, contents) as a
multiset, and the new ids must be exactly the ids the exported document determines.
Core Lean only.
-/
import Irismod.Model.RecordGenesis
import Irismod.Sdk.Line

namespace Irismod.Spec.C12Record
open Irismod Irismod.Record Irismod.RecordGenesis

/-- the store as the implementation dumps it: id (lower-case hex) → record -/
abbrev Store := List (String × Rec)

def hexOfId (i : Id) : String := Line.hexOfBytes (ByteArray.mk i)

/-- insert into a key-ascending list (lower-case hex order of equal-length ids = byte order) -/
def insKey (e : String × Rec) : Store → Store
  | [] => [e]
  | x :: t => if e.1 < x.1 then e :: x :: t else x :: insKey e t

/-- the store in iteration (key) order -/
def sortByKey (m : Store) : Store := m.foldr insKey []

/-- the document `ExportGenesis` must produce for an observed store: the records in key order -/
def docOf (m : Store) : List Rec := (sortByKey m).map (·.2)

/-- the store `InitGenesis` must build from a document on an empty module store: the records in
document order under the ids derived with counters 0, 1, 2, … -/
def derivedStore (doc : List Rec) : Store := ((newIds 0 doc).map hexOfId).zip doc

/-- two observed stores hold the same id → record bindings -/
def sameStore (a b : Store) : Bool := sortByKey a == sortByKey b

/-- the records (tx hash, creator, contents — without ids) agree as multisets -/
def sameRecords (a b : Store) : Bool := (a.map (·.2)).isPerm (b.map (·.2))

/-- the id sets agree -/
def sameIds (a b : Store) : Bool := (sortByKey a).map (·.1) == (sortByKey b).map (·.1)

def setKey (m : Store) (k : String) (v : Rec) : Store :=
  match m with
  | [] => [(k, v)]
  | (k', v') :: t => if k' = k then (k, v) :: t else (k', v') :: setKey t k v

def getKey (m : Store) (k : String) : Option Rec := (m.find? fun e => e.1 == k).map (·.2)

/-- an accepted transaction: the returned (id, record) pairs enter the store -/
def learn (m : Store) (ret : List (String × Rec)) : Store := ret.foldl (fun k p => setKey k p.1 p.2) m

/-- clauses of an `export` line: accepted; the real document passes the real `ValidateGenesis`;
the document is exactly the observed store's records in key order; the export changed nothing -/
def checkExport (pre : Store) (preCtr : Nat) (res validate : String) (ctr n : Nat) (doc : List Rec) : List String :=
  if res != "ok" then ["clause=export-failed"] else
  (if validate == "ok" then [] else ["clause=export-invalid"]) ++
  (if doc == docOf pre then [] else ["clause=export-document-differs"]) ++
  (if ctr == preCtr && n == pre.length then [] else ["clause=export-changed-state"])

/-- clauses of a `reimport` line (real export, wipe of the whole module store, real `InitGenesis`),
judged from the observed store before (`pre`) and the dump after (`post`):
accepted; as many records as before; counter = number of records (fresh 0..n-1, then n) and equal to
the counter before; the records unchanged as a multiset; the new ids are the ones the exported
document determines; and the ids themselves unchanged — the one clause the code is known to
violate (class F-gen-3). With unchanged ids every id must still answer with its own record. -/
def checkReimport (pre : Store) (preCtr : Nat) (res : String) (ctr n : Nat) (post : Store) : List String :=
  if res != "ok" then ["clause=reimport-failed"] else
  (if n == pre.length && post.length == n then [] else ["clause=reimport-count-changed"]) ++
  (if ctr == pre.length then [] else ["clause=reimport-counter"]) ++
  (if ctr == preCtr then [] else ["clause=reimport-counter-changed"]) ++
  (if sameRecords post pre then [] else ["clause=reimport-records-changed"]) ++
  (if sameStore post (derivedStore (docOf pre)) then [] else ["clause=reimport-ids-not-derived"]) ++
  (if sameIds post pre then
     (if sameStore post pre then [] else ["clause=reimport-binding-changed"])
   else ["clause=reimport-ids-changed class=F-gen-3"])

/-- clauses of a `query` line: an id of the observed store answers with exactly its record; an id
outside it is not found. An id that WAS handed out by an accepted transaction of this history
and is not found any more was lost by a re-import (the store has no delete): class F-gen-3. -/
def checkQuery (known : Store) (issued : List String) (id : String) (found : Bool) (r : Rec) : List String :=
  match getKey known id with
  | some r0 => if found && r == r0 then [] else ["clause=read-differs"]
  | none =>
    if found then ["clause=read-phantom"] else
    if issued.contains id then ["clause=issued-id-lost class=F-gen-3"] else []

/-- clause of a `query_all` line: the dump is exactly the observed store (after a re-import: the
imported store plus what was created since) -/
def checkDump (known : Store) (n : Nat) (dump : Store) : List String :=
  (if sameStore dump known && n == dump.length then [] else ["clause=store-differs"])

end Irismod.Spec.C12Record
