/-
C12 — exported state re-imports and preserves what users rely on.

The statement, per module, as `Prop`s over the hand-written export / validate / import models.
(The executable monitor of C12 is generic — `Driver/Genesis.lean` checks the five clauses of a
real round trip on the implementation — so this file only carries the propositions the
theorems of `Props/C12.lean` are about.)

MT section: observational equality of two module stores, the reachable-shape predicate `WF`,
and the id-freshness side condition (SHA-256 collision freedom) under which `WF` is inductive.
-/
import Irismod.Model.MtGenesis
import Irismod.Spec.C15
import Irismod.Model.RecordGenesis

namespace Irismod.Spec.C12.Mt
open Irismod Irismod.Mt Irismod.MtGenesis

/-- two MT stores answer every read alike: every key of every table, and both sequences -/
structure ObsEq (a b : State) : Prop where
  denoms      : ∀ k, AMap.get? a.denoms k = AMap.get? b.denoms k
  mts         : ∀ k, AMap.get? a.mts k = AMap.get? b.mts k
  supply      : ∀ k, AMap.get? a.supply k = AMap.get? b.supply k
  denomSupply : ∀ k, AMap.get? a.denomSupply k = AMap.get? b.denomSupply k
  bal         : ∀ k, AMap.get? a.bal k = AMap.get? b.bal k
  denomSeq    : a.denomSeq = b.denomSeq
  mtSeq       : a.mtSeq = b.mtSeq

/-- number of tokens recorded under class `d` -/
def cnt (s : State) (d : DenomId) : Nat := ((AMap.keys s.mts).filter (fun k => k.1 = d)).length

/-- shape facts of every reachable MT store (proved inductive in `Proofs/MtGenesisWF.lean`) -/
structure WF (s : State) : Prop where
  nd_denoms : (AMap.keys s.denoms).Nodup
  nd_mts    : (AMap.keys s.mts).Nodup
  nd_bal    : (AMap.keys s.bal).Nodup
  /-- a token belongs to a recorded class -/
  mts_denom : ∀ d m, (d, m) ∈ AMap.keys s.mts → d ∈ AMap.keys s.denoms
  /-- a balance entry refers to a recorded token -/
  bal_mt    : ∀ a d m, (a, d, m) ∈ AMap.keys s.bal → (d, m) ∈ AMap.keys s.mts
  /-- a recorded token has at least one balance entry (its first recipient's) -/
  mt_bal    : ∀ d m, (d, m) ∈ AMap.keys s.mts → ∃ a, (a, d, m) ∈ AMap.keys s.bal
  /-- supply entries are exactly the recorded tokens -/
  sup_mt    : ∀ k, k ∈ AMap.keys s.supply ↔ k ∈ AMap.keys s.mts
  /-- the class supply counts the class's tokens (`uint64` increments) -/
  dsup      : ∀ d, AMap.get? s.denomSupply d =
                if cnt s d = 0 then none else some (UInt64.ofNat (cnt s d))
  denomSeq  : s.denomSeq = UInt64.ofNat (s.denoms.length + 1)
  mtSeq     : s.mtSeq = UInt64.ofNat (s.mts.length + 1)

/-- the id generated for this operation is not in use yet. `genId` is SHA-256 of the sequence
number, so this fails only on a SHA-256 collision (or after 2^64 creations). -/
def IdFresh (s : State) : Op → Prop
  | .issueDenom _ _ _ => genId "mt-denom-" s.denomSeq ∉ AMap.keys s.denoms
  | .mint _ d id _ _ _ => id = "" → (d, genId "mt-" s.mtSeq) ∉ AMap.keys s.mts
  | _ => True

/-- a history along which every generated id is fresh -/
def FreshRun : State → List Op → Prop
  | _, [] => True
  | s, op :: t => IdFresh s op ∧ FreshRun (apply s op) t

/-- executable forms (used for the non-vacuity evaluation and usable by a monitor) -/
def idFreshB (s : State) : Op → Bool
  | .issueDenom _ _ _ => !(AMap.keys s.denoms).contains (genId "mt-denom-" s.denomSeq)
  | .mint _ d id _ _ _ => id != "" || !(AMap.keys s.mts).contains (d, genId "mt-" s.mtSeq)
  | _ => true

def freshRunB : State → List Op → Bool
  | _, [] => true
  | s, op :: t => idFreshB s op && freshRunB (apply s op) t

/-- the round-trip statement of C12 for one MT store -/
def RoundTrip (s : State) : Prop :=
  validateGenesis (exportGenesis s) = .ok () ∧
  ∃ s', importGenesis (exportGenesis s) = .ok s' ∧ ObsEq s' s ∧ exportGenesis s' = exportGenesis s

end Irismod.Spec.C12.Mt

/-! ## record -/
namespace Irismod.Spec.C12.Record
open Irismod Irismod.Record Irismod.RecordGenesis

/-- the C12 statement for one record store: the export imports, and every id answers as before -/
def IdsPreserved (s : State) : Prop :=
  ∃ s', importGenesis (exportGenesis s) = .ok s' ∧ ∀ id, getRecord s' id = getRecord s id

/-- … for every reachable store. FALSE in the code (finding F-gen-3): see
`Props.C12.record_roundtrip_fails`. -/
def RoundTripAll : Prop := ∀ ops : List Op, IdsPreserved (run {} ops)

/-! the witness: two transactions, one record each -/
def wC (d : String) : Content := { digest := d, algo := "sha256", uri := "", metadata := "" }
def wM (d : String) : Msg := { creator := "A0", creatorOk := true, contents := [wC d] }
def wR0 : Rec := mkRec (txHashOf "t1".toUTF8) (wM "d0")
def wR1 : Rec := mkRec (txHashOf "t2".toUTF8) (wM "d1")
def wOps : List Op := [.tx "t1".toUTF8 [wM "d0"], .tx "t2".toUTF8 [wM "d1"]]

/-- ids on the exporting chain (counters 0, 1) and the ids the importing chain derives for the same
two records visited in store order (`wR1` first: counters 0, 1 again, but swapped) -/
def wI0 : Id := idOfPre (preimage wR0 0)
def wI1 : Id := idOfPre (preimage wR1 1)
def wJ0 : Id := idOfPre (preimage wR1 0)
def wJ1 : Id := idOfPre (preimage wR0 1)

/-- closed facts about four SHA-256 values: the store order of the two records is the reverse
of their creation order, and the first record's id is neither of the re-derived ids. The
kernel cannot evaluate SHA-256; `Audit/C12.lean` evaluates this with `#eval`, and the same
history is replayed on the real keeper (corpus/C12/F-gen-3.ops). -/
def WitnessFacts : Prop := wI0 ≠ wI1 ∧ idLt wI0 wI1 = false ∧ wI0 ≠ wJ0 ∧ wI0 ≠ wJ1

instance : Decidable WitnessFacts := by unfold WitnessFacts; exact inferInstance

end Irismod.Spec.C12.Record
