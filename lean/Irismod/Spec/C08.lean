import Irismod.Model.Service

namespace Irismod.Spec.C08
end Irismod.Spec.C08
