/-
C08 — Service: each request gets exactly one outcome; contexts follow their schedule.

(a) `Prop` statements used by `Props/C08.lean` (request outcome automaton);
(b) the executable monitor evaluated on the implementation's observation stream.

The former defect classes F-svc-3 (queue entry kept when no exchange rate is available) and F-svc-5 (batch
beyond the total after pause + start) are repaired in /repo; such failures are reported unclassified.
-/
import Irismod.Model.Service

namespace Irismod.Spec.C08
open Irismod Irismod.Sdk Irismod.Service

/-! ### the outcome of a request, read off a state -/

inductive Outcome where
  | unknown      -- never issued (or already cleaned up)
  | active
  | answered
  deriving DecidableEq, Repr, Inhabited

/-- a request is active iff its marker is set; answered iff a response is recorded -/
def outcomeOf (s : State) (rid : ReqId) : Outcome :=
  if s.active.contains rid then .active
  else if AMap.contains s.resps rid then .answered
  else .unknown

/-! ### monitor -/

structure Fail where
  clause : String
  cls    : String := ""
  deriving Repr, Inhabited

structure Mon where
  answered    : List ReqId := []
  expired     : List ReqId := []
  seen        : List ReqId := []
  lastBatchH  : AMap CtxId Int := []
  modified    : List CtxId := []
  pausedSince : List CtxId := []
  deriving Repr, Inhabited

def left (pre post : State) : List ReqId := pre.active.filter (fun r => !(post.active.contains r))
def entered (pre post : State) : List ReqId := post.active.filter (fun r => !(pre.active.contains r))

def newResponses (pre post : State) : List ReqId :=
  (post.resps.map (·.1)).filter (fun r => !(AMap.contains pre.resps r))

def expHOf (s : State) (r : ReqId) : Option Int := (AMap.get? s.reqs r).map (·.expH)

/-- batch counters of all contexts present on both sides are equal -/
def countersSame (pre post : State) : Bool :=
  pre.ctxs.all fun e => match AMap.get? post.ctxs e.1 with
    | none => true
    | some c => c.batchCounter == e.2.batchCounter

/-- number of responses with an output recorded for batch `(id, b)` in either state -/
def outputsOf (pre post : State) (id : CtxId) (b : Nat) : Nat :=
  let ks := ((pre.resps ++ post.resps).filter (fun e => e.1.inBatch id b && e.2.hasOut)).map (·.1)
  ks.eraseDups.length

def respEvents (s : State) : List (CtxId × Nat × Bool) :=
  s.cb.filterMap fun e => match e with
    | .resp id _ n er => some (id, n, er)
    | .state _ _ => none

def stateEvents (s : State) : List CtxId :=
  s.cb.filterMap fun e => match e with
    | .resp _ _ _ _ => none
    | .state id _ => some id

def sortIds (l : List CtxId) : List CtxId := isort (fun a b : String => decide (a ≤ b)) l

def evLe (a b : CtxId × Nat × Bool) : Bool := decide (a.1 < b.1) || (a.1 == b.1 && decide (a.2.1 ≤ b.2.1))

/-- the running batch of `c` (stored under `id` before the step) is over after the step -/
def batchDone (post : State) (id : CtxId) (c : Ctx) : Bool :=
  match AMap.get? post.ctxs id with
  | none => true
  | some c' => c'.batchState = .completed || decide (c.batchCounter < c'.batchCounter)

/-- the batches of module-owned contexts that complete in this step, with the expected callback payload -/
def expectedRespEvents (pre post : State) : List (CtxId × Nat × Bool) :=
  pre.ctxs.filterMap fun e =>
    let c := e.2
    if c.moduleName ≠ "" ∧ c.batchState = .running then
      if batchDone post e.1 c then
        let n := outputsOf pre post e.1 c.batchCounter
        some (e.1, n, decide (n < c.batchRespThreshold))
      else none
    else none

def expectedStateEvents (pre post : State) : List CtxId :=
  pre.ctxs.filterMap fun e =>
    if e.2.moduleName ≠ "" ∧ e.2.state = .running then
      match AMap.get? post.ctxs e.1 with
      | some c' => if c'.state = .paused then some e.1 else none
      | none => none
    else none

/-- callbacks fire exactly once per completed batch of a module-owned context, with `err` iff the
number of outputs is below the batch's response threshold; the state callback fires exactly when
a module-owned context is paused by the scheduler -/
def callbacksOk (pre post : State) (isNext : Bool) : Bool :=
  isort evLe (respEvents post) == isort evLe (expectedRespEvents pre post) &&
  sortIds (stateEvents post) == (if isNext then sortIds (expectedStateEvents pre post) else [])

def authorityOk (pre : State) (sender : Addr) (id : String) (viaMsg : Bool) : Bool :=
  match AMap.get? pre.ctxs id.toLower with
  | none => false
  | some c => if viaMsg then c.consumer == sender && c.moduleName == "" else (c.moduleName == "" || c.consumer == sender)

def issuedMon (mm : Mon) (id : CtxId) (h : Int) : Mon :=
  { mm with lastBatchH := AMap.set mm.lastBatchH id h, pausedSince := mm.pausedSince.filter (· ≠ id) }

/-- the schedule clauses of one `EndBlocker` at height `h = pre.height` -/
def checkSchedule (m : Mon) (pre post : State) : Mon × List Fail :=
  let h := pre.height
  pre.ctxs.foldl (fun (acc : Mon × List Fail) (e : CtxId × Ctx) =>
    let id := e.1
    let c := e.2
    let mm := acc.1
    let cq := AMap.get? post.ctxs id
    let issued : Bool := match cq with | some c' => c'.batchCounter == c.batchCounter + 1 | none => false
    let counterOk : Bool := match cq with | some c' => c'.batchCounter == c.batchCounter || issued | none => true
    let clean := !(mm.modified.contains id) && !(mm.pausedSince.contains id)
    let last := AMap.get? mm.lastBatchH id
    let f1 := if counterOk then [] else [{ clause := "batch-counter-step" : Fail }]
    let f2 := if issued ∧ c.state ≠ .running then [{ clause := "batch-only-while-running" : Fail }] else []
    let f3 := if issued ∧ c.repeated ∧ clean ∧ 1 ≤ c.batchCounter ∧ last ≠ some (h - (c.freq : Int))
              then [{ clause := "batch-exactly-frequency-after-previous" : Fail }] else []
    let f4 := if issued ∧ c.repeated ∧ !(mm.modified.contains id) ∧ (0 : Int) ≤ c.total ∧ c.total ≤ (c.batchCounter : Int)
              then [{ clause := "batch-beyond-total" : Fail }] else []
    let f5 := if issued ∧ !c.repeated ∧ 1 ≤ c.batchCounter then [{ clause := "one-shot-second-batch" : Fail }] else []
    let due := c.repeated && c.state = .running && clean && decide (1 ≤ c.batchCounter) &&
               (decide (c.total < (0 : Int)) || decide ((c.batchCounter : Int) < c.total)) && last == some (h - (c.freq : Int))
    let pausedNow : Bool := match cq with | some c' => c'.state = .paused | none => false
    let f6 := if due ∧ !issued ∧ !pausedNow then
                [{ clause := "batch-due-not-issued" : Fail }] else []
    -- a running context whose new-batch entry is due gets its batch (or is paused for lack of funds)
    let f8 := if c.state = .running ∧ AMap.get? pre.newH id = some h ∧ pre.newQ.contains (h, id) ∧ !issued ∧ !pausedNow then
                [{ clause := "queued-batch-issued" : Fail }] else []
    -- a one-shot context is removed when its batch expires
    let f7 := if !c.repeated ∧ AMap.get? pre.expH id = some h ∧ cq.isSome then [{ clause := "one-shot-removed-at-expiry" : Fail }] else []
    let mm1 : Mon := if issued then issuedMon mm id h else mm
    let mm2 : Mon := if pausedNow ∧ !(mm1.pausedSince.contains id) then { mm1 with pausedSince := id :: mm1.pausedSince } else mm1
    (mm2, acc.2 ++ f1 ++ f2 ++ f3 ++ f4 ++ f5 ++ f6 ++ f7 ++ f8)) (m, [])

/-! ### one monitor step, clause group by clause group

`check` is the composition of the five parts below (the soundness theorems of
`Proofs/ServiceMonitor*.lean` are stated part by part). -/

/-- (outcome automaton) every request leaves the active set at most once: by an answer of its addressee
or by expiry at its expiration height; requests enter only in an end block, each id once -/
def outcomeStep (m : Mon) (pre : State) (op : Op) (accepted : Bool) (post : State) : Mon × List Fail :=
  let lft := left pre post
  let ent := entered pre post
  let newR := newResponses pre post
  match op, accepted with
  | .respond provider (some rid) _ _ _, true =>
    let ok := pre.active.contains rid && ((AMap.get? pre.reqs rid).map (·.provider)) == some provider &&
              lft == [rid] && ent.isEmpty && newR == [rid] &&
              ((AMap.get? post.resps rid).map (·.provider)) == some provider &&
              !(m.answered.contains rid) && !(m.expired.contains rid)
    ({ m with answered := rid :: m.answered }, if ok then [] else [{ clause := "answered-once-by-addressee-while-active" }])
  | .next _, true =>
    let expOk := pre.active.all fun r => (lft.contains r) == (expHOf pre r == some pre.height)
    let entOk := ent.all fun r => decide (r.h = pre.height) && !(m.seen.contains r) && (AMap.contains post.reqs r)
    let fresh := lft.all fun r => !(m.answered.contains r) && !(m.expired.contains r)
    ({ m with expired := lft ++ m.expired },
     (if expOk then [] else [{ clause := "expired-exactly-at-expiration-height" : Fail }]) ++
     (if entOk then [] else [{ clause := "request-issued-once" : Fail }]) ++
     (if fresh ∧ newR.isEmpty then [] else [{ clause := "one-outcome-per-request" : Fail }]))
  | .skip _ _, true => (m, [{ clause := "multi-block-step-not-monitorable" }])
  | _, _ =>
    (m, if lft.isEmpty ∧ ent.isEmpty ∧ newR.isEmpty then [] else [{ clause := "outcome-only-by-answer-or-expiry" }])

/-- (authority) only the consumer controls a context -/
def authorityFails (pre : State) (op : Op) (accepted : Bool) : List Fail :=
  if !accepted then [] else
  match op with
  | .pause c id | .start c id | .kill c id | .updateCtx c id _ _ _ _ _ =>
    if authorityOk pre c id true then [] else [{ clause := "only-consumer-controls-context" }]
  | .mpause c id | .mstart c id | .mkill c id | .mupdate c id _ _ _ _ _ _ =>
    if authorityOk pre c id false then [] else [{ clause := "only-consumer-controls-context" }]
  | _ => []

/-- an accepted end block -/
def isNextOp (op : Op) (accepted : Bool) : Bool := match op with | .next _ => accepted | _ => false

/-- (schedule) batches are issued only in an end block, following the schedule -/
def scheduleStep (m2 : Mon) (pre : State) (op : Op) (accepted : Bool) (post : State) : Mon × List Fail :=
  if isNextOp op accepted then checkSchedule m2 pre post
  else
    let mm : Mon := match op, accepted with
      | .updateCtx _ id _ _ _ _ _, true | .mupdate _ id _ _ _ _ _ _, true =>
        { m2 with modified := id.toLower :: m2.modified }
      | .pause _ id, true | .mpause _ id, true => { m2 with pausedSince := id.toLower :: m2.pausedSince }
      | _, _ => m2
    (mm, if countersSame pre post then [] else [{ clause := "batch-only-in-end-block" }])

/-- contexts created paused count as "paused since" -/
def createdPaused (m3 : Mon) (pre : State) (op : Op) (accepted : Bool) (post : State) : Mon :=
  match op, accepted with
  | .mcall .., true =>
    { m3 with pausedSince := ((post.ctxs.filter (fun e => !(AMap.contains pre.ctxs e.1) && e.2.state = .paused)).map (·.1)) ++ m3.pausedSince }
  | _, _ => m3

/-- (callbacks) -/
def callbackFails (pre post : State) (isNext : Bool) : List Fail :=
  if callbacksOk pre post isNext then [] else [{ clause := "callback-once-per-batch" : Fail }]

/-- one monitor step -/
def check (m : Mon) (pre : State) (op : Op) (accepted : Bool) (post : State) : Mon × List Fail :=
  let o := outcomeStep m pre op accepted post
  let m2 : Mon := { o.1 with seen := entered pre post ++ o.1.seen }
  let sch := scheduleStep m2 pre op accepted post
  (createdPaused sch.1 pre op accepted post,
   o.2 ++ authorityFails pre op accepted ++ sch.2 ++ callbackFails pre post (isNextOp op accepted))

end Irismod.Spec.C08
