/-
C02 — Coinswap: settlement moves exactly the traded coins between the right parties.

The property is phrased through *expected ledgers*: an accepted message must have had exactly
the net effect of a short list of moves (transfers, mints, burns) on the full balance sheet
(every account, every denom) and on every supply; nothing else may change.  Net form (in ℤ)
makes the statement uniform when parties coincide (recipient = sender, recipient = an escrow).
The same definitions are used by the theorems of `Props/C02.lean` (about the model) and by the
monitor (on the implementation's observations).  Core Lean only.
-/
import Irismod.Model.Coinswap

namespace Irismod.Spec.C02
open Irismod Irismod.Sdk Irismod.Coinswap

inductive Mv where
  | xfer (src dst : Addr) (d : Denom) (n : Nat)
  | mint (dst : Addr) (d : Denom) (n : Nat)
  | burn (src : Addr) (d : Denom) (n : Nat)
  deriving Repr

/-- net change of balance `(a, d)` caused by one move -/
def Mv.bal (a : Addr) (d : Denom) : Mv → Int
  | .xfer src dst d' n =>
    (if dst = a ∧ d' = d then (n : Int) else 0) - (if src = a ∧ d' = d then (n : Int) else 0)
  | .mint dst d' n => if dst = a ∧ d' = d then (n : Int) else 0
  | .burn src d' n => - (if src = a ∧ d' = d then (n : Int) else 0)

/-- net change of the supply of `d` caused by one move -/
def Mv.sup (d : Denom) : Mv → Int
  | .xfer _ _ _ _ => 0
  | .mint _ d' n => if d' = d then (n : Int) else 0
  | .burn _ d' n => - (if d' = d then (n : Int) else 0)

def netBal : List Mv → Addr → Denom → Int
  | [], _, _ => 0
  | m :: r, a, d => m.bal a d + netBal r a d

def netSup : List Mv → Denom → Int
  | [], _ => 0
  | m :: r, d => m.sup d + netSup r d

/-- the whole balance sheet and all supplies changed by exactly the net effect of `mvs` -/
def Ledger (pre post : Bank) (mvs : List Mv) : Prop :=
  (∀ a d, (post.balOf a d : Int) = pre.balOf a d + netBal mvs a d) ∧
  (∀ d, (post.supplyOf d : Int) = pre.supplyOf d + netSup mvs d)

def mvKeys : List Mv → List (Addr × Denom)
  | [] => []
  | .xfer s t d _ :: r => (s, d) :: (t, d) :: mvKeys r
  | .mint t d _ :: r => (t, d) :: mvKeys r
  | .burn s d _ :: r => (s, d) :: mvKeys r

def mvDenoms : List Mv → List Denom
  | [] => []
  | .xfer _ _ _ _ :: r => mvDenoms r
  | .mint _ d _ :: r => d :: mvDenoms r
  | .burn _ d _ :: r => d :: mvDenoms r

/-- executable `Ledger` over the keys either state or the moves mention -/
def ledgerB (pre post : Bank) (mvs : List Mv) : Bool :=
  (pre.bal.map (·.1) ++ post.bal.map (·.1) ++ mvKeys mvs).all (fun k =>
    decide ((post.balOf k.1 k.2 : Int) = pre.balOf k.1 k.2 + netBal mvs k.1 k.2)) &&
  (pre.supply.map (·.1) ++ post.supply.map (·.1) ++ mvDenoms mvs).all (fun d =>
    decide ((post.supplyOf d : Int) = pre.supplyOf d + netSup mvs d))

/-- deadline respected: block time (ns) not after `deadline` seconds -/
def InTime (now : Nat) (deadline : Int) : Prop := (now : Int) ≤ deadline * 1000000000
def inTimeB (now : Nat) (deadline : Int) : Bool := decide ((now : Int) ≤ deadline * 1000000000)

def incr (pre post : State) (a : Addr) (d : Denom) : Nat := post.bank.balOf a d - pre.bank.balOf a d
def decr (pre post : State) (a : Addr) (d : Denom) : Nat := pre.bank.balOf a d - post.bank.balOf a d

/-- what the property demands of a routed swap: sold coin to the first pool, the intermediate
standard coin from the first pool to the second, bought coin to the recipient -/
def doubleSpec (sender rcpt : Addr) (na nb : Nat) (inD std outD : Denom) (sold k bought : Nat) : List Mv :=
  [.xfer sender (poolAddr na) inD sold, .xfer (poolAddr na) (poolAddr nb) std k, .xfer (poolAddr nb) rcpt outD bought]

/-- the literal moves of the code (swap.go:129,144 and 263,266): the first leg pays the standard
coin back to the sender, the second leg takes it from the sender; same net effect as `doubleSpec` -/
def doubleCode (sender rcpt : Addr) (na nb : Nat) (inD std outD : Denom) (sold k bought : Nat) : List Mv :=
  [.xfer sender (poolAddr na) inD sold, .xfer (poolAddr na) sender std k,
   .xfer sender (poolAddr nb) std k, .xfer (poolAddr nb) rcpt outD bought]

def singleSpec (sender rcpt : Addr) (n : Nat) (inD outD : Denom) (sold bought : Nat) : List Mv :=
  [.xfer sender (poolAddr n) inD sold, .xfer (poolAddr n) rcpt outD bought]

def unchanged (pre post : State) : Bool :=
  ledgerB pre.bank post.bank [] && post.pools == pre.pools && post.seq == pre.seq &&
  decide (post.params = pre.params) && post.std == pre.std

def fail (c : String) : List (String × String) := [(c, "")]
def check (b : Bool) (c : String) : List (String × String) := if b then [] else [(c, "")]

/-- one step of the C02 monitor: (clause, finding class) of everything that fails -/
def stepFails (pre : State) (op : Op) (accepted : Bool) (post : State) : List (String × String) :=
  if !accepted then
    -- a rejected or panicking message changes nothing
    check (unchanged pre post && post.now == pre.now) "rejected-unchanged"
  else match op with
  | .block _ => check (unchanged pre post) "block-ledger"
  | .setParams _ _ _ _ _ _ => check (ledgerB pre.bank post.bank [] && post.pools == pre.pools) "params-ledger"
  | .donate src dst d a => check (ledgerB pre.bank post.bank [.xfer src dst d a]) "donate-ledger"
  | .swap sender rcpt inD inA outD outA buy dl =>
    check (inTimeB pre.now dl) "deadline" ++
    (if isDouble pre inD outD then
      match AMap.get? pre.pools inD, AMap.get? pre.pools outD with
      | some na, some nb =>
        let sold := if buy then incr pre post (poolAddr na) inD else inA.toNat
        let bought := if buy then outA.toNat else decr pre post (poolAddr nb) outD
        -- the intermediate amount, as seen from the first pool (paid out) or from the second (paid in)
        let ks := [decr pre post (poolAddr na) pre.std, incr pre post (poolAddr nb) pre.std]
        (if buy then check (decide ((sold : Int) ≤ inA)) "max-paid"
         else if rcpt = poolAddr nb then [] else check (decide (outA ≤ (bought : Int))) "min-received") ++
        check (ks.any (fun k => ledgerB pre.bank post.bank (doubleSpec sender rcpt na nb inD pre.std outD sold k bought)))
          "swap-ledger"
      | _, _ => fail "swap-without-pool"
    else
      match AMap.get? pre.pools (if inD = pre.std then outD else inD) with
      | some n =>
        let sold := if buy then incr pre post (poolAddr n) inD else inA.toNat
        let bought := if buy then outA.toNat else decr pre post (poolAddr n) outD
        (if buy then check (decide ((sold : Int) ≤ inA)) "max-paid"
         else if rcpt = poolAddr n then [] else check (decide (outA ≤ (bought : Int))) "min-received") ++
        check (ledgerB pre.bank post.bank (singleSpec sender rcpt n inD outD sold bought)) "swap-ledger"
      | none => fail "swap-without-pool")
  | .add sender cp maxA dS minL dl =>
    check (inTimeB pre.now dl) "deadline" ++
    (match AMap.get? post.pools cp with
     | none => fail "add-without-pool"
     | some n =>
       let created := !(AMap.contains pre.pools cp)
       let m := post.bank.supplyOf (lptDenom n) - pre.bank.supplyOf (lptDenom n)
       let t := incr pre post (poolAddr n) cp
       let tax := pre.params.pcfAmt * pre.params.tax / D
       let feeMvs : List Mv := if created then
           [.xfer sender fcAddr pre.params.pcfDenom tax, .burn sender pre.params.pcfDenom (pre.params.pcfAmt - tax)] else []
       -- the fee clause presupposes a valid tax rate (`Params.Validate`: below 1) and a creation fee that
       -- is not denominated in the liquidity token being created (its burn would be indistinguishable from
       -- the mint in the supply delta); outside that the ledger is not judged
       let judged := decide (pre.params.tax ≤ D) && !(created && pre.params.pcfDenom == lptDenom n)
       check (decide ((t : Int) ≤ maxA)) "max-deposit" ++
       (if judged then
          check (decide (minL ≤ (m : Int))) "min-liquidity" ++
          check (ledgerB pre.bank post.bank
            ([.xfer sender (poolAddr n) pre.std dS.toNat, .xfer sender (poolAddr n) cp t, .mint sender (lptDenom n) m] ++ feeMvs))
            "add-ledger"
        else []))
  | .add1 sender cp tokD a minL dl =>
    check (inTimeB pre.now dl) "deadline" ++
    (match AMap.get? pre.pools cp with
     | none => fail "add1-without-pool"
     | some n =>
       let m := post.bank.supplyOf (lptDenom n) - pre.bank.supplyOf (lptDenom n)
       check (decide (minL ≤ (m : Int))) "min-liquidity" ++
       check (ledgerB pre.bank post.bank [.xfer sender (poolAddr n) tokD a.toNat, .mint sender (lptDenom n) m]) "add1-ledger")
  | .remove sender lptD w minStd minTok dl =>
    check (inTimeB pre.now dl) "deadline" ++
    (match findByLpt pre.pools lptD with
     | none => fail "remove-without-pool"
     | some (cp, n) =>
       let x := decr pre post (poolAddr n) pre.std
       let y := decr pre post (poolAddr n) cp
       check (decide (minStd ≤ (x : Int))) "min-standard" ++
       check (decide (minTok ≤ (y : Int))) "min-token" ++
       check (ledgerB pre.bank post.bank
         [.burn sender lptD w.toNat, .xfer (poolAddr n) sender pre.std x, .xfer (poolAddr n) sender cp y]) "remove-ledger")
  | .rem1 sender cp minD minA w dl =>
    check (inTimeB pre.now dl) "deadline" ++
    (match AMap.get? pre.pools cp with
     | none => fail "rem1-without-pool"
     | some n =>
       let out := decr pre post (poolAddr n) minD
       check (decide (minA ≤ (out : Int))) "min-token" ++
       check (ledgerB pre.bank post.bank [.burn sender (lptDenom n) w.toNat, .xfer (poolAddr n) sender minD out]) "rem1-ledger")

end Irismod.Spec.C02
