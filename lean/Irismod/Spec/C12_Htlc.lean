/-
C12 (htlc slice) — the exported HTLC state re-imports and preserves what users rely on.

(a) the propositions the theorems of `Props/C12_Htlc.lean` are about: the decidable class F-gen-5
    (`importableB`: what `InitGenesis` re-validates against the CURRENT parameters), the
    observational equality of a state and its re-import (`SameOpen`), and the round-trip statement;
(b) the `Bool` monitor clauses evaluated on the `htlc export` / `htlc reimport` lines of the
    implementation's observation stream.
Core Lean only.
-/
import Irismod.Model.HtlcGenesis
import Irismod.Spec.C04

namespace Irismod.Spec.C12Htlc
open Irismod Irismod.Sdk Irismod.Htlc Irismod.HtlcGen

/-! ### the class F-gen-5 -/

/-- the asset of an open HTLT is listed and active -/
def liveAssetB (ps : List Asset) (c : Contract) : Bool :=
  match c.amount with
  | (d, _) :: _ =>
    match findAsset ps d with
    | some a => a.active
    | none => false
  | [] => false

/-- the asset of a supply record is listed and its limit covers current, incoming, their sum, and
outgoing -/
def supplyFitsB (ps : List Asset) (d : Denom) (sup : Supply) : Bool :=
  match findAsset ps d with
  | some a =>
    decide (sup.current ≤ a.limit) && decide (sup.incoming ≤ a.limit) &&
    decide (sup.incoming + sup.current ≤ a.limit) && decide (sup.outgoing ≤ a.limit)
  | none => false

/-- every open HTLT's asset is listed and active (`ValidateLiveAsset` in the contract loop) -/
def htltsLiveB (s : State) : Bool :=
  s.htlcs.all fun e => !(isOpen e.2 && e.2.transfer) || liveAssetB s.params e.2

/-- every supply record's asset is listed with a limit that covers the record (the supply loop) -/
def suppliesFitB (s : State) : Bool := s.supplies.all fun e => supplyFitsB s.params e.1 e.2

/-- **outside the class F-gen-5**: every open HTLT's asset is listed and active, and every supply
record's asset is listed with a limit that covers the record.  `MsgUpdateParams` can falsify this
(remove / deactivate an asset with open HTLTs, lower a limit below the supply); `InitGenesis`
re-validates it and panics. -/
def importableB (s : State) : Bool := htltsLiveB s && suppliesFitB s

/-! ### what a round trip preserves -/

/-- `s'` answers every read the module offers like `s`, except that closed contracts are gone:
every open contract of `s` is in `s'` unchanged, `s'` holds nothing else, the expiry queue has the
same entries, supplies / parameters / previous block time / bank / height / clock are equal -/
structure SameOpen (s s' : State) : Prop where
  open_kept : ∀ id c, AMap.get? s.htlcs id = some c → c.state = .open → AMap.get? s'.htlcs id = some c
  only_open : ∀ id c, AMap.get? s'.htlcs id = some c → AMap.get? s.htlcs id = some c ∧ c.state = .open
  nodup     : (s'.htlcs.map (·.1)).Nodup
  queue     : ∀ e, e ∈ s'.queue ↔ e ∈ s.queue
  qnodup    : s'.queue.Nodup
  supplies  : ∀ d, AMap.get? s'.supplies d = AMap.get? s.supplies d
  snodup    : (s'.supplies.map (·.1)).Nodup
  params    : s'.params = s.params
  prevTime  : s'.prevTime = s.prevTime
  bank      : s'.bank = s.bank
  height    : s'.height = s.height
  time      : s'.time = s.time

/-- `C04.CounterInv` relative to a baseline: the third clause of `CounterInv` — current supply =
completed incoming − completed outgoing — sums over ALL contracts ever stored; a genesis carries only
the open ones, so after a restart the identity holds relative to the current supply at the restart
(`base`).  With `base = 0` this is `CounterInv` itself. -/
def CounterInvFrom (base : Denom → Nat) (s : State) : Prop :=
  ∀ d, (C04.supOf s d).incoming = C04.sumDir s .open .incoming d ∧
       (C04.supOf s d).outgoing = C04.sumDir s .open .outgoing d ∧
       (C04.supOf s d).current + C04.sumDir s .completed .outgoing d = base d + C04.sumDir s .completed .incoming d ∧
       (C04.supOf s d).outgoing ≤ (C04.supOf s d).current

/-- the joint invariant of C03 / C04 / C13 with the history clause taken relative to `base` -/
def InvFrom (base : Denom → Nat) (s : State) : Prop :=
  C04.WF s ∧ C03.QueueInv s ∧ C04.EscrowGe s ∧ CounterInvFrom base s

/-! ### monitor -/

def sameSet {α : Type} [BEq α] (a b : List α) : Bool := a.all b.contains && b.all a.contains

/-- the state restricted to open contracts (and their queue entries) -/
def openView (s : State) : State :=
  { s with htlcs := s.htlcs.filter (fun e => isOpen e.2),
           queue := s.queue.filter (fun q => s.htlcs.any fun e => e.1 == q.2 && isOpen e.2) }

/-- counters of the imported state: incoming / outgoing equal the sums over the open transfers,
outgoing ≤ current (the ledger identity `current = completed in − completed out` is history, and
history — the closed contracts — is not part of a genesis) -/
def countersOpenB (s : State) : Bool :=
  (C04.denomsOf s).all fun d =>
    (C04.supOf s d).incoming == C04.sumDir s .open .incoming d &&
    (C04.supOf s d).outgoing == C04.sumDir s .open .outgoing d &&
    decide ((C04.supOf s d).outgoing ≤ (C04.supOf s d).current)

/-- clauses of an `export` line; `docOk` = the real document equals `exportGenesis` of the observed
state (computed by the driver) -/
def checkExport (res validate : String) (docOk : Bool) (pre post : State) : List String :=
  if res != "ok" then ["clause=export-failed"] else
  (if validate == "ok" then [] else ["clause=export-invalid"]) ++
  (if docOk then [] else ["clause=export-document"]) ++
  (if C03.sameTables pre post then [] else ["clause=export-changed-state"])

/-- the model's own verdict on the observed pre-state: `InitGenesis` of its export panics -/
def modelImportFails (pre : State) : Bool :=
  match importGenesis pre (exportGenesis 0 pre) with
  | .ok _ => false
  | .error _ => true

/-- a failed import is attributed to the recorded class F-gen-5 only when the model's `InitGenesis`
on the same exported document panics too, the document itself is valid, and the state is in the
class (`importableB` false: the parameters do not fit the state any more); any other panic of the
real `InitGenesis` is unclassified -/
def failClass (pre : State) : String :=
  if modelImportFails pre && validateGenesis (exportGenesis 0 pre) && !importableB pre then " class=F-gen-5" else ""

/-- clauses of a `reimport` line, judged from the two observed states of the implementation:
accepted unless the state is in class F-gen-5; nothing but the closed contracts changed; the queue
was rebuilt exactly for the open contracts; the imported state satisfies the invariants again -/
def checkReimport (pre : State) (res same : String) (post : State) : List String :=
  if res == "ok" then
    (if same == "1" then [] else ["clause=reimport-changed-state"]) ++
    (if sameSet post.htlcs (pre.htlcs.filter fun e => isOpen e.2) then [] else ["clause=reimport-contracts"]) ++
    (if sameSet post.queue ((pre.htlcs.filter fun e => isOpen e.2).map fun e => (e.2.expiration, e.1)) && C03.queueOk post
     then [] else ["clause=reimport-queue"]) ++
    (if sameSet post.supplies pre.supplies then [] else ["clause=reimport-supplies"]) ++
    (if post.params == pre.params then [] else ["clause=reimport-params"]) ++
    (if post.prevTime == pre.prevTime then [] else ["clause=reimport-prev-block-time"]) ++
    (if C03.sameBalances pre.bank post.bank && sameSet pre.bank.supply post.bank.supply && post.height == pre.height &&
        post.time == pre.time then [] else ["clause=reimport-environment"]) ++
    (if C04.escrowEqB post && countersOpenB post then [] else ["clause=reimport-invariant"]) ++
    (if importableB pre && !modelImportFails pre then [] else ["clause=reimport-accepted-unimportable"])
  else
    ["clause=reimport-failed" ++ failClass pre] ++
    (if C03.sameTables pre post then [] else ["clause=reimport-panic-changed-state"])

end Irismod.Spec.C12Htlc
