/-
C12 (oracle slice) — the exported oracle state re-imports and preserves what users rely on.

Monitor clauses evaluated on the `oracle export` / `oracle reimport` lines of the
implementation's observation stream (`pre` = the state of the previous observation line,
`post` = the state of this line), and the canonical rendering of a genesis document shared by
the driver and the harness. Core Lean only.

Finding F-gen-2 (documented class): `InitGenesis` writes every exported value of a feed under
ONE key (the request context's current batch counter), so a feed that held two or more values
holds exactly one afterwards — the last one written, i.e. the OLDEST. A failure inside that
class carries `class=F-gen-2`; every other change of the observation has its own clause
without a class.
-/
import Irismod.Model.OracleGenesis

namespace Irismod.Spec.C12Oracle
open Irismod Irismod.Oracle Irismod.OracleGen

def undash (s : String) : String := if s = "" then "-" else s

def showCtxState : CtxState → String
  | .running => "running" | .paused => "paused" | .completed => "completed"

def showValues (vs : List Value) : String :=
  undash ("|".intercalate (vs.map fun v => s!"{v.data}@{v.time}"))

/-- `name:creator:agg:path:hist:desc:state:v1@t1|v2@t2`, `-` for empty parts -/
def showEntry (e : Entry) : String :=
  s!"{undash e.name}:{undash e.feed.creator}:{undash e.feed.agg}:{undash e.feed.path}:{e.feed.hist}:{undash e.feed.desc}:{showCtxState e.state}:{showValues e.values}"

/-- the document's entries in the document's own order -/
def showGenesis (g : Genesis) : String := undash (",".intercalate (g.map showEntry))

/-- `sdk.AccAddressFromBech32` on the symbolic accounts of the harness (`A<i>` creators, `P<i>`
providers map to real addresses; anything else is passed through and is not an address) -/
def symbolicAddr (a : Addr) : Bool :=
  match a.toList with
  | c :: d => (c = 'A' || c = 'P') && !d.isEmpty && d.all isDigit
  | [] => false

/-! ### clauses -/

def names (a b : State) : List Name := (a.feeds.map (·.1) ++ b.feeds.map (·.1)).eraseDups

/-- the oldest value of a newest-first view, as a view -/
def oldestOnly (v : List Value) : List Value := v.getLast?.toList

def addOnce (acc : List String) (c : String) : List String := if acc.contains c then acc else acc ++ [c]

/-- clauses of an `export` line: the export succeeds, the document of a reachable state passes the
module's own `ValidateGenesis`, it is exactly the document of the observed state (entries in
store order, values newest first, the context's state), and exporting changes nothing -/
def checkExport (pre : State) (res validate gen : String) (post : State) (sameObs : Bool) : List String :=
  if res != "ok" then ["clause=export-failed"] else
  (if validate == "ok" then [] else ["clause=export-invalid"]) ++
  (if gen == showGenesis (exportGenesis post) then [] else ["clause=export-document"]) ++
  (if sameObs && pre.now == post.now then [] else ["clause=export-changed-state"])

/-- clauses of a `reimport` line (export, wipe the oracle store, `InitGenesis`): the import is
accepted; block time, feeds (with creator), request contexts, running / paused index are what
they were; the value view of a feed is what it was — except for the documented class F-gen-2
(the new view is exactly the OLDEST value of the old view); a feed with at most one value must be
unchanged; the harness's own `same` flag agrees with the comparison -/
def checkReimport (pre : State) (res same : String) (post : State) : List String :=
  if res != "ok" then ["clause=reimport-failed"] else
  let ns := names pre post
  let c0 : List String := if pre.now == post.now then [] else ["clause=reimport-time-changed"]
  let c1 := if ns.all (fun n => AMap.get? pre.feeds n == AMap.get? post.feeds n) then c0
            else c0 ++ ["clause=reimport-feeds-changed"]
  let c2 := if ns.all (fun n => AMap.get? pre.ctxs n == AMap.get? post.ctxs n) then c1
            else c1 ++ ["clause=reimport-ctx-changed"]
  let c3 := if ns.all (fun n => pre.running.contains n == post.running.contains n) &&
               post.running.all ns.contains && pre.running.all ns.contains then c2
            else c2 ++ ["clause=reimport-running-index-changed"]
  let c4 := if ns.all (fun n => pre.paused.contains n == post.paused.contains n) &&
               post.paused.all ns.contains && pre.paused.all ns.contains then c3
            else c3 ++ ["clause=reimport-paused-index-changed"]
  let c5 := ns.foldl (fun acc n =>
      let ov := viewOf pre n
      let nv := viewOf post n
      if nv == ov then acc
      else if nv == oldestOnly ov then addOnce acc "clause=reimport-history-collapsed class=F-gen-2"
      else addOnce acc "clause=reimport-values-changed") c4
  if (same == "1") == c5.isEmpty then c5 else c5 ++ ["clause=reimport-same-flag"]

/-- split `clause=… [class=…]` into the two parts of a FAIL line -/
def failLine (c : String) (line : Nat) : String :=
  match c.splitOn " " with
  | [cl, cls] => s!"mon C12 FAIL {cl} line={line} {cls}"
  | _ => s!"mon C12 FAIL {c} line={line}"

end Irismod.Spec.C12Oracle
