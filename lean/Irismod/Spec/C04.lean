/-
C04 — HTLC: escrow balance and cross-chain supply counters match the open contracts.

(a) `Prop` invariants used by `Props/C04.lean`; (b) `Bool` monitor on the implementation's
observation stream.  All sums range over the contract table (closed contracts stay in the
store for ever, so "completed incoming/outgoing" is a sum over the same table).
Core Lean only.
-/
import Irismod.Model.Htlc
import Irismod.Spec.C03

namespace Irismod.Spec.C04
open Irismod Irismod.Sdk Irismod.Htlc

/-- does the contract hold funds in escrow? open and (plain or outgoing cross-chain) -/
def escrowed (c : Contract) : Bool :=
  c.state == .open && (!c.transfer || c.direction == .outgoing)

def escrowAmt (d : Denom) (c : Contract) : Nat := if escrowed c then coinAmt c.amount d else 0

/-- Σ over open plain + open outgoing contracts of the amount in denom `d` -/
def openEscrow (s : State) (d : Denom) : Nat := AMap.sumBy (escrowAmt d) s.htlcs

def dirAmt (st : HState) (dir : Dir) (d : Denom) (c : Contract) : Nat :=
  if c.transfer && c.state == st && c.direction == dir then coinAmt c.amount d else 0

/-- Σ over cross-chain transfers in state `st` and direction `dir` of the amount in denom `d` -/
def sumDir (s : State) (st : HState) (dir : Dir) (d : Denom) : Nat := AMap.sumBy (dirAmt st dir d) s.htlcs

/-- the supply record of `d` (zero when absent) -/
def supOf (s : State) (d : Denom) : Supply := (AMap.get? s.supplies d).getD zeroSupply

/-! ### invariants (Prop) -/

/-- shape of the contract table: one entry per id; the escrow never is a sender; a transfer has one coin, a direction,
and a supply record for its denom; a plain contract has no direction -/
def WF (s : State) : Prop :=
  (s.htlcs.map (·.1)).Nodup ∧
  ∀ id c, AMap.get? s.htlcs id = some c →
    c.sender ≠ escrow ∧
    (c.transfer = true → ∃ d n, c.amount = [(d, n)] ∧ c.direction ≠ .none ∧ (AMap.get? s.supplies d).isSome) ∧
    (c.transfer = false → c.direction = .none)

/-- the escrow identity -/
def EscrowEq (s : State) : Prop := ∀ d, Bank.balOf s.bank escrow d = openEscrow s d

/-- the escrow covers the open contracts (holds also with donations / self-recipient claims) -/
def EscrowGe (s : State) : Prop := ∀ d, openEscrow s d ≤ Bank.balOf s.bank escrow d

/-- counters = sums over open transfers; current = completed in − completed out; and a
transfer only exists for a denom with a supply record -/
def CounterInv (s : State) : Prop :=
  ∀ d, (supOf s d).incoming = sumDir s .open .incoming d ∧
       (supOf s d).outgoing = sumDir s .open .outgoing d ∧
       (supOf s d).current + sumDir s .completed .outgoing d = sumDir s .completed .incoming d ∧
       (supOf s d).outgoing ≤ (supOf s d).current

/-- limits, relative to the current asset params -/
def LimitInv (s : State) : Prop :=
  ∀ d a, findAsset s.params d = some a →
    (supOf s d).current + (supOf s d).incoming ≤ a.limit ∧
    (a.timeLimited = true → (supOf s d).tlCurrent + (supOf s d).incoming ≤ a.tbLimit)

/-- bank supply of every denom = supply that entered outside the module (`k`) + current -/
def SupplyTrack (k : Denom → Nat) (s : State) : Prop :=
  ∀ d, Bank.supplyOf s.bank d = k d + (supOf s d).current

/-- operations the alphabet admits: module accounts do not sign -/
def OpOk : Op → Prop
  | .create sender _ _ _ _ _ _ => sender ≠ escrow
  | _ => True

/-- no stored contract pays to the escrow account itself (`CreateHTLC` rejects such a recipient) -/
def NoSelf (s : State) : Prop := ∀ id c, AMap.get? s.htlcs id = some c → c.to ≠ escrow

/-! ### monitor (Bool) -/

def denomsOf (s : State) : List Denom :=
  s.supplies.map (·.1) ++ s.bank.bal.map (·.1.2) ++ s.bank.supply.map (·.1) ++
    (s.htlcs.map (fun e => e.2.amount.map (·.1))).flatten ++ s.params.map (·.denom)

def escrowEqB (s : State) : Bool :=
  (denomsOf s).all fun d => Bank.balOf s.bank escrow d == openEscrow s d

/-- amount stranded in escrow by completed contracts whose recipient is the escrow itself -/
def strandedAmt (d : Denom) (c : Contract) : Nat :=
  if c.state == .completed && c.to == escrow && !(c.transfer && c.direction == .outgoing)
  then coinAmt c.amount d else 0

/-- Σ over completed contracts that paid into the escrow itself -/
def strandedSum (s : State) (d : Denom) : Nat := AMap.sumBy (strandedAmt d) s.htlcs

/-- auxiliary form used inside the proofs: escrow = open contracts + the amounts of completed
contracts whose recipient is the escrow account itself (there are none: `NoSelf`) -/
def EscrowExact (s : State) : Prop :=
  ∀ d, Bank.balOf s.bank escrow d = openEscrow s d + strandedSum s d

def countersB (s : State) : Bool :=
  (denomsOf s).all fun d =>
    (supOf s d).incoming == sumDir s .open .incoming d &&
    (supOf s d).outgoing == sumDir s .open .outgoing d &&
    (supOf s d).current + sumDir s .completed .outgoing d == sumDir s .completed .incoming d &&
    decide ((supOf s d).outgoing ≤ (supOf s d).current)

def limitsB (s : State) : Bool :=
  s.params.all fun a0 =>
    match findAsset s.params a0.denom with
    | some a =>
      decide ((supOf s a.denom).current + (supOf s a.denom).incoming ≤ a.limit) &&
      (!a.timeLimited || decide ((supOf s a.denom).tlCurrent + (supOf s a.denom).incoming ≤ a.tbLimit))
    | none => true

/-- bank supply = external (from the reset state `s0`) + current -/
def supplyTrackB (s0 s : State) : Bool :=
  (denomsOf s ++ denomsOf s0).all fun d =>
    Bank.supplyOf s.bank d + (supOf s0 d).current == Bank.supplyOf s0.bank d + (supOf s d).current

/-- the window update of one block, per asset of the (pre-state) params -/
def windowB (pre : State) (t : Nat) (post : State) : Bool :=
  pre.params.isEmpty || !(noDupDenoms pre.params) ||
  (pre.params.all fun a0 =>
    match findAsset pre.params a0.denom with
    | some a =>
      let sup := supOf pre a.denom
      let dt : Int := (t : Int) - ((pre.prevTime.getD t : Nat) : Int)
      let sup' := supOf post a.denom
      if a.timeLimited && decide (sup.elapsed + dt < a.period)
      then sup'.elapsed == sup.elapsed + dt && sup'.tlCurrent == sup.tlCurrent
      else sup'.elapsed == 0 && sup'.tlCurrent == 0
    | none => true) && post.prevTime == some t

/-- time-limited accounting of one step that is not a block: only an incoming claim adds, by its amount -/
def tlDeltaB (pre : State) (op : Op) (accepted : Bool) (post : State) : Bool :=
  match op with
  | .beginBlock _ _ => true
  | .advance _ _ => true
  | .claim _ id _ =>
    (denomsOf post ++ denomsOf pre).all fun d =>
      let add : Nat :=
        match AMap.get? pre.htlcs id with
        | some c =>
          if accepted && c.transfer && c.direction == .incoming &&
             ((findAsset pre.params d).map (·.timeLimited)).getD false then coinAmt c.amount d else 0
        | none => 0
      (supOf post d).tlCurrent == (supOf pre d).tlCurrent + add && (supOf post d).elapsed == (supOf pre d).elapsed
  | _ =>
    (denomsOf post ++ denomsOf pre).all fun d =>
      (supOf post d).tlCurrent == (supOf pre d).tlCurrent && (supOf post d).elapsed == (supOf pre d).elapsed


def isSetParams : Op → Bool
  | .setParams _ _ => true
  | _ => false

/-- **the C04 monitor**: names of the clauses that fail on the step `pre --op--> post`; `s0` is the
observation of the history's reset line (bank supply is tracked relative to it) -/
def stepFails (s0 pre : State) (op : Op) (accepted panicked : Bool) (post : State) : List String :=
  Spec.C03.liveFails op accepted panicked ++
  (if escrowEqB post then [] else ["escrow-eq"]) ++
  (match op with
   | .create _ to _ _ _ _ _ => if accepted && to == escrow then ["escrow-as-recipient-accepted"] else []
   | _ => []) ++
  (if countersB post then [] else ["counters"]) ++
  (if !(isSetParams op) && limitsB pre && !(limitsB post) then ["limits"] else []) ++
  (if supplyTrackB s0 post then [] else ["bank-supply"]) ++
  (if tlDeltaB pre op accepted post then [] else ["time-limited-delta"]) ++
  (match op with
   | .beginBlock _ t => if windowB pre t post then [] else ["window"]
   | _ => []) ++
  (if Spec.C03.progressOk pre op accepted post then [] else ["refund-failed"])

/-- the counter equalities relative to a restart state `s0` (a state re-imported from the module's own exported
genesis keeps the recorded current supply but no longer holds the completed contracts it was counted from):
open totals per direction as in `countersB`; the current supply moved, since `s0`, by exactly the transfers
completed since.  For an `s0` that satisfies `countersB` this is `countersB`. -/
def countersRelB (s0 s : State) : Bool :=
  (denomsOf s ++ denomsOf s0).all fun d =>
    (supOf s d).incoming == sumDir s .open .incoming d &&
    (supOf s d).outgoing == sumDir s .open .outgoing d &&
    (supOf s d).current + sumDir s .completed .outgoing d + sumDir s0 .completed .incoming d ==
      sumDir s .completed .incoming d + (supOf s0 d).current + sumDir s0 .completed .outgoing d

/-- the clauses evaluated on the observation of a re-imported state: escrow identity and open totals -/
def restartFails (s : State) : List String :=
  (if escrowEqB s then [] else ["escrow-eq"]) ++
  (if countersRelB s s then [] else ["counters"])

/-- `stepFails` for the steps after a restart: the absolute counter clause is replaced by the relative one -/
def stepFailsAfterRestart (s0 pre : State) (op : Op) (accepted panicked : Bool) (post : State) : List String :=
  ((stepFails s0 pre op accepted panicked post).filter (· != "counters")) ++
  (if countersRelB s0 post then [] else ["counters"])

/-- the clauses evaluated on the observation of a reset line -/
def resetFails (s : State) : List String :=
  if escrowEqB s && countersB s && limitsB s then [] else ["reset-state"]

end Irismod.Spec.C04
