/-
C12 (farm slice) — the exported farm state re-imports and preserves what users rely on.
Monitor clauses evaluated on the `farm export` / `farm reimport` lines of the implementation's
observation stream.
-/
import Irismod.Model.FarmGenesis
import Irismod.Spec.C06

namespace Irismod.Spec.C12Farm
open Irismod Irismod.Sdk Irismod.Farm Irismod.FarmGenesis

/-- a genesis export is taken between blocks: no pool has ended (been refunded or destroyed)
at the current height.  `InitGenesis` rebuilds the queue from the heights alone, so a pool
destroyed earlier in the very block of a (never real) mid-block import would be re-queued. -/
def blockStartB (s : State) : Bool :=
  s.pools.all fun e => !(decide (e.2.endH = s.height)) || C06.active s e.1 e.2

/-- the pending rewards of every farmer record (what `Farmer` queries and the next harvest pay),
from the stored accumulators -/
def pendingOf (s : State) : List ((Addr × PoolId) × Option (CoinList × CoinList)) :=
  s.farmers.map fun e => (e.1, match getPool s e.1.2 with
    | some p => caclRewards p.rules e.2 0
    | none => none)

def samePending (a b : State) : Bool :=
  (pendingOf a).all fun e => (pendingOf b).any fun e2 => e2.1 == e.1 && e2.2 == e.2

/-- clauses of an `export` line: the document of a reachable state validates, carries no escrow
record and lists the farmer records in store order -/
def checkExport (pre : State) (validate escrow fiorder : String) : List String :=
  (if validate == "ok" then [] else ["clause=export-invalid"]) ++
  (if escrow == "0" then [] else ["clause=export-escrow"]) ++
  (if fiorder == "ok" then [] else ["clause=export-order"])

/-- clauses of a `reimport` line: the import succeeds and every query of the projection —
pools with heights / rules / remaining / reward per share, farmers with stake and debt, the
queue, the sequence, every observed balance — and every pending reward is what it was -/
def checkReimport (pre : State) (res : String) (post : State) : List String :=
  if res != "ok" then ["clause=reimport-failed"]
  else
    (if !(blockStartB pre) then [] -- a mid-block import (outside the property: exports are taken between blocks)
     else if C05.sameObserved pre post && decide (pre.height = post.height) then []
     else ["clause=reimport-changed-state"]) ++
    (if samePending pre post then [] else ["clause=reimport-pending"])

end Irismod.Spec.C12Farm
