/-
C12 (farm slice) — the exported farm state re-imports and preserves what users rely on.
Monitor clauses evaluated on the `farm export` / `farm reimport` lines of the implementation's
observation stream.
-/
import Irismod.Model.FarmGenesis
import Irismod.Spec.C06

namespace Irismod.Spec.C12Farm
open Irismod Irismod.Sdk Irismod.Farm Irismod.FarmGenesis

/-- a genesis export is taken between blocks: no pool has ended (been refunded or destroyed)
at the current height.  `InitGenesis` rebuilds the queue from the heights alone, so a pool
destroyed earlier in the very block of a (never real) mid-block import would be re-queued. -/
def blockStartB (s : State) : Bool :=
  s.pools.all fun e => !(decide (e.2.endH = s.height)) || C06.active s e.1 e.2

/-- the pending rewards of every farmer record (what `Farmer` queries and the next harvest pay),
from the stored accumulators -/
def pendingOf (s : State) : List ((Addr × PoolId) × Option (CoinList × CoinList)) :=
  s.farmers.map fun e => (e.1, match getPool s e.1.2 with
    | some p => caclRewards p.rules e.2 0
    | none => none)

def samePending (a b : State) : Bool :=
  (pendingOf a).all fun e => (pendingOf b).any fun e2 => e2.1 == e.1 && e2.2 == e.2

/-- clauses of an `export` line (the block is finished first; `post` is the exported state):
the document of a reachable state validates, carries exactly the escrow infos of the state in
ascending proposal-id order (`gescrow`: the document's list, `none` if it did not parse), lists the
farmer records in store order, and the state is a between-blocks state -/
def checkExport (res validate : String) (gescrow : Option (List (Nat × Escrow))) (fiorder : String) (post : State) : List String :=
  if res != "ok" then ["clause=endblock-abort"] else
  (if validate == "ok" then [] else ["clause=export-invalid"]) ++
  (if gescrow == some (exportEscrow post) then [] else ["clause=export-escrow"]) ++
  (if fiorder == "ok" then [] else ["clause=export-order"]) ++
  (if blockStartB post then [] else ["clause=export-midblock"])

/-- the queue entries of `pre` that are not due at `pre.height` -/
def keptQueue (pre : State) : List (Int × PoolId) := pre.queue.filter fun e => !(decide (e.1 = pre.height))

/-- clauses of a `reimport` line (finish the block, export, wipe, `InitGenesis` at the next
height; `same` = the harness found the canonical state projection unchanged by the import): the
import succeeds; the state after it is the state before it; judged independently from the two
observed states: every farmer record, the sequence, every pool that was not due in the closed
block and every queue entry that was not due are exactly what they were, nothing was added to
the queue, and every pending reward of a farmer of an untouched pool is the same -/
def checkReimport (pre : State) (res same : String) (post : State) : List String :=
  if res != "ok" then ["clause=reimport-failed"]
  else
    (if same == "1" then [] else ["clause=reimport-changed-state"]) ++
    (if decide (post.height = pre.height + 1) then [] else ["clause=reimport-height"]) ++
    (if C05.sameMap pre.farmers post.farmers && pre.seq == post.seq then [] else ["clause=reimport-farmers"]) ++
    (if C05.sameMap pre.cp.escrow post.cp.escrow then [] else ["clause=reimport-escrow"]) ++
    (if pre.pools.all (fun e => (pre.queue.contains (pre.height, e.1)) ||
          (match getPool post e.1 with | some q => C05.sameMap [(e.1, e.2)] [(e.1, q)] | none => false))
        && post.pools.all (fun e => (getPool pre e.1).isSome) then []
     else ["clause=reimport-pools"]) ++
    (if (keptQueue pre).all post.queue.contains && post.queue.all (keptQueue pre).contains then []
     else ["clause=reimport-queue"]) ++
    (if blockStartB post then [] else ["clause=reimport-midblock"])

end Irismod.Spec.C12Farm
