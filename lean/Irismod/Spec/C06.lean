/-
C06 — Farm: rewards are conserved and paid pro rata to stake and time.

Statements over the model's ghost counters (used by `Props/C06.lean`) and the monitor that
re-derives the same quantities from consecutive observations of the real implementation:
budget identity, release = per-block × span iff someone is staked (the release an operation
has to make is computed from the observed pre-state, not from the implementation's own
distribution height), refund exactly once, budget solvency, collector ledger, and the exact-
rational fairness reference (accrued block by block from the observed stakes, rates and
start/end heights, independently of the implementation's accumulator).
-/
import Irismod.Spec.C05

namespace Irismod.Spec.C06
open Irismod Irismod.Sdk Irismod.Farm

/-! ### statements -/

/-- C06(a): budget funded = remaining + released + refunded, per rule -/
def RuleConserved (r : Rule) : Prop := r.total = r.remaining + r.released + r.refunded

def Conserved (s : State) : Prop := ∀ id p, getPool s id = some p → ∀ r ∈ p.rules, RuleConserved r

/-- a pool is still active iff its queue entry exists -/
def active (s : State) (id : PoolId) (p : Pool) : Bool := s.queue.contains (p.endH, id)

/-- C06(a'): a rule is refunded at most once, and a refunded rule belongs to an ended pool
with nothing left -/
def RefundOnce (s : State) : Prop :=
  ∀ id p, getPool s id = some p → ∀ r ∈ p.rules,
    r.nRefund ≤ 1 ∧ (r.nRefund = 1 → r.remaining = 0 ∧ active s id p = false ∧ p.endH ≤ s.height) ∧
    (r.nRefund = 0 → r.refunded = 0)

/-- C06(c): the remaining budget of every active pool pays the rest of its schedule -/
def RuleBudget (p : Pool) (r : Rule) : Prop :=
  (r.rpb : Int) * (p.endH - (if p.last > p.start then p.last else p.start)) ≤ (r.remaining : Int)

def BudgetOK (s : State) : Prop :=
  ∀ id p, getPool s id = some p → active s id p = true → ∀ r ∈ p.rules, RuleBudget p r

/-- 10^18 -/
def unit : Nat := 1000000000000000000

/-- C06(d), accumulator form: payout vs the farmer's share in reward-per-share units -/
def LedgerFair (l : Ledger) : Prop :=
  ((l.paid : Int) * unit - l.owed).natAbs ≤ l.n * (unit - 1)

def Fair (s : State) : Prop := ∀ k, LedgerFair (AMap.getD s.ledger k {})

/-- C06(d), exact form over ℚ: cumulative payout within (number of interactions +
18-decimal truncation) of the exact stake-time share -/
def LedgerFairQ (l : Ledger) : Prop :=
  (l.paid : Rat) - l.exact ≤ (l.n : Rat) ∧ l.exact - (l.paid : Rat) ≤ (l.n : Rat) + (l.slack : Rat) / (unit : Rat)

/-! ### monitor -/

structure RuleAcc where
  acc  : Rat := 0
  nRel : Nat := 0
  deriving Inhabited

structure Mon where
  /-- pools whose refund has been observed -/
  ended    : List PoolId := []
  /-- the exact reward per share of every rule, accrued block by block from the OBSERVED stakes,
  rates, start and end heights (independent of the implementation's accumulator and of when
  the implementation chooses to release), and the number of releases the rule "every accepted
  operation on an active pool brings it up to date" prescribes -/
  accs     : AMap (PoolId × Denom) RuleAcc := []
  /-- height up to which the accrual of a pool has been computed -/
  accH     : AMap PoolId Int := []
  ledger   : AMap (Addr × PoolId × Denom) Ledger := []
  deriving Inhabited

def Mon.init (_ : State) : Mon := {}

def ruleOf (p : Pool) (d : Denom) : Option Rule := p.rules.find? (fun r => r.denom = d)

/-- the queue entries of `pre` that fall due before `post.height` -/
def dueIn (pre post : State) (id : PoolId) : Bool :=
  pre.queue.any fun e => e.2 = id && decide (pre.height ≤ e.1) && decide (e.1 < post.height)

def isRefundStep (pre : State) (op : Op) (res : String) (post : State) (id : PoolId) : Bool :=
  match op with
  | .destroyPool _ i => res == "ok" && i == id
  | .endBlocks _ => dueIn pre post id
  | _ => false

def topUpOf (op : Op) (res : String) (id : PoolId) (d : Denom) : Nat :=
  match op with
  | .adjustPool _ i add _ => if res == "ok" ∧ i = id then amountOf (add.getD []) d else 0
  | _ => 0

/-- does this step have to bring pool `id` up to date?  Every accepted stake / harvest / adjust
(they require a pool that has not ended), an accepted unstake while the pool is still active,
and the refund (destroy, or the EndBlocker at the end height). -/
def mustUpdate (pre : State) (op : Op) (res : String) (post : State) (id : PoolId) (p : Pool) : Bool :=
  isRefundStep pre op res post id ||
  (res == "ok" && C06.active pre id p && decide (pre.height ≤ p.endH) &&
    match op with
    | .stake _ i _ _ | .unstake _ i _ _ | .harvest _ i | .adjustPool _ i _ _ => i == id
    | _ => false)

/-- what the pool has to release in this step in denom `d` according to the rule "per block ×
span while someone is staked", from the observed pre-state only (`p` is the pool before the
step): the span runs from the last distribution height to the height of the operation (the end
height for an end-block refund) -/
def expectedRelease (pre : State) (op : Op) (res : String) (post : State) (id : PoolId) (p : Pool) (r : Rule) : Nat :=
  if mustUpdate pre op res post id p ∧ p.locked > 0 then
    r.rpb * ((match op with | .endBlocks _ => p.endH | _ => pre.height) - p.last).toNat
  else 0

/-- advance the time-based accrual of every pool of the observed state `s` to height `H`: an
active pool with stake accrues `rewardPerBlock / totalStake` per share and block, up to its
end height -/
def accrueTo (m : Mon) (s : State) (H : Int) : Mon :=
  s.pools.foldl (fun m e =>
    let id := e.1
    let p := e.2
    let h0 := (AMap.get? m.accH id).getD H
    let upTo := if H < p.endH then H else p.endH
    let m1 : Mon :=
      if C06.active s id p ∧ p.locked > 0 ∧ upTo > h0 then
        p.rules.foldl (fun m r =>
          let ra := AMap.getD m.accs (id, r.denom) {}
          let ra' : RuleAcc := { ra with acc := ra.acc + ((r.rpb * (upTo - h0).toNat : Nat) : Rat) / (p.locked : Rat) }
          { m with accs := AMap.set m.accs (id, r.denom) ra' }) m
      else m
    { m1 with accH := AMap.set m1.accH id (if H > h0 then H else h0) }) m

def sumNat (xs : List Nat) : Nat := xs.foldl (· + ·) 0

/-- book one farmer interaction into the fairness ledger -/
def bookFair (m : Mon) (a : Addr) (id : PoolId) (locked : Nat) (resp : CoinList) (rules : List Rule) : Mon :=
  rules.foldl (fun m r =>
    let l := AMap.getD m.ledger (a, id, r.denom) {}
    let ra := AMap.getD m.accs (id, r.denom) {}
    let l' : Ledger :=
      { l with paid := l.paid + amountOf resp r.denom, n := l.n + 1,
               exact := l.exact + (ra.acc - l.accMark) * (locked : Rat), accMark := ra.acc,
               slack := l.slack + locked * (ra.nRel - l.relMark), relMark := ra.nRel }
    { m with ledger := AMap.set m.ledger (a, id, r.denom) l' }) m

def fairB (l : Ledger) : Bool :=
  decide ((l.paid : Rat) - l.exact ≤ (l.n : Rat)) &&
  decide (l.exact - (l.paid : Rat) ≤ (l.n : Rat) + (l.slack : Rat) / (unit : Rat))

/-- one monitor step -/
def check (m : Mon) (pre : State) (op : Op) (res : String) (post : State) : Mon × List String := Id.run do
  let mut m := m
  let mut fails : List String := []
  -- time-based accrual of the exact shares, from the observed pre-state
  m := accrueTo m pre pre.height
  match op with
  | .endBlocks _ => m := accrueTo m pre post.height
  | _ => pure ()
  -- per-pool budget clauses
  for (id, q) in post.pools do
    match getPool pre id with
    | none =>
      -- a pool appears only by an accepted create_pool, funded with exactly the stated budget
      match op with
      | .createPool sender _ _ _ rpb total _ =>
        if !(res == "ok" && q.creator == sender &&
             q.rules.map (fun r => (r.denom, r.total)) == total &&
             q.rules.all (fun r => r.remaining == r.total && r.rpb == amountOf rpb r.denom && r.rps.raw == 0)) then
          fails := fails ++ [s!"clause=create-budget pool={id}"]
      | .cpPass pid =>
        -- a passed community-pool proposal: the pool is owned by the distribution module account, not
        -- editable, starts now, and its budget is exactly the escrowed funds of the proposal
        match AMap.get? pre.cp.escrow pid with
        | some e =>
          if !(res == "ok" && q.creator == distrAcc && !q.editable && q.start == pre.height && q.locked == 0 &&
               q.rules.map (fun r => (r.denom, r.total)) == mergeCoins e.applied e.selfBond &&
               q.rules.all (fun r => r.remaining == r.total && r.rps.raw == 0 && r.rpb > 0)) then
            fails := fails ++ [s!"clause=cp-pool-budget pool={id}"]
        | none => fails := fails ++ [s!"clause=cp-pool-without-escrow pool={id}"]
      | _ => fails := fails ++ [s!"clause=pool-appeared pool={id}"]
    | some p =>
      let refundStep := isRefundStep pre op res post id
      if p.rules.map (·.denom) != q.rules.map (·.denom) then
        fails := fails ++ [s!"clause=rules-stable pool={id}"]
      if m.ended.contains id then
        -- refund exactly once: an ended pool is never touched again
        if !(q.rules.all (fun r => r.remaining == 0) && (q.rules.map (·.total)) == (p.rules.map (·.total)) &&
             !(post.queue.any fun e => e.2 = id) && !refundStep) then
          fails := fails ++ [s!"clause=refund-once pool={id}"]
      else
        for r in p.rules do
          match ruleOf q r.denom with
          | none => pure ()
          | some r' =>
            let topUp := topUpOf op res id r.denom
            if r'.total != r.total + topUp then
              fails := fails ++ [s!"clause=total pool={id} denom={r.denom}"]
            let left : Int := (r.remaining : Int) + topUp - r'.remaining
            let rel := expectedRelease pre op res post id p r
            if refundStep then
              if r'.remaining != 0 || left < rel then
                fails := fails ++ [s!"clause=refund pool={id} denom={r.denom}"]
            else if left != (rel : Int) then
              fails := fails ++ [s!"clause=release pool={id} denom={r.denom}"]
            -- one prescribed release: one more truncation of the on-chain accumulator
            if rel > 0 then
              let ra := AMap.getD m.accs (id, r.denom) {}
              let ra' : RuleAcc := { ra with nRel := ra.nRel + 1 }
              m := { m with accs := AMap.set m.accs (id, r.denom) ra' }
        if refundStep then
          if (post.queue.any fun e => e.2 = id) then
            fails := fails ++ [s!"clause=refund-dequeue pool={id}"]
          m := { m with ended := id :: m.ended }
        else if decide (post.height > q.endH) then
          -- the end height has passed without the refund having been observed
          fails := fails ++ [s!"clause=refund-missed pool={id}"]
      -- budget solvency of active pools
      if C06.active post id q && !(C05.budgetOkPool q) then
        fails := fails ++ [s!"clause=budget-solvency pool={id}"]
  for (id, _) in pre.pools do
    if (getPool post id).isNone then fails := fails ++ [s!"clause=pool-vanished pool={id}"]
  -- who receives the refunds: the creator, exactly the budget that was left
  let denoms := C05.allDenoms pre post
  let refundOf (d : Denom) (c : Addr) : Int :=
    (post.pools.map fun (id, q) =>
      match getPool pre id with
      | some p =>
        if isRefundStep pre op res post id ∧ p.creator = c then
          match ruleOf p d, ruleOf q d with
          | some r, some _ => (r.remaining : Int) - (expectedRelease pre op res post id p r : Int)
          | _, _ => 0
        else 0
      | none => (0 : Int)).foldl (· + ·) 0
  let isEnd := match op with | .endBlocks _ => true | _ => false
  let isDestroyOk := match op with | .destroyPool _ _ => res == "ok" | _ => false
  if isEnd || isDestroyOk then
    let accts := (pre.bank.bal.map (·.1.1) ++ post.bank.bal.map (·.1.1)).eraseDups
    for a in accts do
      if a ≠ farmAcc ∧ a ≠ collectorAcc then
        for d in denoms.eraseDups do
          let delta : Int := (post.bank.balOf a d : Int) - pre.bank.balOf a d
          if delta != refundOf d a then
            fails := fails ++ [s!"clause=refund-recipient acct={a} denom={d}"]
  -- collector ledger: in = releases, out = payouts
  for d in denoms.eraseDups do
    let released : Int := (post.pools.map fun (id, q) =>
      match getPool pre id with
      | some p => (match ruleOf p d, ruleOf q d with
                   | some r, some r' =>
                     let left : Int := (r.remaining : Int) + topUpOf op res id d - r'.remaining
                     if isRefundStep pre op res post id then (if r'.remaining = 0 then (expectedRelease pre op res post id p r : Int) else 0)
                     else left
                   | _, _ => 0)
      | none => (0 : Int)).foldl (· + ·) 0
    let paidOut : Int := match op with
      | .stake .. | .unstake .. | .harvest .. => if res == "ok" then (amountOf post.resp d : Int) else 0
      | _ => 0
    if (post.bank.balOf collectorAcc d : Int) != (pre.bank.balOf collectorAcc d : Int) + released - paidOut then
      fails := fails ++ [s!"clause=collector-ledger denom={d}"]
  -- community-pool farms: every escrow is settled exactly once, to the right places
  let dlt (a : Addr) (d : Denom) : Int := (post.bank.balOf a d : Int) - pre.bank.balOf a d
  let dcp (d : Denom) : Int := (C05.cpoolOf post d : Int) - C05.cpoolOf pre d
  let cpds : List Denom := (C05.allDenoms pre post ++ C05.cpDenoms pre post).eraseDups
  let U : Int := (decUnit : Int)
  match op with
  | .cpSubmit proposer _ c deposit =>
    if res == "ok" then
      let pid := pre.cp.nextId
      -- the observation does not carry gov's sequence: the new info is the one that was not there before
      let news := post.cp.escrow.filter fun e => (AMap.get? pre.cp.escrow e.1).isNone
      match news with
      | [(_, e)] =>
        let _ := pid
        if !(e.proposer == proposer && e.applied == c.applied && e.selfBond == c.selfBond) then
          fails := fails ++ ["clause=cp-submit-info"]
        for d in cpds do
          let sb : Int := C05.coinSum c.selfBond d
          let ap : Int := C05.coinSum c.applied d
          let dep : Int := C05.coinSum deposit d
          if !(dlt escrowAcc d == sb + ap && dlt proposer d == -sb - dep && dlt distrAcc d == -ap &&
               dcp d == -ap * U && dlt govAcc d == dep && dlt farmAcc d == 0) then
            fails := fails ++ [s!"clause=cp-submit-ledger denom={d}"]
      | _ => fails := fails ++ ["clause=cp-submit-info"]
  | .fundCp sender amt =>
    if res == "ok" then
      for d in cpds do
        let a : Int := C05.coinSum amt d
        if !(dlt distrAcc d == a && dcp d == a * U && dlt sender d == -a && dlt escrowAcc d == 0) then
          fails := fails ++ [s!"clause=fund-cp-ledger denom={d}"]
  | .cpPass pid | .cpReject pid | .cpFailDeposit pid =>
    if res == "ok" then
      match AMap.get? pre.cp.escrow pid, AMap.get? pre.cp.props pid with
      | some e, some pr =>
        let st := (AMap.get? post.cp.props pid).map (·.status)
        if (AMap.get? post.cp.escrow pid).isSome then fails := fails ++ [s!"clause=escrow-not-settled id={pid}"]
        let wantStatus : Bool := match op with
          | .cpPass _ => st == some .passed || st == some .failed
          | .cpReject _ => st == some .rejected
          | _ => st == none
        if !wantStatus then fails := fails ++ [s!"clause=proposal-status id={pid}"]
        let executed := st == some .passed
        for d in cpds do
          let sb : Int := C05.coinSum e.selfBond d
          let ap : Int := C05.coinSum e.applied d
          let dep : Int := if d = depositDenom then (pr.deposit : Int) else 0
          if executed then
            -- pass → pool budget: escrow collector −, farm module account +, nothing to anyone else
            if !(dlt escrowAcc d == -(sb + ap) && dlt farmAcc d == sb + ap && dlt distrAcc d == 0 && dcp d == 0 &&
                 dlt e.proposer d == dep && dlt govAcc d == -dep) then
              fails := fails ++ [s!"clause=escrow-to-pool id={pid} denom={d}"]
          else
            -- reject / failed handler / failed deposit → back to proposer and community pool
            if !(dlt escrowAcc d == -(sb + ap) && dlt farmAcc d == 0 && dlt distrAcc d == ap && dcp d == ap * U &&
                 dlt e.proposer d == sb + dep && dlt govAcc d == -dep) then
              fails := fails ++ [s!"clause=escrow-refund id={pid} denom={d}"]
        if !executed && !(C05.sameMap pre.pools post.pools) then fails := fails ++ [s!"clause=escrow-refund-pools id={pid}"]
      | _, _ => fails := fails ++ [s!"clause=escrow-missing id={pid}"]
    else if res == "panic" then fails := fails ++ ["clause=gov-endblock-abort"]
  | _ => pure ()
  -- the refund of a community-pool farm credits the community pool with what the distribution account receives
  if isEnd || isDestroyOk then
    for d in cpds do
      if dcp d != refundOf d distrAcc * U then
        fails := fails ++ [s!"clause=refund-community-pool denom={d}"]
  -- fairness against the exact rational reference
  if res == "ok" then
    match op with
    | .stake a id _ _ | .unstake a id _ _ | .harvest a id =>
      match getPool post id with
      | some q =>
        let locked := ((getFarmer pre a id).map (·.locked)).getD 0
        m := bookFair m a id locked post.resp q.rules
        for r in q.rules do
          if !(fairB (AMap.getD m.ledger (a, id, r.denom) {})) then
            fails := fails ++ [s!"clause=fairness farmer={a} pool={id} denom={r.denom}"]
      | none => pure ()
    | _ => pure ()
  return (m, fails)

end Irismod.Spec.C06
