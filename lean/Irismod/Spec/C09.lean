/-
C09 — Token: identity is unique, only the owner governs, supply never exceeds the cap.

(a) `Prop` invariants and classes used by the theorems of `Props/C09.lean`;
(b) the `Bool` monitor evaluated on the *implementation's* observation stream: one step
    `pre --op/accepted--> post` is checked clause by clause against the property's statement.
Core Lean only.
-/
import Irismod.Model.Token

namespace Irismod.Spec.C09
open Irismod Irismod.Sdk Irismod.Token

/-! ### invariants (Prop) -/

/-- the symbol table and the min-unit index describe the same set of tokens -/
def WF (s : State) : Prop :=
  (∀ sym t, AMap.get? s.tokens sym = some t → t.symbol = sym ∧ AMap.get? s.minUnits t.minUnit = some sym) ∧
  (∀ m sym, AMap.get? s.minUnits m = some sym → ∃ t, AMap.get? s.tokens sym = some t ∧ t.minUnit = m)

/-- the owner index lists exactly the (owner, symbol) pairs of the token table -/
def OwnIdx (s : State) : Prop :=
  (∀ sym t, AMap.get? s.tokens sym = some t → AMap.get? s.owners (t.owner, sym) = some sym) ∧
  (∀ o sym v, AMap.get? s.owners (o, sym) = some v → v = sym ∧ ∃ t, AMap.get? s.tokens sym = some t ∧ t.owner = o)

/-- the circulating amount of every token is within its declared maximum -/
def CapInv (s : State) : Prop :=
  ∀ sym t, AMap.get? s.tokens sym = some t → supplyOf s t.minUnit ≤ t.maxSupply * pow10 t.scale

/-- only registered min units circulate (the token module is the only issuer of its denoms) -/
def SupplyReg (s : State) : Prop :=
  ∀ d, 0 < supplyOf s d → (AMap.get? s.minUnits d).isSome = true

/-- `post` keeps every identity of `pre`: same symbol ↦ (min unit, scale), same min unit ↦ symbol -/
def Keeps (pre post : State) : Prop :=
  (∀ sym t, AMap.get? pre.tokens sym = some t →
      ∃ t', AMap.get? post.tokens sym = some t' ∧ t'.symbol = t.symbol ∧ t'.minUnit = t.minUnit ∧ t'.scale = t.scale) ∧
  (∀ m sym, AMap.get? pre.minUnits m = some sym → AMap.get? post.minUnits m = some sym)

def ownerOf (s : State) (sym : String) : Option Addr := (AMap.get? s.tokens sym).map (·.owner)

/-- the operations C09 quantifies over -/
def isC09Op : Op → Bool
  | .issue .. => true
  | .edit .. => true
  | .mint .. => true
  | .burn .. => true
  | .transferOwner .. => true
  | .legacyIssue .. => true
  | .legacyEdit .. => true
  | .legacyMint .. => true
  | .legacyBurn .. => true
  | .legacyTransferOwner .. => true
  | _ => false

/-- what an operation, if accepted in state `s`, adds to the burned tally of `d`: a v1 burn its
amount of min units, a legacy burn `amount · 10^scale` of the min unit of the token its symbol names -/
def burnAdds (d : String) (s : State) : Op → Nat
  | .burn _ denom amount => if denom = d then amount.toNat else 0
  | .legacyBurn _ symbol amount =>
    match AMap.get? s.tokens symbol with
    | some t => if t.minUnit = d then amount * pow10 t.scale else 0
    | none => 0
  | _ => 0

/-- Σ of the amounts of the accepted burns of `d` in a history -/
def burnSum (d : String) : State → List Op → Nat
  | _, [] => 0
  | s, op :: rest =>
    (match step s op with
     | .ok _ => burnAdds d s op
     | .error _ => 0) + burnSum d (apply s op) rest

/-! ### monitor (Bool) -/

/-- `p k v` for every binding of the table, read through lookups (on a table without duplicate
keys — every parsed observation — this is `m.all`; on any table it only sees what `get?` sees) -/
def allB {K V : Type} [DecidableEq K] (m : AMap K V) (p : K → V → Bool) : Bool :=
  (AMap.keys m).all fun k => match AMap.get? m k with | some v => p k v | none => true

/-- two tables answer every lookup alike -/
def tableSame {K V : Type} [DecidableEq K] [BEq V] (a b : AMap K V) : Bool :=
  (AMap.keys a ++ AMap.keys b).all fun k => AMap.get? a k == AMap.get? b k

def wfB (s : State) : Bool :=
  allB s.tokens (fun sym t => t.symbol == sym && AMap.get? s.minUnits t.minUnit == some sym) &&
  allB s.minUnits (fun m sym => match AMap.get? s.tokens sym with | some t => t.minUnit == m | none => false)

def ownIdxB (s : State) : Bool :=
  allB s.tokens (fun sym t => AMap.get? s.owners (t.owner, sym) == some sym) &&
  allB s.owners (fun k v => v == k.2 &&
    (match AMap.get? s.tokens k.2 with | some t => t.owner == k.1 | none => false))

def keepsB (pre post : State) : Bool :=
  allB pre.tokens (fun sym t => match AMap.get? post.tokens sym with
    | some t' => t'.symbol == t.symbol && t'.minUnit == t.minUnit && t'.scale == t.scale &&
                 t'.initialSupply == t.initialSupply
    | none => false) &&
  allB pre.minUnits (fun m sym => AMap.get? post.minUnits m == some sym)

/-- every token of `pre` except `ex` is literally unchanged, and `post` has no other new token -/
def tokensSameExcept (pre post : State) (ex : String) : Bool :=
  allB pre.tokens (fun sym t => sym == ex || AMap.get? post.tokens sym == some t) &&
  allB post.tokens (fun sym _ => sym == ex || AMap.contains pre.tokens sym)

def balKeys (a b : State) : List (Addr × Denom) := a.bank.bal.map (·.1) ++ b.bank.bal.map (·.1)
def supKeys (a b : State) : List Denom := a.bank.supply.map (·.1) ++ b.bank.supply.map (·.1)

def balsSameExcept (pre post : State) (ex : List (Addr × Denom)) : Bool :=
  (balKeys pre post).all fun k => ex.contains k || balOf post k.1 k.2 == balOf pre k.1 k.2
def supsSameExcept (pre post : State) (ex : List Denom) : Bool :=
  (supKeys pre post).all fun k => ex.contains k || supplyOf post k == supplyOf pre k
def burnedSameExcept (pre post : State) (ex : List String) : Bool :=
  (pre.burned.map (·.1) ++ post.burned.map (·.1)).all fun k => ex.contains k || burnedOf post k == burnedOf pre k

/-- no balance and no supply changed -/
def bankSame (pre post : State) : Bool := balsSameExcept pre post [] && supsSameExcept pre post []

def evmSameExcept (pre post : State) (ex : List (Nat × String)) : Bool :=
  (pre.evm.map (·.1) ++ post.evm.map (·.1)).all fun k => ex.contains k || evmBal post k.1 k.2 == evmBal pre k.1 k.2

/-- nothing observable changed -/
def sameState (a b : State) : Bool :=
  tableSame a.tokens b.tokens && tableSame a.minUnits b.minUnits && tableSame a.owners b.owners &&
  tableSame a.burned b.burned && tableSame a.contracts b.contracts && decide (a.params = b.params) &&
  bankSame a b && a.nonce == b.nonce && evmSameExcept a b [] && a.fault == b.fault && a.impl == b.impl

/-- the min unit in which fees are charged -/
def feeUnit (s : State) : Option String := (getToken s s.params.feeDenom).map (·.minUnit)

/-- the fee clause: what the payer lost in the fee denom went to the fee collector or was burnt,
and the token module account kept nothing -/
def feeSplitB (pre post : State) (payer : Addr) (fd : String) : Bool :=
  let charged : Int := (balOf pre payer fd : Int) - balOf post payer fd
  let tax : Int := (balOf post FC fd : Int) - balOf pre FC fd
  let burnt : Int := (supplyOf pre fd : Int) - supplyOf post fd
  decide (0 ≤ tax) && decide (0 ≤ burnt) && decide (charged = tax + burnt) &&
  balOf post TM fd == balOf pre TM fd

/-- a failed clause and, when the failure lies in the class of a recorded finding, its key -/
structure Fail where
  clause : String
  cls    : String := ""
  deriving Repr

def chk (ok : Bool) (clause : String) (cls : String := "") : List Fail :=
  if ok then [] else [{ clause := clause, cls := cls }]

/-- what an accepted v1 operation must have done (C09's statement, clause by clause) -/
def acceptedV1 (pre : State) (op : Op) (post : State) : List Fail :=
  match op with
  | .issue owner symbol name minUnit scale init max mintable =>
    let mx := defaultMax init max mintable
    chk (!(AMap.contains pre.tokens symbol) && !(AMap.contains pre.minUnits minUnit)) "issue-identity-fresh" ++
    chk (AMap.get? post.tokens symbol == some (issuedToken owner symbol name minUnit scale init max mintable)) "issue-record" ++
    chk (tokensSameExcept pre post symbol) "issue-other-tokens" ++
    chk (supplyOf post minUnit == supplyOf pre minUnit + init * pow10 scale) "issue-supply" ++
    chk (supplyOf pre minUnit != 0 || decide (supplyOf post minUnit ≤ mx * pow10 scale)) "issue-cap" ++
    chk (burnedSameExcept pre post []) "issue-burned-tally" ++
    (match feeUnit pre with
     | none => chk false "issue-fee-token"
     | some fd =>
       if owner = FC ∨ owner = TM ∨ fd = minUnit then [] else
       chk (feeSplitB pre post owner fd) "fee-split" ++
       chk (balsSameExcept pre post [(owner, fd), (FC, fd), (owner, minUnit)]) "issue-other-balances" ++
       chk (supsSameExcept pre post [fd, minUnit]) "issue-other-supplies")
  | .edit owner symbol name max mintable =>
    match AMap.get? pre.tokens symbol with
    | none => chk false "edit-token-exists"
    | some t =>
      let sup := supplyOf post t.minUnit
      chk (t.owner == owner) "edit-only-owner" ++
      chk (AMap.get? post.tokens symbol == some (edited t name max mintable)) "edit-fields" ++
      chk (tokensSameExcept pre post symbol) "edit-other-tokens" ++
      chk (bankSame pre post) "edit-bank-unchanged" ++
      chk (burnedSameExcept pre post []) "edit-burned-tally" ++
      -- the maximum can never be lowered below what circulates
      chk (max == 0 || decide (sup ≤ max * pow10 t.scale)) "edit-max-below-circulating"
  | .mint owner to denom amount =>
    match tokenByMinUnit pre denom with
    | none => chk false "mint-token-exists"
    | some t =>
      let rcpt := if to = "" then owner else to
      chk (t.owner == owner) "mint-only-owner" ++
      chk t.mintable "mint-mintable" ++
      chk (decide (supplyOf post denom ≤ t.maxSupply * pow10 t.scale)) "mint-cap" ++
      chk (tokensSameExcept pre post "") "mint-tokens-unchanged" ++
      chk (burnedSameExcept pre post []) "mint-burned-tally" ++
      (match feeUnit pre with
       | none => chk false "mint-fee-token"
       | some fd =>
         if owner = FC ∨ owner = TM ∨ fd = denom then [] else
         chk (feeSplitB pre post owner fd) "fee-split" ++
         chk (supplyOf post denom == supplyOf pre denom + amount.toNat) "mint-supply" ++
         chk (balOf post rcpt denom == balOf pre rcpt denom + amount.toNat) "mint-recipient" ++
         chk (balsSameExcept pre post [(owner, fd), (FC, fd), (rcpt, denom)]) "mint-other-balances" ++
         chk (supsSameExcept pre post [fd, denom]) "mint-other-supplies")
  | .burn sender denom amount =>
    chk ((tokenByMinUnit pre denom).isSome) "burn-token-exists" ++
    chk (decide (amount.toNat ≤ balOf pre sender denom) &&
         balOf post sender denom + amount.toNat == balOf pre sender denom) "burn-sender" ++
    chk (supplyOf post denom + amount.toNat == supplyOf pre denom) "burn-supply" ++
    chk (burnedOf post denom == burnedOf pre denom + amount.toNat) "burn-tally" ++
    chk (burnedSameExcept pre post [denom]) "burn-other-tallies" ++
    chk (balsSameExcept pre post [(sender, denom)]) "burn-other-balances" ++
    chk (supsSameExcept pre post [denom]) "burn-other-supplies" ++
    chk (tokensSameExcept pre post "") "burn-tokens-unchanged"
  | .transferOwner src dst symbol =>
    match AMap.get? pre.tokens symbol with
    | none => chk false "transfer-token-exists"
    | some t =>
      chk (t.owner == src) "transfer-only-owner" ++
      chk (AMap.get? post.tokens symbol == some { t with owner := dst }) "transfer-new-owner" ++
      chk (tokensSameExcept pre post symbol) "transfer-other-tokens" ++
      chk (bankSame pre post) "transfer-bank-unchanged" ++
      chk (burnedSameExcept pre post []) "transfer-burned-tally"
  | _ =>
    -- operations outside C09: they never touch the burned tally
    chk (burnedSameExcept pre post []) "burned-tally-untouched"

/-- the clauses of a legacy operation are those of the v1 operation it is translated to -/
def asLegacy (fs : List Fail) : List Fail := fs.map fun f => { f with clause := "legacy-" ++ f.clause }

/-- what an accepted operation must have done.  An accepted legacy (v1beta1) message must have
exactly the effect of the v1 message the adapter translates it to: the same fields for issue /
edit / transfer-owner; for mint / burn the coin `amount · 10^scale` of the min unit of the token
the SYMBOL names -/
def acceptedFails (pre : State) (op : Op) (post : State) : List Fail :=
  match op with
  | .legacyIssue owner symbol name minUnit scale init max mintable =>
    asLegacy (acceptedV1 pre (.issue owner symbol name minUnit scale init max mintable) post)
  | .legacyEdit owner symbol name max mintable => asLegacy (acceptedV1 pre (.edit owner symbol name max mintable) post)
  | .legacyTransferOwner src dst symbol => asLegacy (acceptedV1 pre (.transferOwner src dst symbol) post)
  | .legacyMint owner to symbol amount =>
    (match AMap.get? pre.tokens symbol with
     | none => chk false "legacy-mint-token-exists"
     | some t => asLegacy (acceptedV1 pre (.mint owner to t.minUnit ((amount * pow10 t.scale : Nat) : Int)) post))
  | .legacyBurn sender symbol amount =>
    (match AMap.get? pre.tokens symbol with
     | none => chk false "legacy-burn-token-exists"
     | some t => asLegacy (acceptedV1 pre (.burn sender t.minUnit ((amount * pow10 t.scale : Nat) : Int)) post))
  | op => acceptedV1 pre op post

/-- one step of the monitor: `accepted = false` means the message was rejected (or panicked) -/
def stepFails (pre : State) (op : Op) (accepted : Bool) (post : State) : List Fail :=
  (if accepted then acceptedFails pre op post else chk (sameState pre post) "rejected-unchanged") ++
  chk (wfB post) "identity-index" ++ chk (ownIdxB post) "owner-index" ++ chk (keepsB pre post) "never-rebound"

end Irismod.Spec.C09
