/-
C12 (random slice) — monitor functions evaluated on the implementation's observations of the
ops `random export` / `random reimport` / `random reimport_zero`. Core Lean only.
-/
import Irismod.Model.RandomGenesis
import Irismod.Spec.C18

namespace Irismod.Spec.C12Random
open Irismod Irismod.Random Irismod.RandomGenesis

/-- the exported document holds every pending request of the queue under its own height, with
    all fields, and nothing else -/
def exportOk (pre : State) (g : Genesis) : Bool :=
  (pre.queue.all fun e => (flat g).contains (i64OfKey e.1.1, e.2)) &&
  (flat g).length == pre.queue.length

/-- the queue a zero-height restart must hand to the new chain -/
def rebased (pre : State) : AMap (Nat × Id) Request :=
  pre.queue.map fun e => (((i64OfKey e.1.1 - pre.height + 1).toNat, e.1.2), e.2)

def queueSame (a b : AMap (Nat × Id) Request) : Bool := Spec.C18.sameMap a b (fun _ => false)

end Irismod.Spec.C12Random
