/-
The line-level monitor of `drv-service monitor <C07|C08|C13|C12>`: what the driver evaluates on one
(operation line, observation line) pair after parsing, as pure functions. The property-specific clause groups
are `Spec.C07.check`, `Spec.C08.check`, `Spec.C13S.check`, `Spec.C12S.check*`; this file adds the clauses every
property shares (`panic`, `rejected-state-unchanged`) and the dispatch, so that the driver calls exactly the
functions the soundness theorems of `Proofs/ServiceMonitor.lean` are about. Core Lean only.
-/
import Irismod.Spec.C07
import Irismod.Spec.C08
import Irismod.Spec.C13_Service
import Irismod.Spec.C12_Service

namespace Irismod.Spec.ServiceMon
open Irismod Irismod.Sdk Irismod.Service

structure Fail where
  clause : String
  cls    : String := ""
  deriving Repr, Inhabited

/-- the history-long memory of the three stateful monitors -/
structure Mons where
  m07 : Spec.C07.Mon := {}
  m08 : Spec.C08.Mon := {}
  m13 : Spec.C13S.Mon := {}
  deriving Inhabited

def of07 (f : Spec.C07.Fail) : Fail := { clause := f.clause, cls := f.cls }
def of08 (f : Spec.C08.Fail) : Fail := { clause := f.clause, cls := f.cls }
def of13 (f : Spec.C13S.Fail) : Fail := { clause := f.clause, cls := f.cls }
def of12 (f : Spec.C12S.Fail) : Fail := { clause := f.clause, cls := f.cls }

/-- a rejected line leaves the whole observed state untouched: `bodySame` is the driver's comparison of this
observation line with the previous one, result word and callback field stripped -/
def rejectedFails (accepted bodySame : Bool) : List Fail :=
  if !accepted && !bodySame then [{ clause := "rejected-state-unchanged" }] else []

/-- an ordinary operation line: `word` is ok | rej | panic as observed -/
def opLine (prop : String) (ds : List Denom) (ms : Mons) (pre : State) (op : Op) (word : String) (bodySame : Bool)
    (post : State) : Mons × List Fail :=
  let accepted := word == "ok"
  let f0 : List Fail :=
    (if word == "panic" then [{ clause := "panic" }] else []) ++ rejectedFails accepted bodySame
  if prop = "C07" then
    let r := Spec.C07.check ds ms.m07 pre op accepted post
    ({ ms with m07 := r.1 }, f0 ++ r.2.map of07)
  else if prop = "C08" then
    let r := Spec.C08.check ms.m08 pre op accepted post
    ({ ms with m08 := r.1 }, f0 ++ r.2.map of08)
  else if prop = "C13" then
    let r := Spec.C13S.check ms.m13 pre op accepted post
    ({ ms with m13 := r.1 }, f0 ++ r.2.map of13)
  else (ms, f0)

/-- `service export`: only C12 judges it (the verdict of the real `ValidateGenesis` on the real document) -/
def exportLine (prop : String) (pre : State) (validateOk : Bool) : List Fail :=
  if prop = "C12" then (Spec.C12S.checkExport pre validateOk).map of12 else []

/-- `service reimport` (`prep = false`) / `service prep_reimport` (`prep = true`); for the other properties a new
chain starts here: their history-long memory does not carry over -/
def reimportLine (prop : String) (prep : Bool) (ds : List Denom) (ms : Mons) (pre : State) (accepted bodySame : Bool)
    (post : State) : Mons × List Fail :=
  let f0 := rejectedFails accepted bodySame
  if prop = "C12" then
    (ms, f0 ++ ((if prep then Spec.C12S.checkPrepReimport ds pre post accepted
                 else Spec.C12S.checkReimport ds pre post accepted).map of12))
  else if accepted then ({}, f0)
  else (ms, f0)

end Irismod.Spec.ServiceMon
