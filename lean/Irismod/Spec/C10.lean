/-
C10 — Token: ERC20 and fee-token conversions neither create nor lose value.

(a) the value relations of a fee-token swap `(offered, ratio, scales) ↦ (burned, minted)` as
    integer inequalities (no division), the classes of the recorded findings, and the ledger
    quantities of the ERC20 conversions;
(b) the `Bool` monitor evaluated on the *implementation's* observation stream.
Core Lean only.
-/
import Irismod.Spec.C09

namespace Irismod.Spec.C10
open Irismod Irismod.Sdk Irismod.Token
open Irismod.Spec.C09 (Fail chk sameState balsSameExcept supsSameExcept tokensSameExcept bankSame evmSameExcept)

/-! ### value relations of a swap

`ratio` is the raw 18-decimal integer `ρ·10^18`; amounts are in min units; the value of `b`
input min units is `b · ρ · 10^(so-si)` output min units.  All relations are multiplied out. -/

/-- the value statement: `minted ≤ burned · ratio · 10^(so-si)` -/
def fullValue (b m ratio : Int) (si so : Nat) : Prop :=
  m * (pow10 si : Nat) * precision ≤ b * ratio * (pow10 so : Nat)

/-- exactness at ratio 1 -/
def exactAtOne (b m : Int) (si so : Nat) : Prop := b * (pow10 so : Nat) = m * (pow10 si : Nat)

instance (b m ratio : Int) (si so : Nat) : Decidable (fullValue b m ratio si so) := by unfold fullValue; infer_instance
instance (b m : Int) (si so : Nat) : Decidable (exactAtOne b m si so) := by unfold exactAtOne; infer_instance

/-- the clauses of C10 about one swap outcome `(offered x, ratio, si, so) ↦ (b, m)` -/
def swapFails (x : Int) (ratio : Int) (si so : Nat) (b m : Int) : List Fail :=
  chk (decide (b ≤ x) || decide (x < 0 ∧ b = 0)) "burned-le-offered" ++
  chk (decide (0 ≤ b)) "burned-nonneg" ++
  chk (decide (0 ≤ m)) "minted-nonneg" ++
  chk (decide (fullValue b m ratio si so)) "minted-le-burned-value" ++
  (if ratio = precision then chk (decide (exactAtOne b m si so)) "exact-at-ratio-one" else [])

/-! ### ERC20 ledger -/

/-- total ERC20 supply of contract `c` -/
def evmTotal (s : State) (c : Nat) : Nat := AMap.sumIf (fun k => k.1 = c) id s.evm

/-- the ledgers an accepted EVM transaction with these `SwapToNative` logs must leave: every log
of a contract of ours burned `amount` of the caller's ERC20 balance; when that contract — the
**emitter** of the log, not the target of the transaction — is bound to a token, exactly `amount`
of the token's min unit is minted to the receiver named in the log; logs of other addresses move
nothing -/
def expectLogs (s : State) : List SwapLog → State
  | [] => s
  | l :: rest =>
    match l.emitter with
    | .u _ => expectLogs s rest
    | .k c =>
      let burnt : State := { s with evm := AMap.set s.evm (c, l.src) (evmBal s c l.src - l.amount.toNat) }
      match (AMap.get? s.contracts c).bind (AMap.get? s.tokens) with
      | none => expectLogs burnt rest
      | some t => expectLogs { burnt with bank := burnt.bank.mint l.rcv t.minUnit l.amount.toNat } rest

/-- native supply + ERC20 supply of every bound token of `pre` is the same in `post` -/
def combinedSame (pre post : State) : Bool :=
  Spec.C09.allB pre.tokens fun _ t =>
    t.contract == 0 ||
    supplyOf post t.minUnit + evmTotal post t.contract == supplyOf pre t.minUnit + evmTotal pre t.contract

/-- what an accepted conversion must have done -/
def acceptedFails (pre : State) (op : Op) (post : State) : List Fail :=
  match op with
  | .swapToErc20 sender receiver denom amount =>
    match tokenByMinUnit pre denom with
    | none => chk false "to-erc20-token-exists"
    | some t =>
      let n := amount.toNat
      chk (t.contract != 0) "to-erc20-bound" ++
      chk (decide (n ≤ balOf pre sender denom) && balOf post sender denom + n == balOf pre sender denom) "to-erc20-sender-debited" ++
      chk (supplyOf post denom + n == supplyOf pre denom) "to-erc20-native-burned" ++
      chk (evmBal post t.contract receiver == evmBal pre t.contract receiver + n) "to-erc20-receiver-credited" ++
      chk (supplyOf post denom + evmTotal post t.contract == supplyOf pre denom + evmTotal pre t.contract) "native-plus-erc20" ++
      chk (evmSameExcept pre post [(t.contract, receiver)]) "to-erc20-other-erc20" ++
      chk (balsSameExcept pre post [(sender, denom)] && supsSameExcept pre post [denom]) "to-erc20-other-native" ++
      chk (tokensSameExcept pre post "") "to-erc20-tokens"
  | .swapFromErc20 sender receiver denom amount =>
    match tokenByMinUnit pre denom with
    | none => chk false "from-erc20-token-exists"
    | some t =>
      let n := amount.toNat
      chk (t.contract != 0) "from-erc20-bound" ++
      chk (decide (n ≤ evmBal pre t.contract sender) && evmBal post t.contract sender + n == evmBal pre t.contract sender) "from-erc20-sender-debited" ++
      chk (supplyOf post denom == supplyOf pre denom + n) "from-erc20-native-minted" ++
      chk (balOf post receiver denom == balOf pre receiver denom + n) "from-erc20-receiver-credited" ++
      chk (supplyOf post denom + evmTotal post t.contract == supplyOf pre denom + evmTotal pre t.contract) "native-plus-erc20" ++
      chk (evmSameExcept pre post [(t.contract, sender)]) "from-erc20-other-erc20" ++
      chk (balsSameExcept pre post [(receiver, denom)] && supsSameExcept pre post [denom]) "from-erc20-other-native" ++
      chk (tokensSameExcept pre post "") "from-erc20-tokens"
  | .hookSwap src c to amount =>
    let n := amount.toNat
    chk (decide (n ≤ evmBal pre c src) && evmBal post c src + n == evmBal pre c src) "hook-sender-debited" ++
    chk (evmSameExcept pre post [(c, src)]) "hook-other-erc20" ++
    chk (tokensSameExcept pre post "") "hook-tokens" ++
    (match (AMap.get? pre.contracts c).bind (AMap.get? pre.tokens) with
     | none => chk (bankSame pre post) "hook-unbound-native-unchanged"
     | some t =>
       chk (supplyOf post t.minUnit == supplyOf pre t.minUnit + n) "hook-native-minted" ++
       chk (balOf post to t.minUnit == balOf pre to t.minUnit + n) "hook-receiver-credited" ++
       chk (supplyOf post t.minUnit + evmTotal post c == supplyOf pre t.minUnit + evmTotal pre c) "native-plus-erc20" ++
       chk (balsSameExcept pre post [(to, t.minUnit)] && supsSameExcept pre post [t.minUnit]) "hook-other-native")
  | .swapFee sender to denom amount =>
    match tokenByMinUnit pre denom with
    | none => chk false "swap-token-exists"
    | some tb =>
      match AMap.get? pre.env.registry tb.minUnit with
      | none => chk false "swap-registered"
      | some (target, ratio) =>
        match getToken pre target with
        | none => chk false "swap-target-exists"
        | some tm =>
          if target = denom then [] else
          let rcpt := if to = "" then sender else to
          let b : Int := (supplyOf pre denom : Int) - supplyOf post denom
          let m : Int := (supplyOf post target : Int) - supplyOf pre target
          swapFails amount ratio.raw tb.scale tm.scale b m ++
          -- the sender pays exactly what is burned: the dust stays with the sender
          chk (decide ((balOf pre sender denom : Int) - balOf post sender denom = b)) "swap-sender-pays-burned" ++
          chk (decide ((balOf post rcpt target : Int) - balOf pre rcpt target = m)) "swap-recipient-gets-minted" ++
          chk (balsSameExcept pre post [(sender, denom), (rcpt, target)] && supsSameExcept pre post [denom, target]) "swap-other-native" ++
          chk (evmSameExcept pre post []) "swap-erc20-unchanged" ++
          chk (tokensSameExcept pre post "") "swap-tokens"
  | .evmTx _ logs =>
    let exp := expectLogs pre logs
    chk (combinedSame pre post) "native-plus-erc20" ++
    chk (bankSame exp post) "tx-native-credited-exactly" ++
    chk (evmSameExcept exp post []) "tx-erc20-debited-exactly" ++
    chk (tokensSameExcept pre post "") "tx-tokens"
  | .deploy .. => chk (bankSame pre post && evmSameExcept pre post []) "deploy-ledgers-unchanged"
  | .evmFault _ => chk (bankSame pre post && evmSameExcept pre post []) "fault-ledgers-unchanged"
  | .upgradeErc20 authority impl =>
    -- only the authority upgrades; the upgrade touches no ledger and no token, only the beacon
    chk (authority == GOV) "upgrade-only-authority" ++
    chk (pre.params.erc20 && pre.params.beacon) "upgrade-erc20-enabled-and-beacon-set" ++
    chk (hasCode pre impl) "upgrade-implementation-has-code" ++
    chk (bankSame pre post && evmSameExcept pre post []) "upgrade-ledgers-unchanged" ++
    chk (tokensSameExcept pre post "") "upgrade-tokens" ++
    chk (post.impl == impl) "upgrade-implementation"
  | _ => chk (evmSameExcept pre post []) "erc20-untouched"

def isUpgrade : Op → Bool
  | .upgradeErc20 .. => true
  | _ => false

/-- one step of the monitor: a failed conversion changes neither side; the beacon's implementation
changes only by an accepted `UpgradeERC20` -/
def stepFails (pre : State) (op : Op) (accepted : Bool) (post : State) : List Fail :=
  if accepted then acceptedFails pre op post ++ chk (isUpgrade op || post.impl == pre.impl) "beacon-implementation-untouched"
  else chk (sameState pre post) "rejected-unchanged"

end Irismod.Spec.C10
