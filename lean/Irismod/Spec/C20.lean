/-
C20 — API: both generated protobuf families describe and encode messages identically.
Executable statements over the regenerated fact tables (`Irismod.Gen.Api`) and the wire model.
-/
import Irismod.Gen.Api
import Irismod.Model.Wire

namespace Irismod.Spec.C20
open Irismod.Gen.Api

/-- a Msg is fine when it is registered with the interface registry and its declared signer
    resolves to an address string field (directly, or through a message declaring one) -/
def msgOk (m : MsgFact) : Bool :=
  m.registered && (m.signerKind == "address-string" || m.signerKind == "message-with-signer")

def allMsgsOk : Bool := msgs.all msgOk

/-- files present in one family only must be app-wiring module configs (pulsar-only by construction) -/
def singleFamilyOk : Bool := pulsarOnly.all (·.2) && gogoOnly.isEmpty

end Irismod.Spec.C20

namespace Irismod.Spec.C20
open Irismod.Gen.Api

/-- known finding F-api-1: the one message-typed field declared with a scalar custom type
    (`cosmos.base.v1beta1.Coin fee = 1 [customtype = LegacyDec]`), which the two families
    encode differently. Any *other* such field is a new violation. -/
def knownSuspects : List String := ["irismod.coinswap.Params.fee"]

def suspectsWithinKnown : Bool := suspectFields.all (knownSuspects.contains ·)

/-- the grpc hand-off table of either family serves exactly the methods the descriptor declares
(a service without a table in one family has an empty list there and fails) -/
def svcOk (f : SvcFact) : Bool := f.gogo == f.desc && f.pulsar == f.desc && !f.desc.isEmpty

def grpcDescsOk : Bool := svcFacts.all svcOk

end Irismod.Spec.C20
