/-
C14 — NFT: each token has one owner; only owners and class creators can act.

(a) `Inv`: the state invariant used by the theorems of `Props/C14.lean` (one owner per token in
    both owner structures, tokens only in existing classes, supply = number of tokens = number
    of owner-index entries).
(b) the executable (Bool) monitor evaluated by the driver on the observation stream of the real
    Go implementation: `invB` on every observed state, `stepOk pre op accepted post` on every
    step. The monitor states what C14 states: who may act, how ownership moves, that ids and
    restricted metadata are stable, that supply, token count and balances agree, and that a
    rejected message changes nothing. It does not prescribe what an edit writes.
Core Lean only.
-/
import Irismod.Model.Nft

namespace Irismod.Spec.C14
open Irismod Irismod.Nft

/-! ### Prop side -/

/-- number of live owner-index entries of a class (all owners) -/
def idxCount (s : State) (c : ClassId) : Nat := Tbl.count (fun k => k.2.1 = c) s.idx

structure Inv (s : State) : Prop where
  /-- a token record exists iff the owner key exists -/
  tok_owner : ∀ c t, (tokenOf s c t).isSome = (ownerOf s c t).isSome
  /-- the owner index lists a token under `a` iff `a` is its recorded owner: exactly one owner -/
  idx_owner : ∀ a c t, idxHas s a c t = true ↔ ownerOf s c t = some a
  /-- tokens live only in existing classes -/
  tok_class : ∀ c t, hasNFT s c t = true → hasClass s c = true
  /-- the uint64 supply counter is the number of live tokens (mod 2^64, the counter's width) -/
  supply_count : ∀ c, supplyOf s c = tokenCount s c % u64
  /-- the owner index has exactly one live entry per live token of the class -/
  idx_count : ∀ c, idxCount s c = tokenCount s c

def creatorOf (s : State) (c : ClassId) : Option Addr := (AMap.get? s.classes c).map (·.creator)
def updateRestricted (s : State) (c : ClassId) : Bool :=
  match AMap.get? s.classes c with
  | some cl => cl.updateRestricted
  | none => false
def mintRestricted (s : State) (c : ClassId) : Bool :=
  match AMap.get? s.classes c with
  | some cl => cl.mintRestricted
  | none => false

/-! ### Bool side (monitor) -/

/-- an observed state: the module tables plus the balances reported by the Supply(owner) query -/
structure Obs where
  st   : State := {}
  bals : AMap (Addr × ClassId) Nat := []
  deriving Repr, Inhabited

def liveTokens (s : State) : List (ClassId × TokenId) := (Tbl.live s.tokens).map (·.1)
def liveOwners (s : State) : List (ClassId × TokenId) := (Tbl.live s.owners).map (·.1)
def liveIdx (s : State) : List (Addr × ClassId × TokenId) := (Tbl.live s.idx).map (·.1)
def classIds (s : State) : List ClassId := s.classes.map (·.1)

def balOf (o : Obs) (a : Addr) (c : ClassId) : Nat := AMap.getD o.bals (a, c) 0

/-- the (owner, class) pairs that have an owner-index entry -/
def balPairs (s : State) : List (Addr × ClassId) := (liveIdx s).map fun i => (i.1, i.2.1)

/-- the observation of a model state: balances as `GetBalance` would report them, one entry per
(owner, class) pair with an index entry -/
def obsOf (s : State) : Obs :=
  { st := s, bals := (balPairs s).foldl (fun m k => AMap.set m k (balanceOf s k.1 k.2)) [] }

/-- every token has exactly one owner: an owner key, and exactly one index entry, under that owner -/
def oneOwnerB (s : State) : Bool :=
  (liveTokens s).all fun k =>
    match ownerOf s k.1 k.2 with
    | none => false
    | some a => a != "" && ((liveIdx s).filter fun i => i.2.1 == k.1 && i.2.2 == k.2) == [(a, k.1, k.2)]

/-- no owner without a token: owner keys and index entries belong to live tokens of existing classes -/
def noGhostB (s : State) : Bool :=
  ((liveOwners s).all fun k => hasNFT s k.1 k.2) &&
  ((liveIdx s).all fun i => hasNFT s i.2.1 i.2.2 && ownerOf s i.2.1 i.2.2 == some i.1) &&
  ((liveTokens s).all fun k => hasClass s k.1)

/-- supply(class) = number of its tokens = Σ over owners of the reported balances; every
reported balance is the number of tokens recorded for that owner. The supply is a `uint64`
counter the code increments and decrements unchecked, so the comparison is modulo 2^64 — the
statement `Inv.supply_count` proves (identical to plain equality below 2^64 tokens per class). -/
def supplyB (o : Obs) : Bool :=
  ((classIds o.st).all fun c =>
    supplyOf o.st c == tokenCount o.st c % u64 &&
    tokenCount o.st c == ((o.bals.filter fun e => e.1.2 == c).map (·.2)).sum) &&
  (o.bals.all fun e => e.2 == ((liveOwners o.st).filter fun k =>
      k.1 == e.1.2 && ownerOf o.st k.1 k.2 == some e.1.1).length)

/-- which clause of the state invariant fails, if any -/
def invFail (o : Obs) : Option String :=
  if !oneOwnerB o.st then some "one-owner"
  else if !noGhostB o.st then some "ghost-owner"
  else if !supplyB o then some "supply-count-balances"
  else none

def invB (o : Obs) : Bool := (invFail o).isNone

def tokKeys (a b : State) : List (ClassId × TokenId) :=
  liveTokens a ++ liveTokens b ++ liveOwners a ++ liveOwners b

/-- token records equal except at the listed keys -/
def tokensSameExcept (pre post : State) (ex : List (ClassId × TokenId)) : Bool :=
  (tokKeys pre post).all fun k => ex.contains k || tokenOf post k.1 k.2 == tokenOf pre k.1 k.2
def ownersSameExcept (pre post : State) (ex : List (ClassId × TokenId)) : Bool :=
  (tokKeys pre post).all fun k => ex.contains k || ownerOf post k.1 k.2 == ownerOf pre k.1 k.2
def idxSame (pre post : State) (ex : List (ClassId × TokenId)) : Bool :=
  (liveIdx pre ++ liveIdx post).all fun i =>
    ex.contains (i.2.1, i.2.2) || idxHas post i.1 i.2.1 i.2.2 == idxHas pre i.1 i.2.1 i.2.2
def classesSameExcept (pre post : State) (ex : List ClassId) : Bool :=
  (classIds pre ++ classIds post).all fun c => ex.contains c || AMap.get? post.classes c == AMap.get? pre.classes c
def supplySameExcept (pre post : State) (ex : List ClassId) : Bool :=
  (classIds pre ++ classIds post).all fun c => ex.contains c || supplyOf post c == supplyOf pre c
def balsSame (pre post : Obs) : Bool :=
  (pre.bals ++ post.bals).all fun e => balOf post e.1.1 e.1.2 == balOf pre e.1.1 e.1.2

def sameObs (pre post : Obs) : Bool :=
  tokensSameExcept pre.st post.st [] && ownersSameExcept pre.st post.st [] && idxSame pre.st post.st [] &&
  classesSameExcept pre.st post.st [] && supplySameExcept pre.st post.st [] && balsSame pre post

/-- is `op` the burn / mint / transfer of token `(c, t)`? -/
def opBurns (op : Op) (c : ClassId) (t : TokenId) : Bool :=
  match op with | .burn _ c' t' => c' == c && t' == t | _ => false
def opMints (op : Op) (c : ClassId) (t : TokenId) : Bool :=
  match op with | .mint _ _ c' t' _ _ _ _ => c' == c && t' == t | _ => false
def opTransfers (op : Op) (c : ClassId) (t : TokenId) : Bool :=
  match op with | .transfer _ _ c' t' _ _ _ _ => c' == c && t' == t | _ => false
/-- is `op` a TransferDenom of class `c` sent by its current creator, after which the recipient is the creator? -/
def opHandsOver (pre : State) (op : Op) (post : State) (c : ClassId) : Bool :=
  match op with
  | .transferDenom sender rcpt c' => c' == c && creatorOf pre c == some sender && creatorOf post c == some rcpt
  | _ => false

/-- class `c` still exists with the same restriction flags -/
def flagsStable (pre post : State) (c : ClassId) : Bool :=
  match AMap.get? pre.classes c, AMap.get? post.classes c with
  | some a, some b => a.mintRestricted == b.mintRestricted && a.updateRestricted == b.updateRestricted
  | _, _ => false

/-- clauses that hold across *every* accepted message:
 * a class never disappears, and its restriction flags never change;
 * its creator changes only through TransferDenom sent by the current creator;
 * a token of an update-restricted class that exists before and after keeps all its metadata;
 * a token disappears only through its own burn, appears only through its own mint, and its
   owner changes only through its own transfer. -/
def globalFail (pre : State) (op : Op) (post : State) : Option String :=
  if !((classIds pre).all fun c => flagsStable pre post c) then some "class-stable"
  else if !((classIds pre).all fun c =>
        creatorOf post c == creatorOf pre c || opHandsOver pre op post c) then some "class-handover"
  else if !((liveTokens pre).all fun k =>
        !(updateRestricted pre k.1) || !(hasNFT post k.1 k.2) || tokenOf post k.1 k.2 == tokenOf pre k.1 k.2)
      then some "update-restricted"
  else if !((liveTokens pre).all fun k =>
        hasNFT post k.1 k.2 || opBurns op k.1 k.2)
      then some "token-vanished"
  else if !((liveTokens post).all fun k =>
        hasNFT pre k.1 k.2 || opMints op k.1 k.2)
      then some "token-appeared"
  else if !((liveTokens pre).all fun k =>
        !(hasNFT post k.1 k.2) || ownerOf post k.1 k.2 == ownerOf pre k.1 k.2 || opTransfers op k.1 k.2)
      then some "owner-changed"
  else none

/-- what the accepted message itself must have been allowed to do, and must have done to ownership -/
def opFail (pre : State) (op : Op) (post : State) : Option String :=
  match op with
  | .issue sender id mr ur _ _ _ _ _ _ _ =>
    if hasClass pre id then some "issue-existing-class"
    else if !(creatorOf post id == some sender && mintRestricted post id == mr && updateRestricted post id == ur)
      then some "issue-record"
    else if !(classesSameExcept pre post [id] && tokensSameExcept pre post [] && ownersSameExcept pre post [] &&
              idxSame pre post []) then some "issue-frame"
    else none
  | .mint sender rcpt c t _ _ _ _ =>
    if !hasClass pre c then some "mint-unknown-class"
    else if mintRestricted pre c && creatorOf pre c != some sender then some "mint-restricted"
    else if hasNFT pre c t then some "mint-existing-id"
    else if !(hasNFT post c t && ownerOf post c t == some rcpt) then some "mint-owner"
    else if !(classesSameExcept pre post [] && tokensSameExcept pre post [(c, t)] &&
              ownersSameExcept pre post [(c, t)] && idxSame pre post [(c, t)]) then some "mint-frame"
    else none
  | .edit sender c t _ _ _ _ =>
    if ownerOf pre c t != some sender then some "edit-by-non-owner"
    else if !(hasNFT pre c t && hasNFT post c t) then some "edit-token"
    else if !(classesSameExcept pre post [] && tokensSameExcept pre post [(c, t)] &&
              ownersSameExcept pre post [] && idxSame pre post []) then some "edit-frame"
    else none
  | .transfer sender rcpt c t _ _ _ _ =>
    if ownerOf pre c t != some sender then some "transfer-by-non-owner"
    else if !(hasNFT pre c t && hasNFT post c t && ownerOf post c t == some rcpt) then some "transfer-owner"
    else if !(classesSameExcept pre post [] && tokensSameExcept pre post [(c, t)] &&
              ownersSameExcept pre post [(c, t)] && idxSame pre post [(c, t)]) then some "transfer-frame"
    else none
  | .burn sender c t =>
    if ownerOf pre c t != some sender then some "burn-by-non-owner"
    else if !(hasNFT pre c t) || hasNFT post c t || (ownerOf post c t).isSome then some "burn-token"
    else if !(classesSameExcept pre post [] && tokensSameExcept pre post [(c, t)] &&
              ownersSameExcept pre post [(c, t)] && idxSame pre post [(c, t)]) then some "burn-frame"
    else none
  | .transferDenom sender rcpt c =>
    if creatorOf pre c != some sender then some "handover-by-non-creator"
    else if creatorOf post c != some rcpt then some "handover-creator"
    else if !(classesSameExcept pre post [c] && tokensSameExcept pre post [] && ownersSameExcept pre post [] &&
              idxSame pre post [] && supplySameExcept pre post [] ) then some "handover-frame"
    else none

/-- one monitor step; `none` = fine, `some clause` = the clause that fails -/
def stepFail (pre : Obs) (op : Op) (accepted : Bool) (post : Obs) : Option String :=
  if accepted then
    match opFail pre.st op post.st with
    | some c => some c
    | none => globalFail pre.st op post.st
  else if sameObs pre post then none else some "rejected-but-changed"

def stepOk (pre : Obs) (op : Op) (accepted : Bool) (post : Obs) : Bool := (stepFail pre op accepted post).isNone

/-! ### exactly what the driver evaluates, per kind of line (names of the failed clauses) -/

/-- a delivered message: `accepted` / `panicked` are the result class of the observation -/
def stepFails (pre : Obs) (op : Op) (accepted panicked : Bool) (post : Obs) : List String :=
  (if panicked then ["panic"] else []) ++ (stepFail pre op accepted post).toList ++ (invFail post).toList

/-- a pure ValidateBasic case (`nft vjson`): nothing is delivered, nothing may move -/
def pureFails (pre post : Obs) : List String := if sameObs pre post then [] else ["rejected-but-changed"]

/-- `nft export`: the module's own ValidateGenesis verdict on its own export -/
def exportFails (validated : Bool) : List String := if validated then [] else ["export-invalid"]

/-- `nft reimport`: InitGenesis of the export must not panic and must preserve every observed
query; the invariant holds again afterwards -/
def reimportFails (pre : Obs) (ok : Bool) (post : Obs) : List String :=
  (if ok then [] else ["reimport-panic"]) ++
  (if sameObs pre post then [] else ["reimport-changed-state"]) ++ (invFail post).toList

end Irismod.Spec.C14
