/-
C18 — Random: each request is fulfilled once, on time, reproducibly, within [0,1).
(also the random slice of C13: begin-block totality and queue hygiene)

(a) `Prop` side: the queue invariant, the well-formedness of a chain history, and the
statement of a SHA-256 collision. (b) `Bool` side: the monitor evaluated on the
implementation's observation stream (`check pre op word post`), clause by clause.
Core Lean only.
-/
import Irismod.Model.Random

namespace Irismod.Spec.C18
open Irismod Irismod.Random

/-! ### Prop side -/

/-- an exhibited SHA-256 collision -/
def Collision : Prop := ∃ a b : ByteArray, a ≠ b ∧ Sha256.sum a = Sha256.sum b

def two63 : Int := 9223372036854775808

/-- queue hygiene: keys are unique; every entry sits under the id of its request, was
    requested at or below the current height and is due at or above the current height -/
structure QueueInv (rid : Int → String → Id) (s : State) : Prop where
  height_nonneg : 0 ≤ s.height
  height_lt : s.height < two63
  nodup : (s.queue.map (·.1)).Nodup
  entry : ∀ e ∈ s.queue, e.1.2 = rid e.2.height e.2.consumer ∧ 0 ≤ e.2.height ∧ e.2.height ≤ s.height ∧
            s.height ≤ (e.1.1 : Int) ∧ (e.1.1 : Int) < two63

/-- the operations of a live chain: block heights advance by one and stay below 2^63; messages
    and callbacks are unconstrained (every block interval is allowed: the handler rejects the
    ones whose due height does not fit `int64`) -/
def OpValid (s : State) : Op → Prop
  | .beginBlock h _ _ _ => h = s.height + 1 ∧ h < two63
  | .request _ _ _ _ _ => True
  | .requestOracle _ _ _ _ _ _ _ => True
  | .cbResponse _ _ _ => True
  | .cbState _ => True

def RunValid : State → List Op → Prop
  | _, [] => True
  | s, op :: t => OpValid s op ∧ RunValid (apply s op) t

/-! ### monitor -/

def isDigits20 (s : String) : Bool :=
  match s.toList with
  | '0' :: '.' :: rest => rest.length == 20 && rest.all (fun c => '0' ≤ c && c ≤ '9')
  | _ => false

def sameMap {K V : Type} [DecidableEq K] [BEq V] (a b : AMap K V) (ex : K → Bool) : Bool :=
  (a.all fun e => ex e.1 || AMap.get? b e.1 == some e.2) &&
  (b.all fun e => ex e.1 || AMap.get? a e.1 == some e.2)

def sameObs (pre post : State) : Bool :=
  sameMap pre.queue post.queue (fun _ => false) && sameMap pre.randoms post.randoms (fun _ => false) &&
  sameMap pre.oracleReqs post.oracleReqs (fun _ => false) && pre.height == post.height

/-- an entry nobody will ever drain: queued under a height below the current one, or under a
    key that is not an `int64` height at all -/
def staleEntry (height : Int) (e : (Nat × Id) × Request) : Bool :=
  decide ((e.1.1 : Int) < height) || decide ((e.1.1 : Int) ≥ two63)

structure Fail where
  clause : String
  cls    : Option String := none

def failIf (c : Bool) (clause : String) (cls : Option String := none) : List Fail :=
  if c then [{ clause := clause, cls := cls }] else []

/-- the monitor of one step. `word` is ok | rej | panic as observed on the implementation. -/
def check (pre : State) (op : Op) (word : String) (post : State) : List Fail :=
  match op with
  | .request c _ n tx _ =>
    if word == "ok" then
      let key := (u64 (pre.height + n), requestId pre.height c)
      let want : Request := { height := pre.height, consumer := c, txHash := txHashOf tx, oracle := false,
                              feeCap := "", ctxId := "" }
      failIf (decide (pre.height + (n : Int) ≥ two63)) "overflowing-interval-accepted" ++
      failIf (!(AMap.get? post.queue key == some want)) "request-not-enqueued-at-h+n" ++
      failIf (!(sameMap pre.queue post.queue (· == key) && sameMap pre.randoms post.randoms (fun _ => false) &&
                sameMap pre.oracleReqs post.oracleReqs (fun _ => false) && pre.height == post.height))
        "request-frame"
    else if word == "rej" then failIf (!(sameObs pre post)) "rejected-but-changed"
    else [{ clause := "request-panic" }]
  | .requestOracle c _ n tx fee _ _ =>
    if word == "ok" then
      let key := (u64 (pre.height + n), requestId pre.height c)
      failIf (decide (pre.height + (n : Int) ≥ two63)) "overflowing-interval-accepted" ++
      failIf (!(match AMap.get? post.queue key with
                | some r => r.height == pre.height && r.consumer == c && r.txHash == txHashOf tx && r.oracle &&
                            r.feeCap == fee && r.ctxId != ""
                | none => false)) "request-not-enqueued-at-h+n" ++
      failIf (!(sameMap pre.queue post.queue (· == key) && sameMap pre.randoms post.randoms (fun _ => false) &&
                sameMap pre.oracleReqs post.oracleReqs (fun _ => false) && pre.height == post.height))
        "request-frame"
    else if word == "rej" then failIf (!(sameObs pre post)) "rejected-but-changed"
    else
      -- `RequestService` seeds its provider choice with GetRand over the block time in nanoseconds
      [{ clause := "request-panic", cls := if pre.unix == 0 then some "F-rnd-1" else none }]
  | .beginBlock h t hash started =>
    let k := u64 (h - 1)
    let due := pre.queue.filter fun e => e.1.1 == k
    let dueNormal := due.filter fun e => !e.2.oracle
    let dueOracle := due.filter fun e => e.2.oracle
    if word == "ok" then
      let fulfilled := dueNormal.map fun e => requestId e.2.height e.2.consumer
      failIf (post.queue.any fun e => e.1.1 == k) "due-request-not-dequeued" ++
      failIf (!(sameMap pre.queue post.queue (fun key => key.1 == k))) "queue-frame" ++
      failIf (!(dueNormal.all fun e =>
                  match prngValue hash t (addrBytes pre e.2.consumer) false ByteArray.empty with
                  | some v => AMap.get? post.randoms (requestId e.2.height e.2.consumer) ==
                                some { txHash := e.2.txHash, height := h - 1, value := v }
                  | none => false)) "fulfilled-value" ++
      failIf (!(post.randoms.all fun e => isDigits20 e.2.value)) "value-range" ++
      failIf (!(sameMap pre.randoms post.randoms (fun id => fulfilled.contains id))) "result-overwritten" ++
      failIf (!(dueOracle.all fun e =>
                  !(started.contains e.2.ctxId) || AMap.get? post.oracleReqs e.2.ctxId == some e.2)) "oracle-start" ++
      failIf (!(sameMap pre.oracleReqs post.oracleReqs
                  (fun c => dueOracle.any fun e => e.2.ctxId == c && started.contains c))) "oracle-frame" ++
      failIf (post.height != h) "height" ++
      -- on time: nothing that was due at or before h-1 is still pending
      failIf (post.queue.any (staleEntry h)) "stale-entry"
    else
      [{ clause := "begin-block-panic",
         cls := if t == 0 && !dueNormal.isEmpty then some "F-rnd-1" else none }]
  | .cbResponse ctxId out err =>
    if word == "ok" then
      let known := pre.ctxs.contains ctxId
      let pending := AMap.get? pre.oracleReqs ctxId
      let success : Option (Request × ByteArray) :=
        match out, err, known, pending with
        | .valid seed, false, true, some r => some (r, seed)
        | _, _, _, _ => none
      let keeps : Bool := match out, err, known, pending with
        | .invalidBody, false, true, some _ => true
        | _, _, _, _ => false
      (match success with
       | some (r, seed) =>
         failIf (!(match prngValue pre.hash pre.unix (addrBytes pre r.consumer) true seed with
                   | some v => AMap.get? post.randoms (requestId r.height r.consumer) ==
                                 some { txHash := r.txHash, height := pre.height - 1, value := v }
                   | none => false)) "oracle-fulfilled-value" ++
         failIf (!(sameMap pre.randoms post.randoms (· == requestId r.height r.consumer))) "result-overwritten"
       | none => failIf (!(sameMap pre.randoms post.randoms (fun _ => false))) "oracle-failure-produced-random") ++
      failIf (!keeps && (AMap.get? post.oracleReqs ctxId).isSome) "oracle-request-not-dropped" ++
      failIf (!(sameMap pre.oracleReqs post.oracleReqs (· == ctxId))) "oracle-frame" ++
      failIf (!(post.randoms.all fun e => isDigits20 e.2.value)) "value-range" ++
      failIf (!(sameMap pre.queue post.queue (fun _ => false) && pre.height == post.height)) "queue-frame"
    else
      [{ clause := "callback-panic",
         cls := (match out, err with
                 | .valid _, false => if pre.unix == 0 then some "F-rnd-1" else none
                 | _, _ => none) }]
  | .cbState ctxId =>
    if word == "ok" then
      failIf (pre.ctxs.contains ctxId && (AMap.get? post.oracleReqs ctxId).isSome) "oracle-request-not-dropped" ++
      failIf (!(sameMap pre.oracleReqs post.oracleReqs (· == ctxId) && sameMap pre.randoms post.randoms (fun _ => false) &&
                sameMap pre.queue post.queue (fun _ => false) && pre.height == post.height)) "state-callback-frame"
    else [{ clause := "callback-panic" }]

/-! ### the random slice of C13, as a monitor over the same observations -/

/-- queue entries <-> pending requests: every entry sits under the id of its own request and is
    not overdue (a request's own height may exceed the current one after a zero-height restart) -/
def hygiene (post : State) : List Fail :=
  failIf (post.queue.any fun e => e.1.2 != requestId e.2.height e.2.consumer) "queue-entry-id-mismatch" ++
  failIf (post.queue.any (staleEntry post.height)) "stale-entry"

def checkC13 (pre : State) (op : Op) (word : String) (post : State) : List Fail :=
  match op with
  | .beginBlock h t _ _ =>
    let k := u64 (h - 1)
    let due := pre.queue.filter fun e => e.1.1 == k
    let dueNormal := due.filter fun e => !e.2.oracle
    if word == "ok" then
      -- each due request processed exactly once: removed, its result stored, nothing else touched
      failIf (post.queue.any fun e => e.1.1 == k) "due-request-not-dequeued" ++
      failIf (!(sameMap pre.queue post.queue (fun key => key.1 == k))) "queue-frame" ++
      failIf (!(dueNormal.all fun e =>
                  match AMap.get? post.randoms (requestId e.2.height e.2.consumer) with
                  | some r => r.height == h - 1 && r.txHash == e.2.txHash
                  | none => false)) "due-request-not-fulfilled" ++
      failIf (post.height != h) "height" ++
      hygiene post
    else
      [{ clause := "begin-block-panic",
         cls := if t == 0 && !dueNormal.isEmpty then some "F-rnd-1" else none }]
  | _ =>
    -- messages and callbacks are not block processing; only queue hygiene is checked after them
    if word == "ok" then hygiene post else []

end Irismod.Spec.C18
