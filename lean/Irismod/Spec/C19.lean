/-
C19 — Record: a stored record is immutable and its id is unique and permanent.

(a) `Prop` side: the creation log of a history (every `AddRecord` with its id, the byte
string hashed into the id, and the record), the replay of a log into a store, and the
statement of a SHA-256 collision (an explicit pair of distinct byte strings).
(b) `Bool` side: the monitor evaluated on the implementation's observation stream.
Core Lean only.
-/
import Irismod.Model.Record

namespace Irismod.Spec.C19
open Irismod Irismod.Record

/-! ### creation log -/

structure Entry where
  id  : Id
  pre : Bytes
  rcd : Rec
  deriving Repr, Inhabited

/-- the entry `CreateRecord` produces for message `m` when the counter is `c` -/
def entryOf (txHash : String) (c : UInt32) (m : Msg) : Entry :=
  { id := idOfPre (preimage (mkRec txHash m) c), pre := preimage (mkRec txHash m) c, rcd := mkRec txHash m }

/-- entries created by the messages of one accepted transaction, counter starting at `c` -/
def txEntries (txHash : String) : UInt32 → List Msg → List Entry
  | _, [] => []
  | c, m :: t => entryOf txHash c m :: txEntries txHash (c + 1) t

/-- entries created by one operation in state `s` (none when rejected) -/
def opEntries (s : State) : Op → List Entry
  | .tx b msgs =>
    match stepTx s (txHashOf b) msgs with
    | .ok _ => txEntries (txHashOf b) s.counter msgs
    | .error _ => []
  | .query _ => []
  | .queryAll => []
  | .nextBlock => []

/-- all entries created along a history, in order -/
def runLog : State → List Op → List Entry
  | _, [] => []
  | s, op :: t => opEntries s op ++ runLog (apply s op) t

/-- a store replays a log: `store.Set(id, record)` in order -/
def replayOn (m : AMap Id Rec) (log : List Entry) : AMap Id Rec :=
  log.foldl (fun m e => AMap.set m e.id e.rcd) m

/-- an exhibited SHA-256 collision: two distinct byte strings with the same sum -/
def Collision : Prop := ∃ a b : ByteArray, a ≠ b ∧ Sha256.sum a = Sha256.sum b

/-- the entries of a log hash their record bytes followed by the consecutive counter values
    `n, n+1, …` (as `uint32`, i.e. modulo 2^32) -/
def WF : Nat → List Entry → Prop
  | _, [] => True
  | n, e :: t => e.pre = encRecord e.rcd ++ be32 (UInt32.ofNat n) ∧ e.id = idOfPre e.pre ∧ WF (n + 1) t

/-- no two creations of the log received the same id -/
def NoClash (log : List Entry) : Prop := log.Pairwise (fun a b => a.id ≠ b.id)

/-! ### monitor (evaluated on the implementation trace) -/

abbrev Known := AMap String Rec        -- id (hex) -> the record submitted under it

def isHex64 (s : String) : Bool :=
  s.length == 64 && s.toList.all fun c => ('0' ≤ c && c ≤ '9') || ('a' ≤ c && c ≤ 'f')

def pairwiseDistinct : List String → Bool
  | [] => true
  | x :: t => !(t.contains x) && pairwiseDistinct t

/-- an accepted transaction: one well-formed id per message, all new and pairwise distinct,
    and each reads back exactly (tx hash, submitted contents, creator) -/
def createOk (known : Known) (txHash : String) (msgs : List Msg) (returned : List (String × Rec)) : Bool :=
  returned.length == msgs.length &&
  returned.all (fun p => isHex64 p.1 && !(AMap.contains known p.1)) &&
  pairwiseDistinct (returned.map (·.1)) &&
  (returned.map (·.2) == msgs.map (mkRec txHash))

/-- a read of a known id returns exactly the record created under it -/
def readOk (known : Known) (id : String) (found : Bool) (r : Rec) : Bool :=
  match AMap.get? known id with
  | none => true
  | some r0 => found && r == r0

/-- a dump of the store contains every known id with exactly its record -/
def dumpOk (known : Known) (dump : AMap String Rec) : Bool :=
  known.all fun p => AMap.get? dump p.1 == some p.2

def learn (known : Known) (returned : List (String × Rec)) : Known :=
  returned.foldl (fun k p => AMap.set k p.1 p.2) known

/-! ### the monitor as one pure function per observation line

`drv-record monitor C19` parses the op line and the observation line and calls `stepFails` /
`advance`; `Proofs/RecordMonitor.lean` proves that `stepFails` is `[]` on every model step. -/

def hexChars (b : UInt8) : List Char := [Line.hexDigit (b.toNat / 16), Line.hexDigit (b.toNat % 16)]

/-- an id as the observation lines print it: lower-case hex, two digits per byte (the same
    string as `Line.hexOfBytes`, written as a list function) -/
def hexId (i : Id) : String := String.ofList (i.toList.flatMap hexChars)

/-- what the monitor carries from one observation line to the next -/
structure Mon where
  known : Known := []          -- every id returned by an accepted transaction, with its record
  n     : Nat := 0             -- the store size of the previous observation line
  deriving Inhabited

/-- the parsed payload of an observation line -/
inductive Obs where
  | tx (returned : List (String × Rec))        -- `new=`  : ids returned by the transaction, read back
  | query (found : Bool) (r : Rec)             -- `found= rec=`
  | dump (d : AMap String Rec)                 -- `recs=` : the whole store
  | none                                       -- no payload (`next_block`), or one that does not parse
  deriving Inhabited

/-- the monitor after a `reset` line that reports `n` stored records -/
def resetMon (n : Nat) : Mon := { known := [], n := n }

/-- the clauses that fail on one observation line (`word` = ok | rej | panic, `n'` = the
    store size the line reports), in the order they are reported -/
def stepFails (m : Mon) (op : Op) (word : String) (n' : Nat) (obs : Obs) : List String :=
  (if word == "panic" then ["panic"] else []) ++
  (match op, obs with
   | .tx b msgs, .tx ret =>
     if word == "ok" then
       if !(createOk m.known (txHashOf b) msgs ret) then ["create-readback-unique"] else []
     else
       if !(ret.isEmpty && n' == m.n) then ["rejected-but-stored"] else []
   | .query id, .query found r =>
     if !(readOk m.known (hexId id) found r) then ["read-differs"] else []
   | .queryAll, .dump d =>
     if !(dumpOk m.known d) then ["record-lost-or-altered"] else []
   | .nextBlock, _ => []
   | _, _ => ["obs-parse"]) ++
  -- the store never shrinks
  (if n' < m.n then ["store-shrank"] else [])

/-- the monitor memory after the line: the ids of an accepted transaction are learnt -/
def advance (m : Mon) (op : Op) (word : String) (n' : Nat) (obs : Obs) : Mon :=
  { known :=
      match op, obs with
      | .tx _ _, .tx ret => if word == "ok" then learn m.known ret else m.known
      | _, _ => m.known
    n := n' }

/-! ### what the model driver prints, in structured form -/

def noRec : Rec := { txHash := "", contents := [], creator := "" }

def hexPair (p : Id × Rec) : String × Rec := (hexId p.1, p.2)

/-- the first word of the model's observation line -/
def modelWord (s : State) (op : Op) : String :=
  match step s op with
  | .ok _ => "ok"
  | .error (.reject _) => "rej"
  | .error (.panic _) => "panic"

/-- the payload of the model's observation line for `op` (`Driver.Record.modelLine`): the created
    ids read back from the new state, the queried record, or the dump of the new state (the
    driver prints the dump sorted; the soundness theorem covers every permutation of it) -/
def modelObs (s : State) (op : Op) : Obs :=
  match op with
  | .tx _ _ => .tx ((opEntries s op).map fun e => (hexId e.id, (getRecord (apply s op) e.id).getD noRec))
  | .query id =>
    match getRecord (apply s op) id with
    | some rc => .query true rc
    | none => .query false noRec
  | .queryAll => .dump ((apply s op).recs.map hexPair)
  | .nextBlock => .none

end Irismod.Spec.C19
