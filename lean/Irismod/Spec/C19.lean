/-
C19 — Record: a stored record is immutable and its id is unique and permanent.

(a) `Prop` side: the creation log of a history (every `AddRecord` with its id, the byte
string hashed into the id, and the record), the replay of a log into a store, and the
statement of a SHA-256 collision (an explicit pair of distinct byte strings).
(b) `Bool` side: the monitor evaluated on the implementation's observation stream.
Core Lean only.
-/
import Irismod.Model.Record

namespace Irismod.Spec.C19
open Irismod Irismod.Record

/-! ### creation log -/

structure Entry where
  id  : Id
  pre : Bytes
  rcd : Rec
  deriving Repr, Inhabited

/-- the entry `CreateRecord` produces for message `m` when the counter is `c` -/
def entryOf (txHash : String) (c : UInt32) (m : Msg) : Entry :=
  { id := idOfPre (preimage (mkRec txHash m) c), pre := preimage (mkRec txHash m) c, rcd := mkRec txHash m }

/-- entries created by the messages of one accepted transaction, counter starting at `c` -/
def txEntries (txHash : String) : UInt32 → List Msg → List Entry
  | _, [] => []
  | c, m :: t => entryOf txHash c m :: txEntries txHash (c + 1) t

/-- entries created by one operation in state `s` (none when rejected) -/
def opEntries (s : State) : Op → List Entry
  | .tx b msgs =>
    match stepTx s (txHashOf b) msgs with
    | .ok _ => txEntries (txHashOf b) s.counter msgs
    | .error _ => []
  | .query _ => []
  | .queryAll => []
  | .nextBlock => []

/-- all entries created along a history, in order -/
def runLog : State → List Op → List Entry
  | _, [] => []
  | s, op :: t => opEntries s op ++ runLog (apply s op) t

/-- a store replays a log: `store.Set(id, record)` in order -/
def replayOn (m : AMap Id Rec) (log : List Entry) : AMap Id Rec :=
  log.foldl (fun m e => AMap.set m e.id e.rcd) m

/-- an exhibited SHA-256 collision: two distinct byte strings with the same sum -/
def Collision : Prop := ∃ a b : ByteArray, a ≠ b ∧ Sha256.sum a = Sha256.sum b

/-- the entries of a log hash their record bytes followed by the consecutive counter values
    `n, n+1, …` (as `uint32`, i.e. modulo 2^32) -/
def WF : Nat → List Entry → Prop
  | _, [] => True
  | n, e :: t => e.pre = encRecord e.rcd ++ be32 (UInt32.ofNat n) ∧ e.id = idOfPre e.pre ∧ WF (n + 1) t

/-- no two creations of the log received the same id -/
def NoClash (log : List Entry) : Prop := log.Pairwise (fun a b => a.id ≠ b.id)

/-! ### monitor (evaluated on the implementation trace) -/

abbrev Known := AMap String Rec        -- id (hex) -> the record submitted under it

def isHex64 (s : String) : Bool :=
  s.length == 64 && s.toList.all fun c => ('0' ≤ c && c ≤ '9') || ('a' ≤ c && c ≤ 'f')

def pairwiseDistinct : List String → Bool
  | [] => true
  | x :: t => !(t.contains x) && pairwiseDistinct t

/-- an accepted transaction: one well-formed id per message, all new and pairwise distinct,
    and each reads back exactly (tx hash, submitted contents, creator) -/
def createOk (known : Known) (txHash : String) (msgs : List Msg) (returned : List (String × Rec)) : Bool :=
  returned.length == msgs.length &&
  returned.all (fun p => isHex64 p.1 && !(AMap.contains known p.1)) &&
  pairwiseDistinct (returned.map (·.1)) &&
  (returned.map (·.2) == msgs.map (mkRec txHash))

/-- a read of a known id returns exactly the record created under it -/
def readOk (known : Known) (id : String) (found : Bool) (r : Rec) : Bool :=
  match AMap.get? known id with
  | none => true
  | some r0 => found && r == r0

/-- a dump of the store contains every known id with exactly its record -/
def dumpOk (known : Known) (dump : AMap String Rec) : Bool :=
  known.all fun p => AMap.get? dump p.1 == some p.2

def learn (known : Known) (returned : List (String × Rec)) : Known :=
  returned.foldl (fun k p => AMap.set k p.1 p.2) known

end Irismod.Spec.C19
