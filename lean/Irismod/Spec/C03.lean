/-
C03 — HTLC: locked funds leave escrow exactly once — by secret, else refund at expiry.

(a) `Prop` invariants / step relations used by the theorems of `Props/C03.lean`;
(b) the `Bool` monitor evaluated on the *implementation's* observation stream: for one step
    `pre --op/accepted--> post` it checks the state automaton of every contract, that the bank
    moved exactly by the payouts attributable to the contracts that changed state (and by the
    escrow-in of a created one), that nothing moves on a rejection, and the queue bijection.
Core Lean only.
-/
import Irismod.Model.Htlc

namespace Irismod.Spec.C03
open Irismod Irismod.Sdk Irismod.Htlc

/-! ### invariants (Prop) -/

/-- every open contract has exactly one queue entry, at its expiration; every entry refers to
an open contract expiring at the entry's height (shared with C13) -/
def QueueInv (s : State) : Prop :=
  s.queue.Nodup ∧
  (∀ id c, AMap.get? s.htlcs id = some c → c.state = .open → (c.expiration, id) ∈ s.queue) ∧
  (∀ h id, (h, id) ∈ s.queue → ∃ c, AMap.get? s.htlcs id = some c ∧ c.state = .open ∧ c.expiration = h)

/-- every queued height is still in the future (begin-block of the current height has run) -/
def QueueFuture (s : State) : Prop := ∀ h id, (h, id) ∈ s.queue → s.height < h

/-- the state of contract `id`, `none` when it does not exist -/
def stateOf (s : State) (id : Id) : Option HState := (AMap.get? s.htlcs id).map (·.state)

/-- `id` is open before the step by `op` and closed after it: the step in which the contract's
funds leave escrow -/
def closesIn (s : State) (op : Op) (id : Id) : Prop :=
  stateOf s id = some .open ∧ stateOf (apply s op) id ≠ some .open

/-! ### payouts (specification-level ledger functions, independent of the handlers) -/

/-- credit `cs` to `a` -/
def credit (b : Bank) (a : Addr) (cs : Coins) : Bank := addCoins b a cs

/-- debit `cs` from `a` when covered (natural subtraction otherwise never used) -/
def debit (b : Bank) (a : Addr) : Coins → Bank
  | [] => b
  | (d, n) :: r => debit (Bank.setBal b a d (Bank.balOf b a d - n)) a r

/-- what a claim of `c` does to the bank: plain — escrow → recipient; incoming — minted into
the escrow and passed on to the recipient; outgoing — burnt from escrow -/
def payClaim (b : Bank) (c : Contract) : Bank :=
  if c.transfer then
    match c.direction with
    | .incoming => credit (debit (mintCoins b escrow c.amount) escrow c.amount) c.to c.amount
    | .outgoing => subSupply (debit b escrow c.amount) c.amount
    | .none => b
  else credit (debit b escrow c.amount) c.to c.amount

/-- what the refund of `c` does to the balances: plain / outgoing — escrow → sender; incoming — nothing -/
def payRefund (b : Bank) (c : Contract) : Bank :=
  if c.transfer && c.direction == .incoming then b
  else credit (debit b escrow c.amount) c.sender c.amount

/-- what the creation of `c` does to the balances: plain / outgoing — sender → escrow; incoming — nothing -/
def payCreate (b : Bank) (c : Contract) : Bank :=
  if c.transfer && c.direction == .incoming then b
  else credit (debit b c.sender c.amount) escrow c.amount

/-! ### monitor (Bool) -/

def balKeys (a b : Bank) : List (Addr × Denom) := a.bal.map (·.1) ++ b.bal.map (·.1)

def sameBalances (a b : Bank) : Bool :=
  (balKeys a b).all fun k => Bank.balOf a k.1 k.2 == Bank.balOf b k.1 k.2

/-- heights whose begin-block the operation runs -/
def runsBlock (pre : State) (op : Op) (h : Nat) : Bool :=
  match op with
  | .beginBlock h' _ => h' == h
  | .advance n _ => decide (pre.height < h) && decide (h ≤ pre.height + n)
  | _ => false

/-- is the transition `c → c'` of contract `id` allowed by the automaton, given the operation? -/
def transitionOk (pre : State) (op : Op) (accepted : Bool) (id : Id) (c c' : Contract) : Bool :=
  if c' == c then true
  else if c.state != .open then false                    -- closed is absorbing
  else if c'.state == .completed then
    match op with
    | .claim _ id' secret =>
      accepted && id' == id && genLock secret c.timestamp == c.hashLock &&
        c' == completed c secret pre.height
    | _ => false
  else if c'.state == .refunded then
    runsBlock pre op c.expiration && c' == refunded c c.expiration
  else false

/-- the contracts of `post` that are new -/
def newIds (pre post : State) : List Id := (post.htlcs.map (·.1)).filter (fun k => !(AMap.contains pre.htlcs k))

/-- direction the code must have assigned to a created contract -/
def dirOk (pre : State) (sender to : Addr) (coins : Coins) (transfer : Bool) (dir : Dir) : Bool :=
  if !transfer then dir == .none else
  match coins with
  | [(d, _)] =>
    match findAsset pre.params d with
    | some a => if sender == a.deputy then dir == Dir.incoming && to != a.deputy
                else dir == Dir.outgoing && to == a.deputy
    | none => false
  | _ => false

def createdOk (pre : State) (op : Op) (accepted : Bool) (post : State) : Bool :=
  match op with
  | .create sender to coins lock ts timeLock transfer =>
    if accepted then
      match newIds pre post with
      | [k] =>
        k == genId lock sender to coins &&
        (match AMap.get? post.htlcs k with
         | some c => c == newContract pre sender to coins lock ts timeLock transfer c.direction &&
                     dirOk pre sender to coins transfer c.direction && !blocked to && to != escrow
         | none => false)
      | _ => false
    else (newIds pre post).isEmpty
  | _ => (newIds pre post).isEmpty

/-- the balances `post` must show: `pre` adjusted by the escrow-in of created contracts and by the
payout of every contract that left the open state in this step -/
def expectedBank (pre post : State) : Bank :=
  let b1 := (newIds pre post).foldl (fun b k =>
    match AMap.get? post.htlcs k with
    | some c => payCreate b c
    | none => b) pre.bank
  pre.htlcs.foldl (fun b (e : Id × Contract) =>
    match AMap.get? post.htlcs e.1 with
    | some c' =>
      if e.2.state == .open && c'.state == .completed then payClaim b e.2
      else if e.2.state == .open && c'.state == .refunded then payRefund b e.2
      else b
    | none => b) b1

/-- an accepted claim completes its contract; a block refunds every contract due in it -/
def progressOk (pre : State) (op : Op) (accepted : Bool) (post : State) : Bool :=
  (match op with
   | .claim _ id _ =>
     !accepted || ((AMap.get? pre.htlcs id).map (·.state) == some .open &&
                   (AMap.get? post.htlcs id).map (·.state) == some .completed)
   | _ => true) &&
  pre.htlcs.all fun e =>
    !(e.2.state == .open && runsBlock pre op e.2.expiration) ||
      (AMap.get? post.htlcs e.1).map (·.state) == some .refunded

def automatonOk (pre : State) (op : Op) (accepted : Bool) (post : State) : Bool :=
  pre.htlcs.all fun e =>
    match AMap.get? post.htlcs e.1 with
    | some c' => transitionOk pre op accepted e.1 e.2 c'
    | none => false

/-- the queue bijection, executable -/
def queueOk (s : State) : Bool :=
  s.htlcs.all (fun e => !(e.2.state == .open) ||
    (s.queue.filter (fun q => q.2 == e.1)) == [(e.2.expiration, e.1)]) &&
  s.queue.all (fun q =>
    match AMap.get? s.htlcs q.2 with
    | some c => c.state == .open && c.expiration == q.1
    | none => false)

/-- a claim is accepted only before the expiration height (begin-block ran first) -/
def claimInTime (pre : State) (op : Op) (accepted : Bool) : Bool :=
  match op with
  | .claim _ id _ =>
    !accepted || (match AMap.get? pre.htlcs id with
                  | some c => decide (pre.height < c.expiration)
                  | none => false)
  | _ => true

/-- the "if" direction: a well-formed claim presenting the preimage bound to the contract's
timestamp, on an open contract whose payout the ledger can carry (`claimFunds`: the escrow covers
a plain / outgoing contract, the asset counters admit an incoming one), is accepted -/
def claimLiveOk (pre : State) (op : Op) (accepted : Bool) : Bool :=
  match op with
  | .claim _ id secret =>
    accepted ||
      (match AMap.get? pre.htlcs id with
       | some c =>
         !(c.state == .open && hexOk64 id && hexOk64 secret && genLock secret c.timestamp == c.hashLock &&
           (match claimFunds pre c with | .ok _ => true | .error _ => false))
       | none => true)
  | _ => true

/-- no stale queue entry: everything queued is in the future -/
def queueFutureOk (s : State) : Bool := s.queue.all fun q => decide (s.height < q.1)

end Irismod.Spec.C03
