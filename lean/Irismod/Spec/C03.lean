/-
C03 — HTLC: locked funds leave escrow exactly once — by secret, else refund at expiry.

(a) `Prop` invariants / step relations used by the theorems of `Props/C03.lean`;
(b) the `Bool` monitor evaluated on the *implementation's* observation stream: for one step
    `pre --op/accepted--> post` it checks the state automaton of every contract, that the bank
    moved exactly by the payouts attributable to the contracts that changed state (and by the
    escrow-in of a created one), that nothing moves on a rejection, and the queue bijection.
Core Lean only.
-/
import Irismod.Model.Htlc

namespace Irismod.Spec.C03
open Irismod Irismod.Sdk Irismod.Htlc

/-! ### invariants (Prop) -/

/-- every open contract has exactly one queue entry, at its expiration; every entry refers to
an open contract expiring at the entry's height (shared with C13) -/
def QueueInv (s : State) : Prop :=
  s.queue.Nodup ∧
  (∀ id c, AMap.get? s.htlcs id = some c → c.state = .open → (c.expiration, id) ∈ s.queue) ∧
  (∀ h id, (h, id) ∈ s.queue → ∃ c, AMap.get? s.htlcs id = some c ∧ c.state = .open ∧ c.expiration = h)

/-- every queued height is still in the future (begin-block of the current height has run) -/
def QueueFuture (s : State) : Prop := ∀ h id, (h, id) ∈ s.queue → s.height < h

/-- the state of contract `id`, `none` when it does not exist -/
def stateOf (s : State) (id : Id) : Option HState := (AMap.get? s.htlcs id).map (·.state)

/-- `id` is open before the step by `op` and closed after it: the step in which the contract's
funds leave escrow -/
def closesIn (s : State) (op : Op) (id : Id) : Prop :=
  stateOf s id = some .open ∧ stateOf (apply s op) id ≠ some .open

/-! ### payouts (specification-level ledger functions, independent of the handlers) -/

/-- credit `cs` to `a` -/
def credit (b : Bank) (a : Addr) (cs : Coins) : Bank := addCoins b a cs

/-- debit `cs` from `a` when covered (natural subtraction otherwise never used) -/
def debit (b : Bank) (a : Addr) : Coins → Bank
  | [] => b
  | (d, n) :: r => debit (Bank.setBal b a d (Bank.balOf b a d - n)) a r

/-- what a claim of `c` does to the bank: plain — escrow → recipient; incoming — minted into
the escrow and passed on to the recipient; outgoing — burnt from escrow -/
def payClaim (b : Bank) (c : Contract) : Bank :=
  if c.transfer then
    match c.direction with
    | .incoming => credit (debit (mintCoins b escrow c.amount) escrow c.amount) c.to c.amount
    | .outgoing => subSupply (debit b escrow c.amount) c.amount
    | .none => b
  else credit (debit b escrow c.amount) c.to c.amount

/-- what the refund of `c` does to the balances: plain / outgoing — escrow → sender; incoming — nothing -/
def payRefund (b : Bank) (c : Contract) : Bank :=
  if c.transfer && c.direction == .incoming then b
  else credit (debit b escrow c.amount) c.sender c.amount

/-- what the creation of `c` does to the balances: plain / outgoing — sender → escrow; incoming — nothing -/
def payCreate (b : Bank) (c : Contract) : Bank :=
  if c.transfer && c.direction == .incoming then b
  else credit (debit b c.sender c.amount) escrow c.amount

/-! ### monitor (Bool) -/

def balKeys (a b : Bank) : List (Addr × Denom) := a.bal.map (·.1) ++ b.bal.map (·.1)

def sameBalances (a b : Bank) : Bool :=
  (balKeys a b).all fun k => Bank.balOf a k.1 k.2 == Bank.balOf b k.1 k.2

/-- heights whose begin-block the operation runs -/
def runsBlock (pre : State) (op : Op) (h : Nat) : Bool :=
  match op with
  | .beginBlock h' _ => h' == h
  | .advance n _ => decide (pre.height < h) && decide (h ≤ pre.height + n)
  | _ => false

/-- is the transition `c → c'` of contract `id` allowed by the automaton, given the operation? -/
def transitionOk (pre : State) (op : Op) (accepted : Bool) (id : Id) (c c' : Contract) : Bool :=
  if c' == c then true
  else if c.state != .open then false                    -- closed is absorbing
  else if c'.state == .completed then
    match op with
    | .claim _ id' secret =>
      accepted && id' == id && genLock secret c.timestamp == c.hashLock &&
        c' == completed c secret pre.height
    | _ => false
  else if c'.state == .refunded then
    runsBlock pre op c.expiration && c' == refunded c c.expiration
  else false

/-- the contracts of `post` that are new -/
def newIds (pre post : State) : List Id := (post.htlcs.map (·.1)).filter (fun k => !(AMap.contains pre.htlcs k))

/-- direction the code must have assigned to a created contract -/
def dirOk (pre : State) (sender to : Addr) (coins : Coins) (transfer : Bool) (dir : Dir) : Bool :=
  if !transfer then dir == .none else
  match coins with
  | [(d, _)] =>
    match findAsset pre.params d with
    | some a => if sender == a.deputy then dir == Dir.incoming && to != a.deputy
                else dir == Dir.outgoing && to == a.deputy
    | none => false
  | _ => false

def createdOk (pre : State) (op : Op) (accepted : Bool) (post : State) : Bool :=
  match op with
  | .create sender to coins lock ts timeLock transfer =>
    if accepted then
      match newIds pre post with
      | [k] =>
        k == genId lock sender to coins &&
        (match AMap.get? post.htlcs k with
         | some c => c == newContract pre sender to coins lock ts timeLock transfer c.direction &&
                     dirOk pre sender to coins transfer c.direction && !blocked to && to != escrow
         | none => false)
      | _ => false
    else (newIds pre post).isEmpty
  | _ => (newIds pre post).isEmpty

/-! #### the pay-once ledger clause

Every contract record determines, for every account and denom, what the contract has moved so far:
its escrow-in at creation (plain / outgoing: sender → escrow), its claim payout (plain: escrow →
recipient; incoming: minted to the recipient; outgoing: burnt from escrow) and its refund (plain /
outgoing: escrow → sender).  The clause demands that between two observations every balance
changed by exactly the change of these record-determined amounts — additive in ℕ, independent of
the order in which a block handles its due contracts. -/

/-- the contract's funds sit in (or went through) the escrow: plain or outgoing -/
def funded (c : Contract) : Bool := !c.transfer || c.direction == .outgoing

/-- a claim pays the recipient: plain or incoming -/
def paysTo (c : Contract) : Bool := !c.transfer || c.direction == .incoming

/-- what contract `c` has taken out of account `a` in denom `d` so far -/
def ledgerOut (a : Addr) (d : Denom) (c : Contract) : Nat :=
  (if funded c && a == c.sender then coinAmt c.amount d else 0) +
  (if funded c && c.state != .open && a == escrow then coinAmt c.amount d else 0)

/-- what contract `c` has put into account `a` in denom `d` so far -/
def ledgerIn (a : Addr) (d : Denom) (c : Contract) : Nat :=
  (if funded c && a == escrow then coinAmt c.amount d else 0) +
  (if paysTo c && c.state == .completed && a == c.to then coinAmt c.amount d else 0) +
  (if funded c && c.state == .refunded && a == c.sender then coinAmt c.amount d else 0)

def outSum (s : State) (a : Addr) (d : Denom) : Nat := AMap.sumBy (ledgerOut a d) s.htlcs
def inSum (s : State) (a : Addr) (d : Denom) : Nat := AMap.sumBy (ledgerIn a d) s.htlcs

/-- balance of `(a,d)` moved from `pre` to `post` by exactly the contracts' ledger change -/
def ledgerAt (pre post : State) (a : Addr) (d : Denom) : Bool :=
  Bank.balOf post.bank a d + outSum post a d + inSum pre a d
    == Bank.balOf pre.bank a d + outSum pre a d + inSum post a d

/-- the accounts / denoms the two observations mention -/
def ledgerKeys (pre post : State) : List (Addr × Denom) :=
  balKeys pre.bank post.bank ++
  ((pre.htlcs ++ post.htlcs).map fun e =>
    (e.2.amount.map fun c => [(escrow, c.1), (e.2.sender, c.1), (e.2.to, c.1)]).flatten).flatten

def ledgerOk (pre post : State) : Bool := (ledgerKeys pre post).all fun k => ledgerAt pre post k.1 k.2

/-- an accepted claim completes its contract; a block refunds every contract due in it -/
def progressOk (pre : State) (op : Op) (accepted : Bool) (post : State) : Bool :=
  (match op with
   | .claim _ id _ =>
     !accepted || ((AMap.get? pre.htlcs id).map (·.state) == some .open &&
                   (AMap.get? post.htlcs id).map (·.state) == some .completed)
   | _ => true) &&
  pre.htlcs.all fun e =>
    !(e.2.state == .open && runsBlock pre op e.2.expiration) ||
      (AMap.get? post.htlcs e.1).map (·.state) == some .refunded

def automatonOk (pre : State) (op : Op) (accepted : Bool) (post : State) : Bool :=
  pre.htlcs.all fun e =>
    match AMap.get? post.htlcs e.1 with
    | some c' => transitionOk pre op accepted e.1 e.2 c'
    | none => false

/-- the queue bijection, executable -/
def queueOk (s : State) : Bool :=
  s.htlcs.all (fun e => !(e.2.state == .open) ||
    (s.queue.filter (fun q => q.2 == e.1)) == [(e.2.expiration, e.1)]) &&
  s.queue.all (fun q =>
    match AMap.get? s.htlcs q.2 with
    | some c => c.state == .open && c.expiration == q.1
    | none => false)

/-- a claim is accepted only before the expiration height (begin-block ran first) -/
def claimInTime (pre : State) (op : Op) (accepted : Bool) : Bool :=
  match op with
  | .claim _ id _ =>
    !accepted || (match AMap.get? pre.htlcs id with
                  | some c => decide (pre.height < c.expiration)
                  | none => false)
  | _ => true

/-- the "if" direction: a well-formed claim presenting the preimage bound to the contract's
timestamp, on an open contract whose payout the ledger can carry (`claimFunds`: the escrow covers
a plain / outgoing contract, the asset counters admit an incoming one), is accepted -/
def claimLiveOk (pre : State) (op : Op) (accepted : Bool) : Bool :=
  match op with
  | .claim _ id secret =>
    accepted ||
      (match AMap.get? pre.htlcs id with
       | some c =>
         !(c.state == .open && hexOk64 id && hexOk64 secret && genLock secret c.timestamp == c.hashLock &&
           (match claimFunds pre c with | .ok _ => true | .error _ => false))
       | none => true)
  | _ => true

/-- no stale queue entry: everything queued is in the future -/
def queueFutureOk (s : State) : Bool := s.queue.all fun q => decide (s.height < q.1)


/-- the explicit block of the operation continues the chain of consecutive heights -/
def chainOpB (pre : State) (op : Op) : Bool :=
  match op with
  | .beginBlock h _ => h == pre.height + 1
  | _ => true

def isBlockOp : Op → Bool
  | .beginBlock _ _ => true
  | .advance _ _ => true
  | _ => false

/-- nothing at all changed (a rejected message) -/
def sameTables (a b : State) : Bool :=
  a.htlcs == b.htlcs && a.queue == b.queue && a.supplies == b.supplies && a.params == b.params &&
  a.prevTime == b.prevTime && a.height == b.height && a.time == b.time &&
  sameBalances a.bank b.bank && a.bank.supply == b.bank.supply

/-- clauses common to every htlc monitor: the step did not panic, a block was not aborted -/
def liveFails (op : Op) (accepted panicked : Bool) : List String :=
  (if panicked then ["panic"] else []) ++
  (if isBlockOp op && !accepted then ["begin-block-aborted"] else [])

/-- **the C03 monitor**: names of the clauses that fail on the step `pre --op--> post` with the
given verdict.  `consecutive`: all explicit blocks of the history so far, this one included,
continued the chain of heights (`chainOpB`). -/
def stepFails (consecutive : Bool) (pre : State) (op : Op) (accepted panicked : Bool) (post : State) : List String :=
  liveFails op accepted panicked ++
  (if automatonOk pre op accepted post then [] else ["automaton"]) ++
  (if createdOk pre op accepted post then [] else ["created"]) ++
  (if progressOk pre op accepted post then [] else ["progress"]) ++
  (if ledgerOk pre post then [] else ["paid-once"]) ++
  (if !accepted && !(sameTables pre post) then ["rejected-moves-nothing"] else []) ++
  (if claimLiveOk pre op accepted then [] else ["right-secret-rejected"]) ++
  (if queueOk post then [] else ["queue-bijection"]) ++
  (if consecutive && queueFutureOk pre then
     (if claimInTime pre op accepted then [] else ["claim-after-expiry"]) ++
     (if queueFutureOk post then [] else ["stale-queue-entry"])
   else [])

/-- **the HTLC slice of the C13 monitor** -/
def stepFails13 (consecutive : Bool) (pre : State) (op : Op) (accepted panicked : Bool) (post : State) : List String :=
  liveFails op accepted panicked ++
  (if progressOk pre op accepted post then [] else ["due-not-processed"]) ++
  (if automatonOk pre op accepted post then [] else ["processed-exactly-once"]) ++
  (if queueOk post then [] else ["queue-bijection"]) ++
  (if consecutive && queueFutureOk pre then
     (if queueFutureOk post then [] else ["stale-queue-entry"])
   else [])

/-- the clauses evaluated on the observation of a reset line (C03 and C13) -/
def resetFails (s : State) : List String := if queueOk s then [] else ["queue-bijection"]

end Irismod.Spec.C03
