/-
C11 — determinism. Executable statements over the regenerated site table
(`Irismod.Gen.Nondet`): every place in the modules' state-machine code that reads the host
clock, a random source or the environment, ranges over a Go map, does floating-point math,
could hold process-local state (a keeper field, a package-level variable written from a
function, a `sync` primitive), starts a goroutine, sorts unstably, or touches `os` / `runtime` /
`unsafe`, must be on the reviewed allow-list below.
-/
import Irismod.Gen.Nondet

namespace Irismod.Spec.C11
open Irismod.Gen.Nondet

structure Allowed where
  file : String
  func : String
  kind : String
  callee : String
  reason : String

/-- reviewed sites whose value cannot reach state, transaction results or exported genesis -/
def allowList : List Allowed := [
  ⟨"modules/htlc/types/params_legacy.go", "<package-init>", "clock", "time.Now",
   "DefaultPreviousBlockTime: default-genesis convenience value; a genesis file is chain input, and the ExportGenesis fallback is unreachable once InitGenesis has stored the previous block time"⟩,
  ⟨"modules/mt/keeper/balance.go", "sortedKeys", "map-range", "map[string]V", "keys are collected and sorted before use"⟩,
  ⟨"modules/mt/types/genesis.go", "ValidateGenesis", "map-range", "map[string]uint64", "order decides only which error text is reported; accept/reject is order-independent"⟩,
  ⟨"modules/nft/keeper/invariants.go", "SupplyInvariant", "map-range", "map[string]uint64", "crisis invariant message only; broken flag is order-independent"⟩,
  ⟨"modules/nft/migrations/v2/store.go", "Migrate", "clock", "time.Now", "migration duration, logged only"⟩,
  ⟨"modules/nft/migrations/v2/store.go", "Migrate", "clock", "time.Since", "migration duration, logged only"⟩,
  ⟨"modules/nft/migrations/v2/keeper.go", "UnsafeBytesToStr", "env", "unsafe.Pointer", "zero-copy []byte -> string conversion in the v2 store migration; the value is the same as string(b)"⟩,
  ⟨"modules/nft/migrations/v2/keeper.go", "UnsafeStrToBytes", "env", "unsafe.Pointer", "zero-copy string -> []byte conversion in the v2 store migration; the bytes are only read"⟩,
  ⟨"modules/oracle/types/aggregate.go", "RegisterAggregateFunc", "package-var-write", "types.router", "aggregate-function registry filled at program initialisation (init) with the three built-ins; no caller at run time"⟩,
  ⟨"modules/oracle/types/aggregate.go", "init", "package-var-write", "types.router", "as above"⟩,
  ⟨"modules/token/types/v1/genesis.go", "GetNativeToken", "package-var-write", "v1.Initialized", "application constant: set once by the application before genesis or lazily to a fixed default; read only by DefaultParams / DefaultGenesisState (a genesis file is chain input)"⟩,
  ⟨"modules/token/types/v1/genesis.go", "GetNativeToken", "package-var-write", "v1.nativeToken", "as above"⟩,
  ⟨"modules/token/types/v1/genesis.go", "SetNativeToken", "package-var-write", "v1.Initialized", "as above (application wiring)"⟩,
  ⟨"modules/token/types/v1/genesis.go", "SetNativeToken", "package-var-write", "v1.nativeToken", "as above (application wiring)"⟩,
  ⟨"modules/token/types/v1beta1/genesis.go", "GetNativeToken", "package-var-write", "v1beta1.Initialized", "as v1"⟩,
  ⟨"modules/token/types/v1beta1/genesis.go", "GetNativeToken", "package-var-write", "v1beta1.nativeToken", "as v1"⟩,
  ⟨"modules/token/types/v1beta1/genesis.go", "SetNativeToken", "package-var-write", "v1beta1.Initialized", "as v1"⟩,
  ⟨"modules/token/types/v1beta1/genesis.go", "SetNativeToken", "package-var-write", "v1beta1.nativeToken", "as v1"⟩,
  ⟨"modules/oracle/types/aggregate.go", "Avg", "float", "strconv.FormatFloat", "IEEE-754 add/div and shortest-decimal formatting are platform-independent (no fused multiply-add shape)"⟩,
  ⟨"modules/oracle/types/aggregate.go", "Max", "float", "math.SmallestNonzeroFloat64", "constant"⟩,
  ⟨"modules/oracle/types/aggregate.go", "Max", "float", "strconv.FormatFloat", "comparison and formatting only"⟩,
  ⟨"modules/oracle/types/aggregate.go", "Min", "float", "math.MaxFloat64", "constant"⟩,
  ⟨"modules/oracle/types/aggregate.go", "Min", "float", "strconv.FormatFloat", "comparison and formatting only"⟩,
  ⟨"modules/random/genesis.go", "InitGenesis", "map-range", "map[string]types.Requests", "each entry is written under its own (height, request id) key; final store content is order-independent"⟩,
  ⟨"modules/random/types/genesis.go", "ValidateGenesis", "map-range", "map[string]types.Requests", "error text only"⟩,
  ⟨"modules/random/types/rng.go", "PRNG.Intn", "random", "math/rand.New", "seeded from chain data (NewSource(seed)), not the global source"⟩,
  ⟨"modules/random/types/rng.go", "PRNG.Intn", "random", "math/rand.NewSource", "seeded from chain data"⟩,
  ⟨"modules/service/abci.go", "EndBlocker", "map-range", "map[string][]string", "emits events only (events are not part of state, tx result code/data/gas or genesis)"⟩,
  ⟨"modules/service/genesis.go", "getSortedKeys", "map-range", "map[string]T", "keys are collected and sorted before use"⟩,
  ⟨"modules/service/keeper/module_service.go", "Keeper.GetModuleServiceByServiceName", "map-range", "map[string]*types.ModuleService", "lookup by unique service name"⟩,
  ⟨"modules/service/types/genesis.go", "ValidateGenesis", "map-range", "map[string]*types.RequestContext", "error text only"⟩,
  ⟨"modules/service/types/genesis.go", "ValidateGenesis", "map-range", "map[string]string", "error text only"⟩,
  ⟨"modules/token/keeper/ante.go", "ValidateTokenFeeDecorator.AnteHandle", "map-range", "map[string]types.Coin", "keys are collected and sorted before use"⟩,
  ⟨"modules/token/keeper/fees.go", "calcFeeFactor", "float", "math.Log", "pure-Go implementation on amd64/arm64; result rounded to 2 decimals, table checked by C09's harness"⟩,
  ⟨"modules/token/keeper/fees.go", "calcFeeFactor", "float", "math.Pow", "as above"⟩,
  ⟨"modules/token/keeper/fees.go", "calcFeeFactor", "float", "strconv.FormatFloat", "as above"⟩
]

/-- keeper fields: stateless wiring (store keys, codecs, other keepers, names) and
    maps/registries filled once at application wiring, before genesis -/
def wiringFields : List String := [
  "ak types.AccountKeeper", "bk types.BankKeeper", "accountKeeper types.AccountKeeper",
  "bankKeeper types.BankKeeper", "authority string", "feeCollectorName string",
  "communityPoolName string", "cdc codec.Codec", "cdc codec.BinaryCodec",
  "storeKey types.StoreKey", "storeService store.KVStoreService", "nk keeper.Keeper",
  "ck types.CoinswapKeeper", "dk types.DistrKeeper", "gk types.GovKeeper",
  "sk types.ServiceKeeper", "serviceKeeper types.ServiceKeeper",
  "evmKeeper types.EVMKeeper", "ics20Keeper types.ICS20Keeper",
  "blockedAddrs map[string]bool",
  "moduleServices map[string]*types.ModuleService",
  "respCallbacks map[string]types.ResponseCallback",
  "stateCallbacks map[string]types.StateCallback",
  "registry v1.SwapRegistry"]

def siteAllowed (s : Site) : Bool :=
  if s.kind = "keeper-field" then wiringFields.contains s.callee
  else
    allowList.any fun a => a.file = s.file && a.func = s.func && a.kind = s.kind && a.callee = s.callee

/-- the property's source-level clause: no unreviewed nondeterminism site -/
def allSitesAllowed : Bool := sites.all siteAllowed

def offending : List Site := sites.filter (fun s => !siteAllowed s)

end Irismod.Spec.C11
