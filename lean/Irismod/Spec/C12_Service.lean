/-
C12 (service slice) — exported state re-imports and preserves what users rely on.
Monitor functions evaluated on the implementation's observations of the ops `service export` /
`service reimport` / `service prep_reimport`, and the propositions the theorems of
`Props/C12_Service.lean` are about.  Core Lean only.

What users rely on: service definitions, bindings (owner, deposit, pricing, QoS, availability), the
provider ↦ owner index, withdraw addresses, request contexts, and their money: the fees of their
open requests (consumers), their earned fees (providers / owners), their deposits.
What the module documents as not exported: requests, responses, request volumes, both earned-fee
tallies, both batch queues.  `PrepForZeroHeightGenesis` is the module's own way of settling the
money behind those before an export: fees of open requests back to the consumers, earned fees out
to the providers, every context paused with a completed, empty batch.

Known findings the monitor classifies:
* F-gen-6  — the plain export of a state with a context that is not PAUSED / batch-COMPLETED is
             rejected by the module's own `ValidateGenesis` (so `InitGenesis` panics);
* F-gen-14 — a plain export that *is* accepted drops the earned fees (and nothing pays them out):
             the coins stay in the request escrow of the re-imported chain, owed to nobody.
-/
import Irismod.Model.ServiceGenesis
import Irismod.Spec.C07

namespace Irismod.Spec.C12S
open Irismod Irismod.Sdk Irismod.Service Irismod.ServiceGenesis Irismod.Spec.C07

structure Fail where
  clause : String
  cls    : String := ""
  deriving Repr, Inhabited

/-- some stored context is not in the only shape `ValidateGenesis` accepts -/
def hasLiveCtx (s : State) : Bool := s.ctxs.any fun e => !(ctxQuiet e.2)

/-- the same finite map (as the store sees it: by key lookup) -/
def sameMap {K V : Type} [DecidableEq K] [DecidableEq V] (a b : AMap K V) : Bool :=
  (a.all fun e => AMap.get? b e.1 == AMap.get? a e.1) && (b.all fun e => AMap.get? a e.1 == AMap.get? b e.1)

def sameSet {A : Type} [DecidableEq A] (a b : List A) : Bool := a.all (b.contains ·) && b.all (a.contains ·)

/-- the context map with `f` applied to every stored context -/
def ctxsAre (f : Ctx → Ctx) (pre post : State) : Bool :=
  (pre.ctxs.all fun e => AMap.get? post.ctxs e.1 == (AMap.get? pre.ctxs e.1).map f) &&
  (post.ctxs.all fun e => (AMap.get? pre.ctxs e.1).isSome)

/-- definitions, bindings (with owner, deposit, pricing, QoS, availability), owner indexes, withdraw addresses -/
def registrySame (pre post : State) : Bool :=
  sameMap pre.defs post.defs && sameMap pre.binds post.binds && sameMap pre.owners post.owners &&
  sameSet pre.ownerProv post.ownerProv && sameMap pre.wd post.wd

/-- what the consumer `a` is refunded for the requests `l`: the fees of those whose context it owns -/
def refundToL (s : State) (l : List ReqId) (a : Addr) (d : Denom) : Nat :=
  sumList (l.map fun rid =>
    match getRequest s rid with
    | some (rq, rc) => if rc.consumer = a ∧ rq.feeDenom = d then rq.feeAmt else 0
    | none => 0)

/-- what the consumer `a` is refunded by the prepare step: the fees of the active requests of its contexts -/
def refundTo (s : State) (a : Addr) (d : Denom) : Nat := refundToL s s.active a d

/-- what the escrow owes: fees of open requests + earned fees -/
def liabilities (s : State) (d : Denom) : Nat := activeFee s d + earnedSum s d

/-- `service export`: the verdict of the real `ValidateGenesis` on the real exported document -/
def checkExport (pre : State) (validateOk : Bool) : List Fail :=
  if validateOk then []
  else if hasLiveCtx pre then [{ clause := "export-invalid", cls := "F-gen-6" }]
  else [{ clause := "export-invalid" }]

/-- `service reimport`: wipe + `InitGenesis(ExportGenesis)` -/
def checkReimport (ds : List Denom) (pre post : State) (ok : Bool) : List Fail :=
  if !ok then
    if hasLiveCtx pre then [{ clause := "reimport-failed", cls := "F-gen-6" }] else [{ clause := "reimport-failed" }]
  else
    (if registrySame pre post then [] else [{ clause := "reimport-changed-registry" : Fail }]) ++
    (if ctxsAre id pre post then [] else [{ clause := "reimport-changed-contexts" : Fail }]) ++
    (if balsSameExcept ds pre post [] then [] else [{ clause := "reimport-moved-coins" : Fail }]) ++
    -- the money behind the dropped objects: open-request fees and earned fees must not be left without a claim
    (if ds.all (fun d => liabilities pre d == 0) then []
     else [{ clause := "dropped-liabilities-stranded", cls := "F-gen-14" : Fail }])

/-- `service prep_reimport`: `PrepForZeroHeightGenesis`, then wipe + `InitGenesis(ExportGenesis)` -/
def checkPrepReimport (ds : List Denom) (pre post : State) (ok : Bool) : List Fail :=
  if !ok then [{ clause := "prep-reimport-failed" }]
  else
    (if registrySame pre post then [] else [{ clause := "prep-reimport-changed-registry" : Fail }]) ++
    (if ctxsAre resetCtx pre post then [] else [{ clause := "prep-reimport-contexts" : Fail }]) ++
    -- exact payouts: every user account gets the fees of its open requests and its earned fees, nothing else moves
    (if users.all (fun a => ds.all fun d =>
        Bank.balOf post.bank a d == Bank.balOf pre.bank a d + refundTo pre a d + earnedOf pre a d) then []
     else [{ clause := "prep-payouts-exact" : Fail }]) ++
    (if ds.all (fun d => Bank.balOf post.bank reqAcc d + liabilities pre d == Bank.balOf pre.bank reqAcc d) then []
     else [{ clause := "prep-escrow-exact" : Fail }]) ++
    (if ds.all (fun d => Bank.balOf post.bank depAcc d == Bank.balOf pre.bank depAcc d &&
                         Bank.balOf post.bank fcAcc d == Bank.balOf pre.bank fcAcc d) then []
     else [{ clause := "prep-other-escrows-untouched" : Fail }]) ++
    -- nothing is owed any more on the new chain
    (if ds.all (fun d => liabilities post d == 0) then [] else [{ clause := "prep-liabilities-settled" : Fail }])

end Irismod.Spec.C12S
