/-
C07 — Service: deposits and fees are conserved across escrow, providers and consumers.

(a) the ledger projections and the three `Prop` invariants the theorems of `Props/C07.lean`
    are about (deposit escrow, request escrow, owner/provider tallies);
(b) the executable monitor evaluated by the driver on the *implementation's* observation
    stream: state clauses after every step and step clauses `pre --op--> post`.

The monitor states the property at full strength.  Where the code is known to violate it the
failing clause carries the finding's class, decided by an exact accounting of the defect
(never by "some failure happened"):
  F-svc-1  charge ≠ Σ fees because a promotion discount applied: the gap must be exactly
           Σ (undiscounted price − recorded fee) of the requests created in that block.
The former classes F-svc-2 (stale owner tally) and F-svc-4 (partial debit of a failed deduction) are
repaired in /repo; such failures are reported unclassified again.
-/
import Irismod.Model.Service

namespace Irismod.Spec.C07
open Irismod Irismod.Sdk Irismod.Service

/-! ### ledger projections -/

def sumList : List Nat → Nat
  | [] => 0
  | a :: t => a + sumList t

def feeIn (rq : Req) (d : Denom) : Nat := if rq.feeDenom = d then rq.feeAmt else 0

/-- the fee (in `d`) recorded on request `rid` -/
def reqFee (s : State) (rid : ReqId) (d : Denom) : Nat :=
  match AMap.get? s.reqs rid with
  | some rq => feeIn rq d
  | none => 0

/-- Σ of the fees of the requests still awaiting a response -/
def activeFee (s : State) (d : Denom) : Nat := sumList (s.active.map (fun rid => reqFee s rid d))

/-- Σ over providers of the earned fees not yet withdrawn -/
def earnedSum (s : State) (d : Denom) : Nat := AMap.sumIf (fun k : Addr × Denom => k.2 = d) id s.earned

/-- Σ of the deposits recorded on the bindings -/
def depositSum (s : State) : Nat := AMap.sumBy (fun b : Binding => b.deposit) s.binds

def ownedBy (s : State) (o p : Addr) : Bool := AMap.get? s.owners p == some o

/-- provider-side total of owner `o` -/
def providersEarned (s : State) (o : Addr) (d : Denom) : Nat :=
  AMap.sumIf (fun k : Addr × Denom => k.2 = d && ownedBy s o k.1) id s.earned

/-- owner-side tally -/
def ownerEarned (s : State) (o : Addr) (d : Denom) : Nat :=
  AMap.sumIf (fun k : Addr × Denom => k.1 = o && k.2 = d) id s.oearned

/-! ### the invariants (statements; proved in `Props/C07.lean`) -/

/-- the deposit escrow holds exactly the recorded deposits -/
def DepositInv (s : State) : Prop :=
  ∀ d, Bank.balOf s.bank depAcc d = if d = s.params.base then depositSum s else 0

/-- the request escrow holds exactly the fees of the active requests plus the earned fees -/
def EscrowInv (s : State) : Prop :=
  ∀ d, Bank.balOf s.bank reqAcc d = activeFee s d + earnedSum s d

/-- provider-side and owner-side tallies agree -/
def TallyInv (s : State) : Prop := ∀ o d, providersEarned s o d = ownerEarned s o d

/-! ### monitor -/

structure Fail where
  clause : String
  cls    : String := ""
  deriving Repr, Inhabited

/-- what the monitor remembers along one history: funds the known defect left behind -/
structure Mon where
  stranded : AMap Denom Nat := []            -- F-svc-1: escrow surplus without liability
  deriving Repr, Inhabited

def users : List Addr := ["A0", "A1", "A2", "A3", "A4", "A5", "A6", "A7", "A8", "A9"]
def accounts : List Addr := users ++ [depAcc, reqAcc, fcAcc]

def bal (s : State) (a : Addr) (d : Denom) : Int := (Bank.balOf s.bank a d : Nat)

def earnedOf (s : State) (p : Addr) (d : Denom) : Nat :=
  AMap.sumIf (fun k : Addr × Denom => k.1 = p && k.2 = d) id s.earned

def owners (s : State) : List Addr := (s.owners.map (·.2)).eraseDups

/-- balances unchanged except for the listed (account, denom) pairs -/
def balsSameExcept (ds : List Denom) (pre post : State) (ex : List (Addr × Denom)) : Bool :=
  accounts.all fun a => ds.all fun d => ex.contains (a, d) || bal post a d == bal pre a d

def depositsSameExcept (pre post : State) (ex : List (String × Addr)) : Bool :=
  (pre.binds.map (·.1) ++ post.binds.map (·.1)).all fun k =>
    ex.contains k || (AMap.get? post.binds k).map (·.deposit) == (AMap.get? pre.binds k).map (·.deposit)

def earnedSameExcept (ds : List Denom) (pre post : State) (exP exO : List Addr) : Bool :=
  accounts.all fun a => ds.all fun d =>
    (exP.contains a || earnedOf post a d == earnedOf pre a d) &&
    (exO.contains a || ownerEarned post a d == ownerEarned pre a d)

def requestsSame (pre post : State) : Bool :=
  pre.active.all (post.active.contains ·) && post.active.all (pre.active.contains ·) &&
  pre.reqs.all (fun e => AMap.get? post.reqs e.1 == some e.2) && post.reqs.all (fun e => AMap.get? pre.reqs e.1 == some e.2)

/-- nothing of the ledger moved -/
def ledgerSame (ds : List Denom) (pre post : State) : Bool :=
  balsSameExcept ds pre post [] && depositsSameExcept pre post [] && earnedSameExcept ds pre post [] [] &&
  requestsSame pre post

/-- state clauses -/
def depositEscrowOk (ds : List Denom) (s : State) : Bool :=
  ds.all fun d => Bank.balOf s.bank depAcc d == (if d = s.params.base then depositSum s else 0)

def requestEscrowOk (ds : List Denom) (m : Mon) (s : State) : Bool :=
  ds.all fun d => Bank.balOf s.bank reqAcc d == activeFee s d + earnedSum s d + AMap.getD m.stranded d 0

def tallyOk (ds : List Denom) (s : State) : Bool :=
  (owners s).all fun o => ds.all fun d => ownerEarned s o d == providersEarned s o d

/-- requests created / expired by one `EndBlocker` -/
def createdIn (pre post : State) : List ReqId := post.active.filter (fun r => !(pre.active.contains r))
def expiredIn (pre post : State) : List ReqId := pre.active.filter (fun r => !(post.active.contains r))

def priceIn (pre post : State) (rid : ReqId) (d : Denom) : Nat :=
  match AMap.get? post.reqs rid with
  | none => 0
  | some rq =>
    match AMap.get? pre.binds ((getCtx post rid.ctx).svc, rq.provider) with
    | none => 0
    | some b => if b.pricing.denom = d then b.pricing.amount else 0

/-- `k` successive slashes of a deposit -/
def slashTimes (fr : Dec) : Nat → Nat → Nat
  | 0, dep => dep
  | k + 1, dep => slashTimes fr k (dep - mulTrunc dep fr)

/-- the step clauses of an `EndBlocker` (`next`) -/
def checkNext (ds : List Denom) (m : Mon) (pre post : State) : Mon × List Fail :=
  let created := createdIn pre post
  let expired := expiredIn pre post
  -- (charge) consumer balance change = − Σ fees of the requests created for them + Σ refunds of their expired requests
  let chargeFails := users.flatMap fun c => ds.flatMap fun d =>
    let feeSum := sumList ((created.filter (fun r => (getCtx post r.ctx).consumer = c)).map (fun r => reqFee post r d))
    let priceSum := sumList ((created.filter (fun r => (getCtx post r.ctx).consumer = c)).map (fun r => priceIn pre post r d))
    let refund := sumList ((expired.filter (fun r => (getCtx pre r.ctx).consumer = c)).map (fun r => reqFee pre r d))
    let actual := bal post c d - bal pre c d
    let expected : Int := (refund : Int) - (feeSum : Int)
    if actual = expected then []
    else if actual = (refund : Int) - (priceSum : Int) ∧ feeSum < priceSum then
      [{ clause := "charge-eq-fees", cls := "F-svc-1" : Fail }]
    else [{ clause := "charge-eq-fees" }]
  -- (F-svc-1 bookkeeping) what this block really left in the escrow beyond the fees of the requests it created
  -- (and minus the refunds of those it expired); it is attributed to F-svc-1 only if it is exactly
  -- Σ (undiscounted price − recorded fee) of the created requests
  let surplus : AMap Denom Nat := ds.foldl (fun acc d =>
    let fee := sumList (created.map (fun r => reqFee post r d))
    let price := sumList (created.map (fun r => priceIn pre post r d))
    let refund := sumList (expired.map (fun r => reqFee pre r d))
    let actual : Int := (bal post reqAcc d - bal pre reqAcc d) - (fee : Int) + (refund : Int)
    if fee < price ∧ actual = ((price - fee : Nat) : Int) then AMap.set acc d (AMap.getD acc d 0 + (price - fee)) else acc) m.stranded
  -- (expiry) exactly the requests whose expiration height is this block leave the active set
  let expiryFails :=
    (if pre.active.all (fun r => (post.active.contains r) == !(((AMap.get? pre.reqs r).map (·.expH)) == some pre.height))
     then [] else [{ clause := "expire-at-expiration-height" : Fail }])
  -- (slash) each expired request slashes its binding once: floor(deposit · fraction), deposit escrow → fee collector
  let slashFails :=
    let perBinding := pre.binds.all fun e =>
      let k := (expired.filter (fun r => (getCtx pre r.ctx).svc = e.1.1 &&
                  ((AMap.get? pre.reqs r).map (·.provider)) == some e.1.2)).length
      ((AMap.get? post.binds e.1).map (·.deposit)) == some (slashTimes pre.params.slash k e.2.deposit)
    let moved : Int := (depositSum pre : Int) - (depositSum post : Int)
    let base := pre.params.base
    if perBinding ∧ bal post fcAcc base - bal pre fcAcc base = moved ∧ bal pre depAcc base - bal post depAcc base = moved
      ∧ ds.all (fun d => d = base || (bal post fcAcc d == bal pre fcAcc d && bal post depAcc d == bal pre depAcc d))
    then [] else [{ clause := "slash-exact" : Fail }]
  -- (frame) earned tallies do not move in an end block; non-consumer user balances neither (covered by charge)
  let frameFails := if earnedSameExcept ds pre post [] [] then [] else [{ clause := "endblock-earned-frame" : Fail }]
  let escrowFail :=
    if surplus != m.stranded then [{ clause := "request-escrow-eq-liabilities", cls := "F-svc-1" : Fail }] else []
  ({ m with stranded := surplus }, chargeFails ++ expiryFails ++ slashFails ++ frameFails ++ escrowFail)

/-- accepted `respond`: fee − ⌊fee·tax⌋ to the provider's and owner's tallies, the tax to the fee collector -/
def checkRespond (ds : List Denom) (pre post : State) (provider : Addr) (rid : ReqId) : List Fail :=
  match AMap.get? pre.reqs rid with
  | none => [{ clause := "respond-unknown-request" }]
  | some rq =>
    let d := rq.feeDenom
    let tax := mulTrunc rq.feeAmt pre.params.tax
    let net := rq.feeAmt - tax
    let owner := AMap.getD pre.owners provider ""
    if tax ≤ rq.feeAmt ∧
       bal post fcAcc d = bal pre fcAcc d + tax ∧ bal post reqAcc d = bal pre reqAcc d - tax ∧
       balsSameExcept ds pre post [(fcAcc, d), (reqAcc, d)] ∧
       earnedOf post provider d = earnedOf pre provider d + net ∧
       ownerEarned post owner d = ownerEarned pre owner d + net ∧
       (ds.all fun d' => d' = d || (earnedOf post provider d' == earnedOf pre provider d' && ownerEarned post owner d' == ownerEarned pre owner d')) ∧
       earnedSameExcept ds pre post [provider] [owner] ∧ depositsSameExcept pre post []
    then [] else [{ clause := "respond-fee-split" }]

/-- accepted withdrawal: exactly the recorded earned fees leave the escrow for the withdraw address -/
def checkWithdraw (ds : List Denom) (m : Mon) (pre post : State) (owner : Addr) (provider : Option Addr) : Mon × List Fail :=
  let wdAddr := AMap.getD pre.wd owner owner
  let paid (d : Denom) : Nat := match provider with
    | some p => earnedOf pre p d
    | none => ownerEarned pre owner d
  let moneyOk : Bool := ds.all fun d =>
    (if wdAddr = reqAcc then true
     else bal post wdAddr d == bal pre wdAddr d + paid d && bal post reqAcc d == bal pre reqAcc d - paid d) &&
    balsSameExcept ds pre post (ds.flatMap fun d => [(wdAddr, d), (reqAcc, d)])
  let cleared : Bool := match provider with
    | some p => ds.all fun d => earnedOf post p d == 0
    | none => ds.all fun d => ownerEarned post owner d == 0 &&
        (pre.owners.all fun e => e.2 != owner || earnedOf post e.1 d == 0)
  let base : List Fail := if moneyOk ∧ cleared ∧ depositsSameExcept pre post [] then [] else [{ clause := "withdraw-exact" }]
  -- the owner-side tally drops by exactly what was paid out
  let tally : Bool := ds.all fun d => ownerEarned post owner d + paid d == ownerEarned pre owner d
  (m, base ++ (if tally then [] else [{ clause := "owner-tally-eq-provider-tallies" : Fail }]))

/-- accepted deposit movements -/
def checkDeposit (ds : List Denom) (pre post : State) (owner provider : Addr) (svc : String) (amt : Nat) (isBind : Bool) : List Fail :=
  let base := pre.params.base
  let before := if isBind then 0 else ((AMap.get? pre.binds (svc, provider)).map (·.deposit)).getD 0
  if ((AMap.get? post.binds (svc, provider)).map (·.deposit)) == some (before + amt) ∧
     (owner = depAcc ∨ (bal post owner base = bal pre owner base - amt ∧ bal post depAcc base = bal pre depAcc base + amt)) ∧
     balsSameExcept ds pre post [(owner, base), (depAcc, base)] ∧ depositsSameExcept pre post [(svc, provider)] ∧
     earnedSameExcept ds pre post [] [] ∧ requestsSame pre post
  then [] else [{ clause := "deposit-move-exact" }]

def checkRefundDeposit (ds : List Denom) (pre post : State) (provider : Addr) (svc : String) : List Fail :=
  let base := pre.params.base
  match AMap.get? pre.binds (svc, provider) with
  | none => [{ clause := "refund-deposit-exact" }]
  | some b =>
    if ((AMap.get? post.binds (svc, provider)).map (·.deposit)) == some 0 ∧
       bal post b.owner base = bal pre b.owner base + b.deposit ∧ bal post depAcc base = bal pre depAcc base - b.deposit ∧
       balsSameExcept ds pre post [(b.owner, base), (depAcc, base)] ∧ depositsSameExcept pre post [(svc, provider)] ∧
       earnedSameExcept ds pre post [] [] ∧ requestsSame pre post
    then [] else [{ clause := "refund-deposit-exact" }]

def coinsBase (s : State) (c : Coins) : Nat := Coins.amountOf c s.params.base

/-- one monitor step; `accepted = false`: rejected or panicked -/
def check (ds : List Denom) (m : Mon) (pre : State) (op : Op) (accepted : Bool) (post : State) : Mon × List Fail :=
  let (m1, stepFails) : Mon × List Fail :=
    if !accepted then (m, if ledgerSame ds pre post then [] else [{ clause := "rejected-unchanged" }])
    else match op with
      | .next _ => checkNext ds m pre post
      | .skip _ _ => (m, [{ clause := "multi-block-step-not-monitorable" }])   -- one observation per block is required
      | .respond provider (some rid) _ _ _ => (m, checkRespond ds pre post provider rid)
      | .withdraw owner provider => checkWithdraw ds m pre post owner (some provider)
      | .withdrawK owner provider => checkWithdraw ds m pre post owner provider
      | .bind owner provider svc dep _ _ _ => (m, checkDeposit ds pre post owner provider svc (coinsBase pre dep) true)
      | .updateBinding owner provider svc dep _ _ _ => (m, checkDeposit ds pre post owner provider svc (coinsBase pre dep) false)
      | .enable owner provider svc dep => (m, checkDeposit ds pre post owner provider svc (coinsBase pre dep) false)
      | .refundDeposit _ provider svc => (m, checkRefundDeposit ds pre post provider svc)
      | _ => (m, if ledgerSame ds pre post then [] else [{ clause := "no-ledger-effect" }])
  let stateFails :=
    (if depositEscrowOk ds post then [] else [{ clause := "deposit-escrow-eq-deposits" : Fail }]) ++
    (if requestEscrowOk ds m1 post then [] else [{ clause := "request-escrow-eq-liabilities" : Fail }]) ++
    (if tallyOk ds post then [] else [{ clause := "owner-tally-eq-provider-tallies" : Fail }])
  (m1, stepFails ++ stateFails)

end Irismod.Spec.C07
