import Irismod.Model.Service

namespace Irismod.Spec.C07
end Irismod.Spec.C07
