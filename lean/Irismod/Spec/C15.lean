/-
C15 — MT: balances always add up to supply; only the class owner mints.

Executable (Bool) statement of the property over one step `pre --op/res--> post` and over
one state. The same functions are (a) proved of the model for every state and operation in
`Props/C15.lean` and (b) evaluated by the driver's monitor mode on the observation stream of
the real Go implementation.
-/
import Irismod.Model.Mt

namespace Irismod.Spec.C15
open Irismod Irismod.Mt

/-- Σ over holders of the balance of token `(d, m)`, in ℕ -/
def holdersSum (s : State) (d : DenomId) (m : MtId) : Nat :=
  AMap.sumIf (fun k => k.2.1 = d && k.2.2 = m) (fun v => v.toNat) s.bal

/-- state invariant: for every token, Σ holders = recorded supply (both in ℕ, so < 2^64) -/
def InvAt (s : State) (d : DenomId) (m : MtId) : Prop := holdersSum s d m = (supplyOf s d m).toNat

def Inv (s : State) : Prop := ∀ d m, InvAt s d m

/-- the finite set of token keys a state mentions -/
def tokenKeys (s : State) : List (DenomId × MtId) :=
  s.supply.map (·.1) ++ s.bal.map (fun e => (e.1.2.1, e.1.2.2)) ++ s.mts.map (·.1)

/-- executable form of `Inv` on the keys the state mentions -/
def invB (s : State) : Bool :=
  (tokenKeys s).all fun k => holdersSum s k.1 k.2 == (supplyOf s k.1 k.2).toNat

def ownerOf (s : State) (d : DenomId) : Option Addr := (AMap.get? s.denoms d).map (·.owner)

def balKeys (a b : State) : List (Addr × DenomId × MtId) := a.bal.map (·.1) ++ b.bal.map (·.1)
def supKeys (a b : State) : List (DenomId × MtId) := a.supply.map (·.1) ++ b.supply.map (·.1)
def mtKeys (a b : State) : List (DenomId × MtId) := a.mts.map (·.1) ++ b.mts.map (·.1)
def denomKeys (a b : State) : List DenomId := a.denoms.map (·.1) ++ b.denoms.map (·.1)

/-- all balances except those listed are the same in both states -/
def balsSameExcept (pre post : State) (ex : List (Addr × DenomId × MtId)) : Bool :=
  (balKeys pre post).all fun k => ex.contains k || balOf post k.1 k.2.1 k.2.2 == balOf pre k.1 k.2.1 k.2.2
def supSameExcept (pre post : State) (ex : List (DenomId × MtId)) : Bool :=
  (supKeys pre post).all fun k => ex.contains k || supplyOf post k.1 k.2 == supplyOf pre k.1 k.2
def mtsSameExcept (pre post : State) (ex : List (DenomId × MtId)) : Bool :=
  (mtKeys pre post).all fun k => ex.contains k || AMap.get? post.mts k == AMap.get? pre.mts k
def denomsSameExcept (pre post : State) (ex : List DenomId) : Bool :=
  (denomKeys pre post).all fun k => ex.contains k || AMap.get? post.denoms k == AMap.get? pre.denoms k

def sameState (pre post : State) : Bool :=
  balsSameExcept pre post [] && supSameExcept pre post [] && mtsSameExcept pre post [] &&
  denomsSameExcept pre post []

/-- what an accepted operation must have done, clause by clause (C15's statement) -/
def acceptedOk (pre : State) (op : Op) (post : State) : Bool :=
  match op with
  | .transfer sender rcpt d m n =>
    -- the sender held the amount; exactly `n` moved (ℕ arithmetic: no wrap); nothing else moved
    decide (n.toNat ≤ (balOf pre sender d m).toNat) &&
    (if sender = rcpt then balOf post sender d m == balOf pre sender d m
     else decide ((balOf post sender d m).toNat + n.toNat = (balOf pre sender d m).toNat) &&
          decide ((balOf post rcpt d m).toNat = (balOf pre rcpt d m).toNat + n.toNat)) &&
    balsSameExcept pre post [(sender, d, m), (rcpt, d, m)] &&
    supSameExcept pre post [] && mtsSameExcept pre post [] && denomsSameExcept pre post []
  | .burn sender d m n =>
    decide ((balOf post sender d m).toNat + n.toNat = (balOf pre sender d m).toNat) &&
    decide ((supplyOf post d m).toNat + n.toNat = (supplyOf pre d m).toNat) &&
    balsSameExcept pre post [(sender, d, m)] && supSameExcept pre post [(d, m)] &&
    mtsSameExcept pre post [] && denomsSameExcept pre post []
  | .mint sender d id recipient n _ =>
    let rcpt := if recipient = "" then sender else recipient
    -- only the class owner mints
    (ownerOf pre d == some sender) &&
    (if id ≠ "" then
       AMap.contains pre.mts (d, id) &&
       decide ((supplyOf post d id).toNat = (supplyOf pre d id).toNat + n.toNat) &&
       decide ((balOf post rcpt d id).toNat = (balOf pre rcpt d id).toNat + n.toNat) &&
       balsSameExcept pre post [(rcpt, d, id)] && supSameExcept pre post [(d, id)] &&
       mtsSameExcept pre post []
     else
       -- exactly one new token, with a fresh id, holding exactly `n`
       match (post.mts.map (·.1)).filter (fun k => !(AMap.contains pre.mts k)) with
       | [k] =>
         k.1 == d && !(AMap.contains pre.supply k) &&
         !((pre.bal.map (fun e => (e.1.2.1, e.1.2.2))).contains k) &&
         decide ((supplyOf post k.1 k.2).toNat = n.toNat) &&
         decide ((balOf post rcpt k.1 k.2).toNat = n.toNat) &&
         balsSameExcept pre post [(rcpt, k.1, k.2)] && supSameExcept pre post [k] &&
         mtsSameExcept pre post [k]
       | _ => false) &&
    denomsSameExcept pre post []
  | .edit sender d id _ =>
    (ownerOf pre d == some sender) && AMap.contains pre.mts (d, id) &&
    balsSameExcept pre post [] && supSameExcept pre post [] && mtsSameExcept pre post [(d, id)] &&
    denomsSameExcept pre post []
  | .transferDenom sender rcpt id =>
    (ownerOf pre id == some sender) && (ownerOf post id == some rcpt) &&
    ((AMap.get? post.denoms id).map (fun r => (r.name, r.data)) ==
      (AMap.get? pre.denoms id).map (fun r => (r.name, r.data))) &&
    balsSameExcept pre post [] && supSameExcept pre post [] && mtsSameExcept pre post [] &&
    denomsSameExcept pre post [id]
  | .issueDenom sender _ _ =>
    (match (post.denoms.map (·.1)).filter (fun k => !(AMap.contains pre.denoms k)) with
     | [k] => ownerOf post k == some sender && denomsSameExcept pre post [k]
     | _ => false) &&
    balsSameExcept pre post [] && supSameExcept pre post [] && mtsSameExcept pre post []

/-- one step of the monitor: `accepted = false` means the message was rejected (or panicked) -/
def stepOk (pre : State) (op : Op) (accepted : Bool) (post : State) : Bool :=
  if accepted then acceptedOk pre op post else sameState pre post

end Irismod.Spec.C15
