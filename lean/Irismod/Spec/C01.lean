/-
C01 — Coinswap: pool value per liquidity share never falls; swaps priced fee-inclusive.

`Prop` statements used by the theorems of `Props/C01.lean` and their executable (`Bool`)
forms evaluated by the driver's monitor mode on the observation stream of the real Go
implementation (pool reserves = bank balances of the escrow address, share supply = bank
supply of `lpt-n`, before/after every delivered message; results of the pure pricing
functions).  Core Lean only.
-/
import Irismod.Model.Coinswap

namespace Irismod.Spec.C01
open Irismod Irismod.Sdk Irismod.Coinswap

/-- what the property sees of a pool -/
structure Pool where
  X : Nat      -- standard reserve
  Y : Nat      -- counterparty reserve
  L : Nat      -- outstanding liquidity tokens
  deriving Repr, DecidableEq

def view (s : State) (cp : Denom) (n : Nat) : Pool := ⟨resX s n, resY s n cp, shares s n⟩

/-- "X·Y / L² did not fall", cross-multiplied; it speaks about outstanding shares, so it is
stated for `L > 0` (with no share outstanding there is no share value to protect) -/
def ShareLE (p q : Pool) : Prop := 0 < p.L → p.X * p.Y * q.L ^ 2 ≤ q.X * q.Y * p.L ^ 2

def shareLEb (p q : Pool) : Bool := p.L == 0 || decide (p.X * p.Y * q.L ^ 2 ≤ q.X * q.Y * p.L ^ 2)

/-- outstanding shares are backed on both sides -/
def PoolInv (p : Pool) : Prop := 0 < p.L → 0 < p.X ∧ 0 < p.Y

def poolInvB (p : Pool) : Bool := p.L == 0 || (decide (0 < p.X) && decide (0 < p.Y))

/-- the constant-product rule of one swap leg with the fee charged on the input side,
`(X + (1-fee)·paid)·(Y - recv) ≥ X·Y`, scaled by 10^18 (`fee` is the raw 18-decimal integer) -/
def Cp (X Y fee paid recv : Nat) : Prop := X * D * Y ≤ (X * D + (D - fee) * paid) * (Y - recv)

def cpB (X Y fee paid recv : Nat) : Bool := decide (X * D * Y ≤ (X * D + (D - fee) * paid) * (Y - recv))

/-- verdict on one observed leg: rule holds; exact-in ⇒ one more unit out would break it;
exact-out ⇒ two units less in would break it (paid ≤ minimal + 1) -/
def legFails (X Y fee paid recv : Nat) (exactOut : Bool) : List String :=
  (if cpB X Y fee paid recv then [] else ["cp-rule"]) ++
  (if exactOut then
     (if decide (2 ≤ paid) && cpB X Y fee (paid - 2) recv then ["exact-out-within-one"] else [])
   else
     (if cpB X Y fee paid (recv + 1) then ["exact-in-maximal"] else []))

/-- monitor of the pure pricing functions on the Go result (`none` = panic); only inputs inside
the keeper's preconditions and `Params.Validate` are judged -/
def priceFails (isIn : Bool) (amt X Y fee : Nat) (res : Option Nat) : List String :=
  if !(decide (0 < fee) && decide (fee < D) && decide (0 < X) && decide (0 < Y) && decide (0 < amt)) then []
  else match res with
    | none => []
    | some v =>
      if isIn then legFails X Y fee amt v false
      else if decide (amt < Y) then legFails X Y fee v amt true else []

def incr (pre post : State) (a : Addr) (d : Denom) : Nat := post.bank.balOf a d - pre.bank.balOf a d
def decr (pre post : State) (a : Addr) (d : Denom) : Nat := pre.bank.balOf a d - post.bank.balOf a d

/-- the observed leg on pool `n`: input denom `i`, output denom `o` -/
def obsLeg (pre post : State) (n : Nat) (i o : Denom) (exactOut : Bool) : List String :=
  legFails (pre.bank.balOf (poolAddr n) i) (pre.bank.balOf (poolAddr n) o) pre.params.fee
    (incr pre post (poolAddr n) i) (decr pre post (poolAddr n) o) exactOut

/-- one step of the C01 monitor: clause names of everything that fails -/
def stepFails (pre : State) (op : Op) (accepted : Bool) (post : State) : List (String × String) :=
  -- share value is judged for the pools registered before the message (a pool exists once it is
  -- registered), backing for the pools registered after it
  let inv : List (String × String) :=
    (pre.pools.flatMap fun e =>
      if shareLEb (view pre e.1 e.2) (view post e.1 e.2) then [] else [("share-value", "")]) ++
    (post.pools.flatMap fun e =>
      if poolInvB (view post e.1 e.2) then [] else [("pool-inv", "")])
  let legs : List String :=
    match op with
    | .swap _ rcpt inD _ outD _ buy _ =>
      if !accepted then [] else
      if isDouble pre inD outD then
        match AMap.get? pre.pools inD, AMap.get? pre.pools outD with
        | some na, some nb =>
          -- a recipient that is one of the two escrows hides the amount bought: not judged
          if rcpt = poolAddr na ∨ rcpt = poolAddr nb then []
          else obsLeg pre post na inD pre.std buy ++ obsLeg pre post nb pre.std outD buy
        | _, _ => ["swap-without-pool"]
      else
        match AMap.get? pre.pools (if inD = pre.std then outD else inD) with
        | some n => if rcpt = poolAddr n then [] else obsLeg pre post n inD outD buy
        | none => ["swap-without-pool"]
    | _ => []
  inv ++ legs.map fun c => (c, "")

end Irismod.Spec.C01
