/-
C12 (NFT part) — exported state re-imports and preserves what users rely on.

The propositions the theorems of `Props/C12_Nft.lean` are about: observational equality of two
NFT module stores (every query of the projection the harness observes), the reachable-shape
predicate `WF`, and the round-trip statement. The executable side of C12 for nft is the
`nft export` / `nft reimport` ops of the driver (`monitor C12` / `monitor C14`:
clauses export-invalid, reimport-panic, reimport-changed-state).
Core Lean only.
-/
import Irismod.Model.NftGenesis
import Irismod.Spec.C14

namespace Irismod.Spec.C12.Nft
open Irismod Irismod.Nft Irismod.NftGenesis

/-- two NFT stores answer every query alike: class records (creator, restriction flags, name,
symbol, schema, description, uri, uri hash, data), token records, owners (owner key and owner
index), per-class supply, per-owner balances, token counts -/
structure ObsEq (a b : State) : Prop where
  classes  : ∀ c, AMap.get? a.classes c = AMap.get? b.classes c
  tokens   : ∀ c t, tokenOf a c t = tokenOf b c t
  owners   : ∀ c t, ownerOf a c t = ownerOf b c t
  idx      : ∀ x c t, idxHas a x c t = idxHas b x c t
  supply   : ∀ c, supplyOf a c = supplyOf b c
  balances : ∀ x c, balanceOf a x c = balanceOf b x c
  count    : ∀ c, tokenCount a c = tokenCount b c

/-- shape facts of every reachable NFT store: no key is bound twice in a table, and everything
stored went through `ValidateBasic` -/
structure WF (s : State) : Prop where
  nd_classes : (AMap.keys s.classes).Nodup
  nd_tokens  : (AMap.keys s.tokens).Nodup
  nd_owners  : (AMap.keys s.owners).Nodup
  nd_idx     : (AMap.keys s.idx).Nodup
  /-- a class id is a legal denom id and its creator is an address -/
  class_ok   : ∀ c cl, AMap.get? s.classes c = some cl → validDenomId c = true ∧ validAddr cl.creator = true
  /-- a live token has a legal id and a URI of at most 256 bytes -/
  tok_ok     : ∀ c t r, tokenOf s c t = some r → validTokenId t = true ∧ validUri r.uri = true
  /-- a recorded owner is an address -/
  own_ok     : ∀ c t a, ownerOf s c t = some a → validAddr a = true

/-- the round-trip statement of C12 for one NFT store -/
def RoundTrip (s : State) : Prop :=
  validateGenesis (exportGenesis s) = true ∧
  ∃ s', importGenesis (exportGenesis s) = .ok s' ∧ ObsEq s' s ∧ exportGenesis s' = exportGenesis s

end Irismod.Spec.C12.Nft
