/-
C17 — Oracle: feeds store exactly the aggregated answers, bounded, creator-controlled.

(a) the *specification* of the aggregates over exact decimals (true maximum, minimum, average
    rounded to 8 decimals), independent of the accumulator tricks of `types/aggregate.go`;
(b) `Prop` invariants used by the theorems of `Props/C17.lean`;
(c) `Bool` monitor clauses evaluated by the driver on the observation stream of the real Go
    implementation (`pre --op--> post`).
-/
import Irismod.Model.Oracle

namespace Irismod.Spec.C17
open Irismod Irismod.Oracle

/-! ### (a) what the aggregates should be -/

def listMax : Int → List Int → Int
  | m, [] => m
  | m, x :: t => listMax (if m < x then x else m) t

def listMin : Int → List Int → Int
  | m, [] => m
  | m, x :: t => listMin (if x < m then x else m) t

/-- true maximum of a non-empty list, in units -/
def specMax : List Int → Option Int
  | [] => none
  | x :: t => some (listMax x t)

def specMin : List Int → Option Int
  | [] => none
  | x :: t => some (listMin x t)

/-- the specified result (8 decimals) of aggregate `fn` over a non-empty list of values in units of `10^-S` -/
def specAggregate (S : Nat) (fn : String) (xs : List Int) : Option String :=
  if xs.length = 0 then none
  else if fn = "max" then (specMax xs).map fun m => fmtRat m (pow10 S)
  else if fn = "min" then (specMin xs).map fun m => fmtRat m (pow10 S)
  else if fn = "avg" then some (fmtRat (sumInts xs) (xs.length * pow10 S))
  else none

def specAggregateSpecs (fn : String) (outs : List String) : Option String :=
  let vs := outs.map extract
  specAggregate (maxScale vs) fn (vs.map (toUnits (maxScale vs)))

/-- the class of finding F-ora-1: `max` over inputs that are all negative -/
def allNegative (xs : List Int) : Bool := !xs.isEmpty && xs.all (· < 0)

def hasNonneg (xs : List Int) : Bool := xs.any (0 ≤ ·)

/-- F-ora-1 is repaired: no failure is attributed to it any more -/
def inClassOra1 (_fn : String) (_outs : List String) (_observed : String) : Bool := false

/-! ### (b) invariants -/

/-- the feed-state index mirrors the state of the feed's request context -/
def Mirror (s : State) : Prop :=
  ∀ n f c, AMap.get? s.feeds n = some f → AMap.get? s.ctxs n = some c →
    (c.state = .running → n ∈ s.running ∧ n ∉ s.paused) ∧
    (c.state = .paused → n ∈ s.paused ∧ n ∉ s.running)

/-- feeds and contexts are created together; only existing feeds are indexed -/
def WF (s : State) : Prop :=
  (∀ n, (AMap.get? s.feeds n).isSome ↔ (AMap.get? s.ctxs n).isSome) ∧
  (∀ n, n ∈ s.running ∨ n ∈ s.paused → (AMap.get? s.feeds n).isSome)

/-- stored history is bounded by `latestHistory ≥ 1`, keys strictly ascending -/
def Sorted : List (Nat × Value) → Prop
  | [] => True
  | [_] => True
  | a :: b :: t => a.1 < b.1 ∧ Sorted (b :: t)

def Bounded (s : State) : Prop :=
  (∀ n f, AMap.get? s.feeds n = some f → 1 ≤ f.hist ∧ (valuesOf s n).length ≤ f.hist) ∧
  (∀ n, AMap.get? s.feeds n = none → valuesOf s n = [])

/-- a batch counter is fresh for a feed when it exceeds every stored key -/
def FreshKey (vals : List (Nat × Value)) (k : Nat) : Prop := ∀ e ∈ vals, e.1 < k

/-- batch counters grow: every completed batch reported by the service module carries a counter
above the keys already stored for its feed (the service module increments the counter per batch) -/
def FreshCb (s : State) : Cb → Prop
  | .done f b _ _ => FreshKey (valuesOf s f) b
  | .state _ _ => True

def FreshCbs : State → List Cb → Prop
  | _, [] => True
  | s, cb :: r => FreshCb s cb ∧ FreshCbs (applyCb s cb) r

def FreshOp (s : State) : Op → Prop
  | .respond acc cbs => acc = true → FreshCbs s cbs
  | .block _ cbs => FreshCbs s cbs
  | _ => True

def FreshRun : State → List Op → Prop
  | _, [] => True
  | s, op :: r => FreshOp s op ∧ FreshRun (apply s op) r

/-- the batch counters of the completed-batch callbacks for feed `n`, in order of arrival -/
def batchesCbs (n : Name) : List Cb → List Nat
  | [] => []
  | .done f b _ _ :: r => if f = n then b :: batchesCbs n r else batchesCbs n r
  | .state _ _ :: r => batchesCbs n r

def batchesOp (n : Name) : Op → List Nat
  | .respond true cbs => batchesCbs n cbs
  | .block _ cbs => batchesCbs n cbs
  | _ => []

def batches (n : Name) : List Op → List Nat
  | [] => []
  | op :: r => batchesOp n op ++ batches n r

/-- strictly increasing, starting at or above `k` -/
def IncrFrom : Nat → List Nat → Prop
  | _, [] => True
  | k, b :: r => k ≤ b ∧ IncrFrom (b + 1) r

/-- the value a callback makes the oracle store for feed `n` (none for failed batches) -/
def producedBy (s : State) (n : Name) : Cb → List Value
  | .done f _ thr outs =>
    if f = n ∧ thr ≤ outs.length ∧ outs.length ≠ 0 ∧ AMap.contains s.ctxs n = true then
      match AMap.get? s.feeds n with
      | some fd =>
        match aggregateSpecs fd.agg outs with
        | some d => [{ data := d, time := s.now }]
        | none => []
      | none => []
    else []
  | .state _ _ => []

/-- all values produced for feed `n` by a list of callbacks, newest first -/
def logCbs : State → Name → List Cb → List Value
  | _, _, [] => []
  | s, n, cb :: r => logCbs (applyCb s cb) n r ++ producedBy s n cb

def produced (s : State) (n : Name) : Op → List Value
  | .respond true cbs => logCbs s n cbs
  | .block _ cbs => logCbs s n cbs
  | _ => []

/-- all values ever produced for feed `n` along a history, newest first -/
def log : State → Name → List Op → List Value
  | _, _, [] => []
  | s, n, op :: r => log (apply s op) n r ++ produced s n op

/-! ### (c) monitor -/

def feedNames (a b : State) : List Name := (a.feeds.map (·.1) ++ b.feeds.map (·.1)).eraseDups

/-- executable `Mirror` -/
def mirrorB (s : State) : Bool :=
  s.feeds.all fun (n, _) =>
    match AMap.get? s.ctxs n with
    | none => true
    | some c =>
      (c.state != .running || (s.running.contains n && !s.paused.contains n)) &&
      (c.state != .paused || (s.paused.contains n && !s.running.contains n))

def boundedB (s : State) : Bool :=
  s.feeds.all fun (n, _) =>
    match AMap.get? s.feeds n with
    | none => true
    | some f => decide (1 ≤ f.hist) && decide ((valuesOf s n).length ≤ f.hist)

/-! The value clauses are meaningful only while the batch counters the service module reports grow
per feed (otherwise a later batch overwrites or precedes a stored one). The observation lines do
not carry the store keys, so the monitor keeps, per feed, one more than the highest counter seen
in the history (`Hi`, empty at a reset) and checks every completed-batch callback against it;
a violation is reported as clause `batch-counter` (the environment left the property's quantifier)
and the theorems of `Proofs/OracleMonitor.lean` assume the guard passed. -/

abbrev Hi := AMap Name Nat

def hiOf (hi : Hi) (n : Name) : Nat := AMap.getD hi n 0

def guardCbs : Hi → List Cb → Option Hi
  | hi, [] => some hi
  | hi, .done f b _ _ :: r => if hiOf hi f ≤ b then guardCbs (AMap.set hi f (b + 1)) r else none
  | hi, .state _ _ :: r => guardCbs hi r

def guardOp (hi : Hi) : Op → Option Hi
  | .respond true cbs => guardCbs hi cbs
  | .block _ cbs => guardCbs hi cbs
  | _ => some hi

def guardRun : Hi → List Op → Option Hi
  | hi, [] => some hi
  | hi, op :: r =>
    match guardOp hi op with
    | none => none
    | some hi' => guardRun hi' r

/-- oracle-owned state equal (feeds, index, values) -/
def sameOracle (a b : State) : Bool :=
  (feedNames a b).all (fun n => AMap.get? a.feeds n == AMap.get? b.feeds n && viewOf a n == viewOf b n) &&
  (feedNames a b).all (fun n => a.running.contains n == b.running.contains n && a.paused.contains n == b.paused.contains n)

/-- result of folding the callbacks of one operation over the pre-state's view of feed `n`:
`some v` = the view the property demands; the aggregate used is the *specified* one. `obs` is the
observed post view, used to classify a wrong head value without cascading into the other clauses. -/
structure Expect where
  view    : List Value
  touched : Bool := false

def expectCb (pre : State) (n : Name) (e : Expect) : Cb → Expect
  | .done f _ thr outs =>
    if f ≠ n then e else
    match AMap.get? pre.feeds n with
    | none => e
    | some fd =>
      if outs.length = 0 || outs.length < thr then e else
      match specAggregateSpecs fd.agg outs with
      | none => e
      | some d => { view := ({ data := d, time := pre.now } :: e.view).take fd.hist, touched := true }
  | .state _ _ => e

def expectView (pre : State) (n : Name) (cbs : List Cb) : Expect :=
  cbs.foldl (expectCb pre n) { view := viewOf pre n }

/-- the last completed-with-enough-outputs batch of feed `n` among the callbacks (for classification) -/
def lastDone (n : Name) (cbs : List Cb) : Option (List String) :=
  cbs.foldl (fun acc cb => match cb with
    | .done f _ thr outs => if f = n ∧ outs.length ≠ 0 ∧ thr ≤ outs.length then some outs else acc
    | .state _ _ => acc) none

inductive Verdict where
  | ok
  | fail (clause : String) (cls : String)
  deriving Repr, Inhabited

def creatorOf (s : State) (n : Name) : Option Addr := (AMap.get? s.feeds n).map (·.creator)

def ctxStateOf (s : State) (n : Name) : Option CtxState := (AMap.get? s.ctxs n).map (·.state)

/-- values of feed `n` after the callbacks `cbs` of an accepted operation: clause by clause -/
def valuesVerdicts (pre post : State) (cbs : List Cb) : List Verdict :=
  (feedNames pre post).foldl (fun acc n =>
    let e := expectView pre n cbs
    let got := viewOf post n
    if !e.touched then
      if got == e.view then acc else acc ++ [.fail "values-frame" ""]
    else
      match e.view, got with
      | ev :: erest, gv :: grest =>
        let a1 := if gv.data == ev.data then acc
          else acc ++ [.fail "value"
            (match AMap.get? pre.feeds n, lastDone n cbs with
             | some fd, some outs =>
               if inClassOra1 fd.agg outs gv.data then "F-ora-1" else ""
             | _, _ => "")]
        let a2 := if gv.time == ev.time then a1 else a1 ++ [.fail "timestamp" ""]
        if grest == erest then a2 else a2 ++ [.fail "history" ""]
      | _, _ => acc ++ [.fail "append" ""]) []

/-- verdicts for one step of the implementation trace -/
def stepVerdicts (pre : State) (op : Op) (accepted : Bool) (post : State) : List Verdict :=
  let inv := (if mirrorB post then [] else [Verdict.fail "mirror" ""]) ++
             (if boundedB post then [] else [Verdict.fail "bound" ""])
  if !accepted then
    (if sameOracle pre post then [] else [Verdict.fail "rejected-changed" ""]) ++ inv
  else
    (match op with
    | .create m =>
      (if AMap.contains pre.feeds m.name then [Verdict.fail "create-existing" ""] else []) ++
      (if creatorOf post m.name == some m.creator && ctxStateOf post m.name == some .paused &&
          viewOf post m.name == [] then [] else [Verdict.fail "create" ""]) ++
      valuesVerdicts pre post []
    | .start n a =>
      (if creatorOf pre n == some a then [] else [Verdict.fail "creator" ""]) ++
      (if ctxStateOf post n == some .running then [] else [Verdict.fail "start" ""]) ++
      valuesVerdicts pre post []
    | .pause n a =>
      (if creatorOf pre n == some a then [] else [Verdict.fail "creator" ""]) ++
      (if ctxStateOf post n == some .paused then [] else [Verdict.fail "pause" ""]) ++
      valuesVerdicts pre post []
    | .edit m =>
      (if creatorOf pre m.name == some m.sender then [] else [Verdict.fail "creator" ""]) ++
      ((feedNames pre post).foldl (fun acc n =>
        let want := if n = m.name ∧ 0 < m.hist then (viewOf pre n).take m.hist else viewOf pre n
        if viewOf post n == want then acc else acc ++ [.fail "edit-trim" ""]) [])
    | .respond _ cbs => valuesVerdicts pre post cbs
    | .block _ cbs => valuesVerdicts pre post cbs
    | .bank => if sameOracle pre post then [] else [Verdict.fail "bank-changed" ""]) ++ inv

/-- whether the model (or the implementation) accepted the operation -/
def accepted (s : State) (op : Op) : Bool :=
  match step s op with
  | .ok _ => true
  | .error _ => false

/-! pure aggregate calls -/

/-- exact-domain call: the implementation's string must be the specified one -/
def aggVerdict (fn : String) (vals : List String) (observed : String) : Verdict :=
  match specAggregateSpecs fn vals with
  | none => .ok          -- empty input or unknown function: nothing specified
  | some want =>
    if observed = want then .ok
    else .fail "agg" (if inClassOra1 fn vals observed then "F-ora-1" else "")

/-- |observed − exact| ≤ 10^-8 + maxAbs·(n+2)·2^-52, everything in exact integer arithmetic at scale
`S = max(8, scales)`: with `o` the observed value in units of `10^-8`, `E = p/q` the exact
aggregate in units of `10^-S`. -/
def withinTol (S : Nat) (o : Int) (p : Int) (q : Nat) (maxAbs : Nat) (n : Nat) : Bool :=
  -- |o·10^(S-8) − p/q| ≤ 10^(S-8) + maxAbs·(n+2)/2^52   ⇔ (multiply by q·2^52)
  let lhs := (o * (pow10 (S - 8) : Nat) * (q : Int) - p).natAbs * 2 ^ 52
  let rhs := pow10 (S - 8) * q * 2 ^ 52 + maxAbs * (n + 2) * q
  decide (lhs ≤ rhs)

def aggTolVerdict (fn : String) (vals : List String) (observed : String) : Verdict :=
  let vs := vals.map extract
  let S := maxScale vs
  let xs := vs.map (toUnits S)
  if xs.length = 0 then .ok else
  match parseDec observed.toList with
  | none => .fail "aggtol-parse" ""
  | some (on, os) =>
    if os ≠ 8 then .fail "aggtol-format" "" else
    let maxAbs := xs.foldl (fun m x => max m x.natAbs) 0
    let exact : Option (Int × Nat) :=
      if fn = "max" then (specMax xs).map (·, 1)
      else if fn = "min" then (specMin xs).map (·, 1)
      else if fn = "avg" then some (sumInts xs, xs.length)
      else none
    match exact with
    | none => .ok
    | some (p, q) =>
      if withinTol S on p q maxAbs xs.length then .ok
      else .fail "aggtol" (if inClassOra1 fn vals observed then "F-ora-1" else "")

end Irismod.Spec.C17
