/-
The line-level monitor of the random module: everything `drv-random monitor C18 | C13 | C12`
evaluates on one (operation line, implementation observation line) pair, as one pure function
`stepFails`, together with the state the monitor carries to the next line (`postOf`) and the
MODEL's side of every line (`modelObs`: the observation the model prints for it).

`Driver/Random.lean` only parses lines and prints; its monitor mode calls `stepFails`/`postOf`,
its model mode calls `modelObs`. `Proofs/RandomMonitor.lean` proves the monitor sound with respect
to the model (`stepFails` on the model's own observation reports nothing but the known finding
F-rnd-1, exactly where its exclusion hypothesis is violated). Core Lean only.
-/
import Irismod.Spec.C12_Random

namespace Irismod.Spec.C18Mon
open Irismod Irismod.Random Irismod.RandomGenesis Irismod.Spec.C18

/-- every kind of line the monitor handles (a `reset` line only re-initialises: `resetPost`) -/
inductive MonLine where
  | op (op : Op)                                            -- begin_block / request / request_oracle / cb_response / cb_state
  | prng (hash : ByteArray) (t : Int) (ini : ByteArray) (oracle : Bool) (seed : ByteArray)   -- the pure PRNG
  | svcEnd (dropped gone : List String)                     -- svc_end_block: the real service EndBlocker (environment outcome)
  | svcRespond (ctx : String) (seed : ByteArray) (cb : String)   -- provider response through the service module; cb = 1 | 0 | rej
  | svcBreak (ctx : String) (delete : Bool)                 -- environment: a pending context is deleted / set running
  | genesisPending (due : Nat) (req : Request)              -- random.InitGenesis with one pending request
  | export                                                  -- ExportGenesis + ValidateGenesis
  | reimport                                                -- wipe + InitGenesis of the export
  | reimportZero                                            -- PrepForZeroHeightGenesis first; the new chain is at height 1
  deriving Inhabited

/-- one parsed observation line. State lines: `word` and the printed tables `p` (height, queue,
    randoms, oracle requests; the other fields of `p` are not observed). `export`: the verdict of
    `ValidateGenesis` and the document. `prng`: `word` and the printed value. -/
structure Obs where
  word     : String := ""
  p        : State := {}
  validate : String := ""
  gen      : Genesis := []
  value    : String := ""
  deriving Inhabited

def resWord : Except Err State → String
  | .ok _ => "ok"
  | .error (.reject _) => "rej"
  | .error (.panic _) => "panic"

/-- a failed step leaves the state unchanged -/
def nextOf (s : State) : Except Err State → State
  | .ok s' => s'
  | .error _ => s

/-! ### the state the monitor carries -/

/-- the observed tables of `p` under the unobserved fields given explicitly -/
def carry (pre p : State) (unix : Int) (hash : ByteArray) (ctxs : List String) : State :=
  { p with unix := unix, hash := hash, addrs := pre.addrs, ctxs := ctxs }

/-- header fields and the set of service contexts are not part of the observation: they are
    reconstructed from the previous state and the operation -/
def postOf (pre : State) (line : MonLine) (word : String) (p : State) : State :=
  match line with
  | .op (.beginBlock _ tm hash _) =>
    if word == "ok" then carry pre p tm hash pre.ctxs else carry pre p pre.unix pre.hash pre.ctxs
  | .op (.requestOracle _ _ _ _ _ _ (.ok c)) =>
    carry pre p pre.unix pre.hash (if word == "ok" then c :: pre.ctxs else pre.ctxs)
  | .op _ => carry pre p pre.unix pre.hash pre.ctxs
  | .prng _ _ _ _ _ => pre
  | .export => pre
  | .svcEnd _ gone => carry pre p pre.unix pre.hash (pre.ctxs.filter fun c => !(gone.contains c))
  | .svcBreak c delete => carry pre p pre.unix pre.hash (if delete then pre.ctxs.filter (· != c) else pre.ctxs)
  | .svcRespond _ _ _ => carry pre p pre.unix pre.hash pre.ctxs
  | .genesisPending _ _ => carry pre p pre.unix pre.hash pre.ctxs
  | .reimport => carry pre p pre.unix pre.hash pre.ctxs
  | .reimportZero => carry pre p pre.unix pre.hash pre.ctxs

/-- after a `reset` line: the observed tables under the header and address table of the line -/
def resetPost (s0 p : State) : State := { p with unix := s0.unix, hash := s0.hash, addrs := s0.addrs }

/-! ### the monitor of one line -/

/-- the service end block may only drop pending oracle requests -/
def svcEndFrame (pre post : State) (dropped : List String) : Bool :=
  sameMap pre.queue post.queue (fun _ => false) && sameMap pre.randoms post.randoms (fun _ => false) &&
  pre.height == post.height && sameMap pre.oracleReqs post.oracleReqs (fun c => dropped.contains c) &&
  dropped.all (fun c => (AMap.get? post.oracleReqs c).isNone)

/-- genesis import enqueues exactly the given request under (height, id of the request) -/
def genesisPendingOk (pre post : State) (due : Nat) (req : Request) : Bool :=
  AMap.get? post.queue (due, requestId req.height req.consumer) == some req &&
  (sameMap pre.queue post.queue (· == (due, requestId req.height req.consumer)) &&
   sameMap pre.randoms post.randoms (fun _ => false) &&
   sameMap pre.oracleReqs post.oracleReqs (fun _ => false) && pre.height == post.height)

/-- all failures the monitor of property `prop` (C18 | C13 | C12) reports on one line, in the
    order the driver prints them -/
def stepFails (prop : String) (pre : State) (line : MonLine) (o : Obs) : List Fail :=
  match line with
  | .op op =>
    if prop == "C13" then checkC13 pre op o.word (postOf pre line o.word o.p)
    else if prop == "C12" then []
    else check pre op o.word (postOf pre line o.word o.p)
  | .prng _ t _ _ _ =>
    -- the value printed by the implementation is in [0,1) with 20 fractional digits (or the call
    -- panicked, which only the zero block time may cause)
    if prop != "C18" then []
    else if o.word == "ok" then failIf (!(isDigits20 o.value)) "value-range"
    else if o.word == "panic" then failIf (t != 0) "prng-panic"
    else [{ clause := "parse" }]
  | .svcEnd dropped _ =>
    -- the service end block never halts, and for this module it may only drop pending oracle requests
    if o.word != "ok" then [{ clause := "service-end-block-panic" }]
    else failIf (!(svcEndFrame pre (postOf pre line o.word o.p) dropped)) "service-end-block-frame"
  | .export =>
    if prop != "C13" then
      failIf (o.validate != "ok") "export-does-not-validate" ++
      failIf (!(Spec.C12Random.exportOk pre o.gen)) "export-lost-or-altered-request"
    else []
  | .reimport =>
    if prop != "C13" then
      if o.word != "ok" then [{ clause := "reimport-failed" }]
      else failIf (!(Spec.C12Random.queueSame pre.queue (postOf pre line o.word o.p).queue &&
                     pre.height == (postOf pre line o.word o.p).height)) "reimport-changed-queue"
    else []
  | .reimportZero =>
    if prop != "C13" then
      if o.word != "ok" then [{ clause := "reimport-failed" }]
      else failIf (!(Spec.C12Random.queueSame (Spec.C12Random.rebased pre) (postOf pre line o.word o.p).queue &&
                     (postOf pre line o.word o.p).height == 1)) "zero-height-rebase"
    else []
  | .svcBreak _ _ =>
    failIf (o.word != "ok" || !(sameObs pre (postOf pre line o.word o.p))) "environment-op-changed-state"
  | .genesisPending due req =>
    failIf (o.word != "ok" || !(genesisPendingOk pre (postOf pre line o.word o.p) due req)) "genesis-pending-import"
  | .svcRespond c seed cb =>
    if prop == "C18" then
      if cb == "1" then check pre (.cbResponse c (.valid seed) false) o.word (postOf pre line o.word o.p)
      else failIf (!(sameObs pre (postOf pre line o.word o.p))) "response-without-callback-changed-state"
    else []

/-! ### the model's side of every line -/

/-- the service module's EndBlocker as seen by this module: for every dropped oracle request one
    failing response callback (an expired batch reports an error; a paused context reports a state
    change — both only erase the pending oracle request); contexts that ceased to exist leave
    the environment mirror `ctxs` -/
def dropAll (s : State) (dropped : List String) : State :=
  dropped.foldl (fun st c => apply st (.cbResponse c .empty true)) s

def applySvcEnd (s : State) (dropped gone : List String) : State :=
  { dropAll s dropped with ctxs := (dropAll s dropped).ctxs.filter fun c => !(gone.contains c) }

/-- the observation the model prints for a line from state `s` (`p` = the model's next state) -/
def modelObs (s : State) : MonLine → Obs
  | .op op => { word := resWord (step s op), p := nextOf s (step s op) }
  | .prng hash t ini o seed =>
    match prngValue hash t ini o seed with
    | some v => { word := "ok", p := s, value := v }
    | none => { word := "panic", p := s, value := "-" }
  | .svcEnd dropped gone => { word := "ok", p := applySvcEnd s dropped gone }
  | .svcRespond c seed cb =>
    if cb == "1" then
      { word := resWord (step s (.cbResponse c (.valid seed) false)),
        p := nextOf s (step s (.cbResponse c (.valid seed) false)) }
    else { word := if cb == "0" then "ok" else "rej", p := s }
  -- the environment mirror: a deleted context no longer exists; a running one still does
  | .svcBreak c delete => { word := "ok", p := if delete then { s with ctxs := s.ctxs.filter (· != c) } else s }
  -- `InitGenesis`: EnqueueRandomRequest(height, GenerateRequestID(request), request)
  | .genesisPending due req =>
    { word := "ok", p := { s with queue := AMap.set s.queue (due, requestId req.height req.consumer) req } }
  | .export =>
    { word := "ok", p := s, gen := exportGenesis s,
      validate := match validateGenesis (exportGenesis s) with | .ok _ => "ok" | .error _ => "err" }
  | .reimport =>
    { word := resWord (importGenesis s (exportGenesis s)), p := nextOf s (importGenesis s (exportGenesis s)) }
  | .reimportZero => { word := resWord (restartZeroHeight s), p := nextOf s (restartZeroHeight s) }

/-- word and next state of the model -/
def modelStep (s : State) (line : MonLine) : String × State := ((modelObs s line).word, (modelObs s line).p)

end Irismod.Spec.C18Mon
