/-
C05 — Farm: staked principal is exactly accounted for and always withdrawable.

(a) `Prop` statements used by the theorems of `Props/C05.lean` and (b) the `Bool` monitor
evaluated by the driver on the observation stream of the real Go implementation.
-/
import Irismod.Model.Farm

namespace Irismod.Spec.C05
open Irismod Irismod.Sdk Irismod.Farm

/-! ### statements -/

/-- Σ over the farmers of pool `id` of their recorded stake -/
def stakedSum (s : State) (id : PoolId) : Nat :=
  AMap.sumIf (fun k : Addr × PoolId => k.2 = id) (fun f => f.locked) s.farmers

/-- the recorded total of pool `id` (0 when there is no such pool) -/
def lockedOf (s : State) (id : PoolId) : Nat := ((getPool s id).map (·.locked)).getD 0

/-- C05(a): for every pool the farmers' stakes add up to the pool's total -/
def StakesSum (s : State) : Prop := ∀ id, stakedSum s id = lockedOf s id

/-- Σ over a pool's rules of the remaining budget in denom `d` -/
def remainingIn (d : Denom) : List Rule → Nat
  | [] => 0
  | r :: rs => (if r.denom = d then r.remaining else 0) + remainingIn d rs

/-- what one pool keeps in the module account in denom `d`: stake plus undistributed budget -/
def poolHolds (d : Denom) (p : Pool) : Nat := (if p.lpt = d then p.locked else 0) + remainingIn d p.rules

/-- what the farm module account must hold in denom `d` -/
def expectedFarm (s : State) (d : Denom) : Nat := AMap.sumBy (poolHolds d) s.pools

/-- C05(b): the module account holds exactly all stakes plus all undistributed budgets -/
def ModuleAccount (s : State) : Prop := ∀ d, s.bank.balOf farmAcc d = expectedFarm s d

/-- C05(c): the principal leg of any withdrawal is covered by the module account -/
def PrincipalCovered (s : State) : Prop :=
  ∀ a id f p, getFarmer s a id = some f → getPool s id = some p → f.locked ≤ s.bank.balOf farmAcc p.lpt

/-- an empty farm module on an arbitrary user ledger -/
def Genesis (s : State) : Prop :=
  s.pools = [] ∧ s.farmers = [] ∧ s.queue = [] ∧ s.ledger = [] ∧ s.seq = 0 ∧
  (∀ d, s.bank.balOf farmAcc d = 0) ∧ (∀ d, s.bank.balOf collectorAcc d = 0)

def Reachable (s : State) : Prop := ∃ s0 ops, Genesis s0 ∧ s = run s0 ops

/-- C05(d), full strength: a farmer can at any height withdraw any positive amount up to the
recorded stake (a zero amount is rejected by `ValidateBasic` since commit 67e8fd2).  FALSE of the code (F-farm-1): see `Props.C05.withdraw_can_fail`. -/
def WithdrawNeverFails : Prop :=
  ∀ s, Reachable s → ∀ a id f p amt, getFarmer s a id = some f → getPool s id = some p →
    0 < amt → amt ≤ f.locked → ∃ s', step s (.unstake a id p.lpt amt) = .ok s'

/-! ### monitor -/

def isOkE {α : Type} : Except Err α → Bool
  | .ok _ => true
  | .error _ => false

/-- executable `StakesSum` over the ids the state mentions -/
def stakesSumB (s : State) : Bool :=
  (s.pools.map (·.1) ++ s.farmers.map (·.1.2)).all fun id => stakedSum s id == lockedOf s id

def denomsOf (s : State) : List Denom :=
  (s.bank.bal.filterMap fun e => if e.1.1 = farmAcc then some e.1.2 else none) ++
  s.pools.flatMap fun e => e.2.lpt :: e.2.rules.map (·.denom)

/-- the denoms in which the module account differs from stakes + budgets -/
def moduleAccountDiffs (s : State) : List Denom :=
  (denomsOf s).eraseDups.filter fun d => s.bank.balOf farmAcc d != expectedFarm s d

/-- F-farm-1 class: everything about the withdrawal is in order (recorded stake, pool
update, principal leg) and only the reward collector cannot pay the accrued rewards -/
def collectorShort (pre : State) (a : Addr) (id : PoolId) (denom : Denom) (amt : Nat) : Bool :=
  match getPool pre id, getFarmer pre a id with
  | some p, some f =>
    validPoolId id && decide (denom = p.lpt) &&
    (match unstakeAt pre a id denom amt p f with
     | .ok (s2, _, rewards, _) => !(isOkE (payRewards s2 a rewards))
     | .error _ => false)
  | _, _ => false

/-- per-rule budget solvency of one pool: remaining ≥ rpb × (end − max(last, start)) -/
def budgetOkPool (p : Pool) : Bool :=
  p.rules.all fun r => decide ((r.rpb : Int) * (p.endH - (if p.last > p.start then p.last else p.start)) ≤ (r.remaining : Int))

def balsOf (s : State) : List ((Addr × Denom) × Nat) := s.bank.bal.filter (fun e => e.2 ≠ 0)

def sameMap {K V : Type} [DecidableEq K] [BEq V] (a b : AMap K V) : Bool :=
  (a.map (·.1) ++ b.map (·.1)).all fun k => AMap.get? a k == AMap.get? b k

instance : BEq Rule := ⟨fun a b => a.denom == b.denom && a.total == b.total && a.remaining == b.remaining &&
  a.rpb == b.rpb && a.rps.raw == b.rps.raw⟩
instance : BEq Pool := ⟨fun a b => a.creator == b.creator && a.desc == b.desc && a.start == b.start &&
  a.endH == b.endH && a.last == b.last && a.editable == b.editable && a.lpt == b.lpt && a.locked == b.locked &&
  a.rules == b.rules⟩
instance : BEq Farmer := ⟨fun a b => a.locked == b.locked && a.debt == b.debt⟩

/-- the observed projection of two states is the same (height excluded) -/
def sameObserved (a b : State) : Bool :=
  a.seq == b.seq && sameMap a.pools b.pools && sameMap a.farmers b.farmers &&
  (a.queue.all b.queue.contains && b.queue.all a.queue.contains) &&
  ((a.bank.bal.map (·.1) ++ b.bank.bal.map (·.1)).all fun k => a.bank.balOf k.1 k.2 == b.bank.balOf k.1 k.2)

def allDenoms (a b : State) : List Denom := a.bank.bal.map (·.1.2) ++ b.bank.bal.map (·.1.2)

/-- an accepted stake / unstake / harvest of `a` in pool `id` changed `a`'s stake by `dLocked`,
the pool total likewise, paid exactly the accrued rewards (`floor(rps×locked) − debt` on the
updated rules) and moved exactly principal ± rewards on `a`'s account -/
def interactionOk (pre post : State) (a : Addr) (id : PoolId) (denom : Denom) (dLocked : Int) : Bool :=
  match getPool pre id, getPool post id with
  | some p, some q =>
    let f := (getFarmer pre a id).getD { locked := 0, debt := [] }
    let newLocked := (f.locked : Int) + dLocked
    decide ((q.locked : Int) = (p.locked : Int) + dLocked) &&
    (match getFarmer post a id with
     | some g => decide ((g.locked : Int) = newLocked) &&
                 (match caclRewards q.rules f dLocked with
                  | some (rw, db) => rw == post.resp && db == g.debt
                  | none => false)
     | none => decide (newLocked = 0) &&
                 (match caclRewards q.rules f dLocked with
                  | some (rw, _) => rw == post.resp
                  | none => false)) &&
    (allDenoms pre post).all fun d =>
      decide ((post.bank.balOf a d : Int) = (pre.bank.balOf a d : Int) - (if d = denom then dLocked else 0) + (amountOf post.resp d : Int))
  | _, _ => false

/-- monitor memory (none needed for C05) -/
structure Mon where
  deriving Inhabited

def Mon.init (_ : State) : Mon := {}

/-- one monitor step; returns the failures `clause=… [class=…]` -/
def check (m : Mon) (pre : State) (op : Op) (res : String) (post : State) : Mon × List String :=
  let fails : List String :=
    -- (a) Σ stakes = pool total
    (if stakesSumB post then [] else ["clause=stakes-sum"]) ++
    -- (b) module account = stakes + budgets
    ((moduleAccountDiffs post).map fun d => s!"clause=module-account denom={d}") ++
    -- a rejected message changes nothing
    (match op with
     | .endBlocks _ => []
     | _ => if res != "ok" && !(sameObserved pre post) then ["clause=rejected-unchanged"] else []) ++
    -- (d) withdrawals up to the recorded stake never fail; accepted ones pay principal + accrued rewards
    (match op with
     | .unstake a id denom amt =>
       match getFarmer pre a id, getPool pre id with
       | some f, some p =>
         if 0 < amt ∧ amt ≤ f.locked ∧ denom = p.lpt then
           if res == "ok" then
             (if interactionOk pre post a id denom (-(amt : Int)) then [] else ["clause=withdraw-exact"])
           else if collectorShort pre a id denom amt then ["clause=withdraw class=F-farm-1"]
           else ["clause=withdraw"]
         else (if res == "ok" then ["clause=withdraw-over-stake"] else [])
       | _, _ => if res == "ok" then ["clause=withdraw-no-stake"] else []
     | .stake a id denom amt =>
       if res == "ok" then (if interactionOk pre post a id denom (amt : Int) then [] else ["clause=stake-exact"]) else []
     | .harvest a id =>
       if res == "ok" then (if interactionOk pre post a id "" 0 then [] else ["clause=harvest-exact"]) else []
     | _ => [])
  (m, fails)

end Irismod.Spec.C05
