/-
C05 — Farm: staked principal is exactly accounted for and always withdrawable.

(a) `Prop` statements used by the theorems of `Props/C05.lean` and (b) the `Bool` monitor
evaluated by the driver on the observation stream of the real Go implementation.
-/
import Irismod.Model.Farm

namespace Irismod.Spec.C05
open Irismod Irismod.Sdk Irismod.Farm

/-! ### statements -/

/-- Σ over the farmers of pool `id` of their recorded stake -/
def stakedSum (s : State) (id : PoolId) : Nat :=
  AMap.sumIf (fun k : Addr × PoolId => k.2 = id) (fun f => f.locked) s.farmers

/-- the recorded total of pool `id` (0 when there is no such pool) -/
def lockedOf (s : State) (id : PoolId) : Nat := ((getPool s id).map (·.locked)).getD 0

/-- C05(a): for every pool the farmers' stakes add up to the pool's total -/
def StakesSum (s : State) : Prop := ∀ id, stakedSum s id = lockedOf s id

/-- Σ over a pool's rules of the remaining budget in denom `d` -/
def remainingIn (d : Denom) : List Rule → Nat
  | [] => 0
  | r :: rs => (if r.denom = d then r.remaining else 0) + remainingIn d rs

/-- what one pool keeps in the module account in denom `d`: stake plus undistributed budget -/
def poolHolds (d : Denom) (p : Pool) : Nat := (if p.lpt = d then p.locked else 0) + remainingIn d p.rules

/-- what the farm module account must hold in denom `d` -/
def expectedFarm (s : State) (d : Denom) : Nat := AMap.sumBy (poolHolds d) s.pools

/-- C05(b): the module account holds exactly all stakes plus all undistributed budgets -/
def ModuleAccount (s : State) : Prop := ∀ d, s.bank.balOf farmAcc d = expectedFarm s d

/-- C05(c): the principal leg of any withdrawal is covered by the module account -/
def PrincipalCovered (s : State) : Prop :=
  ∀ a id f p, getFarmer s a id = some f → getPool s id = some p → f.locked ≤ s.bank.balOf farmAcc p.lpt

/-- the community pool's raw amount in denom `d` -/
def cpoolOf (s : State) (d : Denom) : Nat := cpGet s.cp.pool d

/-- an empty farm module on an arbitrary user ledger: no pool, no farmer, no escrow info, no
proposal, empty farm / reward-collector / escrow-collector / gov accounts, and a community pool
that the distribution module account covers -/
def Genesis (s : State) : Prop :=
  s.pools = [] ∧ s.farmers = [] ∧ s.queue = [] ∧ s.ledger = [] ∧ s.seq = 0 ∧
  (∀ d, s.bank.balOf farmAcc d = 0) ∧ (∀ d, s.bank.balOf collectorAcc d = 0) ∧
  s.cp.escrow = [] ∧ s.cp.props = [] ∧
  (∀ d, s.bank.balOf escrowAcc d = 0) ∧ (∀ d, s.bank.balOf govAcc d = 0) ∧
  (∀ d, cpoolOf s d ≤ s.bank.balOf distrAcc d * decUnit)

def Reachable (s : State) : Prop := ∃ s0 ops, Genesis s0 ∧ s = run s0 ops

/-! ### community-pool farms: the escrow collector -/

/-- Σ of the amounts of denom `d` in a coin list -/
def coinSum : CoinList → Denom → Nat
  | [], _ => 0
  | (d', n) :: t, d => (if d' = d then n else 0) + coinSum t d

/-- what one escrow info says the escrow collector holds in denom `d` -/
def escrowHolds (d : Denom) (e : Escrow) : Nat := coinSum e.applied d + coinSum e.selfBond d

/-- what the escrow collector must hold in denom `d` -/
def expectedEscrow (s : State) (d : Denom) : Nat := AMap.sumBy (escrowHolds d) s.cp.escrow

/-- C05(e): the escrow collector holds exactly the funds of the escrow infos on record:
`balance(EscrowCollector) = Σ escrowInfos (fundApplied + fundSelfBond)`, denom by denom -/
def EscrowAccount (s : State) : Prop := ∀ d, s.bank.balOf escrowAcc d = expectedEscrow s d

/-- the deposits gov holds for the proposals on record -/
def expectedGov (s : State) : Nat := AMap.sumBy (fun pr : Proposal => pr.deposit) s.cp.props

/-- the gov module account holds exactly the recorded deposits (in the bond denom) -/
def GovAccount (s : State) : Prop := s.bank.balOf govAcc depositDenom = expectedGov s

/-- the community pool is covered by the distribution module account (raw 18-decimal units) -/
def Backed (s : State) : Prop := ∀ d, cpoolOf s d ≤ s.bank.balOf distrAcc d * decUnit

/-- what the distribution module account holds beyond the community pool (raw units): the farm
module's paths move the account and the pool in lock-step, so this never changes -/
def distrGap (s : State) (d : Denom) : Int := ((s.bank.balOf distrAcc d * decUnit : Nat) : Int) - (cpoolOf s d : Int)

/-- gov has not finished with the proposal (deposit or voting period) -/
def alive (pr : Proposal) : Bool := decide (pr.status = .deposit) || decide (pr.status = .voting)

/-- the escrow-info table mirrors the live proposals: an escrow info exists exactly for the
proposals gov has not finished with, and carries the proposer and the funds of the proposal's
content; ids are below gov's sequence; keys are unique -/
structure Tables (s : State) : Prop where
  info   : ∀ pid e, AMap.get? s.cp.escrow pid = some e → ∃ pr, AMap.get? s.cp.props pid = some pr ∧ alive pr = true ∧
             e.proposer = pr.proposer ∧ e.applied = pr.content.applied ∧ e.selfBond = pr.content.selfBond
  live   : ∀ pid pr, AMap.get? s.cp.props pid = some pr → alive pr = true → ∃ e, AMap.get? s.cp.escrow pid = some e
  fresh  : ∀ pid, s.cp.nextId ≤ pid → AMap.get? s.cp.props pid = none ∧ AMap.get? s.cp.escrow pid = none
  ekeys  : (s.cp.escrow.map (·.1)).Nodup
  pkeys  : (s.cp.props.map (·.1)).Nodup
  done   : ∀ pid pr, AMap.get? s.cp.props pid = some pr → alive pr = false → pr.deposit = 0

/-- C05(d), full strength: a farmer can at any height withdraw any positive amount up to the
recorded stake (a zero amount is rejected by `ValidateBasic` since commit 67e8fd2).  FALSE of the code (F-farm-1): see `Props.C05.withdraw_can_fail`. -/
def WithdrawNeverFails : Prop :=
  ∀ s, Reachable s → ∀ a id f p amt, getFarmer s a id = some f → getPool s id = some p →
    0 < amt → amt ≤ f.locked → ∃ s', step s (.unstake a id p.lpt amt) = .ok s'

/-! ### monitor -/

def isOkE {α : Type} : Except Err α → Bool
  | .ok _ => true
  | .error _ => false

/-- executable `StakesSum` over the ids the state mentions -/
def stakesSumB (s : State) : Bool :=
  (s.pools.map (·.1) ++ s.farmers.map (·.1.2)).all fun id => stakedSum s id == lockedOf s id

def denomsOf (s : State) : List Denom :=
  (s.bank.bal.filterMap fun e => if e.1.1 = farmAcc then some e.1.2 else none) ++
  s.pools.flatMap fun e => e.2.lpt :: e.2.rules.map (·.denom)

/-- the denoms in which the module account differs from stakes + budgets -/
def moduleAccountDiffs (s : State) : List Denom :=
  (denomsOf s).eraseDups.filter fun d => s.bank.balOf farmAcc d != expectedFarm s d

/-- F-farm-1 class: everything about the withdrawal is in order (recorded stake, pool
update, principal leg) and only the reward collector cannot pay the accrued rewards -/
def collectorShort (pre : State) (a : Addr) (id : PoolId) (denom : Denom) (amt : Nat) : Bool :=
  match getPool pre id, getFarmer pre a id with
  | some p, some f =>
    validPoolId id && decide (denom = p.lpt) &&
    (match unstakeAt pre a id denom amt p f with
     | .ok (s2, _, rewards, _) => !(isOkE (payRewards s2 a rewards))
     | .error _ => false)
  | _, _ => false

/-- per-rule budget solvency of one pool: remaining ≥ rpb × (end − max(last, start)) -/
def budgetOkPool (p : Pool) : Bool :=
  p.rules.all fun r => decide ((r.rpb : Int) * (p.endH - (if p.last > p.start then p.last else p.start)) ≤ (r.remaining : Int))

def balsOf (s : State) : List ((Addr × Denom) × Nat) := s.bank.bal.filter (fun e => e.2 ≠ 0)

def sameMap {K V : Type} [DecidableEq K] [BEq V] (a b : AMap K V) : Bool :=
  (a.map (·.1) ++ b.map (·.1)).all fun k => AMap.get? a k == AMap.get? b k

instance : BEq Rule := ⟨fun a b => a.denom == b.denom && a.total == b.total && a.remaining == b.remaining &&
  a.rpb == b.rpb && a.rps.raw == b.rps.raw⟩
instance : BEq Pool := ⟨fun a b => a.creator == b.creator && a.desc == b.desc && a.start == b.start &&
  a.endH == b.endH && a.last == b.last && a.editable == b.editable && a.lpt == b.lpt && a.locked == b.locked &&
  a.rules == b.rules⟩
instance : BEq Farmer := ⟨fun a b => a.locked == b.locked && a.debt == b.debt⟩

/-- the observed projection of two states is the same (height excluded) -/
def sameObserved (a b : State) : Bool :=
  a.seq == b.seq && sameMap a.pools b.pools && sameMap a.farmers b.farmers &&
  (a.queue.all b.queue.contains && b.queue.all a.queue.contains) &&
  ((a.bank.bal.map (·.1) ++ b.bank.bal.map (·.1)).all fun k => a.bank.balOf k.1 k.2 == b.bank.balOf k.1 k.2)

def allDenoms (a b : State) : List Denom := a.bank.bal.map (·.1.2) ++ b.bank.bal.map (·.1.2)

/-- an accepted stake / unstake / harvest of `a` in pool `id` changed `a`'s stake by `dLocked`,
the pool total likewise, paid exactly the accrued rewards (`floor(rps×locked) − debt` on the
updated rules) and moved exactly principal ± rewards on `a`'s account -/
def interactionOk (pre post : State) (a : Addr) (id : PoolId) (denom : Denom) (dLocked : Int) : Bool :=
  match getPool pre id, getPool post id with
  | some p, some q =>
    let f := (getFarmer pre a id).getD { locked := 0, debt := [] }
    let newLocked := (f.locked : Int) + dLocked
    decide ((q.locked : Int) = (p.locked : Int) + dLocked) &&
    (match getFarmer post a id with
     | some g => decide ((g.locked : Int) = newLocked) &&
                 (match caclRewards q.rules f dLocked with
                  | some (rw, db) => rw == post.resp && db == g.debt
                  | none => false)
     | none => decide (newLocked = 0) &&
                 (match caclRewards q.rules f dLocked with
                  | some (rw, _) => rw == post.resp
                  | none => false)) &&
    (allDenoms pre post).all fun d =>
      decide ((post.bank.balOf a d : Int) = (pre.bank.balOf a d : Int) - (if d = denom then dLocked else 0) + (amountOf post.resp d : Int))
  | _, _ => false

/-! ### monitor clauses of the community-pool path -/

/-- the denoms in which the escrow collector differs from the funds of the escrow infos -/
def escrowAccountDiffs (s : State) : List Denom :=
  ((s.bank.bal.filterMap fun e => if e.1.1 = escrowAcc then some e.1.2 else none) ++
   s.cp.escrow.flatMap fun e => (e.2.applied ++ e.2.selfBond).map (·.1)).eraseDups.filter fun d =>
    s.bank.balOf escrowAcc d != expectedEscrow s d

def govAccountB (s : State) : Bool := s.bank.balOf govAcc depositDenom == expectedGov s

def cpDenoms (a b : State) : List Denom :=
  (a.cp.pool.map (·.1) ++ b.cp.pool.map (·.1) ++
   (a.bank.bal.filterMap fun e => if e.1.1 = distrAcc then some e.1.2 else none) ++
   (b.bank.bal.filterMap fun e => if e.1.1 = distrAcc then some e.1.2 else none)).eraseDups

/-- the denoms in which the community pool exceeds the distribution module account -/
def backedDiffs (s : State) : List Denom :=
  (cpDenoms s s).filter fun d => decide (cpoolOf s d > s.bank.balOf distrAcc d * decUnit)

/-- the denoms in which distribution account and community pool did not move in lock-step -/
def lockDiffs (pre post : State) : List Denom :=
  (cpDenoms pre post).filter fun d => distrGap post d != distrGap pre d

/-- escrow infos ↔ live proposals; finished proposals hold no deposit -/
def tablesB (s : State) : Bool :=
  (s.cp.escrow.all fun e => match AMap.get? s.cp.props e.1 with
    | some pr => alive pr
    | none => false) &&
  (s.cp.props.all fun e => if alive e.2 then (AMap.get? s.cp.escrow e.1).isSome else e.2.deposit == 0)

instance : BEq Escrow := ⟨fun a b => a.proposer == b.proposer && a.applied == b.applied && a.selfBond == b.selfBond⟩

/-- the observed community-pool projection of two states is the same -/
def sameCp (a b : State) : Bool :=
  sameMap a.cp.escrow b.cp.escrow &&
  ((a.cp.props.map (·.1) ++ b.cp.props.map (·.1)).all fun k =>
    (AMap.get? a.cp.props k).map (fun pr => (pr.status, pr.deposit)) == (AMap.get? b.cp.props k).map (fun pr => (pr.status, pr.deposit))) &&
  ((cpDenoms a b).all fun d => cpoolOf a d == cpoolOf b d)

/-- monitor memory (none needed for C05) -/
structure Mon where
  deriving Inhabited

def Mon.init (_ : State) : Mon := {}

/-- one monitor step; returns the failures `clause=… [class=…]` -/
def check (m : Mon) (pre : State) (op : Op) (res : String) (post : State) : Mon × List String :=
  let fails : List String :=
    -- (a) Σ stakes = pool total
    (if stakesSumB post then [] else ["clause=stakes-sum"]) ++
    -- (b) module account = stakes + budgets
    ((moduleAccountDiffs post).map fun d => s!"clause=module-account denom={d}") ++
    -- (e) the escrow collector holds exactly the funds of the escrow infos; gov the deposits;
    -- the community pool is covered by the distribution account and moves in lock-step with it;
    -- escrow infos mirror the live proposals
    ((escrowAccountDiffs post).map fun d => s!"clause=escrow-account denom={d}") ++
    (if govAccountB post then [] else ["clause=gov-account"]) ++
    ((backedDiffs post).map fun d => s!"clause=community-pool-backed denom={d}") ++
    ((lockDiffs pre post).map fun d => s!"clause=community-pool-lockstep denom={d}") ++
    (if tablesB post then [] else ["clause=escrow-tables"]) ++
    -- a rejected message changes nothing; so does gov's processing of a proposal that is not due
    -- (a second pass / reject / failed deposit of a settled proposal)
    (match op with
     | .endBlocks _ => []
     | _ => if res != "ok" && !(sameObserved pre post && sameCp pre post) then ["clause=rejected-unchanged"] else []) ++
    -- (d) withdrawals up to the recorded stake never fail; accepted ones pay principal + accrued rewards
    (match op with
     | .unstake a id denom amt =>
       match getFarmer pre a id, getPool pre id with
       | some f, some p =>
         if 0 < amt ∧ amt ≤ f.locked ∧ denom = p.lpt then
           if res == "ok" then
             (if interactionOk pre post a id denom (-(amt : Int)) then [] else ["clause=withdraw-exact"])
           else if collectorShort pre a id denom amt then ["clause=withdraw class=F-farm-1"]
           else ["clause=withdraw"]
         else (if res == "ok" then ["clause=withdraw-over-stake"] else [])
       | _, _ => if res == "ok" then ["clause=withdraw-no-stake"] else []
     | .stake a id denom amt =>
       if res == "ok" then (if interactionOk pre post a id denom (amt : Int) then [] else ["clause=stake-exact"]) else []
     | .harvest a id =>
       if res == "ok" then (if interactionOk pre post a id "" 0 then [] else ["clause=harvest-exact"]) else []
     | _ => [])
  (m, fails)

end Irismod.Spec.C05
