import Irismod.Model.Service

namespace Irismod.Spec.C13_Service
end Irismod.Spec.C13_Service
