/-
C13 (service slice) — begin/end block never halts and handles each due item exactly once.

Queue hygiene of the service scheduler, as `Prop` invariants for `Props/C13_Service.lean`
and as the executable monitor of the driver (`monitor C13`):
  * every queue entry `(h, id)` has its per-context height marker and vice versa (so a context
    has at most one entry per queue), refers to a stored context and is not in the past;
  * every context with a running batch awaits its expiry (expired-batch entry), every running
    context without one awaits its next batch (new-batch entry);
  * an end block removes exactly the entries of its height.
The former defect class F-svc-3 (new-batch entry kept when no exchange rate is available) is repaired in /repo.
-/
import Irismod.Model.Service

namespace Irismod.Spec.C13S
open Irismod Irismod.Sdk Irismod.Service

/-! ### invariants -/

/-- entries and markers of one queue describe the same set -/
def MarkersAgree (q : List (Int × CtxId)) (m : AMap CtxId Int) : Prop :=
  (∀ h id, (h, id) ∈ q → AMap.get? m id = some h) ∧ (∀ id h, AMap.get? m id = some h → (h, id) ∈ q)

/-- no queue entry lies in the past (it would never be processed) -/
def NoStale (s : State) : Prop :=
  (∀ h id, (h, id) ∈ s.newQ → s.height ≤ h) ∧ (∀ h id, (h, id) ∈ s.expQ → s.height ≤ h)

/-- queue entries refer to stored contexts -/
def EntriesLive (s : State) : Prop :=
  (∀ h id, (h, id) ∈ s.newQ → AMap.contains s.ctxs id = true) ∧
  (∀ h id, (h, id) ∈ s.expQ → AMap.contains s.ctxs id = true)

/-! ### monitor -/

structure Fail where
  clause : String
  cls    : String := ""
  deriving Repr, Inhabited

structure Mon where
  blocks : Nat := 0
  deriving Repr, Inhabited

def markersAgreeB (q : List (Int × CtxId)) (m : AMap CtxId Int) : Bool :=
  q.all (fun e => AMap.get? m e.2 == some e.1) && m.all (fun e => q.contains (e.2, e.1)) &&
  -- at most one entry per context (the marker is a function of the context)
  q.all (fun e => (q.filter (fun e' => e'.2 = e.2)).length == 1)

/-- state clauses -/
def stateFails (s : State) : List Fail :=
  (if markersAgreeB s.newQ s.newH then [] else [{ clause := "new-batch-queue-markers" : Fail }]) ++
  (if markersAgreeB s.expQ s.expH then [] else [{ clause := "expired-batch-queue-markers" : Fail }]) ++
  (if s.newQ.all (fun e => decide (s.height ≤ e.1)) then [] else [{ clause := "new-batch-entry-in-the-past" : Fail }]) ++
  (if s.expQ.all (fun e => decide (s.height ≤ e.1)) then [] else [{ clause := "expired-batch-entry-in-the-past" : Fail }]) ++
  (if s.newQ.all (fun e => AMap.contains s.ctxs e.2) ∧ s.expQ.all (fun e => AMap.contains s.ctxs e.2) then []
   else [{ clause := "queue-entry-without-context" : Fail }]) ++
  (if s.ctxs.all (fun e => e.2.batchState != .running || AMap.contains s.expH e.1) then []
   else [{ clause := "running-batch-awaits-expiry" : Fail }]) ++
  (if s.ctxs.all (fun e => e.2.state != .running || AMap.contains s.expH e.1 || AMap.contains s.newH e.1) then []
   else [{ clause := "running-context-awaits-an-event" : Fail }])

/-- one monitor step -/
def check (m : Mon) (pre : State) (op : Op) (accepted : Bool) (post : State) : Mon × List Fail :=
  let (m1, stepFails) : Mon × List Fail :=
    match op, accepted with
    | .next _, true =>
      let h := pre.height
      let expLeft := post.expQ.filter (fun e => e.1 = h)
      let newLeft := post.newQ.filter (fun e => e.1 = h)
      ({ m with blocks := m.blocks + 1 },
       (if expLeft.isEmpty then [] else [{ clause := "expired-batch-entry-processed-once" : Fail }]) ++
       (newLeft.map fun _ => { clause := "new-batch-entry-processed-once" : Fail }) ++
       -- entries of other heights are not touched by the handlers of this block except by scheduling
       (if pre.expQ.all (fun e => e.1 = h || post.expQ.contains e) ∧ pre.newQ.all (fun e => e.1 = h || post.newQ.contains e)
        then [] else [{ clause := "future-entry-lost" : Fail }]))
    | .skip _ _, true => (m, [{ clause := "multi-block-step-not-monitorable" }])
    | _, _ => (m, [])
  (m1, stepFails ++ stateFails post)

end Irismod.Spec.C13S
