/-
C12 (coinswap) — the clauses `drv-coinswap monitor C12` evaluates on the implementation's
observation stream: the exported genesis validates, the re-import succeeds and preserves the
projection of the module state (parameters, standard denom, sequence, pool registry as a map) and
leaves bank and block time alone, and the second registry index (`GetPoolByLptDenom`) agrees with
the pool list.  Soundness for the model: `Proofs/CoinswapMonitor.lean`.  Core Lean only.
-/
import Irismod.Model.CoinswapGenesis
import Irismod.Spec.C02

namespace Irismod.Spec.C12.Coinswap
open Irismod Irismod.Sdk Irismod.Coinswap

/-- `GetPoolByLptDenom(lpt-i)` for every sequence handed out so far (`?` = not found) -/
def lptIndex (s : State) : List (Denom × String) :=
  (List.range (min s.seq 64)).filterMap fun i =>
    if i = 0 then none else
    some (lptDenom i, match findByLpt s.pools (lptDenom i) with
      | some (cp, _) => cp
      | none => "?")

/-- the two registries answer `GetPool` the same for every counterparty either knows -/
def samePools (a b : AMap Denom Nat) : Bool :=
  (AMap.keys a ++ AMap.keys b).all fun cp => AMap.get? a cp == AMap.get? b cp

/-- everything the observation carries is the same -/
def sameProjection (pre post : State) : Bool :=
  decide (post.params = pre.params) && post.std == pre.std && post.seq == pre.seq && post.now == pre.now &&
  samePools pre.pools post.pools && Spec.C02.ledgerB pre.bank post.bank []

def exportFails (validates : Bool) : List String := if validates then [] else ["export-invalid"]

def reimportFails (pre post : State) (ok : Bool) : List String :=
  (if ok then [] else ["reimport-failed"]) ++
  (if sameProjection pre post then [] else ["reimport-changed-state"])

/-- `reported` is the index as the implementation answered it, `post` the observed state -/
def indexFails (reported : List (Denom × String)) (post : State) : List String :=
  if reported == lptIndex post then [] else ["lpt-index"]

end Irismod.Spec.C12.Coinswap
