/-
C12 (token slice) — exported state re-imports and preserves what users rely on.

(a) the round-trip statement and the observational equality it is about;
(b) the decidable classes of the recorded findings (F-gen-9, F-gen-10, F-gen-13) and the `Bool`
    monitor evaluated on the implementation's `token export` / `token reimport` observations.
Core Lean only.
-/
import Irismod.Model.TokenGenesis
import Irismod.Spec.C09

namespace Irismod.Spec.C12.Token
open Irismod Irismod.Sdk Irismod.Token Irismod.TokenGenesis
open Irismod.Spec.C09 (Fail chk sameState)

/-- every query users rely on answers the same: tokens by symbol and by min unit, the owner
index, the contract index, the burned tally, the parameters; nothing outside the module moved -/
structure ObsEq (a b : State) : Prop where
  tokens    : ∀ k, AMap.get? a.tokens k = AMap.get? b.tokens k
  minUnits  : ∀ k, AMap.get? a.minUnits k = AMap.get? b.minUnits k
  owners    : ∀ k, AMap.get? a.owners k = AMap.get? b.owners k
  contracts : ∀ k, AMap.get? a.contracts k = AMap.get? b.contracts k
  burned    : ∀ d, burnedOf a d = burnedOf b d
  burnedKeys : ∀ d, d ∈ AMap.keys a.burned ↔ d ∈ AMap.keys b.burned
  params    : a.params = b.params
  bank      : a.bank = b.bank
  nonce     : a.nonce = b.nonce
  evm       : a.evm = b.evm
  fault     : a.fault = b.fault
  impl      : a.impl = b.impl
  env       : a.env = b.env

/-- the round trip of one state: the export validates, the import succeeds, every query is
preserved, and exporting again gives the same document -/
def RoundTrip (s : State) : Prop :=
  validateGenesis (exportGenesis s) = true ∧
  ∃ s', reimport s = .ok s' ∧ ObsEq s' s ∧
    (exportGenesis s').params = (exportGenesis s).params ∧
    (exportGenesis s').tokens = (exportGenesis s).tokens ∧
    (exportGenesis s').burned = (exportGenesis s).burned

/-! ### the classes of the recorded findings (decidable predicates on a state) -/

/-- F-gen-9: a token whose max supply is below its recorded initial supply -/
def maxBelowInit (s : State) : Bool := s.tokens.any fun e => decide (e.2.maxSupply < e.2.initialSupply)

/-- F-gen-10: the base-fee denom is not the symbol of a registered token -/
def feeDenomUnregistered (s : State) : Bool := !(AMap.contains s.tokens s.params.feeDenom)

/-- F-gen-13: a token whose symbol or min unit `Token.Validate` rejects (a token created by
`DeployERC20` for an ICS20 denom: min unit `ibc/…`) -/
def badIdentity (s : State) : Bool := s.tokens.any fun e => !(validSymbol e.2.symbol && validSymbol e.2.minUnit)

/-- the class an invalid export belongs to ("" = none: a new violation) -/
def exportClass (s : State) : String :=
  if maxBelowInit s then "F-gen-9" else if badIdentity s then "F-gen-13" else ""

/-- the class a panicking import belongs to -/
def importClass (s : State) : String :=
  if maxBelowInit s then "F-gen-9" else if badIdentity s then "F-gen-13"
  else if feeDenomUnregistered s then "F-gen-10" else ""

/-- `token export`: the exported document must pass the module's own `ValidateGenesis` -/
def exportFails (pre : State) (validated : Bool) : List Fail :=
  chk validated "export-invalid" (exportClass pre)

/-- `token reimport`: `InitGenesis` of the export must not panic and must preserve every query -/
def reimportFails (pre : State) (ok : Bool) (post : State) : List Fail :=
  if ok then chk (sameState pre post) "reimport-changed-state"
  else chk false "reimport-panic" (importClass pre)

end Irismod.Spec.C12.Token
