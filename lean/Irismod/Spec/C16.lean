/-
C16 — parameters change only by authority, stay valid, never break handlers.

(a) `Prop`s used by the theorems of `Props/C16.lean`; (b) `Bool` monitor functions evaluated
by the driver on the observation stream of the real Go implementation:

* an `UpdateParams` message from a non-authority sender is never accepted and never changes
  the stored parameters; an accepted one stores exactly the submitted set; a refused one
  stores nothing;
* the stored set always passes the module's own `Params.Validate` (the harness reports the
  real verdict on the stored set after every update) and the model's copy of it;
* genesis import never stores a set that `Params.Validate` refuses;
* no operation of the module's battery aborts under a stored (hence validated) set.
  Three classes of aborts are genuine defects of the code and are tagged, nothing else is:
    F-par-1  farm tax rate outside [0,1] while `Params.Validate` does not check it (regenerated fact)
    F-par-2  coinswap pool-creation-fee / token issue-base-fee denomination is not validated (regenerated facts)
    F-par-3  an amount parameter ≥ 2^128 (checked-arithmetic overflow in the handler)

and (c) the statement over the regenerated handler table.  Core Lean only.
-/
import Irismod.Model.Params

namespace Irismod.Spec.C16
open Irismod Irismod.Sdk Irismod.Params Irismod.Gen.Handlers

/-! ## regenerated handler table -/

def expectedModules : List String := ["coinswap", "farm", "htlc", "service", "token"]

/-- the update handler is authority-gated and stores only through the validating `SetParams`;
    `ValidateBasic` validates; genesis import validates (directly or through `SetParams`) -/
def handlerOk (h : Handler) : Bool :=
  h.updateChecksAuthorityFirst && h.setParamsValidatesFirst && h.validateBasicValidates &&
  h.initGenesisUsesSetParams

def allHandlersOk : Bool :=
  (handlers.map (·.module) == expectedModules) && handlers.all handlerOk

def offending : List String := (handlers.filter (fun h => !handlerOk h)).map (·.module)

/-! ## `Prop`s of the theorems -/

/-- every stored parameter set passes its module's validation -/
def StoreValid (s : Store) : Prop :=
  coinswapValidate s.coinswap = .ok () ∧ farmValidate s.farm = .ok () ∧
  htlcValidate s.htlc = .ok () ∧ serviceValidate s.service = .ok () ∧ tokenValidate s.token = .ok ()

/-- a fragment result is not an abort -/
def NoAbort {α : Type} (r : Res α) : Prop := ∀ k, r ≠ .error (.panic k)

/-- a fragment result aborts at most by checked-arithmetic overflow -/
def OnlyOverflow {α : Type} (r : Res α) : Prop := ∀ k, r = .error (.panic k) → k = .overflow

/-! ## monitor -/

def normAny : AnyParams → AnyParams
  | .farm p => .farm (farmNorm p)
  | p => p

def isValid (p : AnyParams) : Bool :=
  match validateAny p with
  | .ok _ => true
  | .error _ => false

/-- clauses violated by one observed `update`: `cls` ∈ ok|rej|panic, `post` = stored set after,
    `sv` = the implementation's own `Validate` verdict on `post` -/
def updateFails (pre : AnyParams) (sender : String) (p : AnyParams) (cls : String)
    (post : AnyParams) (sv : String) : List String :=
  (if sender ≠ authority && cls == "ok" then ["non-authority-accepted"] else []) ++
  (if sender ≠ authority && post ≠ pre then ["non-authority-changed-params"] else []) ++
  (if cls == "ok" && post ≠ normAny p then ["stored-differs-from-submitted"] else []) ++
  (if cls != "ok" && post ≠ pre then ["refused-update-changed-params"] else []) ++
  (if sv != "valid" then ["stored-params-fail-validate"] else []) ++
  (if !isValid post then ["stored-params-fail-model-validate"] else [])

/-- clauses violated by one observed genesis import: `pv` = the implementation's
    `Params.Validate` verdict on the imported set, `ig` = InitGenesis outcome -/
def genesisFails (pv ig : String) (post : AnyParams) : List String :=
  (if ig == "ok" && pv != "valid" then ["genesis-stored-invalid-params"] else []) ++
  (if ig == "ok" && !isValid post then ["genesis-stored-fail-model-validate"] else [])

def big (i : Option Int) : Bool := match i with | some a => decide (pow2_128 ≤ a) | none => false

/-- an amount parameter of extreme magnitude (≥ 2^128) -/
def extremeMagnitude : AnyParams → Bool
  | .coinswap p => big p.poolCreationFee.amount
  | .farm p => big p.poolCreationFee.amount
  | .htlc p => p.any fun a => big a.fixedFee || big a.minSwapAmount || big a.maxSwapAmount ||
      big a.supplyLimit.limit || big a.supplyLimit.timeBasedLimit
  | .service p => p.minDeposit.any (fun c => big c.amount) || big (some p.minDepositMultiple)
  | .token p => big p.issueTokenBaseFee.amount

def decOutside01 (d : Option Dec) : Bool :=
  match d with
  | none => true
  | some x => decide (x.raw < 0) || decide (precision < x.raw)

/-- the finding class that explains an abort of the battery under the stored set, if any -/
def abortClass (stored : AnyParams) : Option String :=
  match stored with
  | .farm p =>
    if !farmValidatesTaxRate && decOutside01 p.taxRate then some "F-par-1"
    else if extremeMagnitude stored then some "F-par-3" else none
  | .coinswap p =>
    if !coinswapValidatesFeeDenom && !validDenom p.poolCreationFee.denom then some "F-par-2"
    else if extremeMagnitude stored then some "F-par-3" else none
  | .token p =>
    if !tokenValidatesFeeDenom && !validDenom p.issueTokenBaseFee.denom then some "F-par-2"
    else if extremeMagnitude stored then some "F-par-3" else none
  | _ => if extremeMagnitude stored then some "F-par-3" else none

/-- clause + optional class for one observed battery line (`panics` = aborting operations) -/
def batteryFails (stored : AnyParams) (panics : List String) (dflt : String) : List (String × Option String) :=
  (if panics.isEmpty then [] else [("abort-under-validated-params:" ++ ",".intercalate panics, abortClass stored)]) ++
  (if dflt.endsWith "=panic" then [("abort-under-default-params", none)] else [])

/-! ## the monitor as ONE function of (tracked store, operation, observation)

The driver parses an op line into a `MonOp` and an observation line into a `MonObs`, calls
`stepFails`, and advances its tracked store with `track`; in `model` mode it prints
`modelObs`.  `Proofs/ParamsMonitor.lean` proves that on the model's own observations
`stepFails` raises nothing but recorded finding classes. -/

inductive Mod where
  | coinswap | farm | htlc | service | token
  deriving DecidableEq, Repr, Inhabited

def modOf : AnyParams → Mod
  | .coinswap _ => .coinswap
  | .farm _ => .farm
  | .htlc _ => .htlc
  | .service _ => .service
  | .token _ => .token

def getMod (s : Store) : Mod → AnyParams
  | .coinswap => .coinswap s.coinswap
  | .farm => .farm s.farm
  | .htlc => .htlc s.htlc
  | .service => .service s.service
  | .token => .token s.token

def setMod (s : Store) : AnyParams → Store
  | .coinswap p => { s with coinswap := p }
  | .farm p => { s with farm := p }
  | .htlc p => { s with htlc := p }
  | .service p => { s with service := p }
  | .token p => { s with token := p }

def allMods : List Mod := [.coinswap, .farm, .htlc, .service, .token]

def verdict : Res Unit → String
  | .ok _ => "valid"
  | .error .reject => "invalid"
  | .error (.panic _) => "panic"

def resWord {α : Type} : Res α → String
  | .ok _ => "ok"
  | .error .reject => "rej"
  | .error (.panic _) => "panic"

def batteryOf : AnyParams → List String
  | .coinswap p => batteryCoinswap p
  | .farm p => batteryFarm p
  | .htlc p => batteryHtlc p ++ batteryHtlcCarry p
  | .service p => batteryService p
  | .token p => batteryToken p

inductive MonOp where
  | reset
  | validate (p : AnyParams)
  | update (sender : String) (p : AnyParams)
  /-- the same message handed to the message server directly (no `ValidateBasic` pre-check) -/
  | updateDirect (sender : String) (p : AnyParams)
  | genesis (p : AnyParams)
  | battery (m : Mod)
  deriving Repr, Inhabited

inductive MonObs where
  | reset (s : Store)
  | validate (v : String)
  | update (cls : String) (post : AnyParams) (sv : String)
  | genesis (vg ig pv : String) (post : AnyParams)
  | battery (panics : List String) (dflt : String)
  deriving Repr, Inhabited

/-- what the model observes for an operation in store `s` -/
def modelObs (s : Store) : MonOp → MonObs
  | .reset => .reset {}
  | .validate p => .validate (verdict (validateAny p))
  | .update sender p =>
    let s' := applyOp s ⟨sender, p⟩
    let q := getMod s' (modOf p)
    .update (resWord (stepUpdate s sender p)) q (verdict (validateAny q))
  | .updateDirect sender p =>
    let s' := applyOp s ⟨sender, p⟩
    let q := getMod s' (modOf p)
    .update (resWord (stepUpdateDirect s sender p)) q (verdict (validateAny q))
  | .genesis p =>
    let g := genesisAny p
    .genesis (resWord g.1) (resWord g.2) (verdict (validateAny p))
      (match g.2 with | .ok q => q | .error _ => getMod s (modOf p))
  | .battery m => .battery (batteryOf (getMod s m)) "ok"

/-- the model's next store -/
def modelNext (s : Store) : MonOp → Store
  | .reset => {}
  | .update sender p => applyOp s ⟨sender, p⟩
  | .updateDirect sender p => applyOp s ⟨sender, p⟩   -- a non-authority `stepUpdate` never stores either
  | _ => s

def untagged (cs : List String) : List (String × Option String) := cs.map fun c => (c, none)

/-- every clause the monitor evaluates on one (operation, observation) pair, with the finding
    class where one applies; `st` = stored sets tracked from the previous observations -/
def stepFails (st : Store) (op : MonOp) (o : MonObs) : List (String × Option String) :=
  match op, o with
  | .reset, .reset s =>
    if allMods.all fun m => isValid (getMod s m) then [] else [("initial-params-fail-validate", none)]
  | .validate _, .validate _ => []
  | .update sender p, .update cls post sv =>
    if modOf post ≠ modOf p then [("parse", none)]
    else untagged (updateFails (getMod st (modOf p)) sender p cls post sv)
  | .updateDirect sender p, .update cls post sv =>
    if modOf post ≠ modOf p then [("parse", none)]
    else untagged (updateFails (getMod st (modOf p)) sender p cls post sv)
  | .genesis p, .genesis _ ig pv post =>
    if modOf post ≠ modOf p then [("parse", none)] else untagged (genesisFails pv ig post)
  | .battery m, .battery panics dflt => batteryFails (getMod st m) panics dflt
  | _, _ => [("parse", none)]

/-- the monitor's tracked store after the observation -/
def track (st : Store) (op : MonOp) (o : MonObs) : Store :=
  match op, o with
  | .reset, .reset s => s
  | .update _ p, .update _ post _ => if modOf post = modOf p then setMod st post else st
  | .updateDirect _ p, .update _ post _ => if modOf post = modOf p then setMod st post else st
  | _, _ => st

end Irismod.Spec.C16
