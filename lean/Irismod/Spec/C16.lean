/-
C16 — parameters change only by authority, stay valid, never break handlers.

(a) `Prop`s used by the theorems of `Props/C16.lean`; (b) `Bool` monitor functions evaluated
by the driver on the observation stream of the real Go implementation:

* an `UpdateParams` message from a non-authority sender is never accepted and never changes
  the stored parameters; an accepted one stores exactly the submitted set; a refused one
  stores nothing;
* the stored set always passes the module's own `Params.Validate` (the harness reports the
  real verdict on the stored set after every update) and the model's copy of it;
* genesis import never stores a set that `Params.Validate` refuses;
* no operation of the module's battery aborts under a stored (hence validated) set.
  Three classes of aborts are genuine defects of the code and are tagged, nothing else is:
    F-par-1  farm tax rate outside [0,1] while `Params.Validate` does not check it (regenerated fact)
    F-par-2  coinswap pool-creation-fee / token issue-base-fee denomination is not validated (regenerated facts)
    F-par-3  an amount parameter ≥ 2^128 (checked-arithmetic overflow in the handler)

and (c) the statement over the regenerated handler table.  Core Lean only.
-/
import Irismod.Model.Params

namespace Irismod.Spec.C16
open Irismod Irismod.Sdk Irismod.Params Irismod.Gen.Handlers

/-! ## regenerated handler table -/

def expectedModules : List String := ["coinswap", "farm", "htlc", "service", "token"]

/-- the update handler is authority-gated and stores only through the validating `SetParams`;
    `ValidateBasic` validates; genesis import validates (directly or through `SetParams`) -/
def handlerOk (h : Handler) : Bool :=
  h.updateChecksAuthorityFirst && h.setParamsValidatesFirst && h.validateBasicValidates &&
  h.initGenesisUsesSetParams

def allHandlersOk : Bool :=
  (handlers.map (·.module) == expectedModules) && handlers.all handlerOk

def offending : List String := (handlers.filter (fun h => !handlerOk h)).map (·.module)

/-! ## `Prop`s of the theorems -/

/-- every stored parameter set passes its module's validation -/
def StoreValid (s : Store) : Prop :=
  coinswapValidate s.coinswap = .ok () ∧ farmValidate s.farm = .ok () ∧
  htlcValidate s.htlc = .ok () ∧ serviceValidate s.service = .ok () ∧ tokenValidate s.token = .ok ()

/-- a fragment result is not an abort -/
def NoAbort {α : Type} (r : Res α) : Prop := ∀ k, r ≠ .error (.panic k)

/-- a fragment result aborts at most by checked-arithmetic overflow -/
def OnlyOverflow {α : Type} (r : Res α) : Prop := ∀ k, r = .error (.panic k) → k = .overflow

/-! ## monitor -/

def normAny : AnyParams → AnyParams
  | .farm p => .farm (farmNorm p)
  | p => p

def isValid (p : AnyParams) : Bool :=
  match validateAny p with
  | .ok _ => true
  | .error _ => false

/-- clauses violated by one observed `update`: `cls` ∈ ok|rej|panic, `post` = stored set after,
    `sv` = the implementation's own `Validate` verdict on `post` -/
def updateFails (pre : AnyParams) (sender : String) (p : AnyParams) (cls : String)
    (post : AnyParams) (sv : String) : List String :=
  (if sender ≠ authority && cls == "ok" then ["non-authority-accepted"] else []) ++
  (if sender ≠ authority && post ≠ pre then ["non-authority-changed-params"] else []) ++
  (if cls == "ok" && post ≠ normAny p then ["stored-differs-from-submitted"] else []) ++
  (if cls != "ok" && post ≠ pre then ["refused-update-changed-params"] else []) ++
  (if sv != "valid" then ["stored-params-fail-validate"] else []) ++
  (if !isValid post then ["stored-params-fail-model-validate"] else [])

/-- clauses violated by one observed genesis import: `pv` = the implementation's
    `Params.Validate` verdict on the imported set, `ig` = InitGenesis outcome -/
def genesisFails (pv ig : String) (post : AnyParams) : List String :=
  (if ig == "ok" && pv != "valid" then ["genesis-stored-invalid-params"] else []) ++
  (if ig == "ok" && !isValid post then ["genesis-stored-fail-model-validate"] else [])

def big (i : Option Int) : Bool := match i with | some a => decide (pow2_128 ≤ a) | none => false

/-- an amount parameter of extreme magnitude (≥ 2^128) -/
def extremeMagnitude : AnyParams → Bool
  | .coinswap p => big p.poolCreationFee.amount
  | .farm p => big p.poolCreationFee.amount
  | .htlc p => p.any fun a => big a.fixedFee || big a.minSwapAmount || big a.maxSwapAmount ||
      big a.supplyLimit.limit || big a.supplyLimit.timeBasedLimit
  | .service p => p.minDeposit.any (fun c => big c.amount)
  | .token p => big p.issueTokenBaseFee.amount

def decOutside01 (d : Option Dec) : Bool :=
  match d with
  | none => true
  | some x => decide (x.raw < 0) || decide (precision < x.raw)

/-- the finding class that explains an abort of the battery under the stored set, if any -/
def abortClass (stored : AnyParams) : Option String :=
  match stored with
  | .farm p =>
    if !farmValidatesTaxRate && decOutside01 p.taxRate then some "F-par-1"
    else if extremeMagnitude stored then some "F-par-3" else none
  | .coinswap p =>
    if !coinswapValidatesFeeDenom && !validDenom p.poolCreationFee.denom then some "F-par-2"
    else if extremeMagnitude stored then some "F-par-3" else none
  | .token p =>
    if !tokenValidatesFeeDenom && !validDenom p.issueTokenBaseFee.denom then some "F-par-2"
    else if extremeMagnitude stored then some "F-par-3" else none
  | _ => if extremeMagnitude stored then some "F-par-3" else none

/-- clause + optional class for one observed battery line (`panics` = aborting operations) -/
def batteryFails (stored : AnyParams) (panics : List String) (dflt : String) : List (String × Option String) :=
  (if panics.isEmpty then [] else [("abort-under-validated-params:" ++ ",".intercalate panics, abortClass stored)]) ++
  (if dflt.endsWith "=panic" then [("abort-under-default-params", none)] else [])

end Irismod.Spec.C16
