-- Root of the `Irismod` library: SDK substrate, models, specs, proofs and property theorems.
import Irismod.Sdk.Sha256
import Irismod.Sdk.Line
