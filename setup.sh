#!/bin/sh
# Offline setup: build the Lean project (theorems, drivers) and warm the Go build cache of the harness.
set -e
cd "$(dirname "$0")"
export GOFLAGS=-mod=mod GOPROXY=off GOSUMDB=off GOTOOLCHAIN=local
(cd lean && lake build)
(cd harness && for d in cmd/*/; do n=$(basename $d); go build -tags verif -o bin/$n ./cmd/$n; done)
echo setup-ok
