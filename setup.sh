#!/bin/sh
# Offline setup: build the Lean project (theorems, drivers) and warm the Go build cache of the
# harness. A module that fails to build here is reported by its own check, not by setup.
cd "$(dirname "$0")"
export GOFLAGS=-mod=mod GOPROXY=off GOSUMDB=off GOTOOLCHAIN=local
./tools/regen.sh 2>&1 | tail -5
(cd lean && lake build 2>&1 | tail -3)
(cd lean && for f in Driver/*.lean; do n=$(basename $f .lean); exe=$(grep -B1 "root = \"Driver.$n\"" lakefile.toml | grep name | sed 's/.*"\(.*\)"/\1/'); [ -n "$exe" ] && lake build $exe 2>&1 | tail -1; done)
(cd harness && for d in cmd/*/; do n=$(basename $d); go build -tags verif -o bin/$n ./cmd/$n || echo "setup: $n does not build"; done)
echo setup-ok
exit 0
